"""C16 — credentials verify only when genuine, unexpired and unused (DESIGN.md §7 C16)."""
import json

import code_tie
import vlib

META = {
    "category": "proof",
    "text": "Coq theorems over executable models of signer (blobs, hex tokens, sessions, time tokens, RSA time "
            "blocks), jwt (HS256, claim and time checks), identity (RS256 with key lookup and validity) and the "
            "roles passcode state machine: a token verifies iff its text is exactly what the signer produces for "
            "the returned payload (canonical hex / base64url, so no second spelling of an issued token verifies), "
            "sessions verify iff now < issue + capped lifetime, time tokens iff strictly inside the window, JWT "
            "time/claim/header/key checks are characterised exactly, and over all histories of issue / attempt / "
            "disable / enable with arbitrary clocks a passcode is accepted only inside its window, once, and "
            "after at most ten refused attempts.  The same holds through every entry point (CheckState, CheckJSON, "
            "the gate with its check callback, any caller-supplied jwt.Verifier or none, a card whose identity "
            "cannot be fetched) and over every history of calls on one long-lived object, in particular on one "
            "verifier whose card replaces, adds, removes or expires keys between calls: the objects hold "
            "configuration only (fields and receiver writes extracted from the source), and each verification "
            "depends on the token, the card in force at that moment and the clock.  Constants and the comparison "
            "shapes are re-extracted from /repo on every run; the models are tied to the code by differential "
            "runs evaluated inside Coq, with HMAC/RSA/JSON values supplied by Go for exactly the arguments queried.",
    "note": "Trusted: Coq kernel + vm_compute; translator gen/cred.go; harness c16 and roles/signer verif shims; "
            "HMAC-SHA256, SHA-256, RSA PKCS#1 v1.5 and encoding/json are functions (Section variables), the "
            "injectivity idealisation mac_binds and the no-forgery premise are named hypotheses of the theorems "
            "that use them; strings.Fields modelled for ASCII; time.Unix overflow near 2^63 s not modelled; no axioms.",
    "technique": "Coq proof (iff characterisations, invariant over all passcode histories) + go/ast extraction of "
                 "constants and guard shapes + exhaustive single-bit/prefix/extension mutation sweeps against the "
                 "implementation + usage-pattern streams (one object for many calls, callback result shapes, card "
                 "histories, real clock, concurrent use) + vm_compute correspondence",
}

MODEL = ["theories/Cred/CredCorr.vo"]
PROOFS = ["theories/Props/C16.vo"]
STATEMENT_FILES = ["theories/Props/C16.v", "theories/Cred/CredGen.v"]
SEMANTIC_TIE = code_tie.functions("C16")   # Go bodies proved equal to the model (Props/C16Code.v)

NS = 10 ** 9
GRACE = 300 * NS


# ------------------------------------------------------------------ Coq terms
class Enc:
    """Spells byte strings for Coq.  Reading literal data is what costs time
    (about 0.1 ms per byte), so a string is written once per file and mutants
    are written as an edit of the issued string they derive from."""

    def __init__(self):
        self.names = {}     # hex -> name
        self.order = []     # (name, hex)
        self.bases = []     # hex strings the current case may be spelled against
        self.counts = {}

    def lit(self, hexs):
        return "(hx 0x1%s)" % bytes.fromhex(hexs)[::-1].hex()

    def define(self, hexs):
        if hexs not in self.names:
            name = "b%d" % len(self.names)
            self.names[hexs] = name
            self.order.append((name, hexs))
        return self.names[hexs]

    def B(self, hexs):
        if not hexs:
            return "[]"
        if hexs in self.names:
            return self.names[hexs]
        n = len(hexs) // 2
        if n <= 6:
            return self.lit(hexs)
        best = None
        for base in self.bases:
            if not base:
                continue
            m = len(base) // 2
            lim = min(n, m)
            p = 0
            while p < lim and hexs[2 * p:2 * p + 2] == base[2 * p:2 * p + 2]:
                p += 1
            s_ = 0
            while s_ < lim - p and hexs[2 * (n - s_ - 1):2 * (n - s_)] == base[2 * (m - s_ - 1):2 * (m - s_)]:
                s_ += 1
            mid = hexs[2 * p:2 * (n - s_)]
            cost = len(mid) // 2
            if best is None or cost < best[0]:
                best = (cost, base, p, s_, mid)
        if best is not None and best[0] + 8 < n:
            _, base, p, s_, mid = best
            return "(sp %s %d%%nat %d%%nat %s)" % (self.define(base), p, s_, self.lit(mid) if mid else "[]")
        if self.counts.get(hexs, 0) > 1:
            return self.define(hexs)
        return self.lit(hexs)

    def prelude(self):
        return "".join("Definition %s := %s.\n" % (n, self.lit(h)) for n, h in self.order)


ENC = Enc()


def B(hexs):
    return ENC.B(hexs)


def Z(v):
    return "(%d)%%Z" % int(v)


def OB(ok, hexs):
    return "(Some %s)" % B(hexs) if ok else "None"


def mtab(ms):
    return "[" + "; ".join("(%d, %s, %s)" % (m["k"], B(m["d"]), B(m["m"])) for m in ms or []) + "]"


def hdr(h):
    return "(mkH %s %s %s)" % (B(h["alg"]), B(h["typ"]), B(h["kid"]))


def ohdr(h):
    return "(Some %s)" % hdr(h) if h else "None"


def clm(c):
    return "(mkC %s %s %s %s %s %s %s)" % (B(c["iss"]), B(c["scope"]), B(c["aud"]), Z(c["exp"]), Z(c["iat"]),
                                          B(c["typ"]), B(c["sub"]))


def oclm(c):
    return "(Some %s)" % clm(c) if c else "None"


def bl(b):
    return "true" if b else "false"


def pkey(k):
    return "(mkPK %s %s %s %s %s (%s, %s))" % (B(k["id"]), B(k["type"]), B(k["alg"]), Z(k["nva"]), Z(k["nvb"]),
                                              bl(k["parse"]), bl(k["sigok"]))


def claim_id(n):
    return n if n >= 0 else 1000000 - n


def pop(o):
    if o["op"] == "new":
        return "PNew %s" % Z(o["t"])
    if o["op"] == "try":
        return "PTry %d %d %s" % (claim_id(o.get("claim", 0)), o.get("id", 0), Z(o["t"]))
    return "PDisable" if o["op"] == "disable" else "PEnable"


def rstate(st, issued=0):
    pc = "None"
    if st["has"]:
        pc = "(Some (mkPC %d %s %s %s %s %s %s))" % (st["code"], bl(st.get("hasvalid")), Z(st["valid"]),
                                                    bl(st.get("hasexpire")), Z(st["expire"]), bl(st["consumed"]),
                                                    Z(st["tried"]))
    rid = "(Some %d)" % st["id"] if st["id"] else "None"
    return "(mkR %s %s %s %d)" % (bl(st["disabled"]), pc, rid, issued)


def to_coq(c):
    o, op = c["obs"], c["op"]
    if op == "hexenc":
        return "CHexEnc %s %s" % (B(c.get("data")), B(o.get("out")))
    if op == "hexdec":
        return "CHexDec %s %s" % (B(c.get("data")), OB(o["ok"], o.get("out")))
    if op == "b64enc":
        return "CB64Enc %s %s" % (B(c.get("data")), B(o.get("out")))
    if op == "b64dec":
        return "CB64Dec %s %s %s" % (B(c.get("data")), OB(o["ok"], o.get("out")), OB(o.get("ok2"), o.get("out2")))
    if op in ("sign", "signhex"):
        return "CSign %s %d %s %s %s" % (mtab(c.get("macs")), c["key"], bl(op == "signhex"), B(c.get("data")),
                                         B(o.get("out")))
    if op in ("check", "checkhex"):
        return "CCheck %s %d %s %s %s" % (mtab(c.get("macs")), c["key"], bl(op == "checkhex"), B(c.get("tok")),
                                          OB(o["ok"], o.get("out")))
    if op == "sessnew":
        return "CSessNew %s %d %s %s %s %s %s %s" % (mtab(c.get("macs")), c["key"], Z(c["maxttl"]), Z(c["ttl"]),
                                                     Z(c["t0"]), B(c.get("data")), B(o.get("out")), Z(o["expires"]))
    if op == "sesscheck":
        exp = "(Some (%s, %s))" % (B(o.get("out")), Z(o["left"])) if o["ok"] else "None"
        return "CSessCheck %s %d %s %s %s" % (mtab(c.get("macs")), c["key"], Z(c["now"]), B(c.get("tok")), exp)
    if op == "sessstate":
        return "CSessState %s %d %s %s %s" % (mtab(c.get("macs")), c["key"], Z(c["now"]), B(c.get("tok")), bl(o["ok"]))
    if op == "sessjson":
        return "CSessJson %s %d %s %s %s %s" % (mtab(c.get("macs")), c["key"], Z(c["now"]), B(c.get("tok")),
                                                bl(c.get("jsonok")), bl(o["ok"]))
    if op == "jwtany":
        return "CJwtAny %s %s %s %s %s %d %s" % (bl(c.get("vrej")), Z(c["now"]), B(c.get("tok")), ohdr(c.get("hp")),
                                                 oclm(c.get("cp")), o["err"], oclm(o.get("claims")))
    if op == "jwtrsfetch":
        card = "[" + "; ".join(pkey(k) for k in c.get("card") or []) + "]"
        return "CJwtRsFetch %s %s %s %s %s %s %s %s %d %s" % (
            bl(c.get("nocard")), card, B(c.get("user")), B(c.get("host")), Z(c["now"]), B(c.get("tok")),
            ohdr(c.get("hp")), oclm(c.get("cp")), o["err"], oclm(o.get("claims")))
    if op == "gatecheck":
        exp = "(Some (%s, %s))" % (B(o.get("out")), bl(o.get("refresh"))) if o["ok"] else "None"
        return "CGate %s %d %s %s %s %s" % (mtab(c.get("macs")), c["key"], Z(c["maxttl"]), Z(c["now"]),
                                            B(c.get("tok")), exp)
    if op == "gatecb":
        cb = "None" if c["cb"]["err"] else "(Some %s)" % Z(c["cb"]["lvl"])
        exp = "None" if o["err"] else "(Some (%s, %s, %s, %s))" % (bl(o["ok"]), B(o.get("out")), Z(o.get("left", 0)),
                                                                  bl(o.get("refresh")))
        return "CGateCb %s %d %s %s %s %s %s" % (mtab(c.get("macs")), c["key"], Z(c["maxttl"]), Z(c["now"]),
                                                B(c.get("tok")), cb, exp)
    if op == "chalcheck":
        ct = "(Some %s)" % Z(c["t0"]) if c.get("t0") is not None else "None"
        return "CChal %s %d %s %s %s %s %d" % (mtab(c.get("macs")), c["key"], Z(c["window"]), Z(c["now"]),
                                              B(c.get("tok")), ct, o["err"])
    if op == "coresign":
        privs = "[" + "; ".join("(%s, %s)" % (B(p["id"]), bl(p["parse"])) for p in c.get("privs") or []) + "]"
        card = "[" + "; ".join(pkey(k) for k in c.get("card") or []) + "]"
        return "CCoreSign %s %s %s %s %d %s" % (privs, card, B(c.get("user")), Z(c["now"]), o["err"], B(o.get("out")))
    if op == "exchange":
        card = "[" + "; ".join(pkey(k) for k in c.get("card") or []) + "]"
        return "CExchange %s %s %s %s %s %s %s %s %s %s %d %s %d %s %s" % (
            card, B(c.get("data")), B(c.get("host")), B(c.get("user")), Z(c["now"]), B(c.get("tok")),
            ohdr(c.get("hp")), oclm(c.get("cp")), Z(c["ttl"]), mtab(c.get("macs")), c["key"], Z(c["maxttl"]),
            o["err"], B(o.get("out")), Z(o.get("expires", 0)))
    if op == "tsnew":
        return "CTsNew %s %d %s %s" % (mtab(c.get("macs")), c["key"], Z(c["t0"]), B(o.get("out")))
    if op == "tscheck":
        return "CTsCheck %s %d %s %s %s %s" % (mtab(c.get("macs")), c["key"], Z(c["window"]), Z(c["now"]),
                                               B(c.get("tok")), bl(o["ok"]))
    if op == "rsatime":
        return "CRsaTime %s %s %s %s %s %s %d" % (Z(c["window"]), Z(c["now"]), B(c.get("data")), B(c.get("hash")),
                                                  B(c.get("hashd")), bl(c.get("sigok")), o["err"])
    if op == "jwtsign":
        return "CJwtSign %s %d %s %s %s" % (mtab(c.get("macs")), c["key"], B(c.get("hj")), B(c.get("cj")),
                                            B(o.get("out")))
    if op == "jwths":
        return "CJwtHs %s %d %s %s %s %s %s %d %s" % (mtab(c.get("macs")), c["key"], hdr(c["pin"]), Z(c["now"]),
                                                     B(c.get("tok")), ohdr(c.get("hp")), oclm(c.get("cp")),
                                                     o["err"], oclm(o.get("claims")))
    if op in ("jwtrs", "selfverify"):
        card = "[" + "; ".join(pkey(k) for k in c.get("card") or []) + "]"
        return "CJwtRs %s %s %s %s %s %s %s %s %d %s" % (bl(op == "selfverify"), card, B(c.get("user")),
                                                        B(c.get("host")), Z(c["now"]), B(c.get("tok")),
                                                        ohdr(c.get("hp")), oclm(c.get("cp")), o["err"],
                                                        oclm(o.get("claims")))
    if op == "claims":
        return "CClaims %s %s %d" % (clm(c["c"]), clm(c["tmpl"]), o["err"])
    if op == "jwttime":
        return "CJwtTime %s %s %d" % (clm(c["c"]), Z(c["now"]), o["err"])
    if op == "pass":
        ops = "[" + "; ".join(pop(x) for x in c["ops"]) + "]"
        exp = "[" + "; ".join("(%d, %s)" % (r["r"], rstate(r["st"])) for r in o.get("pass") or []) + "]"
        start = "init_state"
        if c.get("start"):
            st = dict(c["start"], disabled=False, id=0)
            start = rstate(st, 1 if st["has"] else 0)
        return "CPass %s %s %s %s" % (Z(c["expiry"]), start, ops, exp)
    raise ValueError(op)


# ------------------------------------------------------------- implementation-only oracle
def txt(hexs):
    return bytes.fromhex(hexs or "")


def pass_oracle(c):
    """Reads the passcode clause off the observed results: an accepted attempt
    must be for the current code, inside its window, the first accepted one, and
    preceded by at most ten refused attempts on that code."""
    cur = None  # dict(code, valid, expire, wrong, used)
    issued = 0
    st0 = c.get("start")
    if st0 and st0["has"]:
        issued = 1
        cur = {"code": 1, "valid": int(st0["valid"]) if st0.get("hasvalid") else None,
               "expire": int(st0["expire"]) if st0.get("hasexpire") else None,
               # a counter the operations cannot have produced is not read as a count of attempts
               "wrong": st0["tried"] if 0 <= st0["tried"] <= 1000 else 0, "used": st0["consumed"]}
    disabled = False
    for i, (op, res) in enumerate(zip(c["ops"], c["obs"].get("pass") or [])):
        if op["op"] in ("disable", "enable") and res["r"] == 0:
            disabled = op["op"] == "disable"
        if op["op"] == "try" and res["r"] == 0 and disabled:
            return "accepted-while-disabled", "attempt %d set up an identity for a role that was disabled" % i
        if op["op"] == "new" and res["r"] == 0:
            issued += 1
            st = res["st"]
            cur = {"code": issued, "valid": int(st["valid"]), "expire": int(st["expire"]), "wrong": 0, "used": False}
        elif op["op"] == "try":
            t = int(op["t"])
            if res["r"] == 0:
                if cur is None:
                    return "accepted-without-code", "attempt %d accepted although no passcode was issued" % i
                if op.get("claim", 0) != cur["code"]:
                    return "accepted-wrong-code", "attempt %d accepted with a code that is not the current one" % i
                if cur["used"]:
                    return "accepted-twice", "attempt %d accepted although the code had been used" % i
                if cur["valid"] is None or cur["expire"] is None:
                    return "accepted-without-window", "attempt %d accepted on a record that has no validity window" % i
                if not (cur["valid"] <= t <= cur["expire"]):
                    return "accepted-outside-window", "attempt %d accepted at %d outside [%d, %d]" % (
                        i, t, cur["valid"], cur["expire"])
                if cur["wrong"] > 10:
                    return ("accepted-after-more-than-ten-wrong",
                            "attempt %d: the right code was accepted after %d refused attempts" % (i, cur["wrong"]))
                cur["used"] = True
            elif res["r"] != 1 and cur is not None:
                cur["wrong"] += 1
    return None


def fields(b):
    return b.split()


def claims_match(cl, tmpl):
    for f in ("iss", "aud", "typ", "sub"):
        if txt(tmpl[f]) and txt(cl[f]) != txt(tmpl[f]):
            return False
    if txt(tmpl["scope"]):
        have = set(fields(txt(cl["scope"])))
        if any(s not in have for s in fields(txt(tmpl["scope"]))):
            return False
    return True


def jwt_time_ok(cl, now):
    return int(cl["iat"]) * NS - GRACE < now <= int(cl["exp"]) * NS


class Oracle:
    def __init__(self):
        self.issued = {}  # tokid -> facts about the issued token
        self.bases = {}   # tokid -> byte strings (hex) its mutants are spelled against

    def note(self, c):
        op, o = c["op"], c["obs"]
        tid = None
        if op in ("sign", "signhex", "sessnew", "tsnew", "jwtsign"):
            tid, tok = c.get("tokid", 0), o.get("out", "")
        elif c.get("mut") and c["mut"].get("same"):
            tid, tok = c["mut"]["tok"], c.get("tok", "")
        if tid is not None and tid not in self.bases:
            bs = [tok] if tok else []
            for m in c.get("macs") or []:
                bs.append(m["d"])
            self.bases[tid] = bs
        if op in ("sign", "signhex"):
            self.issued[c.get("tokid", 0)] = {"payload": c.get("data", ""), "tok": o.get("out", "")}
        elif op == "sessnew":
            self.issued[c.get("tokid", 0)] = {"payload": c.get("data", ""), "tok": o.get("out", ""),
                                       "expires": int(o["expires"]), "t0": int(c["t0"])}
        elif op == "tsnew":
            self.issued[c.get("tokid", 0)] = {"tok": o.get("out", ""), "t0": int(c["t0"])}
        elif op == "jwtsign":
            self.issued[c.get("tokid", 0)] = {"tok": o.get("out", "")}

    def judge(self, c):
        """-> (key, what) or None."""
        op, o = c["op"], c["obs"]
        if o.get("crash"):
            return "crash:" + op, "the code under test panicked: %s" % o["crash"][:200]
        mu = c.get("mut")
        fam = c.get("fam", op)
        if op == "pass":
            r = pass_oracle(c)
            return ("passcode:" + r[0], r[1]) if r else None
        if op == "coresign":
            if not o["ok"]:
                return None
            now, kid, req = int(c["now"]), o.get("out", ""), c.get("user", "")
            keys = [k for k in c.get("card") or [] if k["id"] == kid]
            good = any(k["type"] == "7373682d727361" and (int(k["nvb"]) <= 0 or now >= int(k["nvb"]) * NS)
                       and now <= int(k["nva"]) * NS for k in keys[:1])
            if not good or (req and kid != req) or not any(p["id"] == kid for p in c.get("privs") or []):
                return ("coresign:signed-with-unusable-key",
                        "simpleCore.Sign signed with key %r (asked for %r) which is not a registered, valid RSA key then"
                        % (txt(kid), txt(req)))
            return None
        if op == "exchange" and o["ok"]:
            cp, now = c.get("cp"), int(c["now"])
            if not cp or not jwt_time_ok(cp, now):
                return "exchange:accepted-outside-time", "a session was issued for an access token outside its time window"
            for want, got in ((c.get("data", ""), cp["iss"]), (c.get("host", ""), cp["aud"]), (c.get("user", ""), cp["sub"])):
                if want and want != got:
                    return "exchange:accepted-foreign-claims", "a session was issued for another issuer/audience/user"
            if int(c["ttl"]) <= 0:
                return "exchange:nonpositive-ttl", "a session was issued for a non-positive lifetime"
            if int(o["expires"]) - now > max(int(c["maxttl"]), 0) or int(o["expires"]) - now > int(c["ttl"]):
                return "exchange:lifetime-not-capped", "the session outlives the requested or the maximum lifetime"
            if not o.get("payok"):
                return "exchange:session-not-usable-as-issued", "the session issued is not accepted for that user until its expiry"
        if op == "sessnew":
            exp, t0, mx = int(o["expires"]), int(c["t0"]), int(c["maxttl"])
            if exp > t0 + mx:
                return "session:lifetime-not-capped", "session issued for %d ns with maximum %d ns" % (exp - t0, mx)
            return None
        if op == "claims":
            want = claims_match(c["c"], c["tmpl"])
            if o["ok"] and not want:
                return "claims:accepted-mismatch", "CheckClaimSet accepted claims that do not match the template"
            if not o["ok"] and want:
                return "claims:rejected-match", "CheckClaimSet rejected matching claims"
            return None
        if op == "jwttime" and c.get("note") == "wrap":
            return None  # beyond |sec| <= 2^62 the property has no opinion; the model pins the behaviour
        if op == "jwttime":
            want = jwt_time_ok(c["c"], int(c["now"]))
            if o["ok"] != want:
                return ("jwt-time:%s" % ("accepted-outside" if o["ok"] else "rejected-inside"),
                        "CheckTime iat=%s exp=%s now=%s gave ok=%s" % (c["c"]["iat"], c["c"]["exp"], c["now"], o["ok"]))
            return None
        if op in ("jwths", "jwtrs", "selfverify", "jwtany", "jwtrsfetch", "exchange") and o["ok"] and \
                (c.get("hp") is None or c.get("cp") is None):
            return (fam + ":accepted-unparsable-segment",
                    "a token was accepted although encoding/json does not read its header or claims segment")
        if op == "jwths" and o["ok"] and c.get("hp") != c.get("pin"):
            return "jwt-hs:accepted-unpinned-header", "a token whose header is not the pinned one was accepted"
        if op == "jwths" and o["ok"] and c.get("cp") and all(abs(int(c["cp"][f])) <= 2 ** 62 for f in ("iat", "exp")) \
                and not jwt_time_ok(c["cp"], int(c["now"])):
            return ("jwt-hs:accepted-outside-parsed-time",
                    "a token was accepted outside the time window of the claims encoding/json parses from it")
        if op in ("jwtrs", "selfverify", "jwtrsfetch") and o["ok"] and txt((c.get("hp") or {}).get("alg", "")) != b"RS256":
            return "jwt-rs:accepted-other-alg", "a token whose header alg is not RS256 was accepted"
        if mu is None:
            return None
        accepted = o["ok"]
        info = self.issued.get(mu["tok"], {})
        if not mu.get("same"):
            # a token text (or key, or card, or claim template) other than the issued one
            if accepted:
                key = "%s:accepted-mutant:%s" % (fam, mu["class"].split(":")[0])
                if mu.get("canon"):
                    key += ":decodes-to-the-issued-bytes"
                return key, "a %s mutant (%s %s) of an issued token was accepted" % (fam, mu["class"], mu.get("arg", ""))
            return None
        # the issued token itself: the time clauses, and the payload
        now = int(c.get("now", 0))
        if op in ("check", "checkhex"):
            if not accepted:
                return fam + ":genuine-rejected", "an issued token was rejected"
            if o.get("out", "") != info.get("payload", ""):
                return fam + ":wrong-payload", "verification returned a payload other than the signed one"
        elif op == "chalcheck":
            t0, w = int(c["t0"]), int(c["window"])
            want = t0 <= now <= t0 + w
            if accepted != want:
                return ("challenge:%s" % ("accepted-outside-window" if accepted else "genuine-rejected"),
                        "challenge of %d checked at %d with window %d gave %s" % (t0, now, w, accepted))
        elif op == "exchange":
            cp = c.get("cp")
            if (not accepted and mu["class"] == "genuine" and cp and jwt_time_ok(cp, now) and int(c["ttl"]) > 0
                    and all(not want or want == got for want, got in
                            ((c.get("data", ""), cp["iss"]), (c.get("host", ""), cp["aud"]), (c.get("user", ""), cp["sub"])))
                    and any(k["parse"] and k["sigok"] and k["type"] == "7373682d727361" and k["id"] == c["hp"]["kid"]
                            and (int(k["nvb"]) <= 0 or now >= int(k["nvb"]) * NS) and now <= int(k["nva"]) * NS
                            for k in (c.get("card") or [])[:1])):
                return "exchange:genuine-rejected", "an access token issued for this issuer, audience and user was refused inside all its windows"
        elif op in ("sesscheck", "gatecheck"):
            if op == "gatecheck" and accepted and int(c["maxttl"]) > 0 and \
                    bool(o.get("refresh")) != (info["expires"] - now < int(c["maxttl"]) // 5):
                return "authgate:wrong-refresh-advice", "NeedRefresh=%s with %d ns left of %s" % (
                    o.get("refresh"), info["expires"] - now, c["maxttl"])
            want = now < info["expires"]
            if accepted and not want:
                return "session:accepted-at-or-after-expiry", "session accepted %d ns after its expiry" % (now - info["expires"])
            if want and not accepted:
                return "session:genuine-rejected", "unexpired session rejected"
            if accepted and o.get("out", "") != info.get("payload", ""):
                return "session:wrong-payload", "session check returned other data than was signed"
        elif op in ("sessstate", "sessjson"):
            # CheckState: a live session without payload; CheckJSON: a live session whose payload is JSON
            alive = now < info["expires"]
            payload = txt(info.get("payload", ""))
            fits = (payload == b"") if op == "sessstate" else bool(c.get("jsonok"))
            if accepted and not alive:
                return fam + ":accepted-at-or-after-expiry", "%s accepted %d ns after the expiry" % (op, now - info["expires"])
            if accepted and not fits:
                return fam + ":accepted-wrong-kind", "%s accepted a session whose payload is %r" % (op, payload)
            if alive and fits and not accepted:
                return fam + ":genuine-rejected", "%s refused a live session of its kind" % op
            if accepted and op == "sessjson" and o.get("out", "") != info.get("payload", ""):
                return fam + ":wrong-payload", "CheckJSON delivered other data than was signed"
        elif op == "jwtany":
            want = (not c.get("vrej")) and jwt_time_ok(c["cp"], now)
            if accepted != want:
                return ("jwt-any:%s" % ("accepted-against-verifier-or-time" if accepted else "genuine-rejected"),
                        "DecodeAndVerify with a %s verifier at %d gave %s" % (c.get("note"), now, accepted))
            if accepted and (not o.get("payok") or o.get("claims") != c["cp"]):
                return "jwt-any:wrong-payload", "DecodeAndVerify returned other claims/payload than the token holds"
        elif op == "tscheck":
            w = abs(int(c["window"]))
            want = abs(now - info["t0"]) < w
            if accepted != want:
                return ("timetoken:%s" % ("accepted-outside-window" if accepted else "genuine-rejected"),
                        "time token of %d checked at %d with window %d gave %s" % (info["t0"], now, w, accepted))
        elif op == "rsatime":
            w = abs(int(c["window"]))
            t0 = int.from_bytes(txt(c["data"])[:8], "little", signed=True)
            want = abs(now - t0) < w
            if accepted != want:
                return ("rsatime:%s" % ("accepted-outside-window" if accepted else "genuine-rejected"),
                        "RSA time block checked at %d with window %d gave %s" % (now, w, accepted))
        elif op == "jwths":
            want = jwt_time_ok(c["cp"], now)
            if accepted != want:
                return ("jwt-hs:%s" % ("accepted-outside-time" if accepted else "genuine-rejected"),
                        "HS256 token checked at %d gave %s" % (now, accepted))
            if accepted and (not o.get("payok") or o.get("claims") != c["cp"]):
                return "jwt-hs:wrong-payload", "verification returned other claims/payload than were signed"
        elif op in ("jwtrs", "selfverify", "jwtrsfetch"):
            if op == "jwtrsfetch" and c.get("nocard") and accepted:
                return ("jwt-rs:accepted-without-identity",
                        "token accepted although fetching the identity failed (%s)" % c.get("note"))
            kid = c["hp"]["kid"]
            keys = [k for k in c.get("card") or [] if k["id"] == kid]
            key_ok = bool(keys) and any(
                k["parse"] and k["sigok"] and (int(k["nvb"]) <= 0 or now >= int(k["nvb"]) * NS)
                and now <= int(k["nva"]) * NS for k in keys)
            want_time = jwt_time_ok(c["cp"], now)
            if accepted and not keys:
                return ("jwt-rs:accepted-unknown-key-id",
                        "token accepted although its header names key id %r, which no key of the identity has"
                        % txt(kid).decode("latin1"))
            if accepted and not key_ok:
                return ("jwt-rs:accepted-without-valid-key",
                        "token accepted though the key its header names does not verify it or is not valid then")
            in_range = all(abs(int(k[f])) <= 2 ** 62 for k in keys for f in ("nvb", "nva"))
            if (mu["class"] == "kidmatrix" and in_range and not accepted and want_time and keys and keys[0]["parse"]
                    and keys[0]["sigok"] and keys[0]["type"] == "7373682d727361"
                    and (int(keys[0]["nvb"]) <= 0 or now >= int(keys[0]["nvb"]) * NS)
                    and now <= int(keys[0]["nva"]) * NS):
                return "jwt-rs:named-key-rejected", "token signed by the valid key its header names was rejected"
            if accepted and not want_time:
                return "jwt-rs:accepted-outside-time", "RS256 token accepted outside its time window"
            if accepted and op in ("selfverify", "jwtrsfetch"):
                cl = o["claims"]
                user, host = c.get("user", ""), c.get("host", "")
                if txt(cl["iss"]) != b"." or (user and cl["sub"] != user) or (host and cl["aud"] != host):
                    return "jwt-self:accepted-foreign-claims", "self token accepted for another user/host/issuer"
            if (not accepted and want_time and mu["class"] == "genuine" and keys and not c.get("nocard") and
                    all(k["type"] == "7373682d727361" for k in keys[:1]) and
                    (int(keys[0]["nvb"]) <= 0 or now >= int(keys[0]["nvb"]) * NS) and now <= int(keys[0]["nva"]) * NS):
                return "jwt-rs:genuine-rejected", "issued RS256 token rejected inside all its windows"
        return None


def pairs_oracle(c):
    """Auxiliary observations: each carries the value the property text implies."""
    for p in c.get("pairs") or []:
        if p["got"] != p["want"]:
            return p["name"], "%s: observed %r, the property implies %r (%s)" % (p["name"], p["got"][:200], p["want"][:200],
                                                                                c.get("note", ""))
    return None


def usage_oracle(c):
    """Implementation-only usage cases: accepted only if genuine, in time and with
    the consent of every caller-supplied callback; then with the signed payload."""
    f, o = c["facts"], c["obs"]
    if o.get("crash"):
        return "crash", "the code under test panicked: %s" % o["crash"][:200]
    if o["ok"]:
        if f.get("otherkey"):
            return "accepted-under-other-key", "%s: accepted" % c.get("note", "")
        for fact, key in (("genuine", "accepted-not-genuine"), ("intime", "accepted-out-of-time"),
                          ("consent", "accepted-without-consent")):
            if not f[fact]:
                return key, "%s: accepted" % c.get("note", "")
        if f.get("payload") and o.get("out", "") != f["payload"]:
            return "wrong-payload", "%s: delivered %r, signed %r" % (c.get("note", ""), txt(o.get("out", "")), txt(f["payload"]))
    elif f["genuine"] and f["intime"] and f["consent"]:
        return "genuine-rejected", "%s: refused" % c.get("note", "")
    return pairs_oracle(c)


def case_bases(c, orc):
    mu = c.get("mut")
    if not mu:
        return []
    return orc.bases.get(mu["tok"], [])


def shard_text(part, orc):
    """Coq source evaluating one shard of cases."""
    global ENC
    # first pass: count how often each byte string occurs, so that repeated ones are named
    ENC = Enc()
    counter = {}

    class Counting(Enc):
        def B(self, hexs):
            if hexs:
                counter[hexs] = counter.get(hexs, 0) + 1
            return ""
    ENC = Counting()
    for c in part:
        to_coq(c)
    ENC = Enc()
    ENC.counts = counter
    lines = []
    for c in part:
        ENC.bases = case_bases(c, orc)
        lines.append(to_coq(c))
    return ("From Coq Require Import List NArith ZArith.\n"
            "From Verif Require Import Lib.Bytes Lib.Codec Cred.Sign Cred.Jwt Cred.PassCode Cred.CredCorr.\n"
            "Import ListNotations.\nLocal Open Scope N_scope.\n" + ENC.prelude() +
            "Definition cases : list ccase := [\n  " + ";\n  ".join(lines) + "\n].\n"
            "Definition M := Eval vm_compute in mismatches cases.\nPrint M.\n")


def corr_eval(ck, full, orc):
    """Evaluates the shards in parallel; returns (mismatching indices, failed?)."""
    import concurrent.futures
    import os
    import time
    t0 = time.time()
    d = os.path.join(vlib.BUILD, "cases", ck.pid)
    os.makedirs(d, exist_ok=True)
    # shards of roughly equal literal weight, cases of one token kept together
    nshards = 12 if not ck.thorough else 16
    weights = [len(json.dumps(c)) for c in full]
    total = sum(weights)
    bounds, acc, start = [], 0, 0
    for i, w in enumerate(weights):
        acc += w
        if acc >= total / nshards and i + 1 < len(full):
            bounds.append((start, i + 1))
            start, acc = i + 1, 0
    bounds.append((start, len(full)))
    jobs = []
    for n, (a, b) in enumerate(bounds):
        fn = os.path.join(d, "cases_%d.v" % n)
        open(fn, "w").write(shard_text(full[a:b], orc))
        jobs.append((a, fn))

    def one(job):
        a, fn = job
        rc, out = vlib.sh(["coqc", "-noglob", "-R", os.path.join(vlib.COQ, "theories"), "Verif", fn], cwd=d,
                          timeout=1500)
        return a, rc, out
    mism, failed = [], False
    with concurrent.futures.ThreadPoolExecutor(max_workers=min(len(jobs), os.cpu_count() or 4)) as ex:
        for a, rc, out in ex.map(one, jobs):
            got = vlib.parse_coq_list_of_nat(out, "M") if rc == 0 else None
            if got is None:
                ck.broken.append({"what": "correspondence evaluation failed", "detail": out[-1500:]})
                failed = True
                continue
            mism += [a + i for i in got]
    ck.timings["coq_eval"] = round(time.time() - t0, 2)
    ck.coverage["correspondence_shards"] = len(jobs)
    return sorted(mism), failed


def oracle_pass(ck, cases):
    """The implementation-only oracle over all harness cases (also the search for a
    failing input).  Returns (oracle, the cases the Coq model is evaluated on)."""
    orc = Oracle()
    full = []
    sweep_evals = 0
    for c in cases:
        if c["stream"] == "sweep":
            for j in range(c.get("n", 0)):
                ck.count("sweep:" + c["fam"], key=(c["fam"], c.get("tokid", 0), c["class"], j, c.get("tok")))
            sweep_evals += c.get("n", 0)
            ck.coverage.setdefault("sweep_classes", {}).setdefault(c["fam"], {}).setdefault(c["class"], [0, 0])
            agg = ck.coverage["sweep_classes"][c["fam"]][c["class"]]
            agg[0] += c.get("n", 0)
            agg[1] += c.get("accepted", 0)
            continue
        if c["op"] == "jsonpin":
            ck.count(c["stream"], key=(c["note"],))
            if not c["obs"]["ok"]:
                ck.violation("impl:json:leniency-changed:" + c["note"],
                             "encoding/json into the jwt header/claims types now makes %r of %r (pinned: %r)" % (
                                 txt(c.get("host", "")).decode("utf8", "replace"),
                                 txt(c.get("data", "")).decode("utf8", "replace"),
                                 txt(c.get("user", "")).decode("utf8", "replace")),
                             {"case": c, "expected": txt(c.get("user", "")).decode("utf8", "replace"),
                              "observed": txt(c.get("host", "")).decode("utf8", "replace")})
            continue
        if c["op"] == "usage":
            ck.count(c["stream"], key=(c["note"], json.dumps(c.get("facts"), sort_keys=True)))
            v = usage_oracle(c)
            if v:
                ck.violation("impl:%s:%s" % (c["stream"], v[0]), v[1],
                             {"case": c, "expected": "accepted only if genuine, inside its time window and with the consent "
                                                     "of every callback; auxiliary observations as the property implies",
                              "observed": c["obs"]})
            continue
        if c["op"] == "passconc":
            ck.count(c["stream"], key=(c["note"], c.get("n", 0)))
            if c["obs"].get("crash") or not c["obs"]["ok"]:
                ck.violation("impl:passcode:concurrent-attempts", "%s: %s" % (c["note"], c["obs"].get("errtext")),
                             {"case": c, "expected": "the code is accepted at most once", "observed": c["obs"]})
            continue
        if c["op"] == "roleverify":
            ck.count(c["stream"], key=(c["note"],))
            if c["obs"].get("crash") or c["obs"]["ok"] != bool(c.get("sigok")):
                ck.violation("impl:roles:self-token:%s" % ("accepted" if c["obs"]["ok"] else "rejected"),
                             "Roles.VerifySelfToken, %s: accepted=%s" % (c["note"], c["obs"]["ok"]),
                             {"case": c, "expected": "accepted" if c.get("sigok") else "rejected",
                              "observed": c["obs"]})
            continue
        full.append(c)
        orc.note(c)
        trivial = c["op"] in ("hexdec", "b64dec", "hexenc", "b64enc") and not c.get("data")
        ck.count(c["stream"], key=json.dumps({k: v for k, v in c.items() if k not in ("i", "obs", "mut", "tokid")},
                                             sort_keys=True), trivial=trivial)
        v = orc.judge(c)
        if not v and c.get("pairs"):
            pv = pairs_oracle(c)
            if pv:
                v = ("%s:%s" % (c.get("fam", c["op"]), pv[0]), pv[1])
        if v:
            ck.violation("impl:" + v[0], v[1],
                         {"case": c, "expected": "rejected unless bit-for-bit the issued token, inside its time "
                                                 "window, under the issuing key; passcode at most once, inside "
                                                 "its window, after at most ten refused attempts",
                          "observed": c["obs"]})
    ck.coverage["sweep_evaluations"] = sweep_evals
    for c in full[:3] + full[400:402] + full[-1:]:
        s = {k: c[k] for k in c if k != "i"}
        if len(json.dumps(s)) < 4000:
            ck.sample(s)

    return orc, full


def run(ck):
    scale = 1 if not ck.thorough else 24
    ck.gen()
    built = ck.coq_make(MODEL + PROOFS, clean=ck.thorough)
    ck.obligations = ck.count_statements(STATEMENT_FILES)
    proofs_ok = all(built.get(x) for x in PROOFS)
    if proofs_ok:
        if ck.audit("theories/Props/C16.v"):
            ck.discharged = list(ck.obligations)
    if ck.thorough and proofs_ok:
        ck.coqchk(["Verif.Props.C16"])
    code_tie.run(ck, "C16")

    binp = ck.build_harness("c16")
    cases = []
    if binp:
        rc, out, err = vlib.sh2([binp, "-seed", str(ck.seed), "-n", str(scale)], timeout=1500)
        if rc != 0:
            ck.broken.append({"what": "harness run failed", "detail": err[-1500:]})
        for line in out.splitlines():
            if line.startswith("{"):
                cases.append(json.loads(line))

    orc, full = oracle_pass(ck, cases)

    # correspondence: the models evaluated inside Coq on the same inputs
    model_ok = all(built.get(x) for x in MODEL)
    if full and model_ok:
        mism, failed = corr_eval(ck, full, orc)
        ck.coverage["correspondence_cases"] = len(full)
        ck.coverage["correspondence_mismatches"] = len(mism)
        for i in mism[:60]:
            c = full[i]
            ck.broken.append({"what": "correspondence: model and implementation disagree",
                              "stream": c["stream"], "op": c["op"], "case_index": i,
                              "mut": c.get("mut")})
        for i in mism:
            c = full[i]
            if orc.judge(c) is None:
                ck.violation("corr:%s:%s" % (c["stream"], c["op"]),
                             "implementation output differs from the proved model of the repaired code",
                             {"case": c, "model": "Cred/*.v evaluated by vm_compute disagrees", "observed": c["obs"]})
    elif full and not model_ok:
        ck.broken.append({"what": "model does not compile; correspondence not evaluated"})

    return ck.finish(
        level="proof",
        checker_cmd="bin/check C16 (gen -> make -C coq theories/Props/C16.vo -> Print Assumptions audit -> "
                    "harness c16: mutation sweeps against the implementation + vm_compute of Cred/CredCorr.v)",
        trusted=["Coq 8.16.1 kernel + vm_compute",
                 "translator gen/cred.go (constants, guard shapes, fields and receiver writes of long-lived types)",
                 "harness/cmd/c16 + checks/c16.py comparison", "roles/verif_export.go, signer/verif_export.go shims",
                 "functions, not verified: HMAC-SHA256, SHA-256, RSA PKCS#1 v1.5, encoding/json, ssh key parsing",
                 "modelled not verified: time.Time arithmetic, strings.Split/Fields, pisces KV Mutate (C05)"],
        rule="fixed corpus of the known failing inputs first; per issued token (blob, hex, session, time token, "
             "RSA block, HS256, RS256/self) every single-bit flip, every strict prefix, every one-byte extension, "
             "hex case flips, base64url last-character/padding/CR-LF variants, header rewrites and part-count "
             "changes against the implementation (sweep:* streams, one evaluation per mutant); boundary instants "
             "+-1 ns / +-1 s; all 2^5 claim-template combinations; seeded passcode histories (splitmix64); "
             "usage-pattern streams: fixed sequences on one long-lived object per type, every result shape of "
             "every caller-supplied callback, fixed and seeded histories of card changes on one verifier, "
             "hour-wide margins on the real clock; a case is non-trivial unless its input is empty; "
             "distinct = distinct case content",
        assumptions=["64-bit int", "instants and lifetimes within int64 nanoseconds",
                     "mac_binds (HMAC injective) and the no-forgery premise are idealisations named in the theorems",
                     "JWT expiry follows the code: now = exp is still accepted"])
