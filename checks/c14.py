"""C14 — sniproxy: SNI sniffing is exact and consumes nothing (DESIGN.md §7 C14)."""
import json

import code_tie
import vlib

META = {
    "category": "proof",
    "text": "Coq theorems over an executable model of TLSHelloConn (the bufio.Reader's fill/Peek/Read, HelloInfo, and "
            "crypto/tls's first-record processing up to the GetConfigForClient callback with the validity rule of "
            "every ClientHello extension): for every well-formed hello that fits one record, any extension list, any "
            "trailing stream and any segmentation the reported name and ALPN list are exactly the hello's; for every "
            "byte stream the result is segmentation-independent, at most the buffer size is pulled, no panic, and the "
            "following Reads return the stream from byte 0 in order and completely - the hand-over from the peek buffer to "
            "the connection is a first-class part of the model: TLSHelloConn.Read is emitted as a policy (always through "
            "the bufio.Reader / straight to the connection once the buffer is drained / anything else unknown), proved "
            "transparent for every sequence of caller buffer sizes with any amount of data buffered behind the hello, "
            "and handing over by byte count is refuted; the returned *TLSHelloInfo is a cell of its own call (origin of the "
            "pointer extracted; any sequence of HelloInfo calls leaves every held result saying what its own hello said; a "
            "pooled result is refuted), checked by holding the results of 2..16 connections - sequential, concurrent, and "
            "through hostConn with a dialer that reads the hello late. The peek-buffer size and header "
            "constants are regenerated from tls_hello_conn.go on every run and the other function bodies are compared "
            "with the frozen ones; the model is tied to the real code (and to crypto/tls) by differential runs evaluated in Coq.",
    "note": "Trusted: Coq kernel + vm_compute; translator gen/sni_stream.go; harness c14 and its scripted net.Conn; the "
            "model of crypto/tls go1.23 ClientHello unmarshalling and of bufio.Reader is hand-written and exercised by "
            "the correspondence streams (real crypto/tls client hellos, synthetic, mutated, non-TLS), not verified code; "
            "no axioms.",
    "technique": "Coq proof (builder/parser round trip by induction over the extension list; bufio invariants) + "
                 "go/ast extraction of constants and source skeletons + vm_compute correspondence",
}

MODEL = ["theories/Sni/HelloCorr.vo"]
PROOFS = ["theories/Props/C14.vo"]
STATEMENT_FILES = ["theories/Props/C14.v", "theories/Sni/HelloGen.v"]
SEMANTIC_TIE = code_tie.functions("C14")   # Go bodies proved equal to the model (Props/C14Code.v)

KIND = {"ok": 0, "eof": 1, "full": 2, "nottls": 3}
RECORD_LIMIT = 16384


def hexlist(h):
    bs = bytes.fromhex(h or "")
    if len(bs) <= 14:
        return "[" + ";".join(str(b) for b in bs) + "]"
    ws = [str(int.from_bytes(bs[i:i + 7], "little")) for i in range(0, len(bs), 7)]
    return "(unpack %d [%s]%%uint63)" % (len(bs), ";".join(ws))


def segs(ss):
    parts = []
    for s in ss or []:
        if "rep" in s:
            parts.append("rep %d %d" % (s["rep"][0], s["rep"][1]))
        else:
            parts.append(hexlist(s.get("hex", "")))
    if not parts:
        return "[]"
    if len(parts) == 1:
        return "(" + parts[0] + ")"
    return "(" + " ++ ".join(parts) + ")%list"


def pairs(ps):
    """[[size,count],...] -> a Coq list N"""
    parts = ["rep %d %d" % (p[0], p[1]) for p in ps or [] if p[1] > 0]
    if not parts:
        return "[]"
    if len(parts) == 1:
        return "(" + parts[0] + ")"
    return "(" + " ++ ".join(parts) + ")%list"


def rle(xs):
    out = []
    for x in xs:
        if out and out[-1][0] == x:
            out[-1][1] += 1
        else:
            out.append([x, 1])
    return pairs(out)


def ext_term(e):
    if e["k"] == "sni":
        return "ESni [" + "; ".join("(%d, %s)" % (n[0], hexlist(n[1])) for n in e.get("names") or []) + "]"
    if e["k"] == "alpn":
        return "EAlpn [" + "; ".join(hexlist(p) for p in e.get("protos") or []) + "]"
    return "EOther %d %s" % (e.get("typ", 0), segs(e.get("data")))


def spec_term(s):
    exts = "None" if s.get("noexts") else "(Some [" + "; ".join(ext_term(e) for e in s.get("exts") or []) + "])"
    return "(mkHello %d %d %s %s [%s] %s %s)" % (
        s["recvers"], s["vers"], hexlist(s["random"]), hexlist(s["session"]),
        "; ".join(str(x) for x in s.get("suites") or []), hexlist(s["compr"]), exts)


def seg_bytes(ss):
    return b"".join(bytes([s["rep"][0]]) * s["rep"][1] if "rep" in s else bytes.fromhex(s.get("hex", ""))
                    for s in ss or [])


def to_segs(bs):
    """bytes -> segs with runs of one byte compressed"""
    out, i, lit = [], 0, 0
    n = len(bs)
    while i < n:
        j = i
        while j < n and bs[j] == bs[i]:
            j += 1
        if j - i >= 32:
            if i > lit:
                out.append({"hex": bs[lit:i].hex()})
            out.append({"rep": [bs[i], j - i]})
            lit = j
        i = j
    if n > lit:
        out.append({"hex": bs[lit:n].hex()})
    return out


def model_input(c):
    """The stream as the model needs it: the first record (or the first five
    bytes when it is not a handshake record) verbatim, everything after it as
    zeros of the same length.  HelloInfo and Read decide nothing on those
    bytes (Sni/HelloProofs.v: sniff_spec), and the harness checks them
    byte for byte (readback_ok)."""
    raw = seg_bytes(c["input"])
    keep = 5
    if len(raw) >= 5 and raw[0] == 22:
        keep = 5 + (raw[3] << 8 | raw[4])
    if len(raw) <= keep:
        return segs(to_segs(raw))
    return segs(to_segs(raw[:keep]) + [{"rep": [0, len(raw) - keep]}])


def obs_kind(o):
    if o.get("crash"):
        return 9
    return KIND.get(o.get("kind", ""), 9)


def to_coq(c):
    o = c["obs"]
    ended = {"": 0, "eof": 1}.get(o.get("ended", ""), 7)
    obs = "%d %s %d %s %d %s %d" % (obs_kind(o), hexlist(o.get("name")), o.get("count", 0), hexlist(o.get("first")),
                                  o.get("pulled", 0), rle(o.get("chunks") or []), ended)
    late = "true" if c.get("late") else "false"
    if c.get("spec"):
        s = c["spec"]
        raw = seg_bytes(c["input"])
        keep = min(len(raw), 5 + c["reclen"])
        return "HSynth %s %s %s %s %d %s %s %s %s" % (
            spec_term(s), segs(s.get("extra")), segs(to_segs(raw[:keep])), "true" if s.get("wf") else "false",
            len(raw) - keep, pairs(c["sched"]), pairs(c["reads"]), late, obs)
    return "HSniff %s %s %s %s %s" % (model_input(c), pairs(c["sched"]), pairs(c["reads"]), late, obs)


def size_class(n):
    for lim in (4091, 16384, 18432, 65535):
        if n <= lim:
            return "<=%d" % lim
    return ">65535"


def impl_oracle(c):
    """Implementation-only reading of the property on one case: (key, text) or None."""
    o = c["obs"]
    if o.get("crash"):
        if o["crash"].startswith("panic"):
            return ("panic:hello", "HelloInfo (or a Read after it) panicked - it must return an error or a name; in the proxy the "
                    "connection goroutine has no recover, so the whole process ends: %s [%s; %d bytes]"
                    % (o["crash"][:200], c.get("desc", ""), c["len"]))
        return ("crash", "HelloInfo/Read crashed: %s" % o["crash"][:200])
    if o.get("pulled", 0) > 5 + 65535:
        return ("unbounded-read", "HelloInfo pulled %d bytes from the connection" % o["pulled"])
    if o.get("deadline_armed"):
        segs_n = sum(p[1] for p in c.get("sched") or [])
        return ("deadline-left-armed", "when HelloInfo returned (%s) the underlying connection still had a read deadline set "
                "(%d SetReadDeadline/SetDeadline call(s), the last one not the zero time): every later Read of the proxied "
                "stream fails once it passes [%s; %d bytes, %d scheduled segments, first segment sizes %s]"
                % (o.get("kind"), o.get("deadline_sets", 0), c.get("desc", ""), c["len"], segs_n, (c.get("sched") or [])[:3]))
    where = "handover:" if c["stream"] == "handover" else ""
    note = (" [" + c.get("desc", "") + "; chunks returned: %s]" % (o.get("chunks") or [])[:12]) if where else ""
    if not o.get("readback_ok"):
        return (where + "readback", "bytes read after HelloInfo differ from the stream sent" + note)
    if c.get("to_eof") and (o.get("read_total") != c["len"] or o.get("ended") != "eof"):
        return (where + "readback-incomplete", "reads after HelloInfo returned %d of %d bytes (ended %r)%s"
                % (o.get("read_total", 0), c["len"], o.get("ended"), note))
    w = c.get("want")
    if w is not None and 0 <= c.get("reclen", -1) <= RECORD_LIMIT:
        if o.get("kind") != "ok":
            return ("wellformed-hello-rejected:%s:payload%s" % (o.get("kind", "?").split(":")[0], size_class(c["reclen"])),
                    "a well-formed ClientHello with a record payload of %d bytes gave error %r"
                    % (c["reclen"], o.get("kind")))
        if (o.get("name"), o.get("count"), o.get("first")) != (w["name"], w["count"], w["first"]):
            return ("wrong-info", "reported (%s, %d, %s) for a hello that says (%s, %d, %s)" % (
                bytes.fromhex(o.get("name", "")), o.get("count", 0), bytes.fromhex(o.get("first", "")),
                bytes.fromhex(w["name"]), w["count"], bytes.fromhex(w["first"])))
    if c["stream"] in ("nontls", "oversize", "malformed-synth", "fragmented", "short-record"):
        if o.get("kind") == "ok" and o.get("name"):
            return ("name-from-bad-input", "input that is not a valid single-record hello gave the name %s"
                    % bytes.fromhex(o["name"]))
    if c["stream"] == "mutated" and o.get("kind") == "ok" and o.get("name"):
        raw = seg_bytes(c["input"])
        if bytes.fromhex(o["name"]) not in raw:
            return ("invented-name", "reported a name that does not occur in the input")
    return None


def held_oracle(h):
    if h.get("crash"):
        return ("held:crash", "HelloInfo crashed while results were held: %s" % h["crash"][:200])
    how = {"sequential": "sniffed one after the other", "concurrent": "sniffed concurrently",
           "proxy": "through hostConn with a dialer that keeps the hello it was given until all were sniffed"}[h["kind"]]
    for i, x in enumerate(h["infos"]):
        if x.get("err"):
            return ("held:error", "connection %d of %d (%s): %s" % (i, h["k"], how, x["err"]))
        if (x["first"], x["first_n"]) != (x["want"], x["want_n"]):
            return ("held:wrong-info:" + h["kind"], "%d connections %s: the result of connection %d said (%r, %d protocols) "
                    "when it was handed out; its hello says (%r, %d)" % (h["k"], how, i, x["first"], x["first_n"], x["want"], x["want_n"]))
    for i, x in enumerate(h["infos"]):
        if (x["later"], x["later_n"]) != (x["want"], x["want_n"]):
            whose = [j for j, y in enumerate(h["infos"]) if y["want"] == x["later"]]
            return ("held:result-changed:" + h["kind"], "%d connections %s: the *TLSHelloInfo of connection %d said (%r, %d "
                    "protocols) when it was handed out and says (%r, %d) after the last HelloInfo%s"
                    % (h["k"], how, i, x["first"], x["first_n"], x["later"], x["later_n"],
                       " - the name of connection %d" % whose[0] if whose else ""))
    return None


def run(ck):
    try:   # deep list literals: coqc recurses on them
        import resource
        resource.setrlimit(resource.RLIMIT_STACK, (resource.RLIM_INFINITY, resource.RLIM_INFINITY))
    except Exception:
        pass
    ncases = 790 if not ck.thorough else 13550
    ck.gen()
    built = ck.coq_make(MODEL + PROOFS, clean=ck.thorough)
    ck.obligations = ck.count_statements(STATEMENT_FILES)
    proofs_ok = all(built.get(x) for x in PROOFS)
    if proofs_ok and ck.audit("theories/Props/C14.v"):
        ck.discharged = list(ck.obligations)
    if ck.thorough and proofs_ok:
        ck.coqchk(["Verif.Props.C14"])
    code_tie.run(ck, "C14")

    binp = ck.build_harness("c14")
    cases = []
    if binp:
        rc, out, err = vlib.sh2([binp, "-seed", str(ck.seed), "-n", str(ncases)], timeout=1500)
        if rc != 0:
            ck.broken.append({"what": "harness run failed", "detail": err[-1500:]})
        for line in out.splitlines():
            if line.startswith("{"):
                cases.append(json.loads(line))

    # held results: the *TLSHelloInfo of several sniffed connections, read again after the last HelloInfo
    if binp:
        rc, out, err = vlib.sh2([binp, "-held", "45" if not ck.thorough else "600", "-seed", str(ck.seed)], timeout=600)
        if rc != 0:
            ck.broken.append({"what": "harness run failed (held results)", "detail": err[-1500:]})
        for line in out.splitlines():
            if not line.startswith("{"):
                continue
            h = json.loads(line)
            ck.count("held-" + h["kind"], key=("held", h["kind"], h["k"], json.dumps(h["infos"])), trivial=False)
            bad = held_oracle(h)
            if bad:
                ck.violation("impl:" + bad[0], bad[1],
                             {"case": h, "expected": "every held *TLSHelloInfo keeps saying what its own connection's hello said",
                              "observed": h["infos"]})

    def replay_of(c):
        return {k: c[k] for k in ("i", "stream", "desc", "input", "len", "reclen", "sched", "reads", "late", "to_eof", "want", "obs")
                if k in c}

    for c in cases:
        ck.count(c["stream"], key=(c["stream"], c["desc"], c["len"], json.dumps(c["sched"]), json.dumps(c["reads"]),
                                   json.dumps(c.get("want"))), trivial=c["len"] == 0)
        bad = impl_oracle(c)
        if bad:
            ck.violation("impl:" + bad[0], bad[1],
                         {"case": replay_of(c),
                          "expected": "name/ALPN of the hello (or error/empty name for non-hellos); stream intact",
                          "observed": c["obs"]})
    for c in cases[:1] + cases[12:14] + cases[-2:]:
        s = replay_of(c)
        s["input"] = "%d bytes" % c["len"]
        ck.sample(s)

    model_ok = all(built.get(x) for x in MODEL)
    if cases and model_ok:
        terms = [to_coq(c) for c in cases]
        shard = 180

        def eval_shard(s):
            txt = ("From Coq Require Import List NArith String.\n"
                   "From Coq Require Import Uint63.\n"
                   "From Verif Require Import Lib.Bytes Sni.Wire Sni.Hello Sni.HelloCorr.\n"
                   "Import ListNotations.\nLocal Open Scope N_scope.\n"
                   "Definition cases : list hcase := [\n  " + ";\n  ".join(terms[s:s + shard]) + "\n].\n"
                   "Definition M := Eval vm_compute in mismatches cases.\nPrint M.\n"
                   "Definition B := Eval vm_compute in build_mismatches cases.\nPrint B.\n")
            rc, out = ck.coq_eval("cases_%d" % (s // shard), txt)
            got = vlib.parse_coq_list_of_nat(out, "M") if rc == 0 else None
            gotb = vlib.parse_coq_list_of_nat(out, "B") if rc == 0 else None
            return s, got, gotb, out

        mism, bmism = [], []
        import concurrent.futures
        with concurrent.futures.ThreadPoolExecutor(max_workers=8) as ex:
            results = list(ex.map(eval_shard, range(0, len(terms), shard)))
        for s, got, gotb, out in results:
            if got is None or gotb is None:
                ck.broken.append({"what": "correspondence evaluation failed", "detail": out[-1500:]})
                break
            mism += [s + i for i in got]
            bmism += [s + i for i in gotb]
        ck.coverage["correspondence_cases"] = len(terms)
        ck.coverage["correspondence_mismatches"] = len(mism)
        ck.coverage["builder_mismatches"] = len(bmism)
        for t in bmism[:20]:
            c = cases[t]
            ck.broken.append({"what": "correspondence: Coq build_hello/wf_hellob and the harness builder disagree",
                              "stream": c["stream"], "case_index": t, "desc": c["desc"]})
        for t in mism[:60]:
            c = cases[t]
            ck.broken.append({"what": "correspondence: model and implementation disagree",
                              "stream": c["stream"], "case_index": t, "desc": c["desc"]})
            if impl_oracle(c) is None:
                ck.violation("corr:%s:%s" % (c["stream"], c["obs"].get("kind", "?").split(":")[0]),
                             "TLSHelloConn behaves differently from the proved model on this stream",
                             {"case": replay_of(c), "model": "Sni/Hello.v evaluated by vm_compute disagrees",
                              "observed": c["obs"]})
    elif cases and not model_ok:
        ck.broken.append({"what": "model does not compile; correspondence not evaluated"})

    return ck.finish(
        level="proof",
        checker_cmd="bin/check C14 (gen -> make -C coq theories/Props/C14.vo -> Print Assumptions audit -> "
                    "harness c14 vs vm_compute of Sni/HelloCorr.v)",
        trusted=["Coq 8.16.1 kernel + vm_compute", "translator gen/sni_stream.go (buffer size, header constants, bodies)",
                 "harness/cmd/c14 (scripted net.Conn) + checks/c14.py comparison",
                 "modelled not verified: bufio.Reader, crypto/tls go1.23 record layer and clientHelloMsg.unmarshal"],
        rule="seeded generation (splitmix64): crypto/tls client hellos over random configs (names, 0..40 ALPN protocols, "
             "TLS 1.0-1.3, tickets, resumption), synthetic hellos padded to size classes around 4091/4096/8192/16384 and "
             "beyond, record versions 0x0300..0x0fff and >= 0x1000, hellos fragmented over two or three records, "
             "rule-breaking synthetic hellos, byte-level mutations, non-TLS and SSLv2-style inputs; handover = a hello "
             "(minimal, 300..16384-byte payloads) with 1..20000 bytes behind it, all in one segment / cut at hello+1 / cut "
             "exactly behind the hello / header alone, read with caller buffers from 1 to 32768 bytes (constant, 'ends at "
             "the hello then another size', random sequences; fixed minimal cases first); each with a random "
             "segmentation, random read sizes and (1 in 4) a connection that reports io.EOF together with its last bytes; corpus of the failing hellos first; a case is non-trivial unless the "
             "stream is empty; distinct = distinct (stream, description, length, segmentation, read sizes, intended info)",
        assumptions=["go1.23 crypto/tls semantics for the first record (GOTOOLCHAIN=local)"])
