(** Proofs joining name resolution (Caco/NamesProofs.v) with the loader
    theorems (Caco/LoadProofs.v): differently written names that lead to the
    same place clash, and a clash of any two declared names - rule against
    rule, rule against output, in either order - is an error. *)
From Coq Require Import List String Ascii NArith Bool Relations.
From Verif Require Import Lib.Path Caco.Names Caco.NamesProofs Caco.Load Caco.LoadProofs Caco.LoadNames.
Import ListNotations.
Local Open Scope string_scope.

(** ** Resolution depends only on where the written name leads *)

Theorem rel_spec p f :
  rel p f = to_string (join_slash (rsegs (bs p) ++ rsegs (bs f))).
Proof. unfold rel. now rewrite make_rel_path_spec. Qed.

Theorem rel_same_segs p f g :
  rsegs (bs f) = rsegs (bs g) -> rel p f = rel p g.
Proof. intros H. now rewrite !rel_spec, H. Qed.

Theorem pth_same_segs p f g :
  is_rooted (bs f) = is_rooted (bs g) -> rsegs (bs f) = rsegs (bs g) -> pth p f = pth p g.
Proof. intros Hr H. unfold pth. now rewrite !make_path_spec, Hr, H. Qed.

(** ** Any two declarations sharing a name make a read problem *)

Definition names_of (d : decl) : list name :=
  match d with DRule nm _ outs => nm :: outs | _ => [] end.

Lemma file_nodes_app a b : file_nodes (a ++ b) = (file_nodes a ++ file_nodes b)%list.
Proof. unfold file_nodes. apply flat_map_app. Qed.

Lemma file_nodes_names d : map nname (file_nodes [d]) = names_of d.
Proof.
  destruct d as [nm deps outs| |]; simpl; try reflexivity.
  rewrite app_nil_r. f_equal. rewrite map_map. simpl. apply map_id.
Qed.

Lemma not_nodup_twice {A} (x : A) p a m b s :
  In x a -> In x b -> ~ NoDup (p ++ a ++ m ++ b ++ s).
Proof.
  intros Ha Hb Hnd.
  apply NoDup_app_inv in Hnd. destruct Hnd as (_ & Hnd & _).
  apply NoDup_app_inv in Hnd. destruct Hnd as (_ & _ & Hdis).
  apply (Hdis x Ha). apply in_app_iff. right. apply in_app_iff. now left.
Qed.

(** Two declarations of one reached build file - wherever they stand, in
    whichever order - that share a name (a rule's name or one of its
    outputs' names). *)
Theorem clash_in_file fs roots q l1 d1 l2 d2 l3 x :
  reached fs roots q ->
  lookup q fs = Some (l1 ++ d1 :: l2 ++ d2 :: l3)%list ->
  In x (names_of d1) -> In x (names_of d2) ->
  read_problem fs roots.
Proof.
  intros Hq Hl H1 H2. right. right. left. exists q. split; [assumption|].
  unfold fnames, fnodes. rewrite Hl.
  change (d1 :: l2 ++ d2 :: l3)%list with ([d1] ++ l2 ++ [d2] ++ l3)%list.
  rewrite !file_nodes_app, !map_app, !file_nodes_names.
  now apply (not_nodup_twice x).
Qed.

(** Two reached build files declaring the same name. *)
Theorem clash_across_files fs roots q1 q2 ds1 ds2 d1 d2 x :
  q1 <> q2 -> reached fs roots q1 -> reached fs roots q2 ->
  lookup q1 fs = Some ds1 -> lookup q2 fs = Some ds2 ->
  In d1 ds1 -> In d2 ds2 -> In x (names_of d1) -> In x (names_of d2) ->
  read_problem fs roots.
Proof.
  intros Hne Hr1 Hr2 Hl1 Hl2 Hd1 Hd2 H1 H2. right. right. right.
  exists q1, q2, x. repeat split; auto; unfold fnames, fnodes.
  - rewrite Hl1. apply in_split in Hd1. destruct Hd1 as (a & b & ->).
    change (d1 :: b) with ([d1] ++ b)%list. rewrite !file_nodes_app, !map_app, file_nodes_names.
    apply in_app_iff. right. apply in_app_iff. now left.
  - rewrite Hl2. apply in_split in Hd2. destruct Hd2 as (a & b & ->).
    change (d2 :: b) with ([d2] ++ b)%list. rewrite !file_nodes_app, !map_app, file_nodes_names.
    apply in_app_iff. right. apply in_app_iff. now left.
Qed.

(** ** From the BUILD files as written *)

Lemma lookup_resolve fs q ds :
  lookup q fs = Some ds -> lookup q (resolve_fs fs) = Some (map (resolve_decl q) ds).
Proof.
  induction fs as [|[k v] fs IH]; simpl; [discriminate|].
  destruct (String.eqb_spec q k) as [->|Hne]; [intros [= ->]; reflexivity|auto].
Qed.

(** A run on raw build files is an error as soon as a reached file declares
    two rules whose written names lead to the same place ("x", "./x",
    "a/../x", "/x", "x/." ...), unless that place is the package itself (then
    it is the "rule has no name" error). *)
Theorem spellings_clash fs roots kind ts q l1 f deps1 l2 g deps2 l3 :
  reached (resolve_fs fs) roots q ->
  lookup q fs = Some (l1 ++ RBundle f deps1 :: l2 ++ RBundle g deps2 :: l3)%list ->
  rsegs (bs f) = rsegs (bs g) ->
  exists es, c11_run_raw fs roots kind ts = CErr es /\ es <> [].
Proof.
  intros Hq Hl Hsegs. unfold c11_run_raw. apply c11_error_iff. left.
  pose proof (lookup_resolve _ _ _ Hl) as Hl'. rewrite !map_app in Hl'. simpl in Hl'.
  rewrite map_app in Hl'. simpl in Hl'.
  rewrite <- (rel_same_segs q f g Hsegs) in Hl'.
  destruct (unnamed q (rel q f)) eqn:Hu.
  - (* both are unnamed rules: the file has errors *)
    left. exists q. split; [assumption|]. unfold good_file. rewrite Hl'.
    unfold file_errs. rewrite flat_map_app. simpl. destruct (flat_map _ (map (resolve_decl q) l1)); discriminate.
  - eapply clash_in_file with (x := rel q f); eauto; simpl; now left.
Qed.

(** A rule and the output of a file set under one name, in one reached file,
    in either order. *)
Theorem rule_vs_output_clash fs roots q l1 l2 l3 nm deps outs o deps' outs' :
  reached fs roots q -> In o outs ->
  (lookup q fs = Some (l1 ++ DRule nm deps outs :: l2 ++ DRule o deps' outs' :: l3)%list \/
   lookup q fs = Some (l1 ++ DRule o deps' outs' :: l2 ++ DRule nm deps outs :: l3)%list) ->
  read_problem fs roots.
Proof.
  intros Hq Ho [Hl|Hl]; eapply clash_in_file with (x := o); eauto; simpl; auto.
Qed.

(** The theorems of LoadProofs.v hold for raw build files through
    [resolve_fs]; the error characterisation, spelled out. *)
Theorem c11_raw_error_iff fs roots kind ts :
  (exists es, c11_run_raw fs roots kind ts = CErr es /\ es <> []) <->
  read_problem (resolve_fs fs) roots \/ graph_problem (resolve_fs fs) roots kind ts.
Proof. apply c11_error_iff. Qed.

Theorem c11_raw_exec_sound fs roots kind ts ex :
  c11_run_raw fs roots kind ts = CExec ex ->
  NoDup ex /\
  (forall r, In r ex <-> reachable_rule (resolve_fs fs) roots ts r) /\
  (forall e1 a e2, ex = (e1 ++ a :: e2)%list ->
     forall b n, clos_trans name (dedge (resolve_fs fs) roots) a b ->
                 declared (resolve_fs fs) roots n -> nname n = b -> ntype n = TRule -> In b e1).
Proof. apply c11_exec_sound. Qed.
