(** caco3's name resolution as it is written NOW (Gen/CodeCaco.v, the Go
    bodies of [makeRelPath] and [makePath] translated by gen/gotrans.go on
    every run) computes the hand-written model of Caco/Names.v on every input.
    Every theorem about [make_rel_path] / [make_path] is thereby a theorem
    about the code.  Candidates for the counterexample search: CodeCands.v. *)
From Coq Require Import List NArith Bool.
From Verif Require Import Lib.Path Lib.GoLib Caco.Names Caco.NamesProofs Gen.CodeCaco Caco.CodeCands.
Import ListNotations.
Local Open Scope N_scope.

Ltac golib_paths :=
  unfold path_Clean, path_Join, path_IsAbs, filepath_Clean, filepath_Join in *;
  rewrite ?strings_TrimPrefix_slash in *.

Lemma gen_makeRelPath_is_model : forall p f, gen_caco3_makeRelPath p f = make_rel_path p f.
Proof. intros. unfold gen_caco3_makeRelPath, make_rel_path. golib_paths. reflexivity. Qed.

Lemma gen_makePath_is_model : forall p f, gen_caco3_makePath p f = make_path p f.
Proof.
  intros. unfold gen_caco3_makePath, make_path. golib_paths.
  rewrite ?gen_makeRelPath_is_model.
  go_cases; reflexivity.
Qed.

(** The name theorems, read over the code. *)
Lemma code_rel_name_exact : forall p f,
  gen_caco3_makeRelPath p f = join_slash (rsegs p ++ rsegs f) /\
  rel_segs (gen_caco3_makeRelPath p f) = rsegs p ++ rsegs f /\
  forallb goodb (rsegs p ++ rsegs f) = true.
Proof.
  intros p f. rewrite gen_makeRelPath_is_model.
  exact (conj (make_rel_path_spec p f) (conj (make_rel_path_segs p f)
           (app_good _ _ (rsegs_good p) (rsegs_good f)))).
Qed.

Lemma code_rel_path_stays_inside : forall p f,
  clean_relb (gen_caco3_makeRelPath p f) = true /\
  (clean_relb p = true ->
   exists rest, rel_segs (gen_caco3_makeRelPath p f) = rel_segs p ++ rest /\ forallb goodb rest = true).
Proof.
  intros p f. rewrite gen_makeRelPath_is_model. split.
  - apply make_rel_path_clean.
  - apply make_rel_path_inside.
Qed.

Lemma code_any_name_exact : forall p f,
  gen_caco3_makePath p f
    = (if is_rooted f then join_slash (rsegs f) else join_slash (rsegs p ++ rsegs f)) /\
  clean_relb (gen_caco3_makePath p f) = true.
Proof.
  intros p f. rewrite gen_makePath_is_model.
  exact (conj (make_path_spec p f) (make_path_clean p f)).
Qed.

(** The candidate lists are not vacuous, and on the code as it is they find
    nothing. *)
Lemma cands_makeRelPath_size : length cands_makeRelPath = 4840%nat.
Proof. vm_compute. reflexivity. Qed.

Lemma cex_caco_none : cex_makeRelPath = [] /\ cex_makePath = [].
Proof. vm_compute. split; reflexivity. Qed.
