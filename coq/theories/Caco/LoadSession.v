(** caco3: several [Build] calls on one [Builder] - the loader (C11, round 3).

    [Caco/Load.v] models one [loadNodes] call: [load_nodes] reads the build
    files into a new table and loads the targets into a new [loaded] map
    with an empty tracer, because [loadNodes] begins with [newLoader(env)].
    Here that lifetime is explicit:

    - [load_from loaded0] is the load phase entered with the [loaded] map a
      kept loader would still hold (the error list is new at every call, the
      tracer stack is empty between calls); it returns the map as the call
      leaves it - and [load1] puts a registered node into [loaded] after
      loading its dependencies WHETHER OR NOT that reported an error (as the
      code does: [l.load(n.deps, pos); l.loaded[name] = n]);
    - [loader_policy]: [LoaderPerBuild] (the code as it is; decided on the
      current source in Caco/LoadSessionGen.v) or [LoaderKept];
    - [lrun] runs a sequence of Build calls (target lists) on one Builder
      over one set of build files.

    With [LoaderPerBuild] every call is [c11_run] of its own targets
    ([lrun_per_build]); with [LoaderKept] a dangling dependency or a cycle that
    a failed call met is not reported by the next call
    ([kept_loader_*_refuted]). *)
From Coq Require Import List String Bool Arith.
From Verif Require Import Caco.Load.
Import ListNotations.
Local Open Scope string_scope.

(** the load phase entered with [loaded0]; also the [loaded] map afterwards *)
Definition load_from (loaded0 : list node) (fs : bfiles) (roots : list name)
           (kind : name -> skind) (targets : list name) : lresult * list node :=
  match read_roots fs roots with
  | None => (LOutOfFuel, loaded0)
  | Some st =>
      match r_errs st with
      | (_ :: _) as es => (LErr es, loaded0)     (* a loader is kept only when reading succeeded *)
      | [] =>
          match load_all (r_nodes st) kind targets (mkL [] loaded0 []) with
          | None => (LOutOfFuel, loaded0)
          | Some s =>
              match l_errs s with
              | (_ :: _) as es => (LErr es, l_loaded s)
              | [] => (LOk (l_loaded s), l_loaded s)
              end
          end
      end
  end.

(** one Build call: load, then the build walk over what was loaded *)
Definition run_from (loaded0 : list node) (fs : bfiles) (roots : list name)
           (kind : name -> skind) (targets : list name) : cres * list node :=
  match load_from loaded0 fs roots kind targets with
  | (LOutOfFuel, l) => (COutOfFuel, l)
  | (LErr es, l) => (CErr es, l)
  | (LOk L, l) => (exec_order L targets, l)
  end.

Inductive loader_policy :=
| LoaderPerBuild     (* loadNodes makes a new loader at every call *)
| LoaderKept.        (* one loader per Builder, reused by later calls *)

Definition start_loaded (p : loader_policy) (held : list node) : list node :=
  match p with LoaderPerBuild => [] | LoaderKept => held end.

(** a sequence of Build calls on one Builder: the result of every call *)
Fixpoint lrun (p : loader_policy) (fs : bfiles) (roots : list name) (kind : name -> skind)
         (calls : list (list name)) (held : list node) : list cres :=
  match calls with
  | [] => []
  | ts :: r =>
      match run_from (start_loaded p held) fs roots kind ts with
      | (res, held') => res :: lrun p fs roots kind r held'
      end
  end.

(** ** Per call *)
Lemma load_from_nil fs roots kind ts : fst (load_from [] fs roots kind ts) = load_nodes fs roots kind ts.
Proof.
  unfold load_from, load_nodes. destruct (read_roots fs roots) as [st|]; [|reflexivity].
  destruct (r_errs st); [|reflexivity].
  destruct (load_all (r_nodes st) kind ts (mkL [] [] [])) as [s|]; [|reflexivity].
  destruct (l_errs s); reflexivity.
Qed.

Lemma run_from_nil fs roots kind ts : fst (run_from [] fs roots kind ts) = c11_run fs roots kind ts.
Proof.
  unfold run_from, c11_run. rewrite <- load_from_nil.
  destruct (load_from [] fs roots kind ts) as [[|es|L] l]; reflexivity.
Qed.

(** With a loader per call, every call of a sequence on one Builder gives
    what that call alone gives ([c11_run]: the subject of every theorem of
    Caco/LoadProofs.v), whatever was built before and whatever a Builder held
    at the start. *)
Theorem lrun_per_build fs roots kind : forall calls held,
  lrun LoaderPerBuild fs roots kind calls held = map (c11_run fs roots kind) calls.
Proof.
  induction calls as [|ts r IH]; intros held; [reflexivity|].
  simpl. pose proof (run_from_nil fs roots kind ts) as H.
  destruct (run_from [] fs roots kind ts) as [res held']. simpl in H. subst res.
  now rewrite IH.
Qed.

(** ** A kept loader: refuted *)

(** p0/b; p0/a -> b; p0/d -> b, nothing (dangling); p0/top -> a, d *)
Definition kl_files : bfiles :=
  [ ("p0", [ DRule "p0/b" [] []; DRule "p0/a" ["p0/b"] [];
             DRule "p0/d" ["p0/b"; "p0/nothing"] []; DRule "p0/top" ["p0/a"; "p0/d"] [] ]);
    ("p1", [ DRule "p1/x" ["p0/a"; "p1/y"] []; DRule "p1/y" ["p1/x"] [] ]) ].

Definition kl_kind : name -> skind := fun _ => KNone.

(** First call over the dangling dependency: an error (both policies).  The
    same call again on the same Builder: with the loader kept, NO load error;
    the build walk starts and only fails at the missing node. *)
Theorem kept_loader_misses_dangling_refuted :
  lrun LoaderKept kl_files ["p0"; "p1"] kl_kind [["p0/d"]; ["p0/d"]; ["p0/top"]] [] =
    [CErr [EStat "p0/nothing"]; CMissing; CMissing] /\
  lrun LoaderPerBuild kl_files ["p0"; "p1"] kl_kind [["p0/d"]; ["p0/d"]; ["p0/top"]] [] =
    [CErr [EStat "p0/nothing"]; CErr [EStat "p0/nothing"]; CErr [EStat "p0/nothing"]].
Proof. split; vm_compute; reflexivity. Qed.

(** First call over the cycle x -> y -> x: an error.  Again, loader kept: no
    error, and the build walk does not terminate (the model's fuel runs out;
    the real [buildNode] recurses until the stack overflows). *)
Theorem kept_loader_misses_cycle_refuted :
  lrun LoaderKept kl_files ["p0"; "p1"] kl_kind [["p1/x"]; ["p1/x"]] [] =
    [CErr [ECycle ["p1/x"; "p1/y"]]; COutOfFuel] /\
  lrun LoaderPerBuild kl_files ["p0"; "p1"] kl_kind [["p1/x"]; ["p1/x"]] [] =
    [CErr [ECycle ["p1/x"; "p1/y"]]; CErr [ECycle ["p1/x"; "p1/y"]]].
Proof. split; vm_compute; reflexivity. Qed.

(** good targets before and after are unaffected either way *)
Example kept_loader_good_calls :
  lrun LoaderKept kl_files ["p0"; "p1"] kl_kind [["p0/a"]; ["p0/d"]; ["p0/a"]] [] =
    [CExec ["p0/b"; "p0/a"]; CErr [EStat "p0/nothing"]; CExec ["p0/b"; "p0/a"]].
Proof. vm_compute. reflexivity. Qed.
