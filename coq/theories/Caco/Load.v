(** caco3 loader and build-order model (C11; reused by C10).

    Models, as small total functions:
    - [loader.readBuildFile] (caco3/loader.go) reading BUILD files
      recursively through [sub_builds], with the per-loader set of
      directories already read (the repaired code) and, separately, the
      pre-repair recursion without that set ([read_dir_legacy]);
    - [loader.register] / [registerOuts];
    - [loader.load1] with the on-stack tracer (caco3/load_tracer.go), the
      [loaded] memo and auto-registered source files;
    - [loadNodes];
    - the depth-first walk with memo of [Builder.buildNode]
      (caco3/builder.go), generic in what is done at each node ([dfs]).

    Names are the strings the code uses after [makeRelPath]/[makePath]
    (those functions belong to C12).  Loops that are not structurally
    recursive carry explicit fuel (recursion depth); [None] = out of fuel,
    excluded by the theorems of LoadProofs.v. *)
From Coq Require Import List String Bool Arith.
Import ListNotations.
Local Open Scope string_scope.

Definition name := string.

Definition mem (x : name) (l : list name) : bool := existsb (String.eqb x) l.

Fixpoint lookup {A : Type} (k : name) (l : list (name * A)) : option A :=
  match l with
  | [] => None
  | (k', v) :: r => if String.eqb k k' then Some v else lookup k r
  end.

(** ** Sorting as [sort.Strings] over the keys of a Go map (sorted, no
    duplicates). *)
Fixpoint insert_sorted (x : name) (l : list name) : list name :=
  match l with
  | [] => [x]
  | y :: r =>
      if String.eqb x y then l
      else if String.leb x y then x :: l
      else y :: insert_sorted x r
  end.

Definition sort_dedup (l : list name) : list name :=
  fold_right insert_sorted [] l.

(** ** Errors ([lexing.ErrorList], capped at [max_errs] entries). *)
Inductive lerr :=
| EUnnamed                       (* "rule has no name" *)
| ESelectNone                    (* "... select no files" (file_set; used by C10) *)
| EEmptyName                     (* "node name is empty" *)
| EDup (n : name)                (* "node with name %q redeclared" *)
| EPrev                          (* "  previously defined here" *)
| ECycle (stack : list name)     (* "has circular dependency: %q" *)
| EStat (n : name)               (* "stat %q: ..." *)
| EResolve (n : name)            (* "cannot resolve %q" *)
| EOther.                        (* anything else that makes a file an error
                                    (syntax errors); compared loosely *)

Definition max_errs : nat := 20.

Definition add_err (e : lerr) (l : list lerr) : list lerr :=
  if Nat.ltb (List.length l) max_errs then (l ++ [e])%list else l.

Definition add_errs (es : list lerr) (l : list lerr) : list lerr :=
  fold_left (fun l e => add_err e l) es l.

(** ** Nodes *)
Inductive ntyp := TSrc | TRule | TOut.

Record node := mkNode { nname : name; ntype : ntyp; ndeps : list name }.

Fixpoint find_node (k : name) (l : list node) : option node :=
  match l with
  | [] => None
  | n :: r => if String.eqb k (nname n) then Some n else find_node k r
  end.

Definition has_node (k : name) (l : list node) : bool :=
  match find_node k l with Some _ => true | None => false end.

(** ** Declarations of one BUILD file, as [readBuildFile(env, p)] sees them
    after name resolution. *)
Inductive decl :=
| DRule (nm : name) (deps outs : list name)
| DBad (e : lerr)                 (* a rule that makes the file an error:
                                     unnamed, or a file_set selecting nothing *)
| DSub (dirs : list name).

Definition bfiles := list (name * list decl).

Definition file_errs (ds : list decl) : list lerr :=
  flat_map (fun d => match d with DBad e => [e] | _ => [] end) ds.

Definition sub_dirs (ds : list decl) : list name :=
  flat_map (fun d => match d with DSub l => l | _ => [] end) ds.

Record rstate := mkR {
  r_nodes : list node;     (* loader.nodes, in registration order *)
  r_errs : list lerr;
  r_seen : list name       (* directories whose BUILD file was read *)
}.

Definition r_init : rstate := mkR [] [] [].

Definition r_err (e : lerr) (st : rstate) : rstate :=
  mkR (r_nodes st) (add_err e (r_errs st)) (r_seen st).

(** [loader.register]; every node registered while reading has a position,
    so a redeclaration reports two lines. *)
Definition register (n : node) (st : rstate) : rstate :=
  if String.eqb (nname n) "" then r_err EEmptyName st
  else if has_node (nname n) (r_nodes st)
       then r_err EPrev (r_err (EDup (nname n)) st)
       else mkR (r_nodes st ++ [n])%list (r_errs st) (r_seen st).

Definition register_decl (st : rstate) (d : decl) : rstate :=
  match d with
  | DRule nm deps outs =>
      fold_left (fun st o => register (mkNode o TOut [nm]) st) outs
                (register (mkNode nm TRule deps) st)
  | _ => st
  end.

Definition ofold {A B : Type} (f : B -> A -> option A) (l : list B) (a : option A)
  : option A :=
  fold_left (fun oa b => match oa with Some a => f b a | None => None end) l a.

(** [loader.readBuildFile(p)] of the repaired code: a directory is read at
    most once per loader. *)
Fixpoint read_dir (fuel : nat) (fs : bfiles) (p : name) (st : rstate)
  : option rstate :=
  match fuel with
  | O => None
  | S f =>
      if mem p (r_seen st) then Some st
      else
        let st := mkR (r_nodes st) (r_errs st) (p :: r_seen st) in
        match lookup p fs with
        | None => Some st                         (* no build file present *)
        | Some ds =>
            match file_errs ds with
            | (_ :: _) as es => Some (mkR (r_nodes st) (add_errs es (r_errs st)) (r_seen st))
            | [] =>
                let st := fold_left register_decl ds st in
                ofold (read_dir f fs) (sort_dedup (sub_dirs ds)) (Some st)
            end
        end
  end.

(** The recursion as it was before the repair: no record of what was read. *)
Fixpoint read_dir_legacy (fuel : nat) (fs : bfiles) (p : name) (st : rstate)
  : option rstate :=
  match fuel with
  | O => None
  | S f =>
      match lookup p fs with
      | None => Some st
      | Some ds =>
          match file_errs ds with
          | (_ :: _) as es => Some (mkR (r_nodes st) (add_errs es (r_errs st)) (r_seen st))
          | [] =>
              let st := fold_left register_decl ds st in
              ofold (read_dir_legacy f fs) (sort_dedup (sub_dirs ds)) (Some st)
          end
      end
  end.

Definition read_fuel (fs : bfiles) : nat := S (List.length fs).

Definition read_roots (fs : bfiles) (roots : list name) : option rstate :=
  ofold (read_dir (read_fuel fs) fs) (sort_dedup roots) (Some r_init).

Definition read_roots_legacy (fuel : nat) (fs : bfiles) (roots : list name)
  : option rstate :=
  ofold (read_dir_legacy fuel fs) (sort_dedup roots) (Some r_init).

(** ** Loading the requested names *)

(** What [os.Lstat(env.src(name))] says about a name that is no registered
    node. *)
Inductive skind := KNone | KFile | KOther.

Record lstate := mkL {
  l_stack : list name;      (* loadTracer.trace, newest first *)
  l_loaded : list node;     (* loader.loaded, newest first *)
  l_errs : list lerr
}.

Definition l_err (e : lerr) (s : lstate) : lstate :=
  mkL (l_stack s) (l_loaded s) (add_err e (l_errs s)).

Definition src_node (nm : name) : node := mkNode nm TSrc [].

Section Load.
  Variable ns : list node.          (* registered nodes after reading *)
  Variable kind : name -> skind.

  Fixpoint load1 (fuel : nat) (nm : name) (s : lstate) : option lstate :=
    match fuel with
    | O => None
    | S f =>
        if mem nm (l_stack s) then Some (l_err (ECycle (rev (l_stack s))) s)
        else if has_node nm (l_loaded s) then Some s
        else
          match find_node nm ns with
          | Some n =>
              match ofold (load1 f) (ndeps n)
                          (Some (mkL (nm :: l_stack s) (l_loaded s) (l_errs s))) with
              | None => None
              | Some s1 => Some (mkL (l_stack s) (n :: l_loaded s1) (l_errs s1))
              end
          | None =>
              match kind nm with
              | KFile =>
                  (* register rejects the empty name but the node is still
                     put into [loaded] *)
                  Some (mkL (l_stack s) (src_node nm :: l_loaded s)
                            (if String.eqb nm "" then add_err EEmptyName (l_errs s)
                             else l_errs s))
              | KNone => Some (l_err (EStat nm) s)
              | KOther => Some (l_err (EResolve nm) s)
              end
          end
    end.

  Definition load_fuel : nat := S (List.length ns).

  Definition load_all (targets : list name) (s : lstate) : option lstate :=
    ofold (load1 load_fuel) targets (Some s).
End Load.

(** ** [loadNodes] *)
Inductive lresult :=
| LOutOfFuel
| LErr (es : list lerr)
| LOk (loaded : list node).      (* newest first *)

Definition kind_of (files dirs : list name) (nm : name) : skind :=
  if mem nm files then KFile else if mem nm dirs then KOther else KNone.

Definition load_nodes (fs : bfiles) (roots : list name) (kind : name -> skind)
           (targets : list name) : lresult :=
  match read_roots fs roots with
  | None => LOutOfFuel
  | Some st =>
      match r_errs st with
      | (_ :: _) as es => LErr es
      | [] =>
          match load_all (r_nodes st) kind targets (mkL [] [] []) with
          | None => LOutOfFuel
          | Some s =>
              match l_errs s with
              | (_ :: _) as es => LErr es
              | [] => LOk (l_loaded s)
              end
          end
      end
  end.

(** ** [Builder.buildNodes] / [buildNode]: depth-first, dependencies first,
    memo per Build.  [visit] is what happens at a node once its
    dependencies are done (digest, cache, execution); it may fail, which
    aborts the whole build. *)
Section Dfs.
  Variable St : Type.
  Variable Er : Type.
  Variable L : list node.                     (* buildContext.nodes *)
  Variable visit : node -> St -> St + Er.
  Variable missing : name -> name -> Er.      (* "dep %q for %q not found" *)

  Definition dstate : Type := (list name * St)%type.   (* ctx.built keys, rest *)

  Definition dres : Type := (dstate + Er)%type.

  Definition dstep (f : name -> node -> dstate -> option dres)
             (parent : name) (r : option dres) (dep : name) : option dres :=
    match r with
    | None => None
    | Some (inr e) => Some (inr e)
    | Some (inl bs) =>
        match find_node dep L with
        | None => Some (inr (missing dep parent))
        | Some dn => f dep dn bs
        end
    end.

  Fixpoint dfs (fuel : nat) (n : node) (bs : dstate) : option dres :=
    match fuel with
    | O => None
    | S f =>
        if mem (nname n) (fst bs) then Some (inl bs)
        else
          match fold_left (dstep (fun _ dn bs => dfs f dn bs) (nname n))
                          (ndeps n) (Some (inl bs)) with
          | None => None
          | Some (inr e) => Some (inr e)
          | Some (inl (built, st)) =>
              match visit n st with
              | inl st' => Some (inl (nname n :: built, st'))
              | inr e => Some (inr e)
              end
          end
    end.

  Definition dfs_fuel : nat := S (List.length L).

  (** [buildNodes]: the requested nodes in order; sources are skipped. *)
  Definition dfs_targets (targets : list name) (bs : dstate) : option dres :=
    fold_left (fun r t =>
      match r with
      | None => None
      | Some (inr e) => Some (inr e)
      | Some (inl bs) =>
          match find_node t L with
          | None => Some (inl bs)       (* cannot happen after a successful load *)
          | Some n =>
              match ntype n with
              | TSrc => Some (inl bs)
              | _ => dfs dfs_fuel n bs
              end
          end
      end) targets (Some (inl bs)).
End Dfs.

(** ** C11 observable: the order of "BUILD <rule>" lines with an empty cache
    and rules that do not fail. *)
Definition exec_visit (n : node) (ex : list name) : list name + unit :=
  match ntype n with
  | TRule => inl (ex ++ [nname n])%list
  | _ => inl ex
  end.

Inductive cres :=
| COutOfFuel
| CErr (es : list lerr)
| CMissing                      (* dep not found at build time *)
| CExec (order : list name).

Definition exec_order (L : list node) (targets : list name) : cres :=
  match dfs_targets (list name) unit L exec_visit (fun _ _ => tt) targets ([], []) with
  | None => COutOfFuel
  | Some (inr _) => CMissing
  | Some (inl (_, ex)) => CExec ex
  end.

Definition c11_run (fs : bfiles) (roots : list name) (kind : name -> skind)
           (targets : list name) : cres :=
  match load_nodes fs roots kind targets with
  | LOutOfFuel => COutOfFuel
  | LErr es => CErr es
  | LOk L => exec_order L targets
  end.
