(** Correspondence evaluator for C12: run the model on the inputs the
    harness fed to Go's path package and to caco3, and compare with what was
    observed. *)
From Coq Require Import List NArith Bool String.
From Verif Require Import Lib.Path Caco.Names Caco.Match Caco.FileSet Caco.NamesGenDefs Gen.CacoConsts.
Import ListNotations.
Local Open Scope N_scope.

Fixpoint strs_eqb (a b : list str) : bool :=
  match a, b with
  | [], [] => true
  | x :: a', y :: b' => str_eqb x y && strs_eqb a' b'
  | _, _ => false
  end.

Definition suffix_of (fn : string) : str :=
  match find (fun ns => String.eqb (fst ns) fn) gen_out_suffixes with
  | Some (_, s) => s
  | None => []
  end.

Inductive rkind := RBundle | RDownload | RDockerRun | RSubBuilds.

(** Names a rule declares (harness/cmd/c12: the two hostile strings [a], [b]
    fill the fields as listed there). *)
Definition rule_names (k : rkind) (p a b : str) : option (str * list str * list str) :=
  match k with
  | RBundle => Some (make_rel_path p a, [make_path p b; make_path p a], [])
  | RDownload =>
      if is_empty b then None
      else Some (make_rel_path p a, [], [make_rel_path p b])
  | RDockerRun =>
      let image := make_path p b in
      Some (make_rel_path p a,
            with_suffix image (suffix_of "dockerSumOut") ::
              sort_set [make_path p a; make_path p b; make_path p a],
            sort_set [make_rel_path p b])
  | RSubBuilds => Some ([], [make_rel_path p a; make_rel_path p b], [])
  end.

Inductive ccase :=
| CClean (s out : str)
| CPJoin (elems : list str) (out : str)
| CMatch (pat s : str) (out err fout ferr : bool)
| CRel (p f out : str)
| CAbs (p f out : str)
| CSrc (dir : str) (elems : list str) (out : str)
| CSuffix (s : str) (outs : list str)
| CFileSet (src_base : str) (tree : list tentry) (p : str) (r : rule) (err : N) (name : str) (files : list str)
| CRule (k : rkind) (p a b : str) (err : bool) (name : str) (deps outs : list str).

Definition check_case (c : ccase) : bool :=
  match c with
  | CClean s out => str_eqb (clean s) out
  | CPJoin elems out => str_eqb (path_join elems) out
  | CMatch pat s out err fout ferr =>
      (* path.Match and filepath.Match *)
      match go_match pat s with
      | MTrue => negb err && out
      | MFalse => negb err && negb out
      | MBad => err
      | MFuel => false
      end &&
      match fp_match pat s with
      | MTrue => negb ferr && fout
      | MFalse => negb ferr && negb fout
      | MBad => ferr
      | MFuel => false
      end
  | CRel p f out => str_eqb (make_rel_path p f) out
  | CAbs p f out => str_eqb (make_path p f) out
  | CSrc dir elems out => str_eqb (dir_file_path dir elems) out
  | CSuffix s outs =>
      strs_eqb [with_suffix s (suffix_of "fileSetOut"); with_suffix s (suffix_of "dockerSumOut");
                with_suffix s (suffix_of "dockerTarOut")] outs
  | CFileSet src_base tree p r err name files =>
      match file_set gen_excl src_base tree p r with
      | FsOk n fs => (err =? 0) && str_eqb n name && strs_eqb fs files
      | FsErr (SelNoFiles _) => err =? 1
      | FsErr (SelListErr _) => err =? 2
      | FsErr (SelGlobErr _) => err =? 3
      end
  | CRule k p a b err name deps outs =>
      match rule_names k p a b with
      | None => err
      | Some (n, d, o) => negb err && str_eqb n name && strs_eqb d deps && strs_eqb o outs
      end
  end.

Fixpoint mismatches_from (i : nat) (cs : list ccase) : list nat :=
  match cs with
  | [] => []
  | c :: r => if check_case c then mismatches_from (S i) r
              else i :: mismatches_from (S i) r
  end.

Definition mismatches (cs : list ccase) : list nat := mismatches_from 0 cs.
