(** caco3's [sameFileStat] (file_stat.go) as it is written NOW
    (Gen/CodeCaco.v, translated by gen/gotrans.go on every run): on a file
    that can be stat'ed it is the model's [stat_eqb] (size, mtime, mode,
    symlink target — exactly the components of [Build.stat]); a file that is
    not there is "changed", not an error; any other error is passed on with
    its class.  [newFileStat]'s outcome is a parameter.  Candidates for the
    counterexample search: CodeCandsBuild.v. *)
From Coq Require Import String Ascii.
From Coq Require Import List NArith ZArith Bool Lia.
From Verif Require Import Lib.Path Lib.GoLib Caco.Build Caco.BuildProofs Gen.CodeCaco Caco.CodeCandsBuild.
Import ListNotations.
Local Open Scope N_scope.

Lemma N_of_ascii_eqb a b : (N_of_ascii a =? N_of_ascii b) = Ascii.eqb a b.
Proof.
  apply eq_true_iff_eq. rewrite N.eqb_eq, Ascii.eqb_eq. split; [|congruence].
  intros H. apply (f_equal ascii_of_N) in H. now rewrite !ascii_N_embedding in H.
Qed.

Lemma str_eqb_bs x y : str_eqb (bs x) (bs y) = String.eqb x y.
Proof.
  revert y. induction x as [|a x IH]; intros [|b y]; try reflexivity.
  unfold bs in *. cbn [list_ascii_of_string map str_eqb String.eqb].
  rewrite IH, N_of_ascii_eqb. destruct (Ascii.eqb a b); reflexivity.
Qed.

Lemma gen_sameFileStat_is_model : forall cur st,
  run_sameFileStat (true, None) cur st = (stat_eqb cur st, None).
Proof.
  intros cur st. unfold run_sameFileStat, gen_caco3_sameFileStat, stat_eqb, go_str_eqb.
  cbn [go_isnil]. cbv zeta. rewrite ?str_eqb_bs, ?Z_of_N_eqb.
  go_cases; go_atoms; go_leaf.
Qed.

(** A file that is gone is reported as changed without an error; any other
    failure of the stat is an error of the same class. *)
Lemma code_sameFileStat_errors : forall present k m cur st,
  run_sameFileStat (present, Some (GoErr k m)) cur st =
    if String.eqb k "NotFound" then (false, None)
    else (false, Some (GoErr k ("check current: " ++ m)%string)).
Proof.
  intros. unfold run_sameFileStat, gen_caco3_sameFileStat, errcode_Is, errcode_Annotate.
  cbn [go_isnil]. cbv zeta. go_cases; go_leaf.
Qed.

(** Read over the code: "same" means the very same stat record. *)
Lemma code_sameFileStat_iff : forall cur st,
  fst (run_sameFileStat (true, None) cur st) = true <-> cur = st.
Proof. intros. rewrite gen_sameFileStat_is_model. cbn [fst]. apply stat_eqb_spec. Qed.
