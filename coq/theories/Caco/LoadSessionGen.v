(** The lifetime of the loader in the CURRENT source, decided on what the
    translator extracts (Gen/CacoBuild.v, [emitLifetimes] in
    gen/caco_build.go), and the statement of Caco/LoadSession.v for the
    policy the source has.

    The loader is per [loadNodes] call exactly when
    - [loadNodes] begins with [l := newLoader(env)], and [newLoader] returns a
      composite literal whose tables are all made on the spot;
    - nothing but the workspace memo and the two per-call hooks is ever
      written on the Builder's [env] ([env_writes]: every assignment to a field
      of [env], through [env.], [b.env.], [l.env.] or inside a method of
      [env]), and the fields of [env] are the frozen ones (no loader, no table
      of parsed build files among them);
    - a node enters a [loaded] map only in [load1], at the two frozen places
      ([loaded_stores]). *)
From Coq Require Import List String Bool Arith.
From Verif Require Import Caco.Load Caco.LoadProofs Caco.LoadGen Caco.LoadSession Caco.LoadArgs Gen.CacoBuild.
Import ListNotations.
Local Open Scope string_scope.

Definition pairs_eqb (a b : list (string * string)) : bool := sk_eqb a b.

Definition loader_per_loadb : bool :=
  match sk_loadNodes with
  | ("assign", "l := newLoader(env)") :: _ => true
  | _ => false
  end &&
  sk_eqb sk_newLoader
    [ ("return", "&loader{ env: env, loaded: make(map[string]*buildNode), nodes: make(map[string]*buildNode), read: make(map[string]bool), tracer: newLoadTracer(), errList: lexing.NewErrorList(), }") ].

Definition frozen_env_writes : list (string * string) :=
  [ ("Builder.ReadWorkspace", "b.env.workspace");
    ("Builder.buildNodes", "b.env.nodeType");
    ("Builder.buildNodes", "b.env.ruleType") ].

Definition env_writes_frozenb : bool := pairs_eqb env_writes frozen_env_writes.

Definition frozen_loaded_stores : list (string * string) :=
  [ ("loader.load1", "l.loaded[name] = n");
    ("loader.load1", "l.loaded[name] = n") ].

Definition loaded_stores_frozenb : bool := pairs_eqb loaded_stores frozen_loaded_stores.

Definition frozen_layout_env : list (string * string * string) :=
  [ ("dock", "*dock.Client", "");
    ("rootDir", "string", "");
    ("workDir", "string", "");
    ("workSrcPath", "string", "");
    ("srcDir", "string", "");
    ("outDir", "string", "");
    ("workspace", "*Workspace", "");
    ("nodeType", "func(name string) string", "");
    ("ruleType", "func(name string) string", "") ].

Definition frozen_layout_loader : list (string * string * string) :=
  [ ("env", "*env", "");
    ("nodes", "map[string]*buildNode", "");
    ("loaded", "map[string]*buildNode", "");
    ("read", "map[string]bool", "");
    ("tracer", "*loadTracer", "");
    ("errList", "*lexing.ErrorList", "") ].

Fixpoint lay3_eqb (a b : list (string * string * string)) : bool :=
  match a, b with
  | [], [] => true
  | x :: a', y :: b' =>
      String.eqb (fst (fst x)) (fst (fst y)) && String.eqb (snd (fst x)) (snd (fst y)) &&
      String.eqb (snd x) (snd y) && lay3_eqb a' b'
  | _, _ => false
  end.

Definition env_layout_frozenb : bool :=
  lay3_eqb layout_env frozen_layout_env && lay3_eqb layout_loader frozen_layout_loader.

(** In [load1] a registered node enters [loaded] after its dependencies were
    loaded (the order the model mirrors). *)
Definition load1_order_okb : bool :=
  before ("call", "l.load(n.deps, pos)") ("assign", "l.loaded[name] = n") sk_loader_load1.

(** The loader policy of the current source.  Anything the decision procedure
    does not recognise counts as a kept loader (no theorem then). *)
Definition loader_policy_of_source : loader_policy :=
  if loader_per_loadb && env_writes_frozenb && env_layout_frozenb then LoaderPerBuild else LoaderKept.

Lemma gen_loader_per_load : loader_per_loadb = true.
Proof. vm_compute. reflexivity. Qed.

Lemma gen_env_writes_frozen : env_writes_frozenb = true.
Proof. vm_compute. reflexivity. Qed.

Lemma gen_env_layout_frozen : env_layout_frozenb = true.
Proof. vm_compute. reflexivity. Qed.

Lemma gen_loaded_stores_frozen : loaded_stores_frozenb = true /\ load1_order_okb = true.
Proof. split; vm_compute; reflexivity. Qed.

Lemma gen_loader_policy_per_build : loader_policy_of_source = LoaderPerBuild.
Proof. vm_compute. reflexivity. Qed.

Lemma gen_loader_made_per_build :
  loader_policy_of_source = LoaderPerBuild /\ loader_per_loadb = true /\ env_writes_frozenb = true /\
  env_layout_frozenb = true /\ loaded_stores_frozenb = true /\ load1_order_okb = true.
Proof. repeat split; vm_compute; reflexivity. Qed.

(** ** Every call of a sequence on one Builder, for the policy of the source *)
Theorem source_lrun_per_call : forall fs roots kind calls held,
  lrun loader_policy_of_source fs roots kind calls held = map (c11_run fs roots kind) calls.
Proof. rewrite gen_loader_policy_per_build. exact lrun_per_build. Qed.

(** ... hence the error characterisation holds for every call, whatever was
    built on the Builder before: the k-th call reports an error exactly when
    something is wrong with the build files or with what ITS targets reach. *)
Theorem source_lrun_error_iff : forall fs roots kind calls held k ts,
  nth_error calls k = Some ts ->
  (exists es, nth_error (lrun loader_policy_of_source fs roots kind calls held) k = Some (CErr es) /\ es <> []) <->
  read_problem fs roots \/ graph_problem fs roots kind ts.
Proof.
  intros fs roots kind calls held k ts Hk. rewrite source_lrun_per_call.
  rewrite <- (c11_error_iff fs roots kind ts). split.
  - intros (es & Hn & Hes). exists es. split; [|assumption].
    rewrite nth_error_map, Hk in Hn. simpl in Hn. now inversion Hn.
  - intros (es & Hr & Hes). exists es. split; [|assumption].
    rewrite nth_error_map, Hk. simpl. now rewrite Hr.
Qed.

(** ... and a call that executes, executes exactly what its targets reach,
    dependencies first. *)
Theorem source_lrun_exec_sound : forall fs roots kind calls held k ts ex,
  nth_error calls k = Some ts ->
  nth_error (lrun loader_policy_of_source fs roots kind calls held) k = Some (CExec ex) ->
  NoDup ex /\ (forall r, In r ex <-> reachable_rule fs roots ts r).
Proof.
  intros fs roots kind calls held k ts ex Hk Hn. rewrite source_lrun_per_call in Hn.
  rewrite nth_error_map, Hk in Hn. simpl in Hn. inversion Hn as [Hr].
  destruct (c11_exec_sound fs roots kind ts ex Hr) as (H1 & H2 & _). split; assumption.
Qed.

(** ** The arguments of a call are the caller's (Caco/LoadArgs.v)

    [param_writes]: every assignment to an element of a slice or map
    PARAMETER ([p[i] = ...]) and every [append] / [copy] / [sort.*] whose
    first argument is a slice parameter, in any function of the package.
    There is none: no function writes through a slice or map it was handed
    (in particular [Build] resolves its targets into a new slice, [buildNodes]
    and [load] only read theirs). *)
Definition params_not_writtenb : bool := match param_writes with [] => true | _ => false end.

Definition args_policy_of_source : args_policy :=
  if params_not_writtenb && sk_eqb (firstn 9 sk_builder_Build)
       [ ("init", "w := b.env.workSrcPath"); ("if", "w != """"");
         ("decl", "var absPaths []string"); ("range", "_, r := range rules");
         ("assign", "p := makePath(w, r)"); ("assign", "absPaths = append(absPaths, p)");
         ("endrange", ""); ("assign", "rules = absPaths"); ("endif", "") ]
  then ArgsCopied else ArgsInPlace.

Lemma gen_params_not_written : params_not_writtenb = true.
Proof. vm_compute. reflexivity. Qed.

Lemma gen_args_policy_copied : args_policy_of_source = ArgsCopied.
Proof. vm_compute. reflexivity. Qed.

Lemma gen_params_not_written_and_copied :
  params_not_writtenb = true /\ args_policy_of_source = ArgsCopied.
Proof. split; vm_compute; reflexivity. Qed.

Theorem source_build_does_not_write_targets : forall w slice,
  snd (build_call args_policy_of_source w slice) = slice.
Proof. rewrite gen_args_policy_copied. exact build_does_not_write_targets. Qed.

Theorem source_same_slice_same_result : forall fs roots kind w slice n held,
  lrun loader_policy_of_source fs roots kind (same_slice_calls args_policy_of_source w slice n) held =
  repeat (c11_run fs roots kind (resolve_targets w slice)) n.
Proof. rewrite gen_args_policy_copied, gen_loader_policy_per_build. exact same_slice_same_result. Qed.

(** ** The build file of a package is what the path resolves to (Caco/LoadLinks.v)

    [readBuildFile] (the function, not the loader's method) tests the build
    file through [osutil.IsRegular] and makes no stat call of its own, and
    [osutil.IsRegular] calls [os.Stat] (follows symbolic links), not
    [os.Lstat]. *)
Definition calls_of (caller : string) : list string :=
  map (fun e => snd e) (filter (fun e => String.eqb (fst (fst e)) caller) call_edges).

Definition pair_mem (a b : string) (l : list (string * string)) : bool :=
  existsb (fun p => String.eqb (fst p) a && String.eqb (snd p) b) l.

Definition build_file_follows_linksb : bool :=
  existsb (String.eqb "osutil.IsRegular") (calls_of "readBuildFile") &&
  negb (existsb (String.eqb "os.Lstat") (calls_of "readBuildFile")) &&
  negb (existsb (String.eqb "os.Stat") (calls_of "readBuildFile")) &&
  pair_mem "osutil.IsRegular" "os.Stat" osutil_stat_calls &&
  negb (pair_mem "osutil.IsRegular" "os.Lstat" osutil_stat_calls).

Lemma gen_build_file_follows_links : build_file_follows_linksb = true.
Proof. vm_compute. reflexivity. Qed.
