(** caco3: several file sets in one build - no state between them (C12, round 3).

    All file sets of the build files are made ([newFileSet]) one after the
    other with the same [env] while the build files are read.  In the model a
    file set is [file_set x src_base tree p r]: a function of the source tree
    and the rule's own patterns, so a sequence of rules is a [map]
    ([file_sets_seq_pointwise]: what a rule lists does not depend on which
    rules were made before it, nor on their order).

    [listings_seq] makes the recursive listings explicit as a sequence of
    requests with a policy: [ListPerCall] (every request walks: the code) or
    [ListSharedInPlace] - a listing kept per walked directory that also serves
    the directories beneath it by FILTERING IN PLACE ([sub := files[:0]]; append):
    the kept listing's own first slots are overwritten, and the next request
    for the ancestor loses the files sorting before the sub-directory
    ([shared_listing_in_place_refuted]). *)
From Coq Require Import List NArith Bool String Arith.
From Verif Require Import Lib.Path Caco.Names Caco.Match Caco.FileSet Caco.FileSetProofs.
Import ListNotations.
Local Open Scope N_scope.

(** the file sets of a sequence of rules, made in order with one env *)
Definition file_sets_seq (x : excl) (src_base : str) (tree : list tentry) (p : str) (rs : list rule)
  : list fs_result := map (file_set x src_base tree p) rs.

(** Rule [k] of any sequence lists what it lists alone. *)
Theorem file_sets_seq_pointwise x sb tree p rs k r :
  nth_error rs k = Some r ->
  nth_error (file_sets_seq x sb tree p rs) k = Some (file_set x sb tree p r).
Proof. intros H. unfold file_sets_seq. now rewrite nth_error_map, H. Qed.

(** ... in particular whatever stands before it *)
Corollary file_set_independent_of_earlier_rules x sb tree p before r after :
  nth_error (file_sets_seq x sb tree p (before ++ r :: after)) (List.length before) =
  Some (file_set x sb tree p r).
Proof.
  apply file_sets_seq_pointwise. rewrite nth_error_app2 by apply le_n.
  now rewrite PeanoNat.Nat.sub_diag.
Qed.

(** ** The recursive listings as a sequence of requests *)

Inductive list_policy := ListPerCall | ListSharedInPlace.

Definition lcache := list (str * list str).      (* walked directory -> kept listing *)

(** the kept listing of an ancestor of [dir] (or of [dir] itself) *)
Fixpoint find_ancestor (c : lcache) (dir : str) : option (str * list str) :=
  match c with
  | [] => None
  | (d, files) :: r =>
      if is_empty d || str_eqb d dir || has_prefix dir (d ++ [slash]) then Some (d, files)
      else find_ancestor r dir
  end.

Fixpoint set_listing (c : lcache) (d : str) (files : list str) : lcache :=
  match c with
  | [] => [(d, files)]
  | (d', f') :: r => if str_eqb d d' then (d, files) :: r else (d', f') :: set_listing r d files
  end.

(** [sub := files[:0]; for f in files { if under dir { sub = append(sub, f) } }]:
    the result, and the backing array afterwards (its first slots overwritten) *)
Definition filter_in_place (files : list str) (dir : str) : list str * list str :=
  let sub := filter (fun f => is_empty dir || has_prefix f (dir ++ [slash])) files in
  (sub, sub ++ skipn (List.length sub) files).

Definition request (pol : list_policy) (x : excl) (sb : str) (tree : list tentry)
           (c : lcache) (dir : str) : option (list str) * lcache :=
  match pol with
  | ListPerCall => (list_all x sb tree dir, c)
  | ListSharedInPlace =>
      match find_ancestor c dir with
      | Some (d, files) =>
          let '(sub, arr) := filter_in_place files dir in (Some sub, set_listing c d arr)
      | None =>
          match list_all x sb tree dir with
          | Some files => (Some files, set_listing c dir files)
          | None => (None, c)
          end
      end
  end.

Fixpoint listings_seq (pol : list_policy) (x : excl) (sb : str) (tree : list tentry)
         (c : lcache) (dirs : list str) : list (option (list str)) :=
  match dirs with
  | [] => []
  | d :: r => match request pol x sb tree c d with
              | (res, c') => res :: listings_seq pol x sb tree c' r
              end
  end.

(** every request walks: each answer is the listing of its own directory *)
Theorem listings_per_call x sb tree : forall dirs c,
  listings_seq ListPerCall x sb tree c dirs = map (list_all x sb tree) dirs.
Proof. induction dirs as [|d r IH]; intros c; [reflexivity|]. cbn. now rewrite IH. Qed.

(** ** A listing shared and filtered in place: refuted *)
Local Open Scope string_scope.

Definition sq_excl : excl :=
  {| skip_dirs := [bs ".git"]; skip_files := [bs ".gitignore"; bs "COPYING"; bs "tags"; bs ".DS_Store"];
     skip_suffixes := [bs ".caco3"] |}.

Definition sq_tree : list tentry :=
  [ {| t_path := bs "pkg"; t_kind := TDir |}; {| t_path := bs "pkg/a.txt"; t_kind := TFile |};
    {| t_path := bs "pkg/aa"; t_kind := TDir |}; {| t_path := bs "pkg/aa/x"; t_kind := TFile |};
    {| t_path := bs "pkg/docs"; t_kind := TDir |}; {| t_path := bs "pkg/docs/d1.txt"; t_kind := TFile |};
    {| t_path := bs "pkg/docs/d2.txt"; t_kind := TFile |};
    {| t_path := bs "pkg/zz"; t_kind := TDir |}; {| t_path := bs "pkg/zz/z.txt"; t_kind := TFile |} ].

(** all = pkg/**, docs = pkg/docs/**, dist = pkg/** : with the shared listing
    the third request has lost pkg/a.txt and pkg/aa/x (their slots now hold the
    docs files); walking per call the first and third answers are equal. *)
Theorem shared_listing_in_place_refuted :
  listings_seq ListSharedInPlace sq_excl (bs "src") sq_tree [] [bs "pkg"; bs "pkg/docs"; bs "pkg"] =
    [ Some [bs "pkg/a.txt"; bs "pkg/aa/x"; bs "pkg/docs/d1.txt"; bs "pkg/docs/d2.txt"; bs "pkg/zz/z.txt"];
      Some [bs "pkg/docs/d1.txt"; bs "pkg/docs/d2.txt"];
      Some [bs "pkg/docs/d1.txt"; bs "pkg/docs/d2.txt"; bs "pkg/docs/d1.txt"; bs "pkg/docs/d2.txt"; bs "pkg/zz/z.txt"] ] /\
  listings_seq ListPerCall sq_excl (bs "src") sq_tree [] [bs "pkg"; bs "pkg/docs"; bs "pkg"] =
    [ Some [bs "pkg/a.txt"; bs "pkg/aa/x"; bs "pkg/docs/d1.txt"; bs "pkg/docs/d2.txt"; bs "pkg/zz/z.txt"];
      Some [bs "pkg/docs/d1.txt"; bs "pkg/docs/d2.txt"];
      Some [bs "pkg/a.txt"; bs "pkg/aa/x"; bs "pkg/docs/d1.txt"; bs "pkg/docs/d2.txt"; bs "pkg/zz/z.txt"] ].
Proof. split; vm_compute; reflexivity. Qed.
