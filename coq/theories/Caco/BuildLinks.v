(** caco3: sources that are symbolic links (C10, round 3).

    A source of [Caco/Build.v] is its [lstat] record [stat]: size, mtime, mode
    and - for a symbolic link - the target text [st_link].  For a link these
    are the LINK'S OWN numbers (size = length of the target text, the mtime of
    the link itself); nothing is read through the link, neither for the
    digest of the source node ([DSrc nm s]) nor for the entry the file set
    writes ([ESrc nm s]): both are the same value [s], the one [w_src] holds.
    So editing or touching the TARGET of a link (a file that need not be a
    dependency of the set, possibly outside the source tree) changes no
    digest and no output; retargeting or touching the link changes both.

    - [src_entry_is_digested_stat]: the entry written for a source file and
      the digest of its node carry the same stat;
    - [target_edit_changes_nothing]: worlds that differ only in what lies
      behind the links build alike (the model has no such component at all:
      stated with an explicit table of targets that nothing consults);
    - [read_through_link_refuted]: a file set that recorded the size and
      mtime of the file BEHIND a link (os.Stat), under a digest that covers the
      link's lstat only, writes different outputs under equal digests - the
      statement [digest determines output] is false for it. *)
From Coq Require Import List String Bool Arith NArith.
From Verif Require Import Caco.Load Caco.Build Caco.BuildProofs.
Import ListNotations.
Local Open Scope string_scope.

(** The entry [fileSet.build] writes for a source file and the digest
    [buildNodeDigest] computes for its node are made of the same [lstat]. *)
Theorem src_entry_is_digested_stat L rules src always now out n st st' f e :
  find_node f L = Some n -> ntype n = TSrc -> nname n = f ->
  file_entry L src out f = inl e ->
  visit L rules src always now n st = inl st' ->
  exists s, lookup f src = Some s /\ e = ESrc f s /\ lookup f (b_memo st') = Some (DSrc f s).
Proof.
  intros Hf Hty Hnm He Hv. unfold file_entry in He. rewrite Hf, Hty in He.
  destruct (lookup f src) as [s|] eqn:Es; [|discriminate]. injection He as <-.
  exists s. split; [reflexivity|]. split; [reflexivity|].
  unfold visit in Hv. destruct (dep_digests (b_memo st) (ndeps n)); [|discriminate].
  rewrite Hty, Hnm, Es in Hv. injection Hv as <-. unfold remember. cbn [b_memo lookup].
  now rewrite String.eqb_refl.
Qed.

(** ** What lies behind the links *)

(** [os.Stat] of the sources that are links: size and mtime of the file the
    link leads to (absent: dangling, or not a regular file) *)
Definition targets := list (name * (N * N)).

(** a world with what is behind its links; the build consults [bw_world] only *)
Record lworld := mkLW { bw_world : world; bw_targets : targets }.

Definition lbuild (always : bool) (ts : list name) (lw : lworld) : lworld * list name * bres :=
  match build_with always ts (bw_world lw) with
  | (w', ex, r) => (mkLW w' (bw_targets lw), ex, r)
  end.

(** Editing or touching a link's target - whatever it is, a dependency of
    the set or not, inside the source tree or outside - changes nothing: the
    same rules execute, with the same result and the same out/. *)
Theorem target_edit_changes_nothing always ts w tg tg' :
  let '(lw1, e1, r1) := lbuild always ts (mkLW w tg) in
  let '(lw2, e2, r2) := lbuild always ts (mkLW w tg') in
  bw_world lw1 = bw_world lw2 /\ e1 = e2 /\ r1 = r2.
Proof.
  unfold lbuild. cbn [bw_world bw_targets].
  destruct (build_with always ts w) as [[w' ex] r]. cbn. repeat split.
Qed.

(** ** Reading through the link for the output, not for the digest: refuted *)

(** the entry with the size and mtime of the file behind the link *)
Definition through (tg : targets) (e : entry) : entry :=
  match e with
  | ESrc nm s =>
      if String.eqb (st_link s) "" then e
      else match lookup nm tg with
           | Some (size, mtime) => ESrc nm (mkStat size mtime (st_mode s) (st_link s))
           | None => e
           end
  | _ => e
  end.

Definition through_content (tg : targets) (c : option content) : option content :=
  match c with
  | Some (CList l) => Some (CList (map (through tg) l))
  | c => c
  end.

Local Open Scope N_scope.

Definition lk_rules : list rule := [ mkRule "p0/links" (KFileSet ["p0/other.lnk"; "p0/listed.txt"] [] [] []) ].

Definition lk_src : list (name * stat) :=
  [ ("p0/listed.txt", mkStat 7 1001 420 ""); ("p0/unlisted.txt", mkStat 9 1002 420 "");
    ("p0/other.lnk", mkStat 12 1005 134218239 "unlisted.txt") ].

(** The same sources (same lstat of everything, hence the same action
    digest: the cache entry of the first build is a valid hit in the second
    configuration and nothing executes), the target of the link 9 bytes in
    one configuration and 21 in the other: the read-through outputs differ,
    the model's output does not. *)
Theorem read_through_link_refuted :
  let w0 := empty_world lk_rules lk_src in
  let '(w1, e1, r1) := build_with false ["p0/links"] w0 in
  let '(w2, e2, r2) := build_with false ["p0/links"] w1 in
  let tg := [("p0/other.lnk", (9, 1002))] in
  let tg' := [("p0/other.lnk", (21, 1010))] in
  r1 = BOk /\ e1 = ["p0/links"] /\ r2 = BOk /\ e2 = [] /\
  map fst (w_cache w1) = map fst (w_cache w2) /\
  content_at (w_out w1) "p0/links.fileset" = content_at (w_out w2) "p0/links.fileset" /\
  content_at (w_out w1) "p0/links.fileset" =
    Some (CList [ESrc "p0/listed.txt" (mkStat 7 1001 420 "");
                 ESrc "p0/other.lnk" (mkStat 12 1005 134218239 "unlisted.txt")]) /\
  through_content tg (content_at (w_out w1) "p0/links.fileset") <>
  through_content tg' (content_at (w_out w2) "p0/links.fileset").
Proof. vm_compute. repeat split. discriminate. Qed.
