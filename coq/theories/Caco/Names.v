(** caco3 name resolution (build_path.go, env.go): [makeRelPath],
    [makePath], [dirFilePath] (= [env.src]/[env.out]/[env.root]) and the
    output-name suffixes, on top of Lib/Path.v.  Definitions only. *)
From Coq Require Import List NArith Bool.
From Verif Require Import Lib.Path.
Import ListNotations.
Local Open Scope N_scope.

(** [f = path.Clean(path.Join("/", f));
     return strings.TrimPrefix(path.Join("/", p, f), "/")] *)
Definition make_rel_path (p f : str) : str :=
  let f' := clean (path_join [s_slash; f]) in
  trim_slash (path_join [s_slash; p; f']).

(** [if path.IsAbs(f) { return strings.TrimPrefix(path.Clean(f), "/") };
     return makeRelPath(p, f)] *)
Definition make_path (p f : str) : str :=
  if is_rooted f then trim_slash (clean f) else make_rel_path p f.

(** [dirFilePath(dir, ps...)]: [dir] itself without arguments, else
    [filepath.Join(dir, filepath.FromSlash(path.Join(ps...)))]. *)
Definition dir_file_path (dir : str) (ps : list str) : str :=
  match ps with
  | [] => dir
  | _ => filepath_join [dir; path_join ps]
  end.

(** [fileSetOut], [dockerSumOut], [dockerTarOut]: [name + suffix]. *)
Definition with_suffix (name sfx : str) : str := name ++ sfx.

(** Where a string leads from the root: the real elements of
    [Clean("/" + x)]. *)
Definition rsegs (x : str) : list str := norm true (split_slash x).

(** Elements of a slash-separated relative name; the empty name has none. *)
Definition rel_segs (s : str) : list str :=
  match s with [] => [] | _ => split_slash s end.

(** A clean relative name: "" or real elements joined by single slashes. *)
Definition clean_relb (s : str) : bool := forallb goodb (rel_segs s).
