(** Completeness of the greedy chunk loop of [path.Match] (C12, round 3).

    [Match] takes, for every chunk that follows a '*', the FIRST offset at
    which the chunk matches and never comes back to that choice (only the
    last chunk is tried further, until it also exhausts the name).  This is
    complete - it finds a match whenever the declarative reading [dmatch]
    has one - for patterns WITHOUT character classes, on names in which every
    rune is one byte (or for patterns of literals only, on any name):
    [greedy_complete], [go_match_complete_partial].

    The reason: a chunk of literals and '?' has a fixed width, and if it fits
    at the first offset and at a later offset whose gap is free of '/', then
    everything up to the end of the later fit is free of '/'
    ([two_fits_noslash]: a literal '/' of the chunk would have to repeat,
    gap by gap, down into the gap); so what the next '*' has to swallow in
    addition is free of '/'.

    It is NOT complete in general, in two ways ([stmt_match_complete] is
    false):
    - a character class can match '/' ([[^a]] does), so the first fit of a
      class chunk may leave a '/' that no '*' can swallow:
      [Match("*[^a]*b", "x/b")] is false although '*' = "x", [[^a]] = "/",
      '*' = "" is a match ([match_class_incomplete_refuted]);
    - '*' skips BYTES while '?' takes a RUNE, so the first fit of "??" may
      swallow a four-byte rune and the next byte where a fit one byte later
      would not: [Match("*??*X", "\U00010000X")] is false
      ([match_wide_rune_incomplete_refuted]). *)
From Coq Require Import List NArith ZArith Bool Lia Arith.
From Coq Require Import ZifyN ZifyNat ZifyBool.
From Verif Require Import Lib.Path Lib.Utf8 Caco.Match Caco.MatchProofs.
Import ListNotations.
Local Open Scope N_scope.

(** ** Chunks of literals and '?' *)

Definition plain_item (it : item) : bool := match it with IClass _ _ => false | _ => true end.
Definition plain (items : list item) : bool := forallb plain_item items.
Definition lit_item (it : item) : bool := match it with ILit _ => true | _ => false end.
Definition lits (items : list item) : bool := forallb lit_item items.

Definition chunks_plain (l : list (bool * list item)) : bool := forallb (fun c => plain (snd c)) l.
Definition chunks_lits (l : list (bool * list item)) : bool := forallb (fun c => lits (snd c)) l.

(** every rune of the name is one byte (ASCII) *)
Definition narrow (s : str) : bool := forallb (fun b => b <? 128) s.

(** byte [j] of the name is what item [j] demands *)
Fixpoint fits (items : list item) (s : str) : bool :=
  match items, s with
  | [], _ => true
  | ILit b :: r, c :: s' => (b =? c) && fits r s'
  | IAny :: r, c :: s' => negb (c =? slash) && fits r s'
  | _, _ => false
  end.

Lemma narrow_skipn n s : narrow s = true -> narrow (skipn n s) = true.
Proof.
  revert s; induction n as [|n IH]; intros s H; [exact H|]. destruct s as [|c s]; [reflexivity|].
  cbn [skipn]. apply IH. cbn in H. now apply andb_true_iff in H as [_ H].
Qed.

Lemma narrow_app a b : narrow (a ++ b) = narrow a && narrow b.
Proof. apply forallb_app. Qed.

Lemma lits_plain items : lits items = true -> plain items = true.
Proof.
  unfold lits, plain. induction items as [|it r IH]; [reflexivity|]. cbn [forallb]. intros H.
  apply andb_true_iff in H as [H1 H2]. rewrite (IH H2), andb_true_r. now destruct it.
Qed.

(** A plain chunk has a fixed width: it matches exactly when it fits, and
    then consumes one byte per item. *)
Lemma match_items_fits items : forall s,
  plain items = true -> (lits items = true \/ narrow s = true) ->
  match_items items s = if fits items s then Some (skipn (length items) s) else None.
Proof.
  induction items as [|it r IH]; intros s Hp Hw; [reflexivity|].
  cbn [plain forallb] in Hp. apply andb_true_iff in Hp as [Hit Hp].
  destruct s as [|c s'].
  - cbn. now destruct it.
  - assert (Hw' : lits r = true \/ narrow s' = true).
    { destruct Hw as [H|H]; [left|right].
      - cbn in H. now apply andb_true_iff in H as [_ H].
      - cbn in H. now apply andb_true_iff in H as [_ H]. }
    destruct it as [b| |neg rs]; [| |discriminate].
    + cbn [match_items fits length skipn]. destruct (b =? c); [now apply IH|reflexivity].
    + assert (Hc : (c <? 128) = true).
      { destruct Hw as [H|H]; [cbn in H; discriminate|]. cbn in H. now apply andb_true_iff in H as [H _]. }
      cbn [match_items fits length]. destruct (c =? slash); [reflexivity|].
      assert (Hd : snd (decode_rune (c :: s')) = 1%nat) by (cbn [decode_rune]; now rewrite Hc).
      rewrite Hd. cbn [skipn negb andb]. now apply IH.
Qed.

Lemma fits_length items : forall s, fits items s = true -> (length items <= length s)%nat.
Proof.
  induction items as [|it r IH]; intros s H; [cbn; lia|].
  destruct s as [|c s']; [destruct it; discriminate|].
  destruct it as [b| |neg rs]; cbn [fits] in H; try discriminate;
    apply andb_true_iff in H as [_ H]; specialize (IH _ H); cbn; lia.
Qed.

Lemma fits_app a : forall b s, fits (a ++ b) s = fits a s && fits b (skipn (length a) s).
Proof.
  induction a as [|it r IH]; intros b s; [reflexivity|].
  destruct s as [|c s'].
  - cbn [app fits length skipn]. destruct it; reflexivity.
  - destruct it as [x| |neg rs]; cbn [app fits length skipn]; rewrite ?IH, ?andb_assoc; reflexivity.
Qed.

(** only the first [length items] bytes matter *)
Lemma fits_prefix items : forall g m, (length items <= length g)%nat -> fits items (g ++ m) = fits items g.
Proof.
  induction items as [|it r IH]; intros g m Hl; [reflexivity|].
  destruct g as [|c g']; [cbn in Hl; lia|]. cbn [length] in Hl.
  destruct it as [x| |neg rs]; cbn [app fits]; rewrite ?IH by lia; reflexivity.
Qed.

Lemma noslashb_app a b : noslashb (a ++ b) = noslashb a && noslashb b.
Proof. apply forallb_app. Qed.

Lemma noslashb_firstn n s : noslashb s = true -> noslashb (firstn n s) = true.
Proof.
  revert s; induction n as [|n IH]; intros s H; [reflexivity|]. destruct s as [|c s]; [reflexivity|].
  cbn in *. apply andb_true_iff in H as [H1 H2]. now rewrite H1, IH.
Qed.

Lemma noslashb_skipn n s : noslashb s = true -> noslashb (skipn n s) = true.
Proof.
  revert s; induction n as [|n IH]; intros s H; [exact H|]. destruct s as [|c s]; [reflexivity|].
  cbn [skipn]. apply IH. cbn in H. now apply andb_true_iff in H as [_ H].
Qed.

(** two strings fitting the same plain items: if one is free of '/' over the
    width of the items, so is the other *)
Lemma same_template_noslash items : forall g m,
  plain items = true -> fits items g = true -> fits items m = true ->
  noslashb (firstn (length items) g) = true -> noslashb (firstn (length items) m) = true.
Proof.
  induction items as [|it r IH]; intros g m Hp Hg Hm Hn; [reflexivity|].
  cbn [plain forallb] in Hp. apply andb_true_iff in Hp as [Hit Hp].
  destruct g as [|c g']; [destruct it; discriminate|].
  destruct m as [|d m']; [destruct it; discriminate|].
  cbn [length firstn noslashb forallb] in *. apply andb_true_iff in Hn as [Hc Hn].
  destruct it as [x| |neg rs]; [| |discriminate]; cbn [fits] in Hg, Hm;
    apply andb_true_iff in Hg as [Hg1 Hg]; apply andb_true_iff in Hm as [Hm1 Hm].
  - apply N.eqb_eq in Hg1, Hm1. subst c d. rewrite Hc. cbn. now apply (IH g' m').
  - rewrite Hm1. cbn. now apply (IH g' m').
Qed.

Lemma firstn_plus {A} a b (l : list A) : firstn (a + b) l = firstn a l ++ firstn b (skipn a l).
Proof.
  revert l; induction a as [|a IH]; intros l; [reflexivity|].
  destruct l as [|x l]; [cbn; now destruct b|]. cbn. now rewrite IH.
Qed.

(** The key fact.  Plain items that fit at the beginning of [g ++ m] and also
    [length g >= 1] bytes later, with [g] free of '/': the later fit is free of
    '/' as well (so everything up to its end is). *)
Lemma two_fits_noslash : forall w items g m,
  length items = w -> plain items = true -> g <> [] -> noslashb g = true ->
  fits items (g ++ m) = true -> fits items m = true ->
  noslashb (firstn (length items) m) = true.
Proof.
  induction w as [w IH] using (well_founded_induction lt_wf).
  intros items g m Hw Hp Hg Hn Hf1 Hf2.
  destruct (le_lt_dec (length items) (length g)) as [Hle|Hgt].
  - rewrite (fits_prefix items g m Hle) in Hf1.
    apply (same_template_noslash items g m Hp Hf1 Hf2). now apply noslashb_firstn.
  - set (k := length g) in *.
    assert (Hk : (1 <= k)%nat) by (destruct g; [congruence|cbn; lia]).
    rewrite <- (firstn_skipn k items) in Hf1, Hf2, Hp.
    set (i1 := firstn k items) in *. set (i2 := skipn k items) in *.
    assert (Hl1 : length i1 = k) by (unfold i1; rewrite firstn_length; lia).
    assert (Hl2 : length i2 = (length items - k)%nat) by (unfold i2; now rewrite skipn_length).
    unfold plain in Hp. rewrite forallb_app in Hp. apply andb_true_iff in Hp as [Hp1 Hp2].
    rewrite fits_app in Hf1, Hf2. apply andb_true_iff in Hf1 as [Hf1a Hf1b].
    apply andb_true_iff in Hf2 as [Hf2a Hf2b].
    rewrite Hl1 in Hf1b, Hf2b.
    rewrite (fits_prefix i1 g m) in Hf1a by lia.
    assert (E : skipn k (g ++ m) = m).
    { rewrite skipn_app. unfold k. rewrite skipn_all, Nat.sub_diag. reflexivity. }
    rewrite E in Hf1b.
    (* the first k bytes of the later fit *)
    assert (Hm1 : noslashb (firstn k m) = true).
    { rewrite <- Hl1. apply (same_template_noslash i1 g m Hp1 Hf1a Hf2a).
      now apply noslashb_firstn. }
    assert (Hlm : (k <= length m)%nat) by (pose proof (fits_length _ _ Hf2a); lia).
    (* the rest: the same situation for i2 on m *)
    assert (Hrest : noslashb (firstn (length i2) (skipn k m)) = true).
    { apply (IH (length i2) ltac:(lia) i2 (firstn k m) (skipn k m) eq_refl Hp2).
      - intros E0. apply (f_equal (@length N)) in E0. rewrite firstn_length in E0. cbn in E0. lia.
      - exact Hm1.
      - now rewrite firstn_skipn.
      - exact Hf2b. }
    replace (length items) with (k + length i2)%nat by lia.
    rewrite firstn_plus, noslashb_app, Hm1, Hrest. reflexivity.
Qed.

(** ** What the next '*' has to swallow in addition *)

(** A plain chunk that matches at the beginning of [g ++ s] and at [s]
    ([g] non-empty and free of '/'): the first remainder is the second one
    after a stretch free of '/'. *)
Lemma shift_remainder items g s t t' :
  plain items = true -> (lits items = true \/ narrow (g ++ s) = true) ->
  g <> [] -> noslashb g = true ->
  match_items items (g ++ s) = Some t -> match_items items s = Some t' ->
  exists v, t = v ++ t' /\ noslashb v = true.
Proof.
  intros Hp Hw Hg Hn H1 H2.
  assert (Hw2 : lits items = true \/ narrow s = true).
  { destruct Hw as [H|H]; [now left|right]. rewrite narrow_app in H. now apply andb_true_iff in H as [_ H]. }
  rewrite (match_items_fits items _ Hp Hw) in H1. rewrite (match_items_fits items _ Hp Hw2) in H2.
  destruct (fits items (g ++ s)) eqn:F1; [|discriminate].
  destruct (fits items s) eqn:F2; [|discriminate].
  injection H1 as <-. injection H2 as <-.
  set (w := length items).
  pose proof (two_fits_noslash w items g s eq_refl Hp Hg Hn F1 F2) as Hns. fold w in Hns.
  pose proof (fits_length _ _ F2) as Hls. fold w in Hls.
  exists (skipn w (g ++ firstn w s)). split.
  - rewrite <- (firstn_skipn w s) at 1. rewrite app_assoc, skipn_app.
    replace (w - length (g ++ firstn w s))%nat with 0%nat
      by (rewrite app_length, firstn_length; lia).
    reflexivity.
  - apply noslashb_skipn. now rewrite noslashb_app, Hn, Hns.
Qed.

(** ** The chunk loop after a '*', as one search *)

(** the remainder at the first offset (over a prefix free of '/') where the
    chunk matches - and, for the last chunk, leaves nothing *)
Definition fm (items : list item) (last : bool) (name : str) : option str :=
  match match_items items name with
  | Some t => if is_empty t || negb last then Some t else star_scan items last name
  | None => star_scan items last name
  end.

Lemma star_scan_cons items last c name :
  star_scan items last (c :: name) = if c =? slash then None else fm items last name.
Proof.
  cbn [star_scan]. destruct (c =? slash); [reflexivity|]. unfold fm.
  destruct (match_items items name) as [t|]; [|reflexivity].
  destruct last, (is_empty t); reflexivity.
Qed.

Lemma greedy_star items rest name :
  no_items items = false ->
  greedy ((true, items) :: rest) name =
  match fm items (no_chunks rest) name with Some t => greedy rest t | None => false end.
Proof.
  intros Hi. cbn [greedy]. rewrite Hi. cbn [andb]. unfold fm.
  destruct (match_items items name) as [t|]; [|reflexivity].
  destruct (is_empty t || negb (no_chunks rest)); reflexivity.
Qed.

Lemma fm_last_empty items name t : fm items true name = Some t -> is_empty t = true.
Proof.
  revert t; induction name as [|c name IH]; intros t H; unfold fm in H.
  - destruct (match_items items []) as [t0|].
    + rewrite orb_false_r in H. destruct (is_empty t0) eqn:E; [now injection H as <-|discriminate].
    + discriminate.
  - rewrite star_scan_cons in H.
    destruct (match_items items (c :: name)) as [t0|].
    + rewrite orb_false_r in H. destruct (is_empty t0) eqn:E; [now injection H as <-|].
      destruct (c =? slash); [discriminate|]. now apply IH.
    + destruct (c =? slash); [discriminate|]. now apply IH.
Qed.

Lemma fm_narrow items last : forall name t,
  plain items = true -> narrow name = true -> fm items last name = Some t -> narrow t = true.
Proof.
  induction name as [|c name IH]; intros t Hp Hn H; unfold fm in H.
  - rewrite (match_items_fits items [] Hp (or_intror Hn)) in H.
    destruct (fits items []).
    + destruct (is_empty _ || negb last); [|discriminate]. injection H as <-. now apply narrow_skipn.
    + discriminate.
  - assert (Hn' : narrow name = true) by (cbn in Hn; now apply andb_true_iff in Hn as [_ Hn]).
    rewrite star_scan_cons in H.
    rewrite (match_items_fits items (c :: name) Hp (or_intror Hn)) in H.
    destruct (fits items (c :: name)).
    + destruct (is_empty _ || negb last).
      * injection H as <-. now apply narrow_skipn.
      * destruct (c =? slash); [discriminate|]. now apply IH.
    + destruct (c =? slash); [discriminate|]. now apply IH.
Qed.

(** If the chunk matches somewhere behind a gap free of '/' (leaving nothing,
    when it is the last chunk), the search finds a match at or before it: for
    the last chunk one that leaves nothing, otherwise one whose remainder is
    the witness's remainder after a stretch free of '/'. *)
Lemma fm_finds items last : forall g s t',
  plain items = true -> (lits items = true \/ narrow (g ++ s) = true) ->
  noslashb g = true -> match_items items s = Some t' ->
  (last = true -> is_empty t' = true) ->
  exists t, fm items last (g ++ s) = Some t /\
            ((last = true /\ is_empty t = true) \/
             (last = false /\ exists v, t = v ++ t' /\ noslashb v = true)).
Proof.
  induction g as [|c g IH]; intros s t' Hp Hw Hn Hm Hlast.
  - cbn [app]. unfold fm. rewrite Hm.
    destruct last.
    + rewrite (Hlast eq_refl). cbn. exists t'. split; [reflexivity|]. left. now split; [|apply Hlast].
    + rewrite orb_true_r. exists t'. split; [reflexivity|]. right. split; [reflexivity|].
      exists []. now split.
  - cbn [noslashb forallb] in Hn. apply andb_true_iff in Hn as [Hc Hn]. apply negb_true_iff in Hc.
    assert (Hw' : lits items = true \/ narrow (g ++ s) = true).
    { destruct Hw as [H|H]; [now left|right]. cbn in H. now apply andb_true_iff in H as [_ H]. }
    destruct (IH s t' Hp Hw' Hn Hm Hlast) as (t1 & Hfm1 & Hres1).
    change ((c :: g) ++ s) with (c :: (g ++ s)). unfold fm. rewrite star_scan_cons, Hc.
    destruct (match_items items (c :: g ++ s)) as [t0|] eqn:E0.
    + destruct (is_empty t0 || negb last) eqn:Ec.
      * exists t0. split; [reflexivity|]. destruct last.
        -- left. split; [reflexivity|]. now rewrite orb_false_r in Ec.
        -- right. split; [reflexivity|].
           apply (shift_remainder items (c :: g) s t0 t' Hp Hw); try assumption.
           ++ discriminate.
           ++ cbn [noslashb forallb]. now rewrite Hc, Hn.
      * exists t1. now split.
    + exists t1. now split.
Qed.

(** ** Completeness *)

Lemma dstar_empty_noslash name : dstar (fun s0 => is_empty s0) name = true -> noslashb name = true.
Proof.
  induction name as [|c name IH]; [reflexivity|]. cbn [dstar is_empty orb]. intros H.
  apply andb_true_iff in H as [Hc H]. cbn [noslashb forallb]. rewrite Hc. now apply IH.
Qed.

Lemma dstar_prepend (f : str -> bool) v s : noslashb v = true -> dstar f s = true -> dstar f (v ++ s) = true.
Proof.
  induction v as [|c v IH]; intros Hv H; [exact H|]. cbn [noslashb forallb] in Hv.
  apply andb_true_iff in Hv as [Hc Hv]. apply negb_true_iff in Hc.
  cbn [app]. apply dstar_skip; [exact Hc|]. now apply IH.
Qed.

Lemma dstar_witness (f : str -> bool) s :
  dstar f s = true -> exists g s0, s = g ++ s0 /\ noslashb g = true /\ f s0 = true.
Proof.
  induction s as [|c s IH]; cbn [dstar]; intros H.
  - rewrite orb_false_r in H. exists [], []. now repeat split.
  - apply orb_true_iff in H as [H|H]; [exists [], (c :: s); now repeat split|].
    apply andb_true_iff in H as [Hc H].
    destruct (IH H) as (g & s0 & -> & Hg & Hf). exists (c :: g), s0.
    repeat split; [|exact Hf]. unfold noslashb in *. cbn [forallb]. now rewrite Hc, Hg.
Qed.

(** every chunk but the first follows a '*' (chunks are cut at the '*'s) *)
Definition later_stars (l : list (bool * list item)) : bool :=
  match l with [] => true | _ :: r => forallb fst r end.

Theorem greedy_complete chunks : forall name,
  wf_chunks chunks = true -> later_stars chunks = true -> chunks_plain chunks = true ->
  (chunks_lits chunks = true \/ narrow name = true) ->
  dmatch chunks name = true -> greedy chunks name = true.
Proof.
  induction chunks as [|[star items] rest IH]; intros name Hwf Hst Hpl Hw H; [exact H|].
  assert (Hwf' : wf_chunks rest = true).
  { cbn [wf_chunks] in Hwf. destruct rest as [|c2 rest2]; [reflexivity|].
    now apply andb_true_iff in Hwf as [_ Hwf]. }
  cbn [later_stars] in Hst.
  assert (Hst' : later_stars rest = true).
  { destruct rest as [|c2 rest2]; [reflexivity|]. cbn in Hst. now apply andb_true_iff in Hst as [_ Hst]. }
  cbn [chunks_plain forallb snd] in Hpl. apply andb_true_iff in Hpl as [Hp Hpl'].
  assert (Hwi : lits items = true \/ narrow name = true).
  { destruct Hw as [Hl|Hn]; [left|now right]. cbn in Hl. now apply andb_true_iff in Hl as [Hl _]. }
  assert (Hwr : forall t, (lits items = true \/ narrow name = true) -> narrow name = true -> narrow t = true ->
                chunks_lits rest = true \/ narrow t = true) by (intros; now right).
  assert (Hrest : forall t, (chunks_lits ((star, items) :: rest) = true \/ narrow t = true) ->
                            chunks_lits rest = true \/ narrow t = true).
  { intros t [Hl|Hn]; [left|now right]. cbn in Hl. now apply andb_true_iff in Hl as [_ Hl]. }
  cbn [dmatch] in H.
  set (f := fun s0 => match match_items items s0 with Some t => dmatch rest t | None => false end) in H.
  destruct star.
  - (* after a '*' *)
    destruct (no_items items) eqn:Ei.
    + (* trailing '*' *)
      destruct items; [|discriminate].
      destruct rest as [|c2 rest2]; [|cbn in Hwf; discriminate].
      cbn [greedy andb no_items]. apply dstar_empty_noslash. exact H.
    + rewrite (greedy_star items rest name Ei).
      destruct (dstar_witness f name H) as (g & s0 & -> & Hg & Hf).
      unfold f in Hf. destruct (match_items items s0) as [t'|] eqn:Em; [|discriminate].
      assert (Hlast : no_chunks rest = true -> is_empty t' = true).
      { intros Hl. destruct rest; [exact Hf|discriminate]. }
      destruct (fm_finds items (no_chunks rest) g s0 t' Hp Hwi Hg Em Hlast) as (t & Hfm & Hres).
      rewrite Hfm. apply IH; try assumption.
      * (* width hypothesis for the remainder *)
        destruct Hw as [Hl|Hn]; [left|right].
        -- cbn in Hl. now apply andb_true_iff in Hl as [_ Hl].
        -- now apply (fm_narrow items (no_chunks rest) (g ++ s0) t Hp Hn Hfm).
      * destruct Hres as [[Hl He]|[Hl (v & -> & Hv)]].
        -- destruct rest; [exact He|discriminate].
        -- destruct rest as [|[star2 items2] rest2]; [discriminate|].
           cbn in Hst. apply andb_true_iff in Hst as [Hs2 _]. cbn in Hs2. subst star2.
           cbn [dmatch] in *. now apply dstar_prepend.
  - (* the first chunk, not after a '*' *)
    unfold f in H. destruct (match_items items name) as [t|] eqn:Em; [|discriminate].
    cbn [greedy andb]. rewrite Em.
    assert (Hnt : chunks_lits rest = true \/ narrow t = true).
    { destruct Hw as [Hl|Hn]; [left|right].
      - cbn in Hl. now apply andb_true_iff in Hl as [_ Hl].
      - rewrite (match_items_fits items name Hp (or_intror Hn)) in Em.
        destruct (fits items name); [|discriminate]. injection Em as <-. now apply narrow_skipn. }
    destruct rest as [|c2 rest2].
    + cbn [dmatch] in H. cbn [greedy no_chunks negb orb]. rewrite H. reflexivity.
    + cbn [no_chunks negb orb]. rewrite orb_true_r. now apply IH.
Qed.

(** ** Patterns *)

Lemma chunker_stars_n n : forall pat inr star cur,
  (length pat <= n)%nat ->
  (star = true -> forallb fst (chunker pat inr star cur) = true) /\
  match chunker pat inr star cur with [] => True | _ :: r => forallb fst r = true end.
Proof.
  induction n as [|n IH]; intros pat inr star cur Hl.
  - destruct pat; [|cbn in Hl; lia]. cbn. destruct (star || negb (is_empty cur)); cbn; split; auto.
    intros ->. reflexivity.
  - destruct pat as [|c rest].
    { cbn. destruct (star || negb (is_empty cur)); cbn; split; auto. intros ->. reflexivity. }
    cbn [length] in Hl. cbn [chunker].
    destruct ((c =? c_star) && negb inr).
    + destruct (is_empty cur) eqn:Ec.
      * destruct (IH rest false true cur ltac:(lia)) as [A B]. split; [intros _; now apply A|exact B].
      * destruct (IH rest false true [] ltac:(lia)) as [A B]. split.
        -- intros ->. cbn. now apply A.
        -- now apply A.
    + destruct (c =? c_bslash).
      * destruct rest as [|d rest']; [apply IH; cbn; lia|]. cbn [length] in Hl. apply IH. lia.
      * destruct (c =? c_lbrack); [apply IH; lia|]. destruct (c =? c_rbrack); apply IH; lia.
Qed.

Lemma parse_chunks_flags cs : forall l, parse_chunks cs = POk l -> map fst l = map fst cs.
Proof.
  induction cs as [|[star chunk] cs IH]; intros l H.
  - injection H as <-. reflexivity.
  - cbn [parse_chunks] in H. destruct (parse_chunk chunk); try discriminate.
    destruct (parse_chunks cs) as [l'| |]; try discriminate. injection H as <-.
    cbn. now rewrite (IH l' eq_refl).
Qed.

Lemma forallb_fst_map {A} (l : list (bool * A)) : forallb fst l = forallb (fun b => b) (map fst l).
Proof. induction l as [|x l IH]; [reflexivity|]. cbn. now rewrite IH. Qed.

Lemma parse_pattern_later_stars pat chunks : parse_pattern pat = POk chunks -> later_stars chunks = true.
Proof.
  unfold parse_pattern, chunks_of. intros H.
  pose proof (parse_chunks_flags _ _ H) as Hf.
  destruct (chunker_stars_n (length pat) pat false false [] (le_n _)) as [_ B].
  destruct (chunker pat false false []) as [|c0 cs] eqn:E.
  - cbn in H. injection H as <-. reflexivity.
  - destruct chunks as [|d0 ds]; [discriminate|]. cbn [later_stars]. cbn [map] in Hf.
    injection Hf as _ Hf. rewrite forallb_fst_map, Hf, <- forallb_fst_map. exact B.
Qed.

(** [Match] finds every declarative match of a pattern without character
    classes on a name whose runes are single bytes - and of a pattern of
    literals and '*' on any name. *)
Theorem go_match_complete_partial pat name chunks :
  parse_pattern pat = POk chunks -> chunks_plain chunks = true ->
  (chunks_lits chunks = true \/ narrow name = true) ->
  dmatch chunks name = true -> go_match pat name = MTrue.
Proof.
  intros Hp Hpl Hw H. unfold go_match. rewrite Hp.
  rewrite (greedy_complete chunks name); try assumption; [reflexivity| |].
  - eapply parse_chunks_wf; [apply chunks_of_mid|exact Hp].
  - now apply (parse_pattern_later_stars pat).
Qed.

(** together with soundness: for these patterns and names [Match] decides the
    declarative reading *)
Corollary go_match_exact_partial pat name chunks :
  parse_pattern pat = POk chunks -> chunks_plain chunks = true ->
  (chunks_lits chunks = true \/ narrow name = true) ->
  (go_match pat name = MTrue <-> dmatch chunks name = true).
Proof.
  intros Hp Hpl Hw. split; [now apply go_match_sound|now apply go_match_complete_partial].
Qed.

(** ** The two ways in which the loop is not complete *)
From Coq Require Import String.
Local Open Scope string_scope.

(** a character class takes the '/' that no '*' can swallow afterwards *)
Theorem match_class_incomplete_refuted :
  let pat := bs "*[^a]*b" in let name := bs "x/b" in
  exists chunks, parse_pattern pat = POk chunks /\ dmatch chunks name = true /\
                 go_match pat name = MFalse.
Proof. eexists. split; [vm_compute; reflexivity|]. split; vm_compute; reflexivity. Qed.

(** '*' skips bytes, '?' takes runes: U+10000 (f0 90 80 80) then 'X' *)
Theorem match_wide_rune_incomplete_refuted :
  let pat := bs "*??*X" in let name := [240; 144; 128; 128; 88]%N in
  exists chunks, parse_pattern pat = POk chunks /\ dmatch chunks name = true /\
                 go_match pat name = MFalse /\ chunks_plain chunks = true.
Proof. eexists. split; [vm_compute; reflexivity|]. repeat split; vm_compute; reflexivity. Qed.

(** ... and on the same pattern with a narrow name the theorem applies *)
Example match_complete_example :
  go_match (bs "*??*X") (bs "abcdX") = MTrue /\ go_match (bs "*a/*/b?") (bs "xa/yy/bz") = MTrue /\
  go_match (bs "*a/*/b?") (bs "xa/y/y/bz") = MFalse.
Proof. vm_compute. repeat split. Qed.

(** the unrestricted statement is false *)
Theorem stmt_match_complete_refuted :
  ~ (forall pat name chunks,
       parse_pattern pat = POk chunks -> dmatch chunks name = true -> go_match pat name = MTrue).
Proof.
  intros H. destruct match_class_incomplete_refuted as (chunks & Hp & Hd & Hg).
  specialize (H _ _ _ Hp Hd). rewrite Hg in H. discriminate.
Qed.
