(** The recursive listing: a non-directory entry never prunes its siblings
    (C12, round 3).

    [listAllFiles] returns [filepath.SkipDir] for a DIRECTORY named ".git" only.
    [SkipDir] returned for a non-directory makes [WalkDir] skip every remaining
    entry of the containing directory; the model's [list_all] has no such
    effect: whether an entry is listed depends on the entry itself and on the
    directories between the listing root and it, never on other entries.

    - [list_all_member]: the members of a listing, one by one;
    - [non_directory_never_prunes]: adding a non-directory entry of whatever
      name (a ".git" file, the "gitdir:" pointer of worktrees and submodules;
      a ".git" symbolic link; a file called COPYING, tags, ...) under a new
      path changes the listing by at most that entry itself;
    - [git_file_prunes_siblings_refuted]: a walk that prunes at any entry
      named ".git" loses the siblings sorting after it. *)
From Coq Require Import List NArith Bool String.
From Verif Require Import Lib.Path Caco.Names Caco.Match Caco.FileSet Caco.FileSetProofs.
Import ListNotations.
Local Open Scope N_scope.

(** the listing root is the source root or a real directory that the walk enters *)
Definition root_walked (x : excl) (src_base : str) (tree : list tentry) (R : str) : Prop :=
  mem_str (if is_empty R then src_base else base_name R) (skip_dirs x) = false /\
  (is_empty R = true \/
   exists e, find_entry tree R = Some e /\ is_real_dir (t_kind e) = true).

Definition listed (x : excl) (tree : list tentry) (R : str) (e : tentry) : bool :=
  negb (is_real_dir (t_kind e)) && beneath (t_path e) R &&
  forallb (walkable x tree) (dirs_between (t_path e) R) &&
  file_ok x (base_name (t_path e)).

Lemma list_all_walked x sb tree R :
  root_walked x sb tree R ->
  list_all x sb tree R = Some (map t_path (filter (listed x tree R) tree)).
Proof.
  intros [Hskip Hroot]. unfold list_all. rewrite Hskip.
  destruct (is_empty R) eqn:ER; [reflexivity|].
  destruct Hroot as [H|(e & He & Hd)]; [discriminate|]. now rewrite He, Hd.
Qed.

(** The members of a recursive listing: an entry that is no real directory,
    lies beneath the root, is reached through real directories none of which
    is named like a skipped directory, and whose own base name is not one of
    the skipped file names. *)
Theorem list_all_member x sb tree R l f :
  root_walked x sb tree R -> list_all x sb tree R = Some l ->
  (In f l <-> exists e, In e tree /\ t_path e = f /\ listed x tree R e = true).
Proof.
  intros Hr H. rewrite (list_all_walked x sb tree R Hr) in H. injection H as <-.
  rewrite in_map_iff. split.
  - intros (e & <- & He). apply filter_In in He as [Hin Hl]. exists e. auto.
  - intros (e & Hin & <- & Hl). exists e. split; [reflexivity|]. now apply filter_In.
Qed.

Lemma find_entry_cons_other e' tree q :
  str_eqb (t_path e') q = false -> find_entry (e' :: tree) q = find_entry tree q.
Proof. intros H. unfold find_entry. cbn [find]. now rewrite H. Qed.

Lemma walkable_cons x e' tree q :
  is_real_dir (t_kind e') = false -> find_entry tree (t_path e') = None ->
  walkable x (e' :: tree) q = walkable x tree q.
Proof.
  intros Hk Hnew. unfold walkable.
  destruct (str_eqb (t_path e') q) eqn:E.
  - apply str_eqb_eq in E. subst q. unfold find_entry at 1. cbn [find]. rewrite str_eqb_refl.
    rewrite Hk, Hnew. reflexivity.
  - now rewrite find_entry_cons_other.
Qed.

Lemma forallb_same {A} (f g : A -> bool) l : (forall a, f a = g a) -> forallb f l = forallb g l.
Proof. intros H. induction l as [|a l IH]; [reflexivity|]. cbn. now rewrite H, IH. Qed.

Lemma listed_cons x e' tree R e :
  is_real_dir (t_kind e') = false -> find_entry tree (t_path e') = None ->
  listed x (e' :: tree) R e = listed x tree R e.
Proof.
  intros Hk Hnew. unfold listed. f_equal. f_equal.
  apply forallb_same. intros q. now apply walkable_cons.
Qed.

(** A non-directory entry [e'] (a regular file or a symbolic link of any
    kind, of ANY name) under a path the tree does not have yet: every other
    name is listed with it exactly when it was listed without it.  Nothing is
    pruned, whatever [e'] is called and wherever it sorts. *)
Theorem non_directory_never_prunes x sb tree R e' l l' f :
  is_real_dir (t_kind e') = false -> find_entry tree (t_path e') = None ->
  root_walked x sb tree R ->
  list_all x sb tree R = Some l -> list_all x sb (e' :: tree) R = Some l' ->
  f <> t_path e' ->
  (In f l' <-> In f l).
Proof.
  intros Hk Hnew Hr Hl Hl' Hf.
  assert (Hr' : root_walked x sb (e' :: tree) R).
  { destruct Hr as [Hs Hroot]. split; [assumption|].
    destruct Hroot as [H|(e & He & Hd)]; [now left|right].
    exists e. split; [|assumption]. rewrite find_entry_cons_other; [assumption|].
    apply str_eqb_neq. intros E. rewrite <- E, Hnew in He. discriminate. }
  rewrite (list_all_member x sb tree R l f Hr Hl), (list_all_member x sb (e' :: tree) R l' f Hr' Hl').
  split.
  - intros (e & [<-|Hin] & Hp & Hlst); [congruence|].
    exists e. split; [assumption|]. split; [assumption|]. now rewrite <- (listed_cons x e' tree R e Hk Hnew).
  - intros (e & Hin & Hp & Hlst). exists e. split; [now right|]. split; [assumption|].
    now rewrite (listed_cons x e' tree R e Hk Hnew).
Qed.

(** ... and [e'] itself is listed by its own name alone *)
Corollary new_entry_listed_iff x sb tree R e' l' :
  is_real_dir (t_kind e') = false -> find_entry tree (t_path e') = None ->
  root_walked x sb tree R -> NoDup (map t_path (e' :: tree)) ->
  list_all x sb (e' :: tree) R = Some l' ->
  (In (t_path e') l' <-> listed x tree R e' = true).
Proof.
  intros Hk Hnew Hr Hnd Hl'.
  assert (Hr' : root_walked x sb (e' :: tree) R).
  { destruct Hr as [Hs Hroot]. split; [assumption|].
    destruct Hroot as [H|(e & He & Hd)]; [now left|right].
    exists e. split; [|assumption]. rewrite find_entry_cons_other; [assumption|].
    apply str_eqb_neq. intros E. rewrite <- E, Hnew in He. discriminate. }
  rewrite (list_all_member x sb (e' :: tree) R l' _ Hr' Hl'). split.
  - intros (e & [<-|Hin] & Hp & Hlst).
    + now rewrite <- (listed_cons x e' tree R e' Hk Hnew).
    + exfalso. inversion Hnd as [|? ? Hni _]. apply Hni. rewrite <- Hp. now apply in_map.
  - intros H. exists e'. split; [now left|]. split; [reflexivity|].
    now rewrite (listed_cons x e' tree R e' Hk Hnew).
Qed.

(** ** A walk that prunes at any entry named ".git": refuted *)
Local Open Scope string_scope.

Definition s_git : str := bs ".git".

(** [name] is lost when, in the root or in a directory on the way to it, a
    non-directory called ".git" sorts before the next step of the way *)
Definition steps (name R : str) : list (str * str) :=      (* (directory, next element) *)
  let segs := split_slash (rest_under name R) in
  combine (R :: paths_from R (removelast segs)) segs.

Definition pruned_by_git_entry (tree : list tentry) (R name : str) : bool :=
  existsb (fun ds =>
             match find_entry tree (join_dir (fst ds) s_git) with
             | Some e => negb (is_real_dir (t_kind e)) && str_ltb s_git (snd ds)
             | None => false
             end) (steps name R).

Definition list_all_pruning (x : excl) (src_base : str) (tree : list tentry) (R : str) : option (list str) :=
  match list_all x src_base tree R with
  | Some l => Some (filter (fun f => negb (pruned_by_git_entry tree R f)) l)
  | None => None
  end.

Definition w_excl : excl :=
  {| skip_dirs := [bs ".git"]; skip_files := [bs ".gitignore"; bs "COPYING"; bs "tags"; bs ".DS_Store"];
     skip_suffixes := [bs ".caco3"] |}.

Definition w_tree : list tentry :=
  [ {| t_path := bs "-x"; t_kind := TFile |}; {| t_path := bs ".git"; t_kind := TFile |};
    {| t_path := bs "a"; t_kind := TFile |};
    {| t_path := bs "d"; t_kind := TDir |}; {| t_path := bs "d/a"; t_kind := TFile |};
    {| t_path := bs "d/.git"; t_kind := TLinkBad |}; {| t_path := bs "d/-x"; t_kind := TFile |};
    {| t_path := bs "COPYING"; t_kind := TDir |}; {| t_path := bs "COPYING/x"; t_kind := TFile |} ].

(** The listing keeps every sibling of the ".git" file and of the ".git"
    link, lists both by name, and walks the directory named COPYING; the
    pruning walk keeps only what sorts before ".git". *)
Theorem git_file_prunes_siblings_refuted :
  list_all w_excl (bs "src") w_tree [] =
    Some [bs "-x"; bs ".git"; bs "a"; bs "d/a"; bs "d/.git"; bs "d/-x"; bs "COPYING/x"] /\
  list_all_pruning w_excl (bs "src") w_tree [] = Some [bs "-x"; bs ".git"] /\
  list_all w_excl (bs "src") w_tree (bs "d") = Some [bs "d/a"; bs "d/.git"; bs "d/-x"] /\
  list_all_pruning w_excl (bs "src") w_tree (bs "d") = Some [bs "d/.git"; bs "d/-x"].
Proof. vm_compute. repeat split. Qed.
