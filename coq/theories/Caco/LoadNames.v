(** The raw declarations of BUILD files and their name resolution, joining
    the loader model (Caco/Load.v) with the model of [makeRelPath] /
    [makePath] (Caco/Names.v, Lib/Path.v: byte strings [list N]).

    [readBuildFile(env, p)] builds, for a declaration in package [p]:
    - bundle: name [makeRelPath(p, Name)], deps [makePath(p, dep)] in order;
    - file_set: name [makeRelPath(p, Name)], files [makePath(p, f)] as a
      sorted set, then the includes as written; output [name + ".fileset"];
    - sub_builds: directories [makeRelPath(p, d)];
    - a rule whose resolved name is the package itself or empty is
      "rule has no name".
    Definitions only. *)
From Coq Require Import List String Ascii NArith Bool.
From Verif Require Import Lib.Path Caco.Names Caco.Load.
Import ListNotations.
Local Open Scope string_scope.

Fixpoint to_string (s : str) : string :=
  match s with
  | [] => EmptyString
  | c :: r => String (ascii_of_N c) (to_string r)
  end.

(** [makeRelPath(p, f)] and [makePath(p, f)] on Coq strings *)
Definition rel (p f : string) : string := to_string (make_rel_path (bs p) (bs f)).
Definition pth (p f : string) : string := to_string (make_path (bs p) (bs f)).

Inductive rdecl :=
| RBundle (nm : string) (deps : list string)
| RFileSet (nm : string) (files includes : list string)
| RSub (dirs : list string)
| RJunk.                      (* text the JSONx reader rejects *)

Definition unnamed (p n : string) : bool := String.eqb n p || String.eqb n "".

Definition resolve_decl (p : string) (d : rdecl) : decl :=
  match d with
  | RBundle nm deps =>
      let n := rel p nm in
      if unnamed p n then DBad EUnnamed else DRule n (map (pth p) deps) []
  | RFileSet nm files incs =>
      let n := rel p nm in
      if unnamed p n then DBad EUnnamed
      else DRule n (sort_dedup (map (pth p) files) ++ incs)%list [n ++ ".fileset"]
  | RSub dirs => DSub (map (rel p) dirs)
  | RJunk => DBad EOther
  end.

Definition raw_files := list (name * list rdecl).

Definition resolve_fs (fs : raw_files) : bfiles :=
  map (fun pf => (fst pf, map (resolve_decl (fst pf)) (snd pf))) fs.

(** the whole run from the BUILD files as written *)
Definition c11_run_raw (fs : raw_files) (roots : list name) (kind : name -> skind)
           (targets : list name) : cres :=
  c11_run (resolve_fs fs) roots kind targets.
