(** caco3: several [Build] calls on one [Builder] (C10, round 3).

    [Caco/Build.v] models one [Builder.Build] call ([build_with]); its memo
    [ctx.built] starts empty, because [Build] makes its [buildContext] - the
    memo and the cache handle - anew at every call.  This file makes that
    lifetime an explicit part of the model:

    - [build_from m0] is [Builder.Build] started with the memo [m0] and
      returns the memo as the call leaves it.  [buildNode] returns at once
      for a name in the memo (no stat, no digest, no cache lookup, nothing
      executed), and its deferred write [ctx.built[n.name] = digest] also
      runs when the rule failed after the digest was computed
      ([visit_defer]);
    - a [session] is a world together with what the Builder holds between
      two [Build] calls; the [memo_policy] says where the memo of a call
      comes from: [MemoPerBuild] (made inside [Build]: the code as it is;
      which of the two applies to the current source is decided from the
      translator's extraction in Caco/BuildSessionGen.v) or [MemoKept] (made
      once per Builder and reused);
    - [srun] runs a history of operations, builds, [SNewBuilder] (the
      Builder is replaced) and [SWipeOut] (the whole out/ directory, the
      sqlite file out/CACHE included, is removed) on one session; [wrun] is
      the same history as seen by Builders that hold nothing.

    Caco/BuildSessionProofs.v: under [MemoPerBuild] every history on one
    long-lived Builder is, step by step, the history [Build.run] of the
    theorems of Caco/BuildProofs.v; under [MemoKept] it is not (two refuting
    histories).

    What the model of the kept memo leaves out (it is a refutation device,
    never claimed to mirror a source that keeps the memo): entries with the
    empty digest (the ancestors of a failed node; always-rebuilding nodes),
    which would make still more nodes return at once. *)
From Coq Require Import List String Bool Arith NArith.
From Verif Require Import Caco.Load Caco.Build.
Import ListNotations.
Local Open Scope string_scope.

Definition memo := list (name * digest).       (* ctx.built *)

(** The digest [buildNode] has computed for a rule node when it reaches the
    cache lookup (what the deferred memo write stores). *)
Definition rule_digest_at (L : list node) (rules : list rule) (src : list (name * stat))
           (n : node) (st : bstate) : option digest :=
  match ntype n, dep_digests (b_memo st) (ndeps n), find_rule (nname n) rules with
  | TRule, Some dd, Some r =>
      match rule_extras L (map fst src) (b_out st) r with
      | inl ex => Some (DRuleD (rdigest_of r) (canon_deps dd) (node_outs rules n) ex)
      | inr _ => None
      end
  | _, _, _ => None
  end.

(** [visit] with the deferred memo write on the failing paths. *)
Definition visit_defer (L : list node) (rules : list rule) (src : list (name * stat))
           (always : bool) (now : N) (n : node) (st : bstate) : bstate + (bstate * failure) :=
  match visit L rules src always now n st with
  | inl st' => inl st'
  | inr (st', e) =>
      inr (match rule_digest_at L rules src n st with
           | Some d => remember (nname n) d st'
           | None => st'
           end, e)
  end.

(** [Builder.Build] entered with the memo [m0]: result as [build_with],
    and the memo afterwards. *)
Definition build_from (m0 : memo) (always : bool) (ts : list name) (w : world)
  : world * list name * bres * memo :=
  match load_world w ts with
  | LOutOfFuel => (w, [], BOutOfFuel, m0)
  | LErr es => (w, [], BLoadErr es, m0)
  | LOk L =>
      let st0 := mkB (w_out w) (w_cache w) (w_clock w) m0 [] (w_times w) in
      match dfs_targets bstate (bstate * failure) L
                        (visit_defer L (w_rules w) (w_src w) always (w_now w))
                        (fun d p => (st0, FDepMissing d)) ts (map fst m0, st0) with
      | None => (w, [], BOutOfFuel, m0)
      | Some (inl (_, st)) => (with_state w st, b_exec st, BOk, b_memo st)
      | Some (inr (st, e)) => (with_state w st, b_exec st, BFail e, b_memo st)
      end
  end.

(** Where the memo of a [Build] call comes from. *)
Inductive memo_policy :=
| MemoPerBuild      (* made inside Build, at every call *)
| MemoKept.         (* made once per Builder and reused by later calls *)

Definition start_memo (p : memo_policy) (held : memo) : memo :=
  match p with MemoPerBuild => [] | MemoKept => held end.

(** A Builder in use: the world, and the memo its last [Build] left. *)
Record session := mkS { s_world : world; s_held : memo }.

Inductive sop :=
| SOp (o : op)        (* an operation of Build.v; a build is a Build call on THIS Builder *)
| SNewBuilder         (* the Builder is dropped and a new one made *)
| SWipeOut.           (* rm -rf out/ : every output and the cache file out/CACHE *)

Definition sbuild (p : memo_policy) (always : bool) (ts : list name) (s : session)
  : session * list name * bres :=
  match build_from (start_memo p (s_held s)) always ts (s_world s) with
  | (w', ex, r, m') => (mkS w' m', ex, r)
  end.

(** one step; for a build also what it executed and how it ended *)
Definition sstep (p : memo_policy) (s : session) (o : sop)
  : session * option (list name * bres) :=
  match o with
  | SNewBuilder => (mkS (s_world s) [], None)
  | SWipeOut => (mkS (clean (s_world s)) (s_held s), None)
  | SOp (OBuild ts) =>
      match sbuild p false ts s with (s', ex, r) => (s', Some (ex, r)) end
  | SOp (OBuildAlways ts) =>
      match sbuild p true ts s with (s', ex, r) => (s', Some (ex, r)) end
  | SOp o' => (mkS (step (s_world s) o') (s_held s), None)
  end.

Fixpoint srun (p : memo_policy) (h : list sop) (s : session)
  : session * list (list name * bres) :=
  match h with
  | [] => (s, [])
  | o :: r =>
      match sstep p s o with
      | (s', t) =>
          match srun p r s' with
          | (s'', tr) => (s'', match t with Some x => x :: tr | None => tr end)
          end
      end
  end.

(** The same history for Builders that hold nothing between Build calls
    (a new Builder per build): a function of the world alone. *)
Definition wstep (w : world) (o : sop) : world :=
  match o with
  | SOp o' => step w o'
  | SNewBuilder => w
  | SWipeOut => clean w
  end.

Definition wrun (h : list sop) (w : world) : world := fold_left wstep h w.

(** What its builds execute and how they end. *)
Fixpoint wtrace (h : list sop) (w : world) : list (list name * bres) :=
  match h with
  | [] => []
  | SOp (OBuild ts) :: r =>
      match build_with false ts w with (w', ex, res) => (ex, res) :: wtrace r w' end
  | SOp (OBuildAlways ts) :: r =>
      match build_with true ts w with (w', ex, res) => (ex, res) :: wtrace r w' end
  | o :: r => wtrace r (wstep w o)
  end.

(** Without [SWipeOut] it is a history of Build.v. *)
Fixpoint plain (h : list sop) : list op :=
  match h with
  | [] => []
  | SOp o :: r => o :: plain r
  | _ :: r => plain r
  end.

Definition no_wipeb (h : list sop) : bool :=
  forallb (fun o => match o with SWipeOut => false | _ => true end) h.

(** every build of the history stays in the theorems' scope ([scopeb]) *)
Fixpoint shist_in_scopeb (h : list sop) (w : world) : bool :=
  match h with
  | [] => true
  | o :: r =>
      match o with
      | SOp (OBuild ts) | SOp (OBuildAlways ts) => build_in_scopeb ts w
      | _ => true
      end && shist_in_scopeb r (wstep w o)
  end.

Definition new_session (rs : list rule) (src : list (name * stat)) : session :=
  mkS (empty_world rs src) [].
