(** Proofs about the loader / build-order model of Caco/Load.v. *)
From Coq Require Import List String Bool Arith Lia Permutation.
From Verif Require Import Caco.Load.
Import ListNotations.
Local Open Scope string_scope.

(** * The pre-repair recursion diverges on a self-referencing sub_builds *)

Definition selfsub_fs : bfiles := [("p", [DSub ["p"]])].

Lemma read_dir_legacy_diverges : forall fuel st,
  read_dir_legacy fuel selfsub_fs "p" st = None.
Proof.
  induction fuel as [|f IH]; intros st; [reflexivity|].
  cbn. apply IH.
Qed.
