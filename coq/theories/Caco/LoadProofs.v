(** Proofs about the loader / build-order model of Caco/Load.v. *)
From Coq Require Import List String Bool Arith Lia Permutation Relations.
From Verif Require Import Caco.Load.
Import ListNotations.
Local Open Scope string_scope.

(** * Basics *)

Lemma mem_In x l : mem x l = true <-> In x l.
Proof.
  unfold mem. rewrite existsb_exists. split.
  - intros [y [Hy He]]. apply String.eqb_eq in He. now subst.
  - intros H. exists x. split; [assumption|apply String.eqb_refl].
Qed.

Lemma mem_false x l : mem x l = false <-> ~ In x l.
Proof.
  rewrite <- mem_In. destruct (mem x l); intuition congruence.
Qed.

Lemma find_node_Some k l n : find_node k l = Some n -> In n l /\ nname n = k.
Proof.
  induction l as [|m l IH]; simpl; [discriminate|].
  destruct (String.eqb_spec k (nname m)).
  - intros [= <-]. auto.
  - intros H. destruct (IH H). auto.
Qed.

Lemma find_node_None k l : find_node k l = None <-> ~ In k (map nname l).
Proof.
  induction l as [|m l IH]; simpl; [tauto|].
  destruct (String.eqb_spec k (nname m)).
  - split; [discriminate|]. intros H. exfalso. apply H. left. congruence.
  - rewrite IH. split; intros H; [intros [E|I]; [congruence|auto]|auto].
Qed.

Lemma has_node_In k l : has_node k l = true <-> In k (map nname l).
Proof.
  unfold has_node. destruct (find_node k l) eqn:E.
  - split; [|reflexivity]. intros _. apply find_node_Some in E.
    destruct E as [Hin <-]. now apply in_map.
  - split; [discriminate|]. intros H. apply find_node_None in E. tauto.
Qed.

Lemma has_node_false k l : has_node k l = false <-> ~ In k (map nname l).
Proof.
  rewrite <- has_node_In. destruct (has_node k l); intuition congruence.
Qed.

Lemma find_node_NoDup l n :
  NoDup (map nname l) -> In n l -> find_node (nname n) l = Some n.
Proof.
  induction l as [|m l IH]; simpl; [tauto|].
  intros Hnd [->|Hin].
  - now rewrite String.eqb_refl.
  - inversion Hnd as [|? ? Hni Hnd']; subst.
    destruct (String.eqb_spec (nname n) (nname m)) as [E|E].
    + exfalso. apply Hni. rewrite <- E. now apply in_map.
    + auto.
Qed.

Lemma add_err_nonnil e l : add_err e l <> [].
Proof.
  unfold add_err. destruct (Nat.ltb_spec (List.length l) max_errs).
  - destruct l; discriminate.
  - destruct l; [simpl in *; unfold max_errs in *; lia|discriminate].
Qed.

Lemma add_err_keeps e l : l <> [] -> add_err e l <> [].
Proof. intros _. apply add_err_nonnil. Qed.

Lemma add_errs_keeps es l : l <> [] -> add_errs es l <> [].
Proof.
  revert l. induction es as [|e es IH]; simpl; intros l H; [assumption|].
  apply IH. apply add_err_nonnil.
Qed.

Lemma add_errs_nonnil es l : es <> [] -> add_errs es l <> [].
Proof.
  destruct es as [|e es]; [congruence|]. intros _. simpl.
  apply add_errs_keeps. apply add_err_nonnil.
Qed.

Lemma NoDup_app_intro {A} (a b : list A) :
  NoDup a -> NoDup b -> (forall x, In x a -> In x b -> False) -> NoDup (a ++ b).
Proof.
  induction a as [|x a IH]; simpl; intros Ha Hb Hd; [assumption|].
  inversion Ha as [|? ? Hx Ha']; subst. constructor.
  - rewrite in_app_iff. intros [H|H]; [auto|]. eapply Hd; eauto.
  - apply IH; auto. intros y Hy. apply Hd. now right.
Qed.

Lemma NoDup_app_inv {A} (a b : list A) :
  NoDup (a ++ b) -> NoDup a /\ NoDup b /\ (forall x, In x a -> In x b -> False).
Proof.
  induction a as [|x a IH]; simpl; intros H.
  - repeat split; [constructor|assumption|intros x []].
  - inversion H as [|? ? Hx H']; subst. destruct (IH H') as (Ha & Hb & Hd).
    repeat split; auto.
    + constructor; auto. intros Hin. apply Hx. apply in_app_iff. now left.
    + intros y [<-|Hy] Hyb; [apply Hx; apply in_app_iff; now right|eauto].
Qed.

Lemma split_app {A} (a b l1 : list A) x l2 :
  (a ++ b = l1 ++ x :: l2)%list ->
  (exists l2', a = l1 ++ x :: l2' /\ l2 = l2' ++ b)%list \/
  (exists l1', l1 = a ++ l1' /\ b = l1' ++ x :: l2)%list.
Proof.
  revert l1. induction a as [|y a IHa]; intros l1 E; simpl in *.
  - right. exists l1. auto.
  - destruct l1 as [|z l1]; simpl in *.
    + injection E as E1 E2. subst. left. exists a. auto.
    + injection E as E1 E2. subst z.
      destruct (IHa l1 E2) as [[l2' [E3 E4]]|[l1' [E3 E4]]]; subst.
      * left. exists l2'. auto.
      * right. exists l1'. auto.
Qed.

Lemma ofold_none {A B} (f : B -> A -> option A) l : ofold f l None = None.
Proof. induction l; simpl; auto. Qed.

Lemma ofold_cons {A B} (f : B -> A -> option A) b l a :
  ofold f (b :: l) (Some a) = ofold f l (f b a).
Proof. reflexivity. Qed.

(** * Reading build files terminates (repaired code) *)

Definition unseen (fs : bfiles) (seen : list name) : nat :=
  List.length (filter (fun k => negb (mem k seen)) (map fst fs)).

Lemma filter_length_le {A} (f g : A -> bool) l :
  (forall x, In x l -> f x = true -> g x = true) ->
  List.length (filter f l) <= List.length (filter g l).
Proof.
  induction l as [|a l IH]; simpl; intros H; [lia|].
  assert (IH' := IH (fun x Hx => H x (or_intror Hx))).
  destruct (f a) eqn:Fa.
  - rewrite (H a (or_introl eq_refl) Fa). simpl. lia.
  - destruct (g a); simpl; lia.
Qed.

Lemma filter_length_lt {A} (f g : A -> bool) l a :
  (forall x, In x l -> f x = true -> g x = true) ->
  In a l -> f a = false -> g a = true ->
  List.length (filter f l) < List.length (filter g l).
Proof.
  induction l as [|b l IH]; simpl; intros H Hin Fa Ga; [tauto|].
  assert (Hle := filter_length_le f g l (fun x Hx => H x (or_intror Hx))).
  destruct Hin as [->|Hin].
  - rewrite Fa, Ga. simpl. lia.
  - assert (IH' := IH (fun x Hx => H x (or_intror Hx)) Hin Fa Ga).
    destruct (f b) eqn:Fb.
    + rewrite (H b (or_introl eq_refl) Fb). simpl. lia.
    + destruct (g b); simpl; lia.
Qed.

Lemma unseen_mono fs s s' : incl s s' -> unseen fs s' <= unseen fs s.
Proof.
  intros Hi. apply filter_length_le. intros x _ Hx.
  apply negb_true_iff in Hx. apply negb_true_iff.
  apply mem_false in Hx. apply mem_false. intros Hin. apply Hx. now apply Hi.
Qed.

Lemma lookup_In {A} k (l : list (name * A)) v : lookup k l = Some v -> In k (map fst l).
Proof.
  induction l as [|[k' v'] l IH]; simpl; [discriminate|].
  destruct (String.eqb_spec k k'); [intros _; left; congruence|intros H; right; auto].
Qed.

Lemma unseen_lt fs s p ds :
  lookup p fs = Some ds -> ~ In p s -> unseen fs (p :: s) < unseen fs s.
Proof.
  intros Hl Hn. apply filter_length_lt with (a := p).
  - intros x _ Hx. apply negb_true_iff in Hx. apply negb_true_iff.
    apply mem_false in Hx. apply mem_false. intros Hin. apply Hx. now right.
  - eapply lookup_In; eauto.
  - apply negb_false_iff. apply mem_In. now left.
  - apply negb_true_iff. now apply mem_false.
Qed.

Lemma register_seen n st : r_seen (register n st) = r_seen st.
Proof.
  unfold register, r_err.
  destruct (String.eqb (nname n) ""); [reflexivity|].
  destruct (has_node (nname n) (r_nodes st)); reflexivity.
Qed.

Lemma register_decl_seen d st : r_seen (register_decl st d) = r_seen st.
Proof.
  destruct d as [nm deps outs| |]; simpl; try reflexivity.
  generalize (register (mkNode nm TRule deps) st) (register_seen (mkNode nm TRule deps) st).
  induction outs as [|o outs IH]; simpl; intros r Hr; [assumption|].
  apply IH. now rewrite register_seen.
Qed.

Lemma register_decls_seen ds st : r_seen (fold_left register_decl ds st) = r_seen st.
Proof.
  revert st. induction ds as [|d ds IH]; simpl; intros st; [reflexivity|].
  now rewrite IH, register_decl_seen.
Qed.

(** With more fuel than directories not yet read, [read_dir] returns, and
    it only adds to the set of directories read. *)
Lemma read_dir_total fs : forall f p st,
  unseen fs (r_seen st) < f ->
  exists st', read_dir f fs p st = Some st' /\ incl (r_seen st) (r_seen st').
Proof.
  induction f as [|f IH]; intros p st Hf; [lia|].
  simpl. destruct (mem p (r_seen st)) eqn:Hm.
  - exists st. split; [reflexivity|apply incl_refl].
  - apply mem_false in Hm.
    destruct (lookup p fs) as [ds|] eqn:Hl.
    + destruct (file_errs ds) as [|e es] eqn:He.
      * (* recursion into the sub directories *)
        set (st1 := fold_left register_decl ds
                      (mkR (r_nodes st) (r_errs st) (p :: r_seen st))).
        assert (Hs1 : r_seen st1 = p :: r_seen st)
          by (unfold st1; now rewrite register_decls_seen).
        assert (Hlt : unseen fs (r_seen st1) < f).
        { rewrite Hs1. pose proof (unseen_lt fs (r_seen st) p ds Hl Hm). lia. }
        assert (Hfold : forall l s, unseen fs (r_seen s) < f ->
                  exists s', ofold (read_dir f fs) l (Some s) = Some s'
                             /\ incl (r_seen s) (r_seen s')).
        { induction l as [|d l IHl]; intros s Hs.
          - exists s. split; [reflexivity|apply incl_refl].
          - rewrite ofold_cons. destruct (IH d s Hs) as [s1 [E1 I1]]. rewrite E1.
            destruct (IHl s1) as [s2 [E2 I2]].
            { pose proof (unseen_mono fs _ _ I1). lia. }
            exists s2. split; [assumption|]. eapply incl_tran; eauto. }
        destruct (Hfold (sort_dedup (sub_dirs ds)) st1 Hlt) as [s' [E I]].
        exists s'. split; [exact E|].
        intros x Hx. apply I. rewrite Hs1. now right.
      * eexists. split; [reflexivity|]. simpl. intros x Hx. now right.
    + eexists. split; [reflexivity|]. simpl. intros x Hx. now right.
Qed.

Lemma filter_length_all {A} (f : A -> bool) l : List.length (filter f l) <= List.length l.
Proof. induction l as [|a l IH]; simpl; [lia|]. destruct (f a); simpl; lia. Qed.

Lemma unseen_le_length fs s : unseen fs s <= List.length fs.
Proof.
  unfold unseen. etransitivity; [apply filter_length_all|]. now rewrite map_length.
Qed.

Theorem read_roots_terminates fs roots : read_roots fs roots <> None.
Proof.
  unfold read_roots.
  assert (H : forall l s, exists s', ofold (read_dir (read_fuel fs) fs) l (Some s) = Some s').
  { induction l as [|d l IHl]; intros s.
    - exists s. reflexivity.
    - rewrite ofold_cons.
      destruct (read_dir_total fs (read_fuel fs) d s) as [s1 [E1 _]].
      { unfold read_fuel. pose proof (unseen_le_length fs (r_seen s)). lia. }
      rewrite E1. apply IHl. }
  destruct (H (sort_dedup roots) r_init) as [s' E]. rewrite E. discriminate.
Qed.

(** * The pre-repair recursion diverges on a self-referencing sub_builds *)

Definition selfsub_fs : bfiles := [("p", [DSub ["p"]])].

Lemma read_dir_legacy_diverges : forall fuel st,
  read_dir_legacy fuel selfsub_fs "p" st = None.
Proof.
  induction fuel as [|f IH]; intros st; [reflexivity|].
  cbn. apply IH.
Qed.

(** * Loading: termination, soundness and completeness of the error verdict *)

Lemma has_node_cons k n l :
  has_node k (n :: l) = String.eqb k (nname n) || has_node k l.
Proof. unfold has_node. simpl. destruct (String.eqb k (nname n)); reflexivity. Qed.

Section LoadSpec.
  Variable ns : list node.
  Variable kind : name -> skind.

  (** The dependency graph over the registered nodes. *)
  Definition edge (a b : name) : Prop :=
    exists n, find_node a ns = Some n /\ In b (ndeps n).

  (** A name that is neither a registered node nor a source file. *)
  Definition dangling (a : name) : Prop :=
    find_node a ns = None /\ (kind a <> KFile \/ a = "").

  Definition on_cycle (a : name) : Prop := clos_trans name edge a a.

  (** Something wrong is reachable from [nm] ([sigma]: names of callers still
      on the tracer's stack). *)
  Definition problem (nm : name) (sigma : list name) : Prop :=
    exists a, clos_refl_trans name edge nm a /\
              (dangling a \/ on_cycle a \/ In a sigma).

  Definition lnode_ok (n : node) : Prop :=
    find_node (nname n) ns = Some n \/
    (find_node (nname n) ns = None /\ kind (nname n) = KFile /\
     nname n <> "" /\ n = src_node (nname n)).

  (** The loaded list (newest first) is a topological order: every node's
      dependencies were loaded before it. *)
  Fixpoint topo (L : list node) : Prop :=
    match L with
    | [] => True
    | n :: r => lnode_ok n /\ has_node (nname n) r = false /\
                (forall d, In d (ndeps n) -> has_node d r = true) /\ topo r
    end.

  Definition stack_ok (sg : list name) : Prop :=
    NoDup sg /\ forall x, In x sg -> has_node x ns = true.

  Definition lpost (s s' : lstate) (inl pb : Prop) : Prop :=
    l_stack s' = l_stack s /\
    (l_errs s <> [] -> l_errs s' <> []) /\
    (forall x, has_node x (l_loaded s) = true -> has_node x (l_loaded s') = true) /\
    (forall x, has_node x (l_loaded s') = true -> has_node x (l_loaded s) = false ->
               ~ In x (l_stack s)) /\
    (l_errs s' = [] -> topo (l_loaded s) -> topo (l_loaded s') /\ inl) /\
    (l_errs s = [] -> l_errs s' <> [] -> pb).

  Lemma stack_len sg : stack_ok sg -> List.length sg <= List.length ns.
  Proof.
    intros [Hnd Hin]. rewrite <- (map_length nname ns).
    apply NoDup_incl_length; [assumption|].
    intros x Hx. apply has_node_In. auto.
  Qed.

  Lemma errs_nil_dec (l : list lerr) : l = [] \/ l <> [].
  Proof. destruct l; [left; reflexivity|right; discriminate]. Qed.

  Lemma lpost_intro s s' (inl pb : Prop) :
    l_stack s' = l_stack s ->
    (l_errs s <> [] -> l_errs s' <> []) ->
    (forall x, has_node x (l_loaded s) = true -> has_node x (l_loaded s') = true) ->
    (forall x, has_node x (l_loaded s') = true -> has_node x (l_loaded s) = false ->
               ~ In x (l_stack s)) ->
    (l_errs s' = [] -> topo (l_loaded s) -> topo (l_loaded s') /\ inl) ->
    (l_errs s = [] -> l_errs s' <> [] -> pb) ->
    lpost s s' inl pb.
  Proof. unfold lpost. tauto. Qed.

  Lemma load_deps_spec f :
    (forall nm s, stack_ok (l_stack s) -> f + List.length (l_stack s) > List.length ns ->
       exists s', load1 ns kind f nm s = Some s' /\
         lpost s s' (has_node nm (l_loaded s') = true) (problem nm (l_stack s))) ->
    forall deps s, stack_ok (l_stack s) -> f + List.length (l_stack s) > List.length ns ->
      exists s', ofold (load1 ns kind f) deps (Some s) = Some s' /\
        lpost s s' (forall d, In d deps -> has_node d (l_loaded s') = true)
                   (exists d, In d deps /\ problem d (l_stack s)).
  Proof.
    intros IH. induction deps as [|d r IHr]; intros s Hst Hf.
    - exists s. split; [reflexivity|]. apply lpost_intro; auto.
      + intros x H1 H2. congruence.
      + intros H1 H2. congruence.
    - rewrite ofold_cons.
      destruct (IH d s Hst Hf) as [sa [Ea Pa]]. rewrite Ea.
      destruct Pa as (Sa & Ma & La & Na & Ta & Ba).
      destruct (IHr sa) as [s1 [E1 P1]]; [now rewrite Sa|now rewrite Sa|].
      destruct P1 as (S1 & M1 & L1 & N1 & T1 & B1).
      exists s1. split; [exact E1|]. apply lpost_intro.
      + congruence.
      + auto.
      + auto.
      + intros x Hx1 Hx0. destruct (has_node x (l_loaded sa)) eqn:Hxa.
        * now apply Na.
        * rewrite <- Sa. now apply N1.
      + intros He Ht.
        destruct (errs_nil_dec (l_errs sa)) as [Ha|Ha]; [|exfalso; now apply M1].
        destruct (Ta Ha Ht) as [Tsa Ind]. destruct (T1 He Tsa) as [Ts1 Inr].
        split; [assumption|]. intros d' [<-|Hd']; [now apply L1|now apply Inr].
      + intros H0 H1. destruct (errs_nil_dec (l_errs sa)) as [Ha|Ha].
        * destruct (B1 Ha H1) as [d' [Hd' Pd']]. exists d'. split; [now right|]. now rewrite <- Sa.
        * exists d. split; [now left|]. now apply Ba.
  Qed.

  Lemma t_rt a b : clos_trans name edge a b -> clos_refl_trans name edge a b.
  Proof.
    induction 1 as [x y H|x y z H1 IH1 H2 IH2]; [now apply rt_step|].
    eapply rt_trans; eauto.
  Qed.

  Lemma edge_rt_t a b c : edge a b -> clos_refl_trans name edge b c -> clos_trans name edge a c.
  Proof.
    intros Hab Hbc. apply clos_rt_rt1n in Hbc. revert a Hab.
    induction Hbc as [x|x y z Hxy Hyz IHc]; intros a Hab.
    - now apply t_step.
    - eapply t_trans; [apply t_step; exact Hab|]. now apply IHc.
  Qed.

  Lemma load1_spec : forall f nm s,
    stack_ok (l_stack s) -> f + List.length (l_stack s) > List.length ns ->
    exists s', load1 ns kind f nm s = Some s' /\
      lpost s s' (has_node nm (l_loaded s') = true) (problem nm (l_stack s)).
  Proof.
    induction f as [|f IH]; intros nm s Hst Hf.
    { pose proof (stack_len _ Hst). lia. }
    simpl. destruct (mem nm (l_stack s)) eqn:Hm.
    { (* already on the stack: circular dependency *)
      eexists. split; [reflexivity|]. apply lpost_intro; unfold l_err; simpl; auto.
      - intros _. apply add_err_nonnil.
      - intros x H1 H2. congruence.
      - intros H. exfalso. revert H. apply add_err_nonnil.
      - intros _ _. exists nm. split; [apply rt_refl|]. right. right. now apply mem_In. }
    apply mem_false in Hm.
    destruct (has_node nm (l_loaded s)) eqn:Hl.
    { exists s. split; [reflexivity|]. apply lpost_intro; auto.
      - intros x H1 H2. congruence.
      - intros H1 H2. congruence. }
    destruct (find_node nm ns) as [n|] eqn:Hn.
    - (* a registered node: load its dependencies with nm on the stack *)
      pose proof (find_node_Some _ _ _ Hn) as [Hin Hname].
      set (s0 := mkL (nm :: l_stack s) (l_loaded s) (l_errs s)).
      assert (Hst0 : stack_ok (l_stack s0)).
      { destruct Hst as [Hnd Hreg]. split; simpl.
        - now constructor.
        - intros x [<-|Hx]; [|auto]. unfold has_node. now rewrite Hn. }
      assert (Hf0 : f + List.length (l_stack s0) > List.length ns) by (simpl; lia).
      destruct (load_deps_spec f IH (ndeps n) s0 Hst0 Hf0) as [s1 [E1 P1]].
      rewrite E1.
      destruct P1 as (S1 & M1 & L1 & N1 & T1 & B1). simpl in *.
      eexists. split; [reflexivity|]. apply lpost_intro; simpl.
      + reflexivity.
      + exact M1.
      + intros x Hx. rewrite has_node_cons. rewrite (L1 x Hx). apply orb_true_r.
      + intros x Hx Hx0. rewrite has_node_cons in Hx. apply orb_true_iff in Hx.
        destruct Hx as [Hx|Hx].
        * apply String.eqb_eq in Hx. subst x. now rewrite Hname.
        * intros Hin'. apply (N1 x Hx Hx0). now right.
      + intros He Ht. destruct (T1 He Ht) as [Ts1 Hdeps]. split.
        * repeat split.
          -- left. now rewrite Hname.
          -- rewrite Hname. destruct (has_node nm (l_loaded s1)) eqn:Hc; [|reflexivity].
             exfalso. apply (N1 nm Hc Hl). now left.
          -- exact Hdeps.
          -- exact Ts1.
        * rewrite has_node_cons, Hname, String.eqb_refl. reflexivity.
      + intros H0 H1. destruct (B1 H0 H1) as [d [Hd [a [Hda Ha]]]].
        assert (Hnd : edge nm d) by (exists n; auto).
        destruct Ha as [Ha|[Ha|[<-|Ha]]].
        * exists a. split; [|now left]. eapply rt_trans; [apply rt_step; exact Hnd|exact Hda].
        * exists a. split; [|now right; left]. eapply rt_trans; [apply rt_step; exact Hnd|exact Hda].
        * exists nm. split; [apply rt_refl|]. right. left. eapply edge_rt_t; eauto.
        * exists a. split; [|now right; right]. eapply rt_trans; [apply rt_step; exact Hnd|exact Hda].
    - (* not registered: a source file, or nothing *)
      destruct (kind nm) eqn:Hk.
      + eexists. split; [reflexivity|]. apply lpost_intro; unfold l_err; simpl; auto.
        * intros _. apply add_err_nonnil.
        * intros x H1 H2. congruence.
        * intros H. exfalso. revert H. apply add_err_nonnil.
        * intros _ _. exists nm. split; [apply rt_refl|]. left. split; [assumption|].
          left. congruence.
      + eexists. split; [reflexivity|]. apply lpost_intro; simpl; auto.
        * destruct (String.eqb nm ""); [intros _; apply add_err_nonnil|auto].
        * intros x Hx. rewrite has_node_cons, Hx. apply orb_true_r.
        * intros x Hx Hx0. rewrite has_node_cons in Hx. simpl in Hx.
          apply orb_true_iff in Hx. destruct Hx as [Hx|Hx]; [|congruence].
          apply String.eqb_eq in Hx. now subst x.
        * intros He Ht. destruct (String.eqb_spec nm "") as [E|E].
          { exfalso. revert He. apply add_err_nonnil. }
          split.
          -- simpl. split; [right; simpl; auto|]. split; [assumption|].
             split; [intros d []|assumption].
          -- rewrite has_node_cons. simpl. now rewrite String.eqb_refl.
        * intros H0 H1. destruct (String.eqb_spec nm "") as [E|E]; [|congruence].
          exists nm. split; [apply rt_refl|]. left. split; auto.
      + eexists. split; [reflexivity|]. apply lpost_intro; unfold l_err; simpl; auto.
        * intros _. apply add_err_nonnil.
        * intros x H1 H2. congruence.
        * intros H. exfalso. revert H. apply add_err_nonnil.
        * intros _ _. exists nm. split; [apply rt_refl|]. left. split; [assumption|].
          left. congruence.
  Qed.

  (** ** What a topologically ordered loaded list excludes *)

  Lemma topo_node L a :
    topo L -> has_node a L = true ->
    exists n, In n L /\ nname n = a /\ lnode_ok n /\
              forall d, In d (ndeps n) -> has_node d L = true.
  Proof.
    induction L as [|n r IH]; simpl; intros Ht Ha.
    - unfold has_node in Ha. simpl in Ha. discriminate.
    - destruct Ht as (Hok & Hnr & Hd & Htr). rewrite has_node_cons in Ha.
      apply orb_true_iff in Ha. destruct Ha as [Ha|Ha].
      + apply String.eqb_eq in Ha. exists n. repeat split; auto.
        intros d Hdd. rewrite has_node_cons, (Hd d Hdd). apply orb_true_r.
      + destruct (IH Htr Ha) as (m & Hm & Hnm & Hokm & Hdm).
        exists m. repeat split; auto.
        intros d Hdd. rewrite has_node_cons, (Hdm d Hdd). apply orb_true_r.
  Qed.

  Lemma topo_edge L a b :
    topo L -> has_node a L = true -> edge a b -> has_node b L = true.
  Proof.
    intros Ht Ha [m [Hm Hb]].
    destruct (topo_node L a Ht Ha) as (n & Hn & Hnm & Hok & Hd).
    destruct Hok as [Hf|[Hf _]]; rewrite Hnm in Hf; [|congruence].
    assert (m = n) by congruence. subst m. auto.
  Qed.

  Lemma topo_closed L a b :
    topo L -> has_node a L = true -> clos_refl_trans name edge a b -> has_node b L = true.
  Proof.
    intros Ht Ha Hab. apply clos_rt_rt1n in Hab.
    induction Hab as [x|x y z Hxy Hyz IH]; [assumption|].
    apply IH. eapply topo_edge; eauto.
  Qed.

  Lemma topo_not_dangling L a : topo L -> has_node a L = true -> ~ dangling a.
  Proof.
    intros Ht Ha [Hf Hk].
    destruct (topo_node L a Ht Ha) as (n & Hn & Hnm & Hok & Hd).
    destruct Hok as [Hf'|(_ & Hk' & Hne & _)]; rewrite Hnm in *; [congruence|].
    destruct Hk; congruence.
  Qed.

  Lemma topo_acyclic L : topo L -> forall a, has_node a L = true -> ~ on_cycle a.
  Proof.
    induction L as [|n r IH]; intros Ht a Ha Hc.
    - unfold has_node in Ha. simpl in Ha. discriminate.
    - assert (Ht' := Ht). destruct Ht as (Hok & Hnr & Hd & Htr).
      destruct (has_node a r) eqn:Har.
      + exact (IH Htr a Har Hc).
      + rewrite has_node_cons, Har, orb_false_r in Ha. apply String.eqb_eq in Ha. subst a.
        unfold on_cycle in Hc. apply clos_trans_t1n in Hc.
        assert (Hstep : exists d, edge (nname n) d /\ clos_refl_trans name edge d (nname n)).
        { inversion Hc as [y Hy|y z Hy Hyz]; subst.
          - exists (nname n). split; [assumption|apply rt_refl].
          - exists y. split; [assumption|]. apply clos_t1n_trans in Hyz.
            now apply t_rt. }
        destruct Hstep as [d [Hnd Hdn]].
        assert (Hdr : has_node d r = true).
        { destruct Hnd as [m [Hm Hdm]].
          destruct Hok as [Hf|[Hf _]]; [|congruence].
          assert (m = n) by congruence. subst m. auto. }
        pose proof (topo_closed r d (nname n) Htr Hdr Hdn). congruence.
  Qed.

  (** ** [load] of the requested names *)

  Definition bad_reachable (targets : list name) : Prop :=
    exists t a, In t targets /\ clos_refl_trans name edge t a /\ (dangling a \/ on_cycle a).

  Theorem load_all_spec targets :
    exists s', load_all ns kind targets (mkL [] [] []) = Some s' /\
      (l_errs s' <> [] <-> bad_reachable targets) /\
      (l_errs s' = [] ->
         topo (l_loaded s') /\ forall t, In t targets -> has_node t (l_loaded s') = true).
  Proof.
    unfold load_all.
    assert (Hst : stack_ok (l_stack (mkL [] [] []))).
    { split; simpl; [constructor|intros x []]. }
    assert (Hf : load_fuel ns + List.length (l_stack (mkL [] [] [])) > List.length ns)
      by (unfold load_fuel; simpl; lia).
    destruct (load_deps_spec (load_fuel ns) (load1_spec (load_fuel ns)) targets _ Hst Hf)
      as [s' [E P]].
    exists s'. split; [exact E|].
    destruct P as (S1 & M1 & L1 & N1 & T1 & B1). simpl in *.
    assert (Hok : l_errs s' = [] ->
              topo (l_loaded s') /\ forall t, In t targets -> has_node t (l_loaded s') = true).
    { intros He. apply T1; [assumption|exact I]. }
    split; [|exact Hok]. split.
    - intros Hne. destruct (B1 eq_refl Hne) as [t [Ht [a [Hta Ha]]]].
      exists t, a. repeat split; auto. destruct Ha as [Ha|[Ha|[]]]; auto.
    - intros [t [a (Ht & Hta & Ha)]] He.
      destruct (Hok He) as [Htopo Hin].
      pose proof (topo_closed _ t a Htopo (Hin t Ht) Hta) as Hal.
      destruct Ha as [Ha|Ha].
      + exact (topo_not_dangling _ a Htopo Hal Ha).
      + exact (topo_acyclic _ Htopo a Hal Ha).
  Qed.
End LoadSpec.

(** * The depth-first build walk over a loaded list *)

(** A loaded list on its own: names are unique and every dependency of a
    node sits deeper in the list. *)
Fixpoint wf_loaded (L : list node) : Prop :=
  match L with
  | [] => True
  | n :: r => has_node (nname n) r = false /\
              (forall d, In d (ndeps n) -> has_node d r = true) /\ wf_loaded r
  end.

Lemma topo_wf ns kind L : topo ns kind L -> wf_loaded L.
Proof. induction L as [|n r IH]; simpl; [auto|]. intros (_ & A & B & C). auto. Qed.

Fixpoint rank (L : list node) (k : name) : nat :=
  match L with
  | [] => 0
  | n :: r => if String.eqb k (nname n) then S (List.length r) else rank r k
  end.

Lemma rank_le L k : rank L k <= List.length L.
Proof.
  induction L as [|n r IH]; simpl; [lia|]. destruct (String.eqb k (nname n)); lia.
Qed.

Lemma has_node_find k L : has_node k L = true -> exists n, find_node k L = Some n.
Proof. unfold has_node. destruct (find_node k L); [eauto|discriminate]. Qed.

Lemma wf_loaded_dep L : wf_loaded L -> forall k n d,
  find_node k L = Some n -> In d (ndeps n) ->
  exists dn, find_node d L = Some dn /\ rank L d < rank L k.
Proof.
  induction L as [|m r IH]; simpl; intros Hwf k n d Hk Hd; [discriminate|].
  destruct Hwf as (Hm & Hdeps & Hwf).
  destruct (String.eqb_spec k (nname m)) as [Ek|Ek].
  - injection Hk as <-. pose proof (Hdeps d Hd) as Hdr.
    destruct (String.eqb_spec d (nname m)) as [Ed|Ed]; [congruence|].
    destruct (has_node_find _ _ Hdr) as [dn Hdn]. exists dn. split; [assumption|].
    pose proof (rank_le r d). lia.
  - destruct (IH Hwf k n d Hk Hd) as [dn [Hdn Hr]].
    destruct (String.eqb_spec d (nname m)) as [Ed|Ed].
    + exfalso. subst d. apply find_node_Some in Hdn. destruct Hdn as [Hin Hnm].
      apply has_node_false in Hm. apply Hm. rewrite <- Hnm. now apply in_map.
    + exists dn. split; assumption.
Qed.

Section DfsSpec.
  Variable L : list node.
  Hypothesis Hwf : wf_loaded L.

  Definition edgeL (a b : name) : Prop :=
    exists m, find_node a L = Some m /\ In b (ndeps m).

  (** The nodes a walk from [n] visits for the first time, in visiting order
      (dependencies first); [built] = names already visited. *)
  Definition post_step (f : node -> list name -> option (list node)) (built : list name)
             (acc : option (list node)) (dep : name) : option (list node) :=
    match acc with
    | None => None
    | Some new =>
        match find_node dep L with
        | None => None
        | Some dn =>
            match f dn (rev (map nname new) ++ built)%list with
            | None => None
            | Some new' => Some (new ++ new')%list
            end
        end
    end.

  Fixpoint post (fuel : nat) (n : node) (built : list name) : option (list node) :=
    match fuel with
    | O => None
    | S f =>
        if mem (nname n) built then Some []
        else match fold_left (post_step (post f) built) (ndeps n) (Some []) with
             | None => None
             | Some new => Some (new ++ [n])%list
             end
    end.

  Lemma post_step_none f built deps :
    fold_left (post_step f built) deps None = None.
  Proof. induction deps; simpl; auto. Qed.

  (** *** Totality *)
  Lemma post_total : forall f n built,
    find_node (nname n) L = Some n -> rank L (nname n) < f ->
    exists new, post f n built = Some new.
  Proof.
    induction f as [|f IH]; intros n built Hn Hr; [lia|].
    simpl. destruct (mem (nname n) built); [eauto|].
    assert (H : forall deps acc,
              (forall d, In d deps -> In d (ndeps n)) ->
              exists new, fold_left (post_step (post f) built) deps (Some acc) = Some new).
    { induction deps as [|d deps IHd]; intros acc Hsub; simpl; [eauto|].
      destruct (wf_loaded_dep L Hwf _ _ d Hn (Hsub d (or_introl eq_refl))) as [dn [Hdn Hrk]].
      rewrite Hdn.
      pose proof (find_node_Some _ _ _ Hdn) as [_ Hnm].
      destruct (IH dn (rev (map nname acc) ++ built)%list) as [new' E'].
      { now rewrite Hnm. }
      { rewrite Hnm. lia. }
      rewrite E'. apply IHd. intros x Hx. apply Hsub. now right. }
    destruct (H (ndeps n) [] (fun d Hd => Hd)) as [new E]. rewrite E. eauto.
  Qed.

  (** *** What the visiting order satisfies *)
  Definition names (l : list node) : list name := map nname l.

  Record post_ok (start : list name) (built : list name) (new : list node) : Prop := {
    po_nodes : forall x, In x new ->
                 find_node (nname x) L = Some x /\ ~ In (nname x) built /\
                 exists s, In s start /\ clos_refl_trans name edgeL s (nname x);
    po_nodup : NoDup (names new);
    po_deps : forall l1 x l2, new = (l1 ++ x :: l2)%list ->
                forall d, In d (ndeps x) -> In d built \/ In d (names l1)
  }.

  Lemma post_ok_nil start built : post_ok start built [].
  Proof.
    constructor; simpl; [intros x []|constructor|].
    intros l1 x l2 H. destruct l1; discriminate.
  Qed.

  Lemma names_app a b : names (a ++ b) = (names a ++ names b)%list.
  Proof. apply map_app. Qed.

  Lemma in_rev_names x new built :
    In x (rev (names new) ++ built)%list <-> In x built \/ In x (names new).
  Proof. rewrite in_app_iff, <- in_rev. tauto. Qed.

  Lemma post_ok_app start built a b :
    post_ok start built a ->
    post_ok start (rev (names a) ++ built)%list b ->
    post_ok start built (a ++ b)%list.
  Proof.
    intros [A1 A2 A3] [B1 B2 B3]. constructor.
    - intros x Hx. apply in_app_iff in Hx. destruct Hx as [Hx|Hx]; [auto|].
      destruct (B1 x Hx) as (F & N & R). repeat split; auto.
      intros Hb. apply N. apply in_rev_names. now left.
    - rewrite names_app. apply NoDup_app_intro; auto.
      intros x Ha Hb. apply in_map_iff in Hb. destruct Hb as [y [<- Hy]].
      destruct (B1 y Hy) as (_ & N & _). apply N. apply in_rev_names. now right.
    - intros l1 x l2 E d Hd.
      destruct (split_app _ _ _ _ _ E) as [[l2' [E1 E2]]|[l1' [E1 E2]]]; subst.
      + eapply A3; eauto.
      + destruct (B3 l1' x l2 eq_refl d Hd) as [H|H].
        * apply in_rev_names in H. destruct H; [now left|right].
          rewrite names_app. apply in_app_iff. now left.
        * right. rewrite names_app. apply in_app_iff. now right.
  Qed.

  Lemma post_ok_start start start' built new :
    (forall s, In s start -> exists s', In s' start' /\ clos_refl_trans name edgeL s' s) ->
    post_ok start built new -> post_ok start' built new.
  Proof.
    intros Hs [A1 A2 A3]. constructor; auto.
    intros x Hx. destruct (A1 x Hx) as (F & N & s & Hsin & Hr). repeat split; auto.
    destruct (Hs s Hsin) as (s' & Hs' & Hr'). exists s'. split; [assumption|].
    eapply rt_trans; eauto.
  Qed.

  Lemma post_spec : forall f n built new,
    find_node (nname n) L = Some n -> post f n built = Some new ->
    post_ok [nname n] built new /\
    (In (nname n) built \/ In (nname n) (names new)) /\
    (forall x, In x new -> rank L (nname x) <= rank L (nname n)).
  Proof.
    induction f as [|f IH]; intros n built new Hn Hp; [discriminate|].
    simpl in Hp. destruct (mem (nname n) built) eqn:Hm.
    { injection Hp as <-. split; [apply post_ok_nil|]. split; [left; now apply mem_In|intros x []]. }
    apply mem_false in Hm.
    destruct (fold_left (post_step (post f) built) (ndeps n) (Some [])) as [dnew|] eqn:Hfold;
      [|discriminate].
    injection Hp as <-.
    assert (H : forall deps acc res,
              (forall d, In d deps -> In d (ndeps n)) ->
              post_ok [nname n] built acc ->
              (forall x, In x acc -> rank L (nname x) < rank L (nname n)) ->
              fold_left (post_step (post f) built) deps (Some acc) = Some res ->
              post_ok [nname n] built res /\
              (forall d, In d deps -> In d built \/ In d (names res)) /\
              (forall x, In x (names acc) -> In x (names res)) /\
              (forall x, In x res -> rank L (nname x) < rank L (nname n))).
    { induction deps as [|d deps IHd]; intros acc res Hsub Hacc Hrk Hf; simpl in Hf.
      - injection Hf as <-. split; [assumption|]. split; [intros d []|]. split; auto.
      - destruct (find_node d L) as [dn|] eqn:Hdn; [|now rewrite post_step_none in Hf].
        destruct (post f dn (rev (map nname acc) ++ built)%list) as [new'|] eqn:Hp';
          [|now rewrite post_step_none in Hf].
        pose proof (find_node_Some _ _ _ Hdn) as [_ Hnm].
        assert (Hdn' : find_node (nname dn) L = Some dn) by now rewrite Hnm.
        destruct (IH dn _ new' Hdn' Hp') as (Hok' & Hin' & Hrk').
        rewrite Hnm in *.
        destruct (wf_loaded_dep L Hwf _ _ d Hn (Hsub d (or_introl eq_refl))) as [dn2 [_ Hdrk]].
        assert (Hok2 : post_ok [nname n] built (acc ++ new')%list).
        { apply post_ok_app; [assumption|].
          eapply post_ok_start; [|exact Hok'].
          intros s [<-|[]]. exists (nname n). split; [now left|].
          apply rt_step. exists n. split; [assumption|]. apply Hsub. now left. }
        destruct (IHd (acc ++ new')%list res) as (R1 & R2 & R3 & R4); auto.
        { intros x Hx. apply Hsub. now right. }
        { intros x Hx. apply in_app_iff in Hx. destruct Hx as [Hx|Hx]; [auto|].
          pose proof (Hrk' x Hx). lia. }
        split; [assumption|]. split; [|split; [|assumption]].
        + intros d' [<-|Hd'].
          * destruct Hin' as [Hin'|Hin'].
            -- apply in_rev_names in Hin'. destruct Hin' as [Hb|Hb]; [now left|].
               right. apply R3. unfold names. rewrite map_app. apply in_app_iff. now left.
            -- right. apply R3. unfold names. rewrite map_app. apply in_app_iff. now right.
          * auto.
        + intros x Hx. apply R3. unfold names. rewrite map_app. apply in_app_iff. now left. }
    destruct (H (ndeps n) [] dnew (fun d Hd => Hd) (post_ok_nil _ _) (fun x (Hx : In x []) => match Hx with end) Hfold)
      as (R1 & R2 & _ & R4).
    split; [|split].
    - apply post_ok_app; [assumption|]. constructor.
      + intros x [<-|[]]. repeat split; auto.
        * intros Hb. apply in_rev_names in Hb. destruct Hb as [Hb|Hb]; [auto|].
          apply in_map_iff in Hb. destruct Hb as [y [Hy1 Hy2]].
          pose proof (R4 y Hy2). rewrite Hy1 in H0. lia.
        * exists (nname n). split; [now left|apply rt_refl].
      + simpl. constructor; [intros []|constructor].
      + intros l1 x l2 E d Hd. destruct l1 as [|y l1]; simpl in E.
        * injection E as <- _. destruct (R2 d Hd) as [Hb|Hb].
          -- left. apply in_rev_names. now left.
          -- left. apply in_rev_names. now right.
        * injection E as _ E. destruct l1; discriminate.
    - right. rewrite names_app. apply in_app_iff. right. now left.
    - intros x Hx. apply in_app_iff in Hx. destruct Hx as [Hx|[<-|[]]]; [|lia].
      pose proof (R4 x Hx). lia.
  Qed.

  Lemma post_S f n built :
    post (S f) n built =
    if mem (nname n) built then Some []
    else match fold_left (post_step (post f) built) (ndeps n) (Some []) with
         | None => None
         | Some new => Some (new ++ [n])%list
         end.
  Proof. reflexivity. Qed.

  (** *** The walk over the requested nodes ([buildNodes]) *)
  Arguments post : simpl never.
  Arguments dfs_fuel : simpl never.
  Definition ptarget_step (built : list name) (acc : option (list node)) (t : name)
    : option (list node) :=
    match acc with
    | None => None
    | Some new =>
        match find_node t L with
        | None => Some new
        | Some n =>
            match ntype n with
            | TSrc => Some new
            | _ => match post (dfs_fuel L) n (rev (map nname new) ++ built)%list with
                   | None => None
                   | Some new' => Some (new ++ new')%list
                   end
            end
        end
    end.

  Definition post_targets (ts : list name) (built : list name) : option (list node) :=
    fold_left (ptarget_step built) ts (Some []).

  Lemma ptarget_step_none built ts : fold_left (ptarget_step built) ts None = None.
  Proof. induction ts; simpl; auto. Qed.

  Lemma post_targets_total ts built : exists new, post_targets ts built = Some new.
  Proof.
    unfold post_targets. generalize (@nil node) as acc.
    induction ts as [|t ts IH]; intros acc; simpl; [eauto|].
    destruct (find_node t L) as [n|] eqn:Hn; [|apply IH].
    destruct (ntype n); try apply IH.
    - pose proof (find_node_Some _ _ _ Hn) as [_ Hnm].
      destruct (post_total (dfs_fuel L) n (rev (map nname acc) ++ built)%list) as [new' E].
      { now rewrite Hnm. }
      { unfold dfs_fuel. pose proof (rank_le L (nname n)). lia. }
      rewrite E. apply IH.
    - pose proof (find_node_Some _ _ _ Hn) as [_ Hnm].
      destruct (post_total (dfs_fuel L) n (rev (map nname acc) ++ built)%list) as [new' E].
      { now rewrite Hnm. }
      { unfold dfs_fuel. pose proof (rank_le L (nname n)). lia. }
      rewrite E. apply IH.
  Qed.

  Lemma post_targets_spec ts built new :
    post_targets ts built = Some new ->
    post_ok ts built new /\
    (forall t n, In t ts -> find_node t L = Some n -> ntype n <> TSrc ->
                 In t built \/ In t (names new)).
  Proof.
    unfold post_targets.
    assert (H : forall ts0 acc res,
              (forall t, In t ts0 -> In t ts) ->
              post_ok ts built acc ->
              fold_left (ptarget_step built) ts0 (Some acc) = Some res ->
              post_ok ts built res /\
              (forall t n, In t ts0 -> find_node t L = Some n -> ntype n <> TSrc ->
                           In t built \/ In t (names res)) /\
              (forall x, In x (names acc) -> In x (names res))).
    { induction ts0 as [|t ts0 IH]; intros acc res Hsub Hacc Hf; simpl in Hf.
      - injection Hf as <-. split; [assumption|]. split; [intros t n []|auto].
      - assert (Hsub' : forall t', In t' ts0 -> In t' ts) by (intros t' Ht'; apply Hsub; now right).
        destruct (find_node t L) as [n|] eqn:Hn.
        + assert (Hsrc : ntype n = TSrc ->
                   fold_left (ptarget_step built) ts0 (Some acc) = Some res ->
                   post_ok ts built res /\
                   (forall t' n', t = t' \/ In t' ts0 -> find_node t' L = Some n' ->
                       ntype n' <> TSrc -> In t' built \/ In t' (names res)) /\
                   (forall x, In x (names acc) -> In x (names res))).
          { intros Hty Hf'. destruct (IH acc res Hsub' Hacc Hf') as (R1 & R2 & R3).
            split; [assumption|]. split; [|assumption].
            intros t' n' [<-|Ht'] Hn' Hty'; [congruence|eauto]. }
          assert (Hgo : forall new',
                   post (dfs_fuel L) n (rev (map nname acc) ++ built)%list = Some new' ->
                   fold_left (ptarget_step built) ts0 (Some (acc ++ new')%list) = Some res ->
                   post_ok ts built res /\
                   (forall t' n', t = t' \/ In t' ts0 -> find_node t' L = Some n' ->
                       ntype n' <> TSrc -> In t' built \/ In t' (names res)) /\
                   (forall x, In x (names acc) -> In x (names res))).
          { intros new' Hp Hf'.
            pose proof (find_node_Some _ _ _ Hn) as [_ Hnm].
            assert (Hn' : find_node (nname n) L = Some n) by now rewrite Hnm.
            destruct (post_spec _ _ _ _ Hn' Hp) as (Hok' & Hin' & _). rewrite Hnm in *.
            assert (Hok2 : post_ok ts built (acc ++ new')%list).
            { apply post_ok_app; [assumption|]. eapply post_ok_start; [|exact Hok'].
              intros s [<-|[]]. exists t. split; [apply Hsub; now left|apply rt_refl]. }
            destruct (IH _ res Hsub' Hok2 Hf') as (R1 & R2 & R3).
            split; [assumption|]. split.
            - intros t' n' [<-|Ht'] Hn2 Hty'; [|eauto].
              destruct Hin' as [Hin'|Hin'].
              + apply in_rev_names in Hin'. destruct Hin' as [Hb|Hb]; [now left|].
                right. apply R3. rewrite names_app. apply in_app_iff. now left.
              + right. apply R3. rewrite names_app. apply in_app_iff. now right.
            - intros x Hx. apply R3. rewrite names_app. apply in_app_iff. now left. }
          destruct (ntype n) eqn:Hty.
          * now apply Hsrc.
          * destruct (post (dfs_fuel L) n (rev (map nname acc) ++ built)%list) as [new'|] eqn:Hp;
              [|now rewrite ptarget_step_none in Hf]. now apply (Hgo new').
          * destruct (post (dfs_fuel L) n (rev (map nname acc) ++ built)%list) as [new'|] eqn:Hp;
              [|now rewrite ptarget_step_none in Hf]. now apply (Hgo new').
        + destruct (IH acc res Hsub' Hacc Hf) as (R1 & R2 & R3).
          split; [assumption|]. split; [|assumption].
          intros t' n' [<-|Ht'] Hn' Hty'; [congruence|eauto]. }
    intros Hf. destruct (H ts [] new (fun t Ht => Ht) (post_ok_nil _ _) Hf) as (R1 & R2 & _).
    split; assumption.
  Qed.

  (** Everything a visited node depends on, directly or not, was visited
      strictly before it. *)
  Lemma post_before start new :
    post_ok start [] new ->
    forall k l1 x l2, List.length l1 <= k -> new = (l1 ++ x :: l2)%list ->
    forall b, clos_trans name edgeL (nname x) b -> In b (names l1).
  Proof.
    intros Hok. induction k as [|k IH]; intros l1 x l2 Hlen E b Hb.
    - destruct l1; [|simpl in Hlen; lia].
      apply clos_trans_t1n in Hb.
      assert (Hd : exists d, edgeL (nname x) d) by (inversion Hb; eauto).
      destruct Hd as [d [m [Hm Hdm]]].
      destruct (po_nodes _ _ _ Hok x) as (Hx & _).
      { rewrite E. apply in_app_iff. right. now left. }
      assert (m = x) by congruence. subst m.
      destruct (po_deps _ _ _ Hok _ _ _ E d Hdm) as [[]|[]].
    - apply clos_trans_t1n in Hb.
      destruct (po_nodes _ _ _ Hok x) as (Hx & _).
      { rewrite E. apply in_app_iff. right. now left. }
      assert (Hstep : forall d, edgeL (nname x) d -> In d (names l1)).
      { intros d [m [Hm Hdm]]. assert (m = x) by congruence. subst m.
        destruct (po_deps _ _ _ Hok _ _ _ E d Hdm) as [[]|H]. exact H. }
      inversion Hb as [y Hy|y z Hy Hyz]; subst; [now apply Hstep|].
      pose proof (Hstep y Hy) as Hin. apply in_map_iff in Hin.
      destruct Hin as [yn [Hyn Hyin]]. apply in_split in Hyin.
      destruct Hyin as [l1a [l1b ->]].
      assert (Hb' : In b (names l1a)).
      { apply (IH l1a yn (l1b ++ x :: l2)%list).
        - rewrite app_length in Hlen. simpl in Hlen. lia.
        - rewrite <- app_assoc. reflexivity.
        - rewrite Hyn. now apply clos_t1n_trans. }
      rewrite names_app. apply in_app_iff. now left.
  Qed.

  (** *** [dfs] does [visit] at the nodes of [post], in that order *)
  Section Generic.
    Variable St Er : Type.
    Variable visit : node -> St -> St + Er.
    Variable missing : name -> name -> Er.

    Fixpoint run (new : list node) (bs : list name * St) : (list name * St) + Er :=
      match new with
      | [] => inl bs
      | x :: r =>
          match visit x (snd bs) with
          | inl st' => run r (nname x :: fst bs, st')
          | inr e => inr e
          end
      end.

    Lemma run_app a b bs :
      run (a ++ b) bs = match run a bs with inl bs' => run b bs' | inr e => inr e end.
    Proof.
      revert bs. induction a as [|x a IH]; intros bs; simpl; [reflexivity|].
      destruct (visit x (snd bs)); [apply IH|reflexivity].
    Qed.

    Lemma run_built a bs bs' : run a bs = inl bs' -> fst bs' = (rev (names a) ++ fst bs)%list.
    Proof.
      revert bs. induction a as [|x a IH]; intros bs; simpl.
      - intros [= <-]. reflexivity.
      - destruct (visit x (snd bs)); [|discriminate]. intros H.
        rewrite (IH _ H). simpl. now rewrite <- app_assoc.
    Qed.

    Lemma dfs_post : forall f n built st new,
      post f n built = Some new ->
      dfs St Er L visit missing f n (built, st) = Some (run new (built, st)).
    Proof.
      induction f as [|f IH]; intros n built st new Hp; [discriminate|].
      rewrite post_S in Hp. cbn [dfs fst].
      destruct (mem (nname n) built); [injection Hp as <-; reflexivity|].
      destruct (fold_left (post_step (post f) built) (ndeps n) (Some [])) as [dnew|] eqn:Hfold;
        [|discriminate].
      injection Hp as <-.
      assert (H : forall deps acc res,
                fold_left (post_step (post f) built) deps (Some acc) = Some res ->
                fold_left (dstep St Er L missing (fun _ dn bs => dfs St Er L visit missing f dn bs)
                                 (nname n)) deps (Some (run acc (built, st)))
                = Some (run res (built, st))).
      { induction deps as [|d deps IHd]; intros acc res Hf; cbn [fold_left] in *.
        - now injection Hf as <-.
        - unfold post_step at 2 in Hf.
          destruct (find_node d L) as [dn|] eqn:Hdn; [|now rewrite post_step_none in Hf].
          destruct (post f dn (rev (map nname acc) ++ built)%list) as [new'|] eqn:Hp';
            [|now rewrite post_step_none in Hf].
          rewrite <- (IHd _ _ Hf). f_equal.
          unfold dstep. rewrite run_app.
          destruct (run acc (built, st)) as [[b' st']|e] eqn:Hr; [|reflexivity].
          rewrite Hdn. pose proof (run_built _ _ _ Hr) as Hb. simpl in Hb. subst b'.
          now apply IH. }
      specialize (H (ndeps n) [] dnew Hfold). cbn [run] in H.
      match goal with
      | |- match ?X with _ => _ end = _ =>
          replace X with (Some (run dnew (built, st))) by (symmetry; exact H)
      end.
      rewrite run_app. destruct (run dnew (built, st)) as [[b' st']|e]; [|reflexivity].
      cbn [run snd fst]. destruct (visit n st'); reflexivity.
    Qed.

    Lemma dfs_targets_post ts built st new :
      post_targets ts built = Some new ->
      dfs_targets St Er L visit missing ts (built, st) = Some (run new (built, st)).
    Proof.
      unfold post_targets, dfs_targets.
      assert (H : forall ts new acc (r : dres St Er),
                r = run acc (built, st) ->
                fold_left (ptarget_step built) ts (Some acc) = Some new ->
                fold_left
                  (fun (r : option (dres St Er)) (t : name) =>
                     match r with
                     | Some (inl bs) =>
                         match find_node t L with
                         | Some n =>
                             match ntype n with
                             | TSrc => Some (inl bs)
                             | _ => dfs St Er L visit missing (dfs_fuel L) n bs
                             end
                         | None => Some (inl bs)
                         end
                     | Some (inr e) => Some (inr e)
                     | None => None
                     end) ts (Some r) = Some (run new (built, st))).
      { clear ts new. induction ts as [|t ts IH]; intros new acc r Hr Hf; cbn [fold_left] in *.
        - injection Hf as <-. now subst r.
        - unfold ptarget_step at 2 in Hf.
          destruct r as [[b' st']|e].
          + symmetry in Hr. pose proof (run_built _ _ _ Hr) as Hb. simpl in Hb. unfold names in Hb. subst b'.
            destruct (find_node t L) as [n|] eqn:Hn.
            * destruct (ntype n) eqn:Hty.
              -- apply (IH new acc); [now symmetry|assumption].
              -- destruct (post (dfs_fuel L) n (rev (map nname acc) ++ built)%list) as [new'|] eqn:Hp;
                   [|now rewrite ptarget_step_none in Hf].
                 rewrite (dfs_post _ _ _ st' _ Hp).
                 apply (IH new (acc ++ new')%list); [|assumption].
                 rewrite run_app, Hr. reflexivity.
              -- destruct (post (dfs_fuel L) n (rev (map nname acc) ++ built)%list) as [new'|] eqn:Hp;
                   [|now rewrite ptarget_step_none in Hf].
                 rewrite (dfs_post _ _ _ st' _ Hp).
                 apply (IH new (acc ++ new')%list); [|assumption].
                 rewrite run_app, Hr. reflexivity.
            * apply (IH new acc); [now symmetry|assumption].
          + (* an earlier visit failed: nothing more happens *)
            assert (Hres : exists acc', fold_left (ptarget_step built) ts (Some acc') = Some new
                                        /\ inr e = run acc' (built, st)).
            { destruct (find_node t L) as [n|]; [|eauto].
              destruct (ntype n); [eauto| |];
                (destruct (post (dfs_fuel L) n (rev (map nname acc) ++ built)%list) as [new'|];
                 [|now rewrite ptarget_step_none in Hf];
                 exists (acc ++ new')%list; split; [assumption|]; now rewrite run_app, <- Hr). }
            destruct Hres as [acc' [Hf' Hr']]. apply (IH new acc'); assumption. }
      intros Hf. apply (H ts new []); [reflexivity|assumption].
    Qed.
  End Generic.

  (** *** The execution order observed by C11 *)
  Definition is_rule (x : node) : bool :=
    match ntype x with TRule => true | _ => false end.

  Lemma run_exec new b ex :
    run (list name) unit exec_visit new (b, ex)
    = inl ((rev (names new) ++ b)%list, (ex ++ names (filter is_rule new))%list).
  Proof.
    revert b ex. induction new as [|x new IH]; intros b ex; simpl.
    - now rewrite app_nil_r.
    - unfold exec_visit at 1, is_rule at 1. destruct (ntype x); simpl; rewrite IH; simpl;
        rewrite <- ?app_assoc; reflexivity.
  Qed.

  Lemma exec_order_post ts :
    exists new, post_targets ts [] = Some new /\
                exec_order L ts = CExec (names (filter is_rule new)).
  Proof.
    destruct (post_targets_total ts []) as [new Hn]. exists new. split; [assumption|].
    unfold exec_order.
    rewrite (dfs_targets_post (list name) unit exec_visit (fun _ _ => tt) ts [] [] new Hn).
    now rewrite run_exec.
  Qed.

  Lemma rt_cases {A} (R : relation A) a b :
    clos_refl_trans A R a b -> a = b \/ clos_trans A R a b.
  Proof.
    induction 1 as [x y H|x|x y z H1 IH1 H2 IH2].
    - right. now apply t_step.
    - now left.
    - destruct IH1 as [->|IH1]; [assumption|]. destruct IH2 as [<-|IH2]; [now right|].
      right. eapply t_trans; eauto.
  Qed.

  Lemma map_filter_split {A B} (g : A -> B) (p : A -> bool) l e1 a e2 :
    map g (filter p l) = (e1 ++ a :: e2)%list ->
    exists l1 x l2, l = (l1 ++ x :: l2)%list /\ p x = true /\ g x = a /\
                    map g (filter p l1) = e1 /\ map g (filter p l2) = e2.
  Proof.
    revert e1. induction l as [|y l IH]; intros e1 E; simpl in E.
    - destruct e1; discriminate.
    - destruct (p y) eqn:Py.
      + destruct e1 as [|z e1]; simpl in E.
        * injection E as E1 E2. exists [], y, l. simpl. auto.
        * injection E as E1 E2. destruct (IH e1 E2) as (l1 & x & l2 & -> & Px & Gx & M1 & M2).
          exists (y :: l1), x, l2. simpl. rewrite Py. simpl. repeat split; auto. congruence.
      + destruct (IH e1 E) as (l1 & x & l2 & -> & Px & Gx & M1 & M2).
        exists (y :: l1), x, l2. simpl. rewrite Py. auto.
  Qed.

  Theorem exec_sound ts :
    (forall t, In t ts -> has_node t L = true) ->
    (forall n, In n L -> ntype n = TSrc -> ndeps n = []) ->
    exists ex, exec_order L ts = CExec ex /\
      NoDup ex /\
      (forall r, In r ex <->
                 exists t n, In t ts /\ clos_refl_trans name edgeL t r /\
                             find_node r L = Some n /\ ntype n = TRule) /\
      (forall e1 a e2, ex = (e1 ++ a :: e2)%list ->
         forall b n, clos_trans name edgeL a b -> find_node b L = Some n ->
                     ntype n = TRule -> In b e1).
  Proof.
    intros Hts Hsrc.
    destruct (exec_order_post ts) as [new [Hn He]].
    exists (names (filter is_rule new)). split; [assumption|].
    destruct (post_targets_spec ts [] new Hn) as [Hok Hin].
    assert (Hrule : forall x l, In x l -> is_rule x = true -> In (nname x) (names (filter is_rule l))).
    { intros x l Hx Hr. apply in_map. apply filter_In. auto. }
    split; [|split].
    - (* no rule twice *)
      pose proof (po_nodup _ _ _ Hok) as Hnd. clear -Hnd.
      induction new as [|x new IH]; simpl in *; [constructor|].
      inversion Hnd as [|? ? Hx Hnd']; subst. destruct (is_rule x); simpl; [|auto].
      constructor; [|auto]. intros Hc. apply Hx.
      apply in_map_iff in Hc. destruct Hc as [y [Hy1 Hy2]]. apply filter_In in Hy2.
      rewrite <- Hy1. apply in_map. tauto.
    - intros r. split.
      + intros Hr. apply in_map_iff in Hr. destruct Hr as [x [<- Hx]].
        apply filter_In in Hx. destruct Hx as [Hx Hxr].
        destruct (po_nodes _ _ _ Hok x Hx) as (Hf & _ & s & Hs & Hsr).
        exists s, x. repeat split; auto. unfold is_rule in Hxr. destruct (ntype x); congruence.
      + intros (t & n & Ht & Htr & Hn' & Hty).
        destruct (has_node_find _ _ (Hts t Ht)) as [tn Htn].
        assert (Hnsrc : ntype tn <> TSrc).
        { intros Hs. pose proof (find_node_Some _ _ _ Htn) as [Htin _].
          pose proof (Hsrc tn Htin Hs) as Hnd.
          apply clos_rt_rt1n in Htr. inversion Htr as [|y z Hy Hyz]; subst.
          - congruence.
          - destruct Hy as [m [Hm Hd]]. assert (m = tn) by congruence. subst m.
            rewrite Hnd in Hd. destruct Hd. }
        destruct (Hin t tn Ht Htn Hnsrc) as [[]|Htin].
        apply in_map_iff in Htin. destruct Htin as [x0 [Hx0 Hx0in]].
        assert (Hrin : In r (names new)).
        { destruct (rt_cases _ _ _ Htr) as [<-|Htp].
          - rewrite <- Hx0. now apply in_map.
          - apply in_split in Hx0in. destruct Hx0in as [l1 [l2 ->]].
            rewrite names_app. apply in_app_iff. left.
            apply (post_before ts _ Hok (List.length l1) l1 x0 l2 (le_n _) eq_refl).
            now rewrite Hx0. }
        apply in_map_iff in Hrin. destruct Hrin as [y [Hy Hyin]].
        destruct (po_nodes _ _ _ Hok y Hyin) as (Hfy & _). rewrite Hy in Hfy.
        assert (y = n) by congruence. subst y. rewrite <- Hy. apply Hrule; [assumption|].
        unfold is_rule. now rewrite Hty.
    - intros e1 a e2 E b n Hab Hb Hty.
      destruct (map_filter_split _ _ _ _ _ _ E) as (l1 & x & l2 & Hnew & Px & Gx & M1 & M2).
      pose proof (post_before ts _ Hok (List.length l1) l1 x l2 (le_n _) Hnew b) as Hbin.
      rewrite Gx in Hbin. specialize (Hbin Hab).
      apply in_map_iff in Hbin. destruct Hbin as [y [Hy Hyin]].
      destruct (po_nodes _ _ _ Hok y) as (Hfy & _).
      { rewrite Hnew. apply in_app_iff. now left. }
      rewrite Hy in Hfy. assert (y = n) by congruence. subst y.
      rewrite <- M1, <- Hy. apply Hrule; [assumption|]. unfold is_rule. now rewrite Hty.
  Qed.
End DfsSpec.

(** * From the loaded list back to the registered graph *)
Section Bridge.
  Variable ns : list node.
  Variable kind : name -> skind.
  Hypothesis ns_nonsrc : forall n, In n ns -> ntype n <> TSrc.

  Variable L : list node.
  Hypothesis Ht : topo ns kind L.

  Lemma topo_In m : In m L -> lnode_ok ns kind m.
  Proof.
    revert Ht. induction L as [|n r IH]; simpl; [tauto|].
    intros (Hok & _ & _ & Hr) [<-|Hin]; auto.
  Qed.

  Lemma topo_find a m : find_node a L = Some m -> lnode_ok ns kind m /\ nname m = a.
  Proof. intros H. apply find_node_Some in H. destruct H. split; [now apply topo_In|assumption]. Qed.

  Lemma edgeL_edge a b : edgeL L a b -> edge ns a b.
  Proof.
    intros [m [Hm Hb]]. destruct (topo_find _ _ Hm) as [[Hf|(_ & _ & _ & Hs)] Hnm].
    - exists m. rewrite Hnm in Hf. auto.
    - rewrite Hs in Hb. destruct Hb.
  Qed.

  Lemma edge_edgeL a b : has_node a L = true -> edge ns a b -> edgeL L a b.
  Proof.
    intros Ha [n [Hn Hb]]. destruct (has_node_find _ _ Ha) as [m Hm].
    destruct (topo_find _ _ Hm) as [[Hf|(Hf & _)] Hnm]; rewrite Hnm in Hf; [|congruence].
    assert (m = n) by congruence. subst m. exists n. auto.
  Qed.

  Lemma rtL_rt a b : clos_refl_trans name (edgeL L) a b -> clos_refl_trans name (edge ns) a b.
  Proof.
    induction 1; [apply rt_step; now apply edgeL_edge|apply rt_refl|eapply rt_trans; eauto].
  Qed.

  Lemma tL_t a b : clos_trans name (edgeL L) a b -> clos_trans name (edge ns) a b.
  Proof.
    induction 1; [apply t_step; now apply edgeL_edge|eapply t_trans; eauto].
  Qed.

  Lemma rt_rtL a b :
    has_node a L = true -> clos_refl_trans name (edge ns) a b -> clos_refl_trans name (edgeL L) a b.
  Proof.
    intros Ha Hab. apply clos_rt_rt1n in Hab.
    induction Hab as [x|x y z Hxy Hyz IH]; [apply rt_refl|].
    apply rt_trans with y; [apply rt_step; apply edge_edgeL; assumption|].
    apply IH. eapply topo_edge; eauto.
  Qed.

  Lemma t_tL a b :
    has_node a L = true -> clos_trans name (edge ns) a b -> clos_trans name (edgeL L) a b.
  Proof.
    intros Ha Hab. apply clos_trans_t1n in Hab.
    induction Hab as [x y Hxy|x y z Hxy Hyz IH]; [apply t_step; apply edge_edgeL; assumption|].
    apply t_trans with y; [apply t_step; apply edge_edgeL; assumption|].
    apply IH. eapply topo_edge; eauto.
  Qed.

  Lemma loaded_src_nodeps n : In n L -> ntype n = TSrc -> ndeps n = [].
  Proof.
    intros Hin Hty. destruct (topo_In _ Hin) as [Hf|(_ & _ & _ & ->)]; [|reflexivity].
    apply find_node_Some in Hf. destruct Hf as [Hns _]. exfalso. now apply (ns_nonsrc n).
  Qed.

  Lemma rule_L_ns r n :
    has_node r L = true ->
    (find_node r L = Some n /\ ntype n = TRule <-> find_node r ns = Some n /\ ntype n = TRule).
  Proof.
    intros Hr. destruct (has_node_find _ _ Hr) as [m Hm].
    destruct (topo_find _ _ Hm) as [[Hf|(Hf & _ & _ & Hs)] Hnm]; rewrite Hnm in Hf.
    - split; intros [H1 H2]; split; auto; congruence.
    - split; intros [H1 H2]; [|congruence].
      assert (m = n) by congruence. subst m. rewrite Hs in H2. simpl in H2. discriminate.
  Qed.
End Bridge.

(** Invariants of the registered node list through reading. *)
Lemma register_nodes_inv (P : list node -> Prop) n st :
  (forall l, P l -> P (l ++ [n])%list) -> P (r_nodes st) -> P (r_nodes (register n st)).
Proof.
  intros Hadd H. unfold register, r_err.
  destruct (String.eqb (nname n) ""); [assumption|].
  destruct (has_node (nname n) (r_nodes st)); simpl; auto.
Qed.

Lemma register_decl_nonsrc st d :
  (forall n, In n (r_nodes st) -> ntype n <> TSrc) ->
  (forall n, In n (r_nodes (register_decl st d)) -> ntype n <> TSrc).
Proof.
  destruct d as [nm deps outs| |]; simpl; auto.
  intros H.
  assert (H0 : forall n, In n (r_nodes (register (mkNode nm TRule deps) st)) -> ntype n <> TSrc).
  { apply register_nodes_inv with (P := fun l => forall n, In n l -> ntype n <> TSrc); [|assumption].
    intros l Hl n Hn. apply in_app_iff in Hn. destruct Hn as [Hn|[<-|[]]]; [auto|discriminate]. }
  revert H0. generalize (register (mkNode nm TRule deps) st).
  induction outs as [|o outs IH]; simpl; intros r Hr; [assumption|].
  apply IH.
  apply register_nodes_inv with (P := fun l => forall n, In n l -> ntype n <> TSrc); [|assumption].
  intros l Hl n Hn. apply in_app_iff in Hn. destruct Hn as [Hn|[<-|[]]]; [auto|discriminate].
Qed.

Lemma read_dir_nonsrc fs : forall f p st st',
  (forall n, In n (r_nodes st) -> ntype n <> TSrc) ->
  read_dir f fs p st = Some st' ->
  (forall n, In n (r_nodes st') -> ntype n <> TSrc).
Proof.
  induction f as [|f IH]; intros p st st' H E; [discriminate|].
  simpl in E. destruct (mem p (r_seen st)); [now injection E as <-|].
  destruct (lookup p fs) as [ds|]; [|injection E as <-; exact H].
  destruct (file_errs ds); [|injection E as <-; exact H].
  assert (H1 : forall n, In n (r_nodes (fold_left register_decl ds
               (mkR (r_nodes st) (r_errs st) (p :: r_seen st)))) -> ntype n <> TSrc).
  { assert (Hg : forall ds s, (forall n, In n (r_nodes s) -> ntype n <> TSrc) ->
                forall n, In n (r_nodes (fold_left register_decl ds s)) -> ntype n <> TSrc).
    { clear. induction ds as [|d ds IHd]; simpl; intros s Hs; [assumption|].
      apply IHd. now apply register_decl_nonsrc. }
    apply Hg. simpl. exact H. }
  revert E H1. generalize (fold_left register_decl ds (mkR (r_nodes st) (r_errs st) (p :: r_seen st))).
  generalize (sort_dedup (sub_dirs ds)).
  induction l as [|d l IHl]; intros s E Hs.
  - now injection E as <-.
  - rewrite ofold_cons in E. destruct (read_dir f fs d s) as [s1|] eqn:E1;
      [|now rewrite ofold_none in E].
    eapply IHl; [exact E|]. eapply IH; eauto.
Qed.

Lemma read_roots_nonsrc fs roots st :
  read_roots fs roots = Some st -> forall n, In n (r_nodes st) -> ntype n <> TSrc.
Proof.
  unfold read_roots.
  assert (H : forall l s, (forall n, In n (r_nodes s) -> ntype n <> TSrc) ->
            ofold (read_dir (read_fuel fs) fs) l (Some s) = Some st ->
            forall n, In n (r_nodes st) -> ntype n <> TSrc).
  { induction l as [|d l IHl]; intros s Hs E.
    - now injection E as <-.
    - rewrite ofold_cons in E. destruct (read_dir (read_fuel fs) fs d s) as [s1|] eqn:E1;
        [|now rewrite ofold_none in E].
      eapply IHl; [|exact E]. eapply read_dir_nonsrc; eauto. }
  apply H. simpl. intros n [].
Qed.

(** * The whole run, after the build files were read without error *)
Theorem c11_after_read fs roots kind ts st :
  read_roots fs roots = Some st -> r_errs st = [] ->
  match c11_run fs roots kind ts with
  | CErr es => es <> [] /\ bad_reachable (r_nodes st) kind ts
  | CExec ex =>
      ~ bad_reachable (r_nodes st) kind ts /\ NoDup ex /\
      (forall r, In r ex <->
         exists t n, In t ts /\ clos_refl_trans name (edge (r_nodes st)) t r /\
                     find_node r (r_nodes st) = Some n /\ ntype n = TRule) /\
      (forall e1 a e2, ex = (e1 ++ a :: e2)%list ->
         forall b n, clos_trans name (edge (r_nodes st)) a b ->
                     find_node b (r_nodes st) = Some n -> ntype n = TRule -> In b e1)
  | _ => False
  end.
Proof.
  intros Hr He. unfold c11_run, load_nodes. rewrite Hr, He.
  pose proof (read_roots_nonsrc _ _ _ Hr) as Hns.
  destruct (load_all_spec (r_nodes st) kind ts) as [s' [El [Hbad Hok]]]. rewrite El.
  destruct (l_errs s') as [|e es] eqn:Hes.
  - destruct (Hok eq_refl) as [Htopo Hts].
    pose proof (topo_wf _ _ _ Htopo) as Hwf.
    destruct (exec_sound _ Hwf ts Hts (loaded_src_nodeps _ kind Hns _ Htopo))
      as [ex (Hex & Hnd & Hiff & Hord)].
    rewrite Hex. split; [|split; [assumption|split]].
    + intros Hb. apply Hbad in Hb. congruence.
    + intros r. rewrite Hiff. split.
      * intros (t & n & Ht & Htr & Hn & Hty). exists t, n.
        assert (Hrl : has_node r (l_loaded s') = true).
        { unfold has_node. now rewrite Hn. }
        split; [assumption|]. split; [eapply rtL_rt; eauto|].
        now apply (rule_L_ns _ kind _ Htopo r n Hrl).
      * intros (t & n & Ht & Htr & Hn & Hty). exists t, n.
        assert (Hrl : has_node r (l_loaded s') = true).
        { eapply topo_closed; eauto. }
        split; [assumption|]. split; [eapply rt_rtL; eauto|].
        now apply (rule_L_ns _ kind _ Htopo r n Hrl).
    + intros e1 a e2 E b n Hab Hb Hty.
      assert (Hal : has_node a (l_loaded s') = true).
      { assert (Hin : In a ex) by (rewrite E; apply in_app_iff; right; now left).
        apply Hiff in Hin. destruct Hin as (t & m & _ & _ & Hm & _).
        unfold has_node. now rewrite Hm. }
      assert (Hbl : has_node b (l_loaded s') = true).
      { eapply topo_closed; eauto. now apply t_rt. }
      apply (Hord e1 a e2 E b n).
      * eapply t_tL; eauto.
      * now apply (rule_L_ns _ kind _ Htopo b n Hbl).
      * assumption.
  - split; [discriminate|]. apply Hbad. discriminate.
Qed.

(** * Reading: which directories are read, what is registered, when it fails *)

Lemma insert_sorted_In x y l : In y (insert_sorted x l) <-> y = x \/ In y l.
Proof.
  induction l as [|z l IH]; simpl; [intuition|].
  destruct (String.eqb_spec x z) as [->|Hne]; simpl; [intuition|].
  destruct (String.leb x z); simpl; [intuition|]. rewrite IH. intuition.
Qed.

Lemma sort_dedup_In x l : In x (sort_dedup l) <-> In x l.
Proof.
  unfold sort_dedup. induction l as [|y l IH]; simpl; [tauto|].
  rewrite insert_sorted_In, IH. intuition.
Qed.

Definition file_nodes (ds : list decl) : list node :=
  flat_map (fun d => match d with
                     | DRule nm deps outs =>
                         mkNode nm TRule deps :: map (fun o => mkNode o TOut [nm]) outs
                     | _ => []
                     end) ds.

Definition reg_all (l : list node) (st : rstate) : rstate :=
  fold_left (fun st n => register n st) l st.

Lemma reg_all_app a b st : reg_all (a ++ b) st = reg_all b (reg_all a st).
Proof. apply fold_left_app. Qed.

Lemma register_decls_reg_all ds st :
  fold_left register_decl ds st = reg_all (file_nodes ds) st.
Proof.
  revert st. induction ds as [|d ds IH]; intros st; simpl; [reflexivity|].
  rewrite IH. destruct d as [nm deps outs| |]; simpl; try reflexivity.
  unfold file_nodes at 2. simpl. fold (file_nodes ds). rewrite reg_all_app. f_equal.
  simpl. generalize (register (mkNode nm TRule deps) st).
  induction outs as [|o outs IHo]; intros r; simpl; [reflexivity|]. apply IHo.
Qed.

(** [l] can be registered on top of [ns] without complaint. *)
Definition clean (ns l : list node) : Prop :=
  (forall n, In n l -> nname n <> "") /\
  NoDup (map nname l) /\
  (forall x, In x (map nname l) -> In x (map nname ns) -> False).

Lemma clean_nil ns : clean ns [].
Proof. repeat split; simpl; [intros n []|constructor|intros x []]. Qed.

Lemma clean_cons ns n l :
  clean ns (n :: l) <->
  nname n <> "" /\ ~ In (nname n) (map nname ns) /\ clean (ns ++ [n]) l.
Proof.
  unfold clean. simpl. rewrite map_app. simpl. split.
  - intros (H1 & H2 & H3). inversion H2 as [|? ? Hn Hl]; subst.
    repeat split; auto.
    + intros Hin. eapply H3; eauto.
    + intros x Hx Hin. apply in_app_iff in Hin. destruct Hin as [Hin|[<-|[]]]; [eapply H3; eauto|auto].
  - intros (H1 & H2 & H3 & H4 & H5). repeat split.
    + intros m [<-|Hm]; auto.
    + constructor; [|assumption]. intros Hin. apply (H5 _ Hin). apply in_app_iff. right. now left.
    + intros x [<-|Hx] Hin; [auto|]. apply (H5 _ Hx). apply in_app_iff. now left.
Qed.

Lemma clean_app ns a b : clean ns (a ++ b) <-> clean ns a /\ clean (ns ++ a) b.
Proof.
  revert ns. induction a as [|n a IH]; intros ns; simpl.
  - rewrite app_nil_r. split; [intros H; split; [apply clean_nil|assumption]|tauto].
  - rewrite !clean_cons, IH. rewrite <- app_assoc. simpl. tauto.
Qed.

Lemma register_errs_keep n st : r_errs st <> [] -> r_errs (register n st) <> [].
Proof.
  intros H. unfold register, r_err.
  destruct (String.eqb (nname n) ""); simpl; [apply add_err_nonnil|].
  destruct (has_node (nname n) (r_nodes st)); simpl; [apply add_err_nonnil|assumption].
Qed.

Lemma reg_all_errs_keep l st : r_errs st <> [] -> r_errs (reg_all l st) <> [].
Proof.
  revert st. induction l as [|n l IH]; intros st H; simpl; [assumption|].
  apply IH. now apply register_errs_keep.
Qed.

Lemma reg_all_seen l st : r_seen (reg_all l st) = r_seen st.
Proof.
  revert st. induction l as [|n l IH]; intros st; simpl; [reflexivity|].
  now rewrite IH, register_seen.
Qed.

Lemma register_cases n st :
  (nname n <> "" /\ ~ In (nname n) (map nname (r_nodes st)) /\
   register n st = mkR (r_nodes st ++ [n])%list (r_errs st) (r_seen st)) \/
  ((nname n = "" \/ In (nname n) (map nname (r_nodes st))) /\ r_errs (register n st) <> []).
Proof.
  unfold register, r_err. destruct (String.eqb_spec (nname n) "") as [E|E].
  - right. split; [now left|]. simpl. apply add_err_nonnil.
  - destruct (has_node (nname n) (r_nodes st)) eqn:Hh.
    + right. split; [right; now apply has_node_In|]. simpl. apply add_err_nonnil.
    + left. apply has_node_false in Hh. auto.
Qed.

Lemma reg_all_spec l : forall st,
  (r_errs (reg_all l st) = [] <-> r_errs st = [] /\ clean (r_nodes st) l) /\
  (r_errs (reg_all l st) = [] -> r_nodes (reg_all l st) = (r_nodes st ++ l)%list).
Proof.
  induction l as [|n l IH]; intros st; simpl.
  - split; [|intros _; now rewrite app_nil_r].
    split; [intros H; split; [assumption|apply clean_nil]|tauto].
  - rewrite clean_cons.
    destruct (register_cases n st) as [(H1 & H2 & ->)|(H1 & H2)].
    + destruct (IH (mkR (r_nodes st ++ [n])%list (r_errs st) (r_seen st))) as [I1 I2]. simpl in *.
      split; [rewrite I1; tauto|].
      intros H. rewrite (I2 H). now rewrite <- app_assoc.
    + pose proof (reg_all_errs_keep l _ H2) as Hk. split; [|intros H; contradiction].
      split; [intros H; contradiction|]. intros (_ & Hn & Hi & _). destruct H1; contradiction.
Qed.

Section ReadSpec.
  Variable fs : bfiles.

  Definition fnodes (q : name) : list node :=
    match lookup q fs with Some ds => file_nodes ds | None => [] end.

  Definition good_file (q : name) : Prop :=
    match lookup q fs with Some ds => file_errs ds = [] | None => True end.

  (** [b] is a sub-build directory of the (error-free) build file of [a]. *)
  Definition sub (a b : name) : Prop :=
    exists ds, lookup a fs = Some ds /\ file_errs ds = [] /\ In b (sub_dirs ds).

  Definition rpost (starts : list name) (st st' : rstate) : Prop :=
    (forall s, In s starts -> In s (r_seen st')) /\
    exists new,
      r_seen st' = (new ++ r_seen st)%list /\
      NoDup new /\
      (forall q, In q new -> ~ In q (r_seen st)) /\
      (forall q, In q new -> exists s, In s starts /\ clos_refl_trans name sub s q) /\
      (forall q b, In q new -> sub q b -> In b (r_seen st')) /\
      (r_errs st' = [] <->
         r_errs st = [] /\ (forall q, In q new -> good_file q) /\
         clean (r_nodes st) (flat_map fnodes (rev new))) /\
      (r_errs st' = [] -> r_nodes st' = (r_nodes st ++ flat_map fnodes (rev new))%list).

  Lemma rpost_intro starts st st' new :
    (forall s, In s starts -> In s (r_seen st')) ->
    r_seen st' = (new ++ r_seen st)%list ->
    NoDup new ->
    (forall q, In q new -> ~ In q (r_seen st)) ->
    (forall q, In q new -> exists s, In s starts /\ clos_refl_trans name sub s q) ->
    (forall q b, In q new -> sub q b -> In b (r_seen st')) ->
    (r_errs st' = [] <->
       r_errs st = [] /\ (forall q, In q new -> good_file q) /\
       clean (r_nodes st) (flat_map fnodes (rev new))) ->
    (r_errs st' = [] -> r_nodes st' = (r_nodes st ++ flat_map fnodes (rev new))%list) ->
    rpost starts st st'.
  Proof. intros. split; [assumption|]. exists new. tauto. Qed.

  Lemma rpost_refl st : rpost [] st st.
  Proof.
    apply (rpost_intro _ _ _ []); simpl.
    - intros s [].
    - reflexivity.
    - constructor.
    - intros q [].
    - intros q [].
    - intros q b [].
    - split; [intros H; split; [assumption|split; [intros q []|apply clean_nil]]|tauto].
    - intros _. now rewrite app_nil_r.
  Qed.

  Lemma rpost_trans p1 p2 st sa s1 :
    rpost p1 st sa -> rpost p2 sa s1 -> rpost (p1 ++ p2) st s1.
  Proof.
    intros [A0 [n1 (A1 & A2 & A3 & A4 & A5 & A6 & A7)]] [B0 [n2 (B1 & B2 & B3 & B4 & B5 & B6 & B7)]].
    assert (Hsub : forall x, In x (r_seen sa) -> In x (r_seen s1)).
    { intros x Hx. rewrite B1. apply in_app_iff. now right. }
    apply (rpost_intro _ _ _ (n2 ++ n1)%list).
    - intros s Hs. apply in_app_iff in Hs. destruct Hs; auto.
    - rewrite B1, A1. now rewrite app_assoc.
    - apply NoDup_app_intro; auto. intros x H2 H1. apply (B3 x H2). rewrite A1.
      apply in_app_iff. now left.
    - intros q Hq Hin. apply in_app_iff in Hq. destruct Hq as [Hq|Hq].
      + apply (B3 q Hq). rewrite A1. apply in_app_iff. now right.
      + exact (A3 q Hq Hin).
    - intros q Hq. apply in_app_iff in Hq. destruct Hq as [Hq|Hq].
      + destruct (B4 q Hq) as [s [Hs Hr]]. exists s. split; [apply in_app_iff; now right|assumption].
      + destruct (A4 q Hq) as [s [Hs Hr]]. exists s. split; [apply in_app_iff; now left|assumption].
    - intros q b Hq Hqb. apply in_app_iff in Hq. destruct Hq as [Hq|Hq]; [eauto|].
      apply Hsub. eauto.
    - rewrite rev_app_distr, flat_map_app, clean_app. rewrite B6. split.
      + intros (Ha & Hg2 & Hc2). pose proof (proj1 A6 Ha) as (Hs & Hg1 & Hc1).
        rewrite (A7 Ha) in Hc2. split; [exact Hs|]. split; [|split; [exact Hc1|exact Hc2]].
        intros q Hq. apply in_app_iff in Hq. destruct Hq; auto.
      + intros (Hs & Hg & Hc1 & Hc2).
        assert (Ha : r_errs sa = []).
        { apply A6. split; [exact Hs|]. split; [|exact Hc1].
          intros q Hq. apply Hg. apply in_app_iff. now right. }
        rewrite (A7 Ha). split; [exact Ha|]. split; [|exact Hc2].
        intros q Hq. apply Hg. apply in_app_iff. now left.
    - intros H. pose proof (proj1 B6 H) as (Ha & _ & _).
      rewrite (B7 H), (A7 Ha), rev_app_distr, flat_map_app. now rewrite app_assoc.
  Qed.

  Lemma rpost_starts p p' st st' :
    (forall s, In s p' -> In s (r_seen st')) ->
    (forall s, In s p -> exists s', In s' p' /\ clos_refl_trans name sub s' s) ->
    rpost p st st' -> rpost p' st st'.
  Proof.
    intros H0 Hs [A0 [n (A1 & A2 & A3 & A4 & A5 & A6 & A7)]].
    apply (rpost_intro _ _ _ n); auto.
    intros q Hq. destruct (A4 q Hq) as [s [Hin Hr]]. destruct (Hs s Hin) as [s' [Hin' Hr']].
    exists s'. split; [assumption|]. eapply rt_trans; eauto.
  Qed.

  (** Marking [p] as read, registering [l] (the nodes of its build file, or
      nothing), adding the file's own errors [es]. *)
  Lemma rpost_leaf p st es :
    ~ In p (r_seen st) ->
    (es = [] <-> good_file p) ->
    (forall b, ~ sub p b) ->
    (es = [] -> fnodes p = []) ->
    rpost [p] st (mkR (r_nodes st) (add_errs es (r_errs st)) (p :: r_seen st)).
  Proof.
    intros Hm Hes Hnosub Hfn. apply (rpost_intro _ _ _ [p]); simpl.
    - intros s [<-|[]]. now left.
    - reflexivity.
    - constructor; [intros []|constructor].
    - intros q [<-|[]]. assumption.
    - intros q [<-|[]]. exists p. split; [now left|apply rt_refl].
    - intros q b [<-|[]] Hs. exfalso. eapply Hnosub; eauto.
    - rewrite app_nil_r. destruct es as [|e es].
      + simpl. rewrite (Hfn eq_refl). split.
        * intros H. split; [assumption|]. split; [|apply clean_nil].
          intros q [<-|[]]. now apply Hes.
        * tauto.
      + split.
        * intros H. exfalso. revert H. now apply add_errs_nonnil.
        * intros (_ & Hg & _). exfalso. assert (e :: es = []) by (apply Hes; apply Hg; now left).
          discriminate.
    - rewrite app_nil_r. destruct es as [|e es].
      + intros _. rewrite (Hfn eq_refl). now rewrite app_nil_r.
      + intros H. exfalso. revert H. now apply add_errs_nonnil.
  Qed.

  Lemma read_dir_spec : forall f p st st',
    read_dir f fs p st = Some st' -> rpost [p] st st'.
  Proof.
    induction f as [|f IH]; intros p st st' E; [discriminate|].
    simpl in E. destruct (mem p (r_seen st)) eqn:Hm.
    { injection E as <-. apply mem_In in Hm.
      eapply rpost_starts; [| |apply rpost_refl]; [intros s [<-|[]]; assumption|intros s []]. }
    apply mem_false in Hm.
    destruct (lookup p fs) as [ds|] eqn:Hl.
    2:{ injection E as <-.
        apply (rpost_leaf p st []); auto.
        - unfold good_file. rewrite Hl. tauto.
        - intros b [ds [Hds _]]. congruence.
        - intros _. unfold fnodes. now rewrite Hl. }
    destruct (file_errs ds) as [|e es] eqn:He.
    2:{ injection E as <-.
        apply (rpost_leaf p st (e :: es)); auto.
        - unfold good_file. rewrite Hl, He. tauto.
        - intros b [ds' [Hds [He' _]]]. congruence.
        - discriminate. }
    (* an error-free build file: register its nodes, then its sub-builds *)
    rewrite register_decls_reg_all in E.
    set (st0 := mkR (r_nodes st) (r_errs st) (p :: r_seen st)) in *.
    set (st1 := reg_all (file_nodes ds) st0) in *.
    assert (Hfold : forall l s s', ofold (read_dir f fs) l (Some s) = Some s' -> rpost l s s').
    { induction l as [|d l IHl]; intros s s' El.
      - injection El as <-. apply rpost_refl.
      - rewrite ofold_cons in El. destruct (read_dir f fs d s) as [sa|] eqn:Ea;
          [|now rewrite ofold_none in El].
        change (d :: l) with ([d] ++ l)%list. eapply rpost_trans; eauto. }
    destruct (Hfold _ _ _ E) as [A0 [newc (A1 & A2 & A3 & A4 & A5 & A6 & A7)]].
    destruct (reg_all_spec (file_nodes ds) st0) as [R1 R2]. fold st1 in R1, R2.
    assert (Hs1 : r_seen st1 = p :: r_seen st) by (unfold st1; now rewrite reg_all_seen).
    assert (Hfn : fnodes p = file_nodes ds) by (unfold fnodes; now rewrite Hl).
    assert (Hsubp : forall b, sub p b <-> In b (sort_dedup (sub_dirs ds))).
    { intros b. rewrite sort_dedup_In. split.
      - intros [ds' (Hds & _ & Hb)]. congruence.
      - intros Hb. exists ds. auto. }
    apply (rpost_intro _ _ _ (newc ++ [p])%list).
    - intros s [<-|[]]. rewrite A1, Hs1. apply in_app_iff. right. now left.
    - rewrite A1, Hs1. now rewrite <- app_assoc.
    - apply NoDup_app_intro; [assumption|constructor; [intros []|constructor]|].
      intros x Hx [E0|[]]. subst x. apply (A3 p Hx). rewrite Hs1. now left.
    - intros q Hq Hin. apply in_app_iff in Hq. destruct Hq as [Hq|[<-|[]]]; [|auto].
      apply (A3 q Hq). rewrite Hs1. now right.
    - intros q Hq. apply in_app_iff in Hq. destruct Hq as [Hq|[<-|[]]].
      + destruct (A4 q Hq) as [s [Hs Hr]]. exists p. split; [now left|].
        eapply rt_trans; [apply rt_step; apply Hsubp; exact Hs|exact Hr].
      + exists p. split; [now left|apply rt_refl].
    - intros q b Hq Hqb. apply in_app_iff in Hq. destruct Hq as [Hq|[<-|[]]]; [eauto|].
      apply A0. now apply Hsubp.
    - rewrite rev_app_distr. simpl. rewrite Hfn, clean_app. rewrite A6, R1. simpl. split.
      + intros ((Hs & Hc0) & Hg & Hc). rewrite (R2 (proj2 R1 (conj Hs Hc0))) in Hc. simpl in Hc.
        split; [exact Hs|]. split; [|split; [exact Hc0|exact Hc]].
        intros q Hq. apply in_app_iff in Hq. destruct Hq as [Hq|[<-|[]]]; [auto|].
        unfold good_file. now rewrite Hl.
      + intros (Hs & Hg & Hc0 & Hc).
        rewrite (R2 (proj2 R1 (conj Hs Hc0))). simpl.
        split; [split; [exact Hs|exact Hc0]|]. split; [|exact Hc].
        intros q Hq. apply Hg. apply in_app_iff. now left.
    - intros H. pose proof (proj1 A6 H) as (H1 & _ & _).
      rewrite (A7 H), (R2 H1), rev_app_distr. simpl. rewrite Hfn. now rewrite <- app_assoc.
  Qed.

  Lemma read_dirs_spec f : forall l s s',
    ofold (read_dir f fs) l (Some s) = Some s' -> rpost l s s'.
  Proof.
    induction l as [|d l IHl]; intros s s' El.
    - injection El as <-. apply rpost_refl.
    - rewrite ofold_cons in El. destruct (read_dir f fs d s) as [sa|] eqn:Ea;
        [|now rewrite ofold_none in El].
      change (d :: l) with ([d] ++ l)%list. eapply rpost_trans; eauto using read_dir_spec.
  Qed.

  (** ** Order-free statement of what reading reports *)
  Variable roots : list name.

  Definition reached (q : name) : Prop :=
    exists s, In s roots /\ clos_refl_trans name sub s q.

  Definition fnames (q : name) : list name := map nname (fnodes q).

  Definition read_problem : Prop :=
    (exists q, reached q /\ ~ good_file q) \/
    (exists q, reached q /\ In "" (fnames q)) \/
    (exists q, reached q /\ ~ NoDup (fnames q)) \/
    (exists q1 q2 x, q1 <> q2 /\ reached q1 /\ reached q2 /\ In x (fnames q1) /\ In x (fnames q2)).

  Lemma good_file_dec q : good_file q \/ ~ good_file q.
  Proof.
    unfold good_file. destruct (lookup q fs) as [ds|]; [|now left].
    destruct (file_errs ds); [now left|right; discriminate].
  Qed.

  Lemma good_file_sumbool q : {good_file q} + {~ good_file q}.
  Proof.
    unfold good_file. destruct (lookup q fs) as [ds|]; [|left; exact I].
    destruct (file_errs ds); [left; reflexivity|right; discriminate].
  Qed.

  Lemma map_flat_map {A B C} (g : B -> C) (f : A -> list B) l :
    map g (flat_map f l) = flat_map (fun x => map g (f x)) l.
  Proof. induction l as [|x l IH]; simpl; [reflexivity|]. now rewrite map_app, IH. Qed.

  Lemma flat_map_nodup_inv (f : name -> list name) l :
    NoDup (flat_map f l) ->
    (forall q, In q l -> NoDup (f q)) /\
    (NoDup l -> forall q1 q2 x, In q1 l -> In q2 l -> q1 <> q2 -> In x (f q1) -> In x (f q2) -> False).
  Proof.
    induction l as [|q l IH]; simpl; intros H.
    - split; [intros q []|intros _ q1 q2 x []].
    - apply NoDup_app_inv in H. destruct H as (Ha & Hb & Hd). destruct (IH Hb) as [I1 I2].
      split.
      + intros q' [<-|Hq']; auto.
      + intros Hnd q1 q2 x H1 H2 Hne Hx1 Hx2. inversion Hnd as [|? ? Hq Hl]; subst.
        destruct H1 as [<-|H1], H2 as [<-|H2].
        * congruence.
        * apply (Hd x Hx1). apply in_flat_map. eauto.
        * apply (Hd x Hx2). apply in_flat_map. eauto.
        * eapply I2; eauto.
  Qed.

  Lemma in_dec_ex (a b : list name) :
    (exists x, In x a /\ In x b) \/ (forall x, In x a -> In x b -> False).
  Proof.
    induction a as [|y a IH]; [right; intros x []|].
    destruct (in_dec string_dec y b) as [Hy|Hy].
    - left. exists y. split; [now left|assumption].
    - destruct IH as [[x [H1 H2]]|IH]; [left; exists x; split; [now right|assumption]|].
      right. intros x [<-|Hx]; [exact Hy|now apply IH].
  Qed.

  Lemma flat_map_dup (f : name -> list name) l :
    NoDup l -> ~ NoDup (flat_map f l) ->
    (exists q, In q l /\ ~ NoDup (f q)) \/
    (exists q1 q2 x, q1 <> q2 /\ In q1 l /\ In q2 l /\ In x (f q1) /\ In x (f q2)).
  Proof.
    induction l as [|q l IH]; simpl; intros Hnd H.
    - exfalso. apply H. constructor.
    - inversion Hnd as [|? ? Hq Hl]; subst.
      destruct (ListDec.NoDup_dec string_dec (f q)) as [Ha|Ha]; [|left; exists q; auto].
      destruct (ListDec.NoDup_dec string_dec (flat_map f l)) as [Hb|Hb].
      + destruct (in_dec_ex (f q) (flat_map f l)) as [[x [H1 H2]]|Hd].
        * right. apply in_flat_map in H2. destruct H2 as [q2 [Hq2 Hx2]].
          exists q, q2, x. repeat split; auto. intros ->. contradiction.
        * exfalso. apply H. now apply NoDup_app_intro.
      + destruct (IH Hl Hb) as [[q' [H1 H2]]|(q1 & q2 & x & H1 & H2 & H3 & H4 & H5)].
        * left. exists q'. auto.
        * right. exists q1, q2, x. repeat split; auto.
  Qed.

  Theorem read_roots_spec st :
    read_roots fs roots = Some st ->
    (r_errs st <> [] <-> read_problem) /\
    (r_errs st = [] ->
       NoDup (map nname (r_nodes st)) /\
       (forall n, In n (r_nodes st) <-> exists q, reached q /\ In n (fnodes q))) /\
    (forall q, In q (r_seen st) <-> reached q).
  Proof.
    intros Hr. unfold read_roots in Hr. apply read_dirs_spec in Hr.
    destruct Hr as [A0 [new (A1 & A2 & A3 & A4 & A5 & A6 & A7)]]. simpl in *.
    rewrite app_nil_r in A1.
    assert (Hseen : forall q, In q (r_seen st) <-> reached q).
    { intros q. split.
      - rewrite A1. intros Hq. destruct (A4 q Hq) as [s [Hs Hsq]].
        exists s. split; [now apply sort_dedup_In|assumption].
      - intros [s [Hs Hsq]]. apply clos_rt_rt1n in Hsq.
        assert (Hin : In s (r_seen st)) by (apply A0; now apply sort_dedup_In).
        clear Hs. induction Hsq as [x|x y z Hxy Hyz IH]; [assumption|].
        apply IH. apply (A5 x y); [now rewrite <- A1|assumption]. }
    assert (Hnames : map nname (flat_map fnodes (rev new)) = flat_map fnames (rev new)).
    { apply map_flat_map. }
    assert (Hndrev : NoDup (rev new)) by now apply NoDup_rev.
    assert (Hinrev : forall q, In q (rev new) <-> reached q).
    { intros q. rewrite <- in_rev, <- A1. apply Hseen. }
    split; [|split; [|exact Hseen]].
    - split.
      + (* an error was reported: find what is wrong *)
        intros Hne.
        destruct (Forall_Exists_dec good_file good_file_sumbool (rev new)) as [Hall|Hex].
        2:{ left. apply Exists_exists in Hex. destruct Hex as [q [Hq Hb]].
            exists q. split; [now apply Hinrev|assumption]. }
        rewrite Forall_forall in Hall.
        destruct (in_dec string_dec "" (flat_map fnames (rev new))) as [He|He].
        { right. left. apply in_flat_map in He. destruct He as [q [Hq Hx]].
          exists q. split; [now apply Hinrev|assumption]. }
        destruct (ListDec.NoDup_dec string_dec (flat_map fnames (rev new))) as [Hnd|Hnd].
        { exfalso. apply Hne. apply A6. split; [reflexivity|]. split.
          - intros q Hq. apply Hall. now apply in_rev in Hq.
          - split; [|split].
            + intros n Hn Hnm. apply He. rewrite <- Hnames, <- Hnm. now apply in_map.
            + now rewrite Hnames.
            + intros x _ []. }
        right. right.
        destruct (flat_map_dup fnames (rev new) Hndrev Hnd)
          as [[q [H1 H2]]|(q1 & q2 & x & H1 & H2 & H3 & H4 & H5)].
        * left. exists q. split; [now apply Hinrev|assumption].
        * right. exists q1, q2, x. repeat split; auto; now apply Hinrev.
      + (* something is wrong: an error is reported *)
        intros Hp He. apply A6 in He. destruct He as (_ & Hg & (Hc1 & Hc2 & _)).
        rewrite Hnames in Hc2. destruct (flat_map_nodup_inv fnames _ Hc2) as [I1 I2].
        destruct Hp as [[q [Hq Hb]]|[[q [Hq Hb]]|[[q [Hq Hb]]|(q1 & q2 & x & H1 & H2 & H3 & H4 & H5)]]].
        * apply Hb. apply Hg. rewrite A1 in Hseen. now apply Hseen.
        * apply in_map_iff in Hb. destruct Hb as [n [Hn1 Hn2]]. apply (Hc1 n); [|assumption].
          apply in_flat_map. exists q. split; [now apply Hinrev|assumption].
        * apply Hb. apply I1. now apply Hinrev.
        * apply (I2 Hndrev q1 q2 x); auto; now apply Hinrev.
    - intros He. pose proof (proj1 A6 He) as (_ & Hg & (Hc1 & Hc2 & _)).
      rewrite (A7 He). simpl. split; [assumption|].
      intros n. rewrite in_flat_map. split.
      + intros [q [Hq Hn]]. exists q. split; [now apply Hinrev|assumption].
      + intros [q [Hq Hn]]. exists q. split; [now apply Hinrev|assumption].
  Qed.
End ReadSpec.

(** * The whole run, stated over the declarations alone *)

Lemma clos_rt_iff {A} (R R' : relation A) :
  (forall a b, R a b <-> R' a b) ->
  forall a b, clos_refl_trans A R a b <-> clos_refl_trans A R' a b.
Proof.
  intros H a b. split; induction 1;
    try (apply rt_step; now apply H); try apply rt_refl; eapply rt_trans; eauto.
Qed.

Lemma clos_t_iff {A} (R R' : relation A) :
  (forall a b, R a b <-> R' a b) ->
  forall a b, clos_trans A R a b <-> clos_trans A R' a b.
Proof.
  intros H a b. split; induction 1;
    try (apply t_step; now apply H); eapply t_trans; eauto.
Qed.

Section Final.
  Variable fs : bfiles.
  Variable roots : list name.
  Variable kind : name -> skind.
  Variable ts : list name.

  (** A node some reached, error-free... build file declares. *)
  Definition declared (n : node) : Prop :=
    exists q, reached fs roots q /\ In n (fnodes fs q).

  Definition dedge (a b : name) : Prop :=
    exists n, declared n /\ nname n = a /\ In b (ndeps n).

  Definition undeclared (a : name) : Prop := forall n, declared n -> nname n <> a.

  (** A dependency cycle or a dangling dependency reachable from a target. *)
  Definition graph_problem : Prop :=
    exists t a, In t ts /\ clos_refl_trans name dedge t a /\
      ((undeclared a /\ (kind a <> KFile \/ a = "")) \/ clos_trans name dedge a a).

  Definition reachable_rule (r : name) : Prop :=
    exists t n, In t ts /\ clos_refl_trans name dedge t r /\
                declared n /\ nname n = r /\ ntype n = TRule.

  Lemma find_declared st :
    NoDup (map nname (r_nodes st)) ->
    (forall n, In n (r_nodes st) <-> declared n) ->
    forall a n, find_node a (r_nodes st) = Some n <-> declared n /\ nname n = a.
  Proof.
    intros Hnd Hin a n. split.
    - intros H. apply find_node_Some in H. destruct H. split; [now apply Hin|assumption].
    - intros [Hd <-]. apply find_node_NoDup; [assumption|now apply Hin].
  Qed.

  Theorem c11_correct :
    match c11_run fs roots kind ts with
    | CErr es => es <> [] /\ (read_problem fs roots \/ graph_problem)
    | CExec ex =>
        ~ read_problem fs roots /\ ~ graph_problem /\ NoDup ex /\
        (forall r, In r ex <-> reachable_rule r) /\
        (forall e1 a e2, ex = (e1 ++ a :: e2)%list ->
           forall b n, clos_trans name dedge a b -> declared n -> nname n = b ->
                       ntype n = TRule -> In b e1)
    | _ => False
    end.
  Proof.
    destruct (read_roots fs roots) as [st|] eqn:Hr;
      [|exfalso; now apply (read_roots_terminates fs roots)].
    destruct (read_roots_spec fs roots st Hr) as (Herr & Hok & _).
    destruct (errs_nil_dec (r_errs st)) as [He|He].
    - destruct (Hok He) as [Hnd Hin].
      pose proof (find_declared st Hnd Hin) as Hfind.
      assert (Hedge : forall a b, edge (r_nodes st) a b <-> dedge a b).
      { intros a b. split.
        - intros [n [Hn Hb]]. apply Hfind in Hn. destruct Hn. exists n. auto.
        - intros [n (Hd & Hn & Hb)]. exists n. split; [now apply Hfind|assumption]. }
      assert (Hnone : forall a, find_node a (r_nodes st) = None <-> undeclared a).
      { intros a. split.
        - intros Hf n Hd Hn. assert (find_node a (r_nodes st) = Some n) by now apply Hfind.
          congruence.
        - intros Hu. destruct (find_node a (r_nodes st)) as [n|] eqn:Hf; [|reflexivity].
          apply Hfind in Hf. destruct Hf as [Hd Hn]. exfalso. exact (Hu n Hd Hn). }
      assert (Hbad : bad_reachable (r_nodes st) kind ts <-> graph_problem).
      { unfold bad_reachable, graph_problem, dangling, on_cycle. split.
        - intros (t & a & Ht & Hta & Ha). exists t, a. split; [assumption|].
          split; [now apply (clos_rt_iff _ _ Hedge)|].
          destruct Ha as [[Hf Hk]|Hc]; [left; split; [now apply Hnone|assumption]|right].
          now apply (clos_t_iff _ _ Hedge).
        - intros (t & a & Ht & Hta & Ha). exists t, a. split; [assumption|].
          split; [now apply (clos_rt_iff _ _ Hedge)|].
          destruct Ha as [[Hf Hk]|Hc]; [left; split; [now apply Hnone|assumption]|right].
          now apply (clos_t_iff _ _ Hedge). }
      assert (Hnp : ~ read_problem fs roots) by (intros Hp; apply Herr in Hp; contradiction).
      pose proof (c11_after_read fs roots kind ts st Hr He) as H.
      destruct (c11_run fs roots kind ts) as [|es| |ex]; try contradiction.
      + destruct H as [H1 H2]. split; [assumption|]. right. now apply Hbad.
      + destruct H as (H1 & H2 & H3 & H4). split; [assumption|].
        split; [now rewrite <- Hbad|]. split; [assumption|]. split.
        * intros r. rewrite H3. unfold reachable_rule. split.
          -- intros (t & n & Ht & Htr & Hn & Hty). exists t, n. apply Hfind in Hn.
             destruct Hn. repeat split; auto. now apply (clos_rt_iff _ _ Hedge).
          -- intros (t & n & Ht & Htr & Hd & Hn & Hty). exists t, n.
             repeat split; auto; [now apply (clos_rt_iff _ _ Hedge)|now apply Hfind].
        * intros e1 a e2 E b n Hab Hd Hn Hty. apply (H4 e1 a e2 E b n); auto.
          -- now apply (clos_t_iff _ _ Hedge).
          -- now apply Hfind.
    - unfold c11_run, load_nodes. rewrite Hr. destruct (r_errs st) as [|e es]; [congruence|].
      split; [discriminate|]. left. apply Herr. discriminate.
  Qed.
End Final.

(** * Declaration order does not matter *)

Lemma perm_flat_map {A B} (g : A -> list B) l l' :
  Permutation l l' -> Permutation (flat_map g l) (flat_map g l').
Proof. intros H. now apply Permutation_flat_map. Qed.

(** The same build files with the declarations of each file in any order. *)
Definition same_decls (fs fs' : bfiles) : Prop :=
  forall q, match lookup q fs, lookup q fs' with
            | Some ds, Some ds' => Permutation ds ds'
            | None, None => True
            | _, _ => False
            end.

Lemma same_decls_sym fs fs' : same_decls fs fs' -> same_decls fs' fs.
Proof.
  intros H q. specialize (H q).
  destruct (lookup q fs), (lookup q fs'); auto. now apply Permutation_sym.
Qed.

Section Order.
  Variables fs fs' : bfiles.
  Variables roots roots' : list name.
  Hypothesis Hfs : same_decls fs fs'.
  Hypothesis Hroots : forall r, In r roots <-> In r roots'.

  Lemma perm_file_errs ds ds' : Permutation ds ds' -> (file_errs ds = [] <-> file_errs ds' = []).
  Proof.
    intros Hp. pose proof (perm_flat_map
                             (fun d => match d with DBad e => [e] | _ => [] end) _ _ Hp) as H.
    fold (file_errs ds) in H. fold (file_errs ds') in H. split; intros E; rewrite E in H.
    - now apply Permutation_nil in H.
    - apply Permutation_sym in H. now apply Permutation_nil in H.
  Qed.

  Lemma sub_same a b : sub fs a b -> sub fs' a b.
  Proof.
    intros [ds (Hl & He & Hb)]. specialize (Hfs a). rewrite Hl in Hfs.
    destruct (lookup a fs') as [ds'|] eqn:Hl'; [|contradiction].
    exists ds'. split; [exact Hl'|]. split; [now apply (perm_file_errs ds ds')|].
    unfold sub_dirs in *. eapply Permutation_in; [|exact Hb]. now apply perm_flat_map.
  Qed.

  Lemma good_file_same q : good_file fs q -> good_file fs' q.
  Proof.
    unfold good_file. specialize (Hfs q).
    destruct (lookup q fs) as [ds|], (lookup q fs') as [ds'|]; try contradiction; auto.
    now apply perm_file_errs.
  Qed.

  Lemma fnodes_perm q : Permutation (fnodes fs q) (fnodes fs' q).
  Proof.
    unfold fnodes. specialize (Hfs q).
    destruct (lookup q fs) as [ds|], (lookup q fs') as [ds'|]; try contradiction; auto.
    unfold file_nodes. now apply perm_flat_map.
  Qed.
End Order.

Section Order2.
  Variables fs fs' : bfiles.
  Variables roots roots' : list name.
  Hypothesis Hfs : same_decls fs fs'.
  Hypothesis Hroots : forall r, In r roots <-> In r roots'.

  Lemma reached_same q : reached fs roots q <-> reached fs' roots' q.
  Proof.
    assert (H : forall a b, sub fs a b <-> sub fs' a b).
    { intros a b. split; [now apply sub_same|apply sub_same; now apply same_decls_sym]. }
    unfold reached. split; intros [s [Hs Hr]]; exists s;
      (split; [now apply Hroots|now apply (clos_rt_iff _ _ H)]).
  Qed.

  Lemma good_file_iff q : good_file fs q <-> good_file fs' q.
  Proof. split; [now apply good_file_same|apply good_file_same; now apply same_decls_sym]. Qed.

  Lemma fnodes_in q n : In n (fnodes fs q) <-> In n (fnodes fs' q).
  Proof.
    split; apply Permutation_in; [|apply Permutation_sym]; now apply fnodes_perm.
  Qed.

  Lemma fnames_perm q : Permutation (fnames fs q) (fnames fs' q).
  Proof. unfold fnames. apply Permutation_map. now apply fnodes_perm. Qed.

  Lemma read_problem_same : read_problem fs roots -> read_problem fs' roots'.
  Proof.
    intros [[q [Hq Hb]]|[[q [Hq Hb]]|[[q [Hq Hb]]|(q1 & q2 & x & H1 & H2 & H3 & H4 & H5)]]].
    - left. exists q. split; [now apply reached_same|]. now rewrite <- good_file_iff.
    - right. left. exists q. split; [now apply reached_same|].
      eapply Permutation_in; [apply fnames_perm|assumption].
    - right. right. left. exists q. split; [now apply reached_same|].
      intros Hnd. apply Hb. eapply Permutation_NoDup; [apply Permutation_sym; apply fnames_perm|assumption].
    - right. right. right. exists q1, q2, x. repeat split; auto; try now apply reached_same.
      + eapply Permutation_in; [apply fnames_perm|assumption].
      + eapply Permutation_in; [apply fnames_perm|assumption].
  Qed.

  Lemma declared_same n : declared fs roots n <-> declared fs' roots' n.
  Proof.
    unfold declared. split; intros [q [Hq Hn]]; exists q;
      (split; [now apply reached_same|now apply fnodes_in]).
  Qed.

  Lemma dedge_same a b : dedge fs roots a b <-> dedge fs' roots' a b.
  Proof.
    unfold dedge. split; intros [n (Hd & Hn & Hb)]; exists n; (split; [now apply declared_same|auto]).
  Qed.

  Lemma graph_problem_same kind ts :
    graph_problem fs roots kind ts -> graph_problem fs' roots' kind ts.
  Proof.
    intros (t & a & Ht & Hta & Ha). exists t, a. split; [assumption|].
    split; [now apply (clos_rt_iff _ _ dedge_same)|].
    destruct Ha as [[Hu Hk]|Hc]; [left; split; [|assumption]|right].
    - intros n Hd. apply Hu. now apply declared_same.
    - now apply (clos_t_iff _ _ dedge_same).
  Qed.

  Lemma reachable_rule_same ts r :
    reachable_rule fs roots ts r -> reachable_rule fs' roots' ts r.
  Proof.
    intros (t & n & Ht & Htr & Hd & Hn & Hty). exists t, n. repeat split; auto.
    - now apply (clos_rt_iff _ _ dedge_same).
    - now apply declared_same.
  Qed.
End Order2.

Theorem order_irrelevant fs fs' roots roots' kind ts :
  same_decls fs fs' -> (forall r, In r roots <-> In r roots') ->
  match c11_run fs roots kind ts, c11_run fs' roots' kind ts with
  | CErr _, CErr _ => True
  | CExec ex, CExec ex' => Permutation ex ex'
  | _, _ => False
  end.
Proof.
  intros Hfs Hroots.
  assert (Hfs' := same_decls_sym _ _ Hfs).
  assert (Hroots' : forall r, In r roots' <-> In r roots) by (intros r; symmetry; apply Hroots).
  pose proof (c11_correct fs roots kind ts) as H1.
  pose proof (c11_correct fs' roots' kind ts) as H2.
  destruct (c11_run fs roots kind ts) as [|es| |ex], (c11_run fs' roots' kind ts) as [|es'| |ex'];
    try contradiction; auto.
  - destruct H1 as [_ [Hp|Hp]], H2 as (Hn1 & Hn2 & _).
    + apply Hn1. eapply read_problem_same; eauto.
    + apply Hn2. eapply graph_problem_same; eauto.
  - destruct H2 as [_ [Hp|Hp]], H1 as (Hn1 & Hn2 & _).
    + apply Hn1. eapply read_problem_same; eauto.
    + apply Hn2. eapply graph_problem_same; eauto.
  - destruct H1 as (_ & _ & Hnd & Hin & _), H2 as (_ & _ & Hnd' & Hin' & _).
    apply NoDup_Permutation; auto. intros r. rewrite Hin, Hin'. split.
    + eapply reachable_rule_same; eauto.
    + eapply reachable_rule_same; eauto.
Qed.

(** * Statements as used by Props/C11.v *)

Corollary c11_total fs roots kind ts :
  c11_run fs roots kind ts <> COutOfFuel /\ c11_run fs roots kind ts <> CMissing.
Proof.
  pose proof (c11_correct fs roots kind ts) as H.
  destruct (c11_run fs roots kind ts); try contradiction; split; discriminate.
Qed.

Corollary c11_error_iff fs roots kind ts :
  (exists es, c11_run fs roots kind ts = CErr es /\ es <> []) <->
  read_problem fs roots \/ graph_problem fs roots kind ts.
Proof.
  pose proof (c11_correct fs roots kind ts) as H.
  destruct (c11_run fs roots kind ts) as [|es| |ex]; try contradiction.
  - destruct H as [H1 H2]. split; [intros _; assumption|]. intros _. exists es. auto.
  - destruct H as (H1 & H2 & _). split.
    + intros [es [E _]]. discriminate.
    + intros [Hp|Hp]; contradiction.
Qed.

Corollary c11_exec_sound fs roots kind ts ex :
  c11_run fs roots kind ts = CExec ex ->
  NoDup ex /\
  (forall r, In r ex <-> reachable_rule fs roots ts r) /\
  (forall e1 a e2, ex = (e1 ++ a :: e2)%list ->
     forall b n, clos_trans name (dedge fs roots) a b -> declared fs roots n -> nname n = b ->
                 ntype n = TRule -> In b e1).
Proof.
  intros E. pose proof (c11_correct fs roots kind ts) as H. rewrite E in H.
  destruct H as (_ & _ & H1 & H2 & H3). auto.
Qed.

Corollary c11_exec_means_sound_files fs roots kind ts ex :
  c11_run fs roots kind ts = CExec ex ->
  ~ read_problem fs roots /\ ~ graph_problem fs roots kind ts.
Proof.
  intros E. pose proof (c11_correct fs roots kind ts) as H. rewrite E in H. tauto.
Qed.

(** * The order used by [sort.Strings]: transitivity, and canonical form of
    [sort_dedup] *)

From Coq Require Import NArith Ascii.

Lemma ascii_cmp_eq a b : Ascii.compare a b = Eq -> a = b.
Proof. apply Ascii.compare_eq_iff. Qed.

Lemma ascii_cmp_refl a : Ascii.compare a a = Eq.
Proof. unfold Ascii.compare. apply N.compare_refl. Qed.

Lemma ascii_cmp_lt_trans a b c :
  Ascii.compare a b = Lt -> Ascii.compare b c = Lt -> Ascii.compare a c = Lt.
Proof. unfold Ascii.compare. rewrite !N.compare_lt_iff. lia. Qed.

Lemma str_cmp_refl s : String.compare s s = Eq.
Proof. induction s as [|c s IH]; simpl; [reflexivity|]. now rewrite ascii_cmp_refl. Qed.

Lemma str_cmp_lt_trans : forall a b c,
  String.compare a b = Lt -> String.compare b c = Lt -> String.compare a c = Lt.
Proof.
  induction a as [|x a IH]; intros [|y b] [|z c]; simpl; try congruence.
  destruct (Ascii.compare x y) eqn:Exy; try discriminate;
    destruct (Ascii.compare y z) eqn:Eyz; try discriminate; intros H1 H2.
  - apply ascii_cmp_eq in Exy, Eyz. subst. rewrite ascii_cmp_refl. eauto.
  - apply ascii_cmp_eq in Exy. subst. now rewrite Eyz.
  - apply ascii_cmp_eq in Eyz. subst. now rewrite Exy.
  - now rewrite (ascii_cmp_lt_trans _ _ _ Exy Eyz).
Qed.

Lemma str_leb_trans a b c :
  String.leb a b = true -> String.leb b c = true -> String.leb a c = true.
Proof.
  unfold String.leb.
  destruct (String.compare a b) eqn:Eab; try discriminate;
    destruct (String.compare b c) eqn:Ebc; try discriminate; intros _ _.
  - apply String.compare_eq_iff in Eab, Ebc. subst. now rewrite str_cmp_refl.
  - apply String.compare_eq_iff in Eab. subst. now rewrite Ebc.
  - apply String.compare_eq_iff in Ebc. subst. now rewrite Eab.
  - now rewrite (str_cmp_lt_trans _ _ _ Eab Ebc).
Qed.

Lemma str_leb_refl a : String.leb a a = true.
Proof. unfold String.leb. now rewrite str_cmp_refl. Qed.

(** sorted, without duplicates *)
Inductive ssorted : list name -> Prop :=
| ss_nil : ssorted []
| ss_cons x l : (forall y, In y l -> String.leb x y = true /\ x <> y) -> ssorted l -> ssorted (x :: l).

Lemma insert_sorted_ssorted x l : ssorted l -> ssorted (insert_sorted x l).
Proof.
  induction 1 as [|y l Hy Hl IH]; simpl.
  - constructor; [intros z []|constructor].
  - destruct (String.eqb_spec x y) as [->|Hne]; [now constructor|].
    destruct (String.leb x y) eqn:Hle.
    + constructor; [|now constructor].
      intros z [<-|Hz]; [auto|]. destruct (Hy z Hz) as [Hyz Hn]. split.
      * eapply str_leb_trans; eauto.
      * intros ->. apply Hne. now apply String.leb_antisym.
    + constructor; [|assumption].
      intros z Hz. apply insert_sorted_In in Hz. destruct Hz as [->|Hz]; [|auto].
      split; [|congruence]. destruct (String.leb_total x y) as [H|H]; congruence.
Qed.

Lemma sort_dedup_ssorted l : ssorted (sort_dedup l).
Proof.
  unfold sort_dedup. induction l as [|x l IH]; simpl; [constructor|].
  now apply insert_sorted_ssorted.
Qed.

Lemma ssorted_ext a : ssorted a -> forall b, ssorted b ->
  (forall x, In x a <-> In x b) -> a = b.
Proof.
  induction 1 as [|x a Hx Ha IH]; intros b Hb Hin.
  - destruct b as [|y b]; [reflexivity|]. exfalso. apply (Hin y). now left.
  - destruct Hb as [|y b Hy Hb']; [exfalso; apply (Hin x); now left|].
    assert (x = y).
    { assert (H1 : In x (y :: b)) by (apply Hin; now left).
      assert (H2 : In y (x :: a)) by (apply Hin; now left).
      destruct H1 as [->|H1]; [reflexivity|]. destruct H2 as [->|H2]; [reflexivity|].
      destruct (Hx y H2), (Hy x H1). now apply String.leb_antisym. }
    subst y. f_equal. apply IH; [assumption|].
    intros z. split; intros Hz.
    + assert (H : In z (x :: b)) by (apply Hin; now right).
      destruct H as [<-|H]; [|assumption]. destruct (Hx x Hz). congruence.
    + assert (H : In z (x :: a)) by (apply Hin; now right).
      destruct H as [<-|H]; [|assumption]. destruct (Hy x Hz). congruence.
Qed.

Lemma sort_dedup_ext a b :
  (forall x, In x a <-> In x b) -> sort_dedup a = sort_dedup b.
Proof.
  intros H. apply ssorted_ext; try apply sort_dedup_ssorted.
  intros x. rewrite !sort_dedup_In. apply H.
Qed.
