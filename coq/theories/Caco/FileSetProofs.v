(** Proofs about caco3 file sets (Caco/FileSet.v): the listing is exactly
    explicit + (selected - ignored), sorted without duplicates; a directory
    ignore is the segment-wise "strictly beneath" relation; patterns never
    match across a '/'. *)
From Coq Require Import List NArith Bool Lia.
From Verif Require Import Lib.Path Caco.Names Caco.NamesProofs Caco.Match Caco.MatchProofs Caco.FileSet.
Import ListNotations.
Local Open Scope N_scope.

(** *** Sorted set *)

Fixpoint sortedb (l : list str) : bool :=
  match l with
  | a :: (b :: _) as r => str_ltb a b && sortedb r
  | _ => true
  end.

Lemma insert_str_in x y l : In y (insert_str x l) <-> y = x \/ In y l.
Proof.
  induction l as [|z l IH]; cbn.
  - intuition.
  - destruct (str_ltb x z).
    + cbn. intuition.
    + destruct (str_eqb x z) eqn:E.
      * apply str_eqb_eq in E. subst z. cbn. intuition.
      * cbn. rewrite IH. intuition.
Qed.

Lemma sort_set_in x l : In x (sort_set l) <-> In x l.
Proof.
  induction l as [|y l IH]; cbn; [reflexivity|].
  rewrite insert_str_in, IH. intuition.
Qed.

Definition lt_all (x : str) (l : list str) : Prop := forall y, In y l -> str_ltb x y = true.

Lemma sortedb_cons x l : sortedb (x :: l) = true <-> lt_all x l /\ sortedb l = true.
Proof.
  revert x; induction l as [|y l IH]; intros x.
  - cbn. split; [intros _; split; [intros y []|reflexivity]|reflexivity].
  - change (sortedb (x :: y :: l)) with (str_ltb x y && sortedb (y :: l)).
    rewrite andb_true_iff. split.
    + intros [H1 H2]. split; [|exact H2]. intros z [<-|Hz]; [exact H1|].
      apply IH in H2 as [H2 _]. eapply str_ltb_trans; [exact H1|]. now apply H2.
    + intros [H1 H2]. split; [|exact H2]. apply H1. now left.
Qed.

Lemma insert_sorted x l : sortedb l = true -> sortedb (insert_str x l) = true.
Proof.
  induction l as [|y l IH]; intros H; [reflexivity|].
  cbn [insert_str]. destruct (str_ltb x y) eqn:L.
  - change (sortedb (x :: y :: l)) with (str_ltb x y && sortedb (y :: l)). now rewrite L, H.
  - destruct (str_eqb x y) eqn:E; [exact H|].
    apply sortedb_cons in H as [H1 H2]. apply sortedb_cons. split; [|now apply IH].
    intros z Hz. apply insert_str_in in Hz as [->|Hz]; [now apply str_trichotomy|now apply H1].
Qed.

Lemma sort_set_sorted l : sortedb (sort_set l) = true.
Proof. induction l as [|x l IH]; [reflexivity|]. cbn. now apply insert_sorted. Qed.

(** *** Directory ignores are segment-wise *)

Lemma rel_segs_nonempty x : x <> [] -> rel_segs x <> [].
Proof. destruct x; [congruence|]. intros _. unfold rel_segs. apply split_slash_nonempty. Qed.

Theorem beneath_segmentwise x d :
  clean_relb d = true -> x <> [] ->
  (beneath x d = true <-> exists rest, rest <> [] /\ rel_segs x = rel_segs d ++ rest).
Proof.
  intros Hd Hx. unfold beneath. destruct d as [|c d]; cbn [is_empty orb].
  - split; [intros _|reflexivity]. exists (rel_segs x). split; [now apply rel_segs_nonempty|reflexivity].
  - set (dd := c :: d) in *. rewrite has_prefix_spec. split.
    + intros [r ->]. exists (split_slash r). split; [apply split_slash_nonempty|].
      subst dd. rewrite <- app_assoc. cbn [app rel_segs].
      change (c :: d ++ slash :: r) with ((c :: d) ++ slash :: r). apply split_slash_app_slash.
    + intros (rest & Hr & E). exists (join_slash rest).
      rewrite <- (join_rel_segs x), E.
      rewrite join_slash_app by (exact Hr || (apply rel_segs_nonempty; discriminate)).
      now rewrite join_rel_segs, <- app_assoc.
Qed.

(** The repaired test, instantiated at a resolved ignore entry. *)
Theorem dir_ignore_is_segmentwise p i x :
  x <> [] ->
  (under_ignored_dir x (make_rel_path p i) = true <->
   exists rest, rest <> [] /\ rel_segs x = (rsegs p ++ rsegs i) ++ rest).
Proof.
  intros Hx. unfold under_ignored_dir.
  rewrite (beneath_segmentwise x _ (make_rel_path_clean p i) Hx), make_rel_path_segs. reflexivity.
Qed.

(** *** ignored *)

Theorem ignored_spec p r f :
  ignored p r f = true <->
  (exists i, In i (r_ignore r) /\ ends_with_slash i = true /\
             under_ignored_dir f (make_rel_path p i) = true) \/
  (exists i, In i (r_ignore r) /\ ends_with_slash i = false /\
             matches (make_rel_path p i) f = true).
Proof.
  unfold ignored, ignore_dirs, ignore_pats. rewrite orb_true_iff, !existsb_exists. split.
  - intros [(d & Hd & H)|(d & Hd & H)]; apply in_map_iff in Hd as (i & <- & Hi);
      apply filter_In in Hi as [Hi He]; [left|right]; exists i; repeat split; try assumption.
    now apply negb_true_iff in He.
  - intros [(i & Hi & He & H)|(i & Hi & He & H)]; [left|right];
      exists (make_rel_path p i); (split; [|exact H]); apply in_map_iff; exists i;
      (split; [reflexivity|]); apply filter_In; (split; [exact Hi|]); [exact He|now rewrite He].
Qed.

(** *** The listing is exact *)

Lemma run_selects_spec x sb tree p r sels acc all :
  run_selects x sb tree p r sels acc = inr all ->
  (forall sel, In sel sels -> exists ms, ms <> [] /\ select_matches x sb tree p sel = SOk ms) /\
  forall f, In f all <->
    In f acc \/
    exists sel ms, In sel sels /\ select_matches x sb tree p sel = SOk ms /\
                   In f ms /\ ignored p r f = false.
Proof.
  revert acc; induction sels as [|sel sels IH]; intros acc H; cbn in H.
  - injection H as <-. split; [intros ? []|]. intros f. split; [now left|].
    intros [Hf|(s & ms & [] & _)]. exact Hf.
  - destruct (select_matches x sb tree p sel) as [ms| |] eqn:Es; try discriminate.
    destruct ms as [|m ms]; [discriminate|].
    destruct (IH _ H) as [Hall Hin]. split.
    + intros s [<-|Hs]; [exists (m :: ms); split; [discriminate|exact Es]|now apply Hall].
    + intros f. rewrite Hin, in_app_iff, filter_In, negb_true_iff. split.
      * intros [[Hf|[Hf Hi]]|(s & ms' & Hs & E & Hf & Hi)].
        -- now left.
        -- right. exists sel, (m :: ms). repeat split; try assumption. now left.
        -- right. exists s, ms'. repeat split; try assumption. now right.
      * intros [Hf|(s & ms' & [<-|Hs] & E & Hf & Hi)].
        -- left. now left.
        -- rewrite Es in E. injection E as <-. left. right. now split.
        -- right. exists s, ms'. now repeat split.
Qed.

Theorem file_set_exact x sb tree p r name files :
  file_set x sb tree p r = FsOk name files ->
  name = make_rel_path p (r_name r) /\
  sortedb files = true /\
  (forall sel, In sel (r_select r) -> exists ms, ms <> [] /\ select_matches x sb tree p sel = SOk ms) /\
  forall f, In f files <->
    (exists e, In e (r_files r) /\ f = make_path p e) \/
    exists sel ms, In sel (r_select r) /\ select_matches x sb tree p sel = SOk ms /\
                   In f ms /\ ignored p r f = false.
Proof.
  unfold file_set.
  destruct (run_selects x sb tree p r (r_select r) (map (make_path p) (r_files r))) as [e|all] eqn:E.
  - discriminate.
  - intros [= <- <-]. destruct (run_selects_spec _ _ _ _ _ _ _ _ E) as [Hall Hin].
    split; [reflexivity|]. split; [apply sort_set_sorted|]. split; [exact Hall|].
    intros f. rewrite sort_set_in, Hin, in_map_iff. split.
    + intros [(e & <- & He)|H]; [left; now exists e|now right].
    + intros [(e & He & ->)|H]; [left; now exists e|now right].
Qed.

(** When the listing fails, a selection really matched nothing, its
    directory could not be listed, or its pattern is malformed. *)
Lemma run_selects_err x sb tree p r sels acc e :
  run_selects x sb tree p r sels acc = inl e ->
  exists sel, In sel sels /\
    ((e = SelNoFiles sel /\ select_matches x sb tree p sel = SOk []) \/
     (e = SelListErr sel /\ select_matches x sb tree p sel = SListErr) \/
     (e = SelGlobErr sel /\ select_matches x sb tree p sel = SGlobErr)).
Proof.
  revert acc; induction sels as [|sel sels IH]; intros acc H; cbn in H; [discriminate|].
  destruct (select_matches x sb tree p sel) as [ms| |] eqn:Es.
  - destruct ms as [|m ms].
    + injection H as <-. exists sel. split; [now left|]. left. now split.
    + destruct (IH _ H) as (s & Hs & Hc). exists s. split; [now right|exact Hc].
  - injection H as <-. exists sel. split; [now left|]. right. left. now split.
  - injection H as <-. exists sel. split; [now left|]. right. right. now split.
Qed.

Theorem file_set_error x sb tree p r e :
  file_set x sb tree p r = FsErr e ->
  exists sel, In sel (r_select r) /\
    ((e = SelNoFiles sel /\ select_matches x sb tree p sel = SOk []) \/
     (e = SelListErr sel /\ select_matches x sb tree p sel = SListErr) \/
     (e = SelGlobErr sel /\ select_matches x sb tree p sel = SGlobErr)).
Proof.
  unfold file_set.
  destruct (run_selects x sb tree p r (r_select r) (map (make_path p) (r_files r))) as [e'|all] eqn:E;
    [|discriminate].
  intros [= <-]. eapply run_selects_err. exact E.
Qed.

(** A malformed ignore pattern ignores nothing; a malformed selection
    pattern fails the rule. *)
Lemma matches_bad pat name : well_formed pat = false -> matches pat name = false.
Proof.
  intros H. unfold matches. apply (proj2 (MatchProofs.go_match_bad_iff pat name)) in H. now rewrite H.
Qed.

(** *** Glob selects are element-wise *)

Lemma has_meta_app a b : has_meta (a ++ b) = has_meta a || has_meta b.
Proof. unfold has_meta. apply existsb_app. Qed.

Lemma has_meta_join l : has_meta (join_slash l) = false -> forallb (fun s => negb (has_meta s)) l = true.
Proof.
  induction l as [|a l IH]; [reflexivity|]. destruct l as [|b l].
  - cbn [join_slash forallb]. intros ->. reflexivity.
  - change (join_slash (a :: b :: l)) with (a ++ slash :: join_slash (b :: l)).
    rewrite has_meta_app. intros H. apply orb_false_iff in H as [Ha H].
    change (slash :: join_slash (b :: l)) with ([slash] ++ join_slash (b :: l)) in H.
    rewrite has_meta_app in H. apply orb_false_iff in H as [_ H].
    cbn [forallb]. rewrite Ha. cbn [negb andb]. now apply IH.
Qed.

Lemma matches_self seg : has_meta seg = false -> fp_matches seg seg = true.
Proof. intros H. unfold fp_matches. now rewrite fp_match_literal, str_eqb_refl by exact H. Qed.

Lemma self_matches l :
  forallb (fun s => negb (has_meta s)) l = true -> Forall2 (fun seg n => fp_matches seg n = true) l l.
Proof.
  induction l as [|a l IH]; intros H; [constructor|]. cbn in H. apply andb_true_iff in H as [Ha H].
  constructor; [apply matches_self; now apply negb_true_iff in Ha|now apply IH].
Qed.

Lemma glob_level_in tree seg : forall ds ms,
  glob_level tree ds seg = Some ms ->
  forall m, In m ms ->
  exists d n, In d ds /\ m = join_dir d n /\ fp_matches seg n = true /\ In n (child_names tree d).
Proof.
  induction ds as [|d ds IH]; intros ms H m Hm; cbn [glob_level] in H.
  - injection H as <-. destruct Hm.
  - destruct (existsb _ _); [discriminate|].
    destruct (glob_level tree ds seg) as [ms'|] eqn:E; [|discriminate]. injection H as <-.
    apply in_app_or in Hm as [Hm|Hm].
    + apply in_map_iff in Hm as (n & <- & Hn). apply filter_In in Hn as [Hn Hmt].
      exists d, n. repeat split; [now left| exact Hmt|].
      destruct (stat_is_dir tree d); [exact Hn|destruct Hn].
    + destruct (IH _ eq_refl _ Hm) as (d' & n & Hd & E' & Hmt & Hn). exists d', n. repeat split; try assumption. now right.
Qed.

Lemma child_names_nonempty tree d n : In n (child_names tree d) -> is_empty n = false.
Proof.
  unfold child_names. intros H. apply in_flat_map in H as (e & _ & H).
  destruct (beneath (t_path e) d && negb (is_empty (rest_under (t_path e) d)) && noslashb (rest_under (t_path e) d)) eqn:E; [|destruct H].
  destruct H as [<-|[]]. apply andb_true_iff in E as [E _]. apply andb_true_iff in E as [_ E].
  now apply negb_true_iff in E.
Qed.

Lemma join_nonempty_list l :
  forallb (fun s => negb (is_empty s)) l = true -> join_slash l = [] -> l = [].
Proof.
  destruct l as [|a l]; [reflexivity|]. cbn [forallb]. intros H E. apply andb_true_iff in H as [Ha _].
  destruct a; [discriminate|]. destruct l; discriminate.
Qed.

Lemma join_dir_snoc l n :
  forallb (fun s => negb (is_empty s)) l = true ->
  join_dir (join_slash l) n = join_slash (l ++ [n]).
Proof.
  intros H. unfold join_dir. destruct (is_empty (join_slash l)) eqn:E.
  - assert (El : join_slash l = []) by (destruct (join_slash l); [reflexivity|discriminate]).
    now rewrite (join_nonempty_list l H El).
  - assert (Hl : l <> []) by (intros ->; discriminate).
    now rewrite join_slash_app by (exact Hl || discriminate).
Qed.

Definition nonempty_all (l : list str) : bool := forallb (fun s => negb (is_empty s)) l.

(** Every path a glob selection lists has as many elements as the pattern,
    and each element is matched by the corresponding pattern element: no
    element of a pattern ever matches across a directory separator. *)
Theorem glob_rev_elementwise tree : forall segs_rev ms,
  nonempty_all segs_rev = true ->
  glob_rev tree segs_rev = Some ms ->
  forall m, In m ms ->
  exists names, m = join_slash names /\ nonempty_all names = true /\
                Forall2 (fun seg n => fp_matches seg n = true) (rev segs_rev) names.
Proof.
  induction segs_rev as [|seg pre_rev IH]; intros ms Hne H m Hm.
  - cbn in H. injection H as <-. destruct Hm as [<-|[]]. exists []. repeat split. constructor.
  - cbn [glob_rev] in H.
    assert (Hne' : nonempty_all pre_rev = true) by (cbn in Hne; now apply andb_true_iff in Hne as [_ Hne]).
    assert (Hrev : nonempty_all (rev (seg :: pre_rev)) = true) by (unfold nonempty_all; now rewrite forallb_rev).
    destruct (glob_accepts (join_slash (rev (seg :: pre_rev)))); cbn [negb] in H; [|discriminate].
    destruct (has_meta (join_slash (rev (seg :: pre_rev)))) eqn:Hm0; cbn [negb] in H.
    + set (dirp := join_slash (rev pre_rev)) in *.
      assert (Hds : exists ds, glob_level tree ds seg = Some ms /\
                forall d, In d ds -> exists names, d = join_slash names /\ nonempty_all names = true /\
                     Forall2 (fun seg n => fp_matches seg n = true) (rev pre_rev) names).
      { destruct (has_meta dirp) eqn:Hmd.
        - destruct (glob_rev tree pre_rev) as [ds|] eqn:Eg; [|discriminate].
          exists ds. split; [exact H|]. intros d Hd. now apply (IH ds Hne' eq_refl d Hd).
        - exists [dirp]. split; [exact H|]. intros d [<-|[]]. exists (rev pre_rev).
          split; [reflexivity|]. split; [unfold nonempty_all; now rewrite forallb_rev|].
          apply self_matches. now apply has_meta_join. }
      destruct Hds as (ds & Hl & Hds).
      destruct (glob_level_in _ _ _ _ Hl _ Hm) as (d & n & Hd & -> & Hmt & Hn).
      destruct (Hds d Hd) as (names & -> & Hnn & HF).
      exists (names ++ [n]). split; [now apply join_dir_snoc|]. split.
      * unfold nonempty_all in *. rewrite forallb_app, Hnn. cbn. now rewrite (child_names_nonempty _ _ _ Hn).
      * cbn [rev]. apply Forall2_app; [exact HF|]. constructor; [exact Hmt|constructor].
    + exists (rev (seg :: pre_rev)).
      destruct (exists_path tree (join_slash (rev (seg :: pre_rev)))); injection H as <-; [|destruct Hm].
      destruct Hm as [<-|[]]. split; [reflexivity|]. split; [exact Hrev|].
      apply self_matches. now apply has_meta_join.
Qed.

(** A selection pattern that [Match(pattern, "")] rejects is an error,
    whatever the tree. *)
Lemma glob_rev_bad tree seg pre_rev :
  glob_accepts (join_slash (rev (seg :: pre_rev))) = false -> glob_rev tree (seg :: pre_rev) = None.
Proof. intros H. cbn [glob_rev]. now rewrite H. Qed.

(** *** Symbolic links *)

(** The recursive listing never descends a symbolic link: every directory
    between the listing root and a listed path is a real directory (and is
    not one of the pruned names). *)
Theorem list_all_no_follow x sb tree R l f :
  list_all x sb tree R = Some l -> In f l ->
  f = R \/
  forall q, In q (dirs_between f R) ->
    exists e, find_entry tree q = Some e /\ t_kind e = TDir.
Proof.
  unfold list_all. intros H Hf.
  set (wd := if mem_str (if is_empty R then sb else base_name R) (skip_dirs x) then []
             else map t_path (filter (fun e =>
                    negb (is_real_dir (t_kind e)) && beneath (t_path e) R &&
                    forallb (walkable x tree) (dirs_between (t_path e) R) &&
                    file_ok x (base_name (t_path e))) tree)) in *.
  assert (Hwd : In f wd -> forall q, In q (dirs_between f R) ->
                 exists e, find_entry tree q = Some e /\ t_kind e = TDir).
  { unfold wd. destruct (mem_str _ _); [intros []|]. intros Hin q Hq.
    apply in_map_iff in Hin as (e & <- & He). apply filter_In in He as [_ He].
    apply andb_true_iff in He as [He _]. apply andb_true_iff in He as [_ He].
    rewrite forallb_forall in He. specialize (He q Hq). unfold walkable in He.
    destruct (find_entry tree q) as [e'|]; [|discriminate]. exists e'. split; [reflexivity|].
    apply andb_true_iff in He as [He _]. destruct (t_kind e'); try discriminate. reflexivity. }
  destruct (is_empty R).
  - injection H as <-. right. now apply Hwd.
  - destruct (find_entry tree R) as [e|]; [|discriminate].
    destruct (is_real_dir (t_kind e)).
    + injection H as <-. right. now apply Hwd.
    + injection H as <-. destruct (file_ok x (base_name R)); [|destruct Hf].
      destruct Hf as [<-|[]]. now left.
Qed.
