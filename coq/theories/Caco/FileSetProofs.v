(** Proofs about caco3 file sets (Caco/FileSet.v): the listing is exactly
    explicit + (selected - ignored), sorted without duplicates; a directory
    ignore is the segment-wise "strictly beneath" relation; patterns never
    match across a '/'. *)
From Coq Require Import List NArith Bool Lia.
From Verif Require Import Lib.Path Caco.Names Caco.NamesProofs Caco.FileSet.
Import ListNotations.
Local Open Scope N_scope.

(** *** Sorted set *)

Fixpoint sortedb (l : list str) : bool :=
  match l with
  | a :: (b :: _) as r => str_ltb a b && sortedb r
  | _ => true
  end.

Lemma insert_str_in x y l : In y (insert_str x l) <-> y = x \/ In y l.
Proof.
  induction l as [|z l IH]; cbn.
  - intuition.
  - destruct (str_ltb x z).
    + cbn. intuition.
    + destruct (str_eqb x z) eqn:E.
      * apply str_eqb_eq in E. subst z. cbn. intuition.
      * cbn. rewrite IH. intuition.
Qed.

Lemma sort_set_in x l : In x (sort_set l) <-> In x l.
Proof.
  induction l as [|y l IH]; cbn; [reflexivity|].
  rewrite insert_str_in, IH. intuition.
Qed.

Definition lt_all (x : str) (l : list str) : Prop := forall y, In y l -> str_ltb x y = true.

Lemma sortedb_cons x l : sortedb (x :: l) = true <-> lt_all x l /\ sortedb l = true.
Proof.
  revert x; induction l as [|y l IH]; intros x.
  - cbn. split; [intros _; split; [intros y []|reflexivity]|reflexivity].
  - change (sortedb (x :: y :: l)) with (str_ltb x y && sortedb (y :: l)).
    rewrite andb_true_iff. split.
    + intros [H1 H2]. split; [|exact H2]. intros z [<-|Hz]; [exact H1|].
      apply IH in H2 as [H2 _]. eapply str_ltb_trans; [exact H1|]. now apply H2.
    + intros [H1 H2]. split; [|exact H2]. apply H1. now left.
Qed.

Lemma insert_sorted x l : sortedb l = true -> sortedb (insert_str x l) = true.
Proof.
  induction l as [|y l IH]; intros H; [reflexivity|].
  cbn [insert_str]. destruct (str_ltb x y) eqn:L.
  - change (sortedb (x :: y :: l)) with (str_ltb x y && sortedb (y :: l)). now rewrite L, H.
  - destruct (str_eqb x y) eqn:E; [exact H|].
    apply sortedb_cons in H as [H1 H2]. apply sortedb_cons. split; [|now apply IH].
    intros z Hz. apply insert_str_in in Hz as [->|Hz]; [now apply str_trichotomy|now apply H1].
Qed.

Lemma sort_set_sorted l : sortedb (sort_set l) = true.
Proof. induction l as [|x l IH]; [reflexivity|]. cbn. now apply insert_sorted. Qed.

(** *** Directory ignores are segment-wise *)

Lemma rel_segs_nonempty x : x <> [] -> rel_segs x <> [].
Proof. destruct x; [congruence|]. intros _. unfold rel_segs. apply split_slash_nonempty. Qed.

Theorem beneath_segmentwise x d :
  clean_relb d = true -> x <> [] ->
  (beneath x d = true <-> exists rest, rest <> [] /\ rel_segs x = rel_segs d ++ rest).
Proof.
  intros Hd Hx. unfold beneath. destruct d as [|c d]; cbn [is_empty orb].
  - split; [intros _|reflexivity]. exists (rel_segs x). split; [now apply rel_segs_nonempty|reflexivity].
  - set (dd := c :: d) in *. rewrite has_prefix_spec. split.
    + intros [r ->]. exists (split_slash r). split; [apply split_slash_nonempty|].
      subst dd. rewrite <- app_assoc. cbn [app rel_segs].
      change (c :: d ++ slash :: r) with ((c :: d) ++ slash :: r). apply split_slash_app_slash.
    + intros (rest & Hr & E). exists (join_slash rest).
      rewrite <- (join_rel_segs x), E.
      rewrite join_slash_app by (exact Hr || (apply rel_segs_nonempty; discriminate)).
      now rewrite join_rel_segs, <- app_assoc.
Qed.

(** The repaired test, instantiated at a resolved ignore entry. *)
Theorem dir_ignore_is_segmentwise p i x :
  x <> [] ->
  (under_ignored_dir x (make_rel_path p i) = true <->
   exists rest, rest <> [] /\ rel_segs x = (rsegs p ++ rsegs i) ++ rest).
Proof.
  intros Hx. unfold under_ignored_dir.
  rewrite (beneath_segmentwise x _ (make_rel_path_clean p i) Hx), make_rel_path_segs. reflexivity.
Qed.

(** *** ignored *)

Theorem ignored_spec p r f :
  ignored p r f = true <->
  (exists i, In i (r_ignore r) /\ ends_with_slash i = true /\
             under_ignored_dir f (make_rel_path p i) = true) \/
  (exists i, In i (r_ignore r) /\ ends_with_slash i = false /\
             gmatch (make_rel_path p i) f = true).
Proof.
  unfold ignored, ignore_dirs, ignore_pats. rewrite orb_true_iff, !existsb_exists. split.
  - intros [(d & Hd & H)|(d & Hd & H)]; apply in_map_iff in Hd as (i & <- & Hi);
      apply filter_In in Hi as [Hi He]; [left|right]; exists i; repeat split; try assumption.
    now apply negb_true_iff in He.
  - intros [(i & Hi & He & H)|(i & Hi & He & H)]; [left|right];
      exists (make_rel_path p i); (split; [|exact H]); apply in_map_iff; exists i;
      (split; [reflexivity|]); apply filter_In; (split; [exact Hi|]); [exact He|now rewrite He].
Qed.

(** *** The listing is exact *)

Lemma run_selects_spec x sb tree p r sels acc all :
  run_selects x sb tree p r sels acc = inr all ->
  (forall sel, In sel sels -> exists ms, ms <> [] /\ select_matches x sb tree p sel = Some ms) /\
  forall f, In f all <->
    In f acc \/
    exists sel ms, In sel sels /\ select_matches x sb tree p sel = Some ms /\
                   In f ms /\ ignored p r f = false.
Proof.
  revert acc; induction sels as [|sel sels IH]; intros acc H; cbn in H.
  - injection H as <-. split; [intros ? []|]. intros f. split; [now left|].
    intros [Hf|(s & ms & [] & _)]. exact Hf.
  - destruct (select_matches x sb tree p sel) as [ms|] eqn:Es; [|discriminate].
    destruct ms as [|m ms]; [discriminate|].
    destruct (IH _ H) as [Hall Hin]. split.
    + intros s [<-|Hs]; [exists (m :: ms); split; [discriminate|exact Es]|now apply Hall].
    + intros f. rewrite Hin, in_app_iff, filter_In, negb_true_iff. split.
      * intros [[Hf|[Hf Hi]]|(s & ms' & Hs & E & Hf & Hi)].
        -- now left.
        -- right. exists sel, (m :: ms). repeat split; try assumption. now left.
        -- right. exists s, ms'. repeat split; try assumption. now right.
      * intros [Hf|(s & ms' & [<-|Hs] & E & Hf & Hi)].
        -- left. now left.
        -- rewrite Es in E. injection E as <-. left. right. now split.
        -- right. exists s, ms'. now repeat split.
Qed.

Theorem file_set_exact x sb tree p r name files :
  file_set x sb tree p r = FsOk name files ->
  name = make_rel_path p (r_name r) /\
  sortedb files = true /\
  (forall sel, In sel (r_select r) -> exists ms, ms <> [] /\ select_matches x sb tree p sel = Some ms) /\
  forall f, In f files <->
    (exists e, In e (r_files r) /\ f = make_path p e) \/
    exists sel ms, In sel (r_select r) /\ select_matches x sb tree p sel = Some ms /\
                   In f ms /\ ignored p r f = false.
Proof.
  unfold file_set.
  destruct (run_selects x sb tree p r (r_select r) (map (make_path p) (r_files r))) as [e|all] eqn:E.
  - destruct e; discriminate.
  - intros [= <- <-]. destruct (run_selects_spec _ _ _ _ _ _ _ _ E) as [Hall Hin].
    split; [reflexivity|]. split; [apply sort_set_sorted|]. split; [exact Hall|].
    intros f. rewrite sort_set_in, Hin, in_map_iff. split.
    + intros [(e & <- & He)|H]; [left; now exists e|now right].
    + intros [(e & He & ->)|H]; [left; now exists e|now right].
Qed.

(** When the listing fails, a selection really matched nothing (or its
    directory could not be listed). *)
Lemma run_selects_err x sb tree p r sels acc e :
  run_selects x sb tree p r sels acc = inl e ->
  exists sel, In sel sels /\
    ((e = SelNoFiles sel /\ select_matches x sb tree p sel = Some []) \/
     (e = SelListErr sel /\ select_matches x sb tree p sel = None)).
Proof.
  revert acc; induction sels as [|sel sels IH]; intros acc H; cbn in H; [discriminate|].
  destruct (select_matches x sb tree p sel) as [ms|] eqn:Es.
  - destruct ms as [|m ms].
    + injection H as <-. exists sel. split; [now left|]. left. now split.
    + destruct (IH _ H) as (s & Hs & Hc). exists s. split; [now right|exact Hc].
  - injection H as <-. exists sel. split; [now left|]. right. now split.
Qed.

Theorem file_set_error x sb tree p r :
  (forall sel, file_set x sb tree p r = FsNoFiles sel ->
     In sel (r_select r) /\ select_matches x sb tree p sel = Some []) /\
  (forall sel, file_set x sb tree p r = FsListErr sel ->
     In sel (r_select r) /\ select_matches x sb tree p sel = None).
Proof.
  unfold file_set.
  destruct (run_selects x sb tree p r (r_select r) (map (make_path p) (r_files r))) as [e|all] eqn:E.
  - destruct (run_selects_err _ _ _ _ _ _ _ _ E) as (s & Hs & [[-> Hm]|[-> Hm]]);
      split; intros sel [= <-]; now split.
  - split; intros sel; discriminate.
Qed.

(** *** Patterns never match across a slash *)

Fixpoint count_slash (s : str) : nat :=
  match s with
  | [] => 0
  | c :: r => (if c =? slash then 1 else 0) + count_slash r
  end.

Theorem gmatch_same_depth pat s : gmatch pat s = true -> count_slash pat = count_slash s.
Proof.
  revert s; induction pat as [|c pat IH]; intros s.
  - cbn. destruct s; [reflexivity|discriminate].
  - cbn [gmatch]. destruct (c =? star) eqn:Es.
    + apply N.eqb_eq in Es. subst c. cbn [count_slash]. change (star =? slash) with false. cbn [plus].
      induction s as [|d s IHs].
      * rewrite orb_false_r. apply IH.
      * intros H. apply orb_true_iff in H as [H|H]; [now apply IH|].
        apply andb_true_iff in H as [Hd H]. apply negb_true_iff in Hd.
        cbn [count_slash]. rewrite Hd. now apply IHs.
    + destruct s as [|d s]; [discriminate|].
      destruct (c =? qmark) eqn:Eq.
      * apply N.eqb_eq in Eq. subst c. intros H. apply andb_true_iff in H as [Hd H].
        apply negb_true_iff in Hd. cbn [count_slash]. change (qmark =? slash) with false.
        rewrite Hd. now apply IH.
      * intros H. apply andb_true_iff in H as [Hd H]. apply N.eqb_eq in Hd. subst d.
        cbn [count_slash]. f_equal. now apply IH.
Qed.

Definition literalb (pat : str) : bool :=
  forallb (fun c => negb (c =? star) && negb (c =? qmark)) pat.

Theorem gmatch_literal pat s : literalb pat = true -> gmatch pat s = str_eqb pat s.
Proof.
  revert s; induction pat as [|c pat IH]; intros s H.
  - destruct s; reflexivity.
  - cbn in H. apply andb_true_iff in H as [Hc H]. apply andb_true_iff in Hc as [H1 H2].
    apply negb_true_iff in H1, H2. cbn [gmatch]. rewrite H1.
    destruct s as [|d s]; [reflexivity|]. rewrite H2. cbn [str_eqb]. now rewrite IH.
Qed.
