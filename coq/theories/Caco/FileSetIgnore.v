(** Directory (and file) ignores of a file set are independent of one
    another (C12, round 3).

    [newFileSet]'s [ignore] closure scans the ignore entries one by one; the
    model's [ignored] is the disjunction over the entries.  Stated here on its
    own: whether a name is ignored is decided entry by entry - each entry taken
    ALONE, as if it were the only one - so no other entry (a directory whose
    name sorts between an ignored directory and the files beneath it, such as
    [gen.old/] next to [gen/] or [a-b/] next to [a/]; a directory nested in an
    ignored one; the same entries in another order) can un-ignore or ignore a
    name.  A lookup that sorts the ignored directories and tests only the
    predecessor of the name is refuted. *)
From Coq Require Import List NArith Bool Permutation String.
From Verif Require Import Lib.Path Caco.Names Caco.Match Caco.FileSet Caco.FileSetProofs.
Import ListNotations.
Local Open Scope N_scope.

(** the rule with [i] as its only ignore entry *)
Definition only_ignore (r : rule) (i : str) : rule :=
  {| r_name := r_name r; r_files := r_files r; r_select := r_select r; r_ignore := [i] |}.

Lemma ignored_only p r i name :
  ignored p (only_ignore r i) name =
  if ends_with_slash i then under_ignored_dir name (make_rel_path p i)
  else matches (make_rel_path p i) name.
Proof.
  unfold ignored, ignore_dirs, ignore_pats, only_ignore. cbn [r_ignore filter].
  destruct (ends_with_slash i); cbn [negb map existsb]; now rewrite ?orb_false_r.
Qed.

Lemma ignored_cons p r i rest name :
  r_ignore r = i :: rest ->
  ignored p r name =
  ignored p (only_ignore r i) name ||
  ignored p {| r_name := r_name r; r_files := r_files r; r_select := r_select r; r_ignore := rest |} name.
Proof.
  intros E. rewrite ignored_only. unfold ignored, ignore_dirs, ignore_pats. rewrite E.
  cbn [r_ignore filter]. destruct (ends_with_slash i); cbn [negb map existsb].
  - now rewrite orb_assoc.
  - rewrite !orb_assoc. f_equal. apply orb_comm.
Qed.

(** A name is ignored exactly when one entry, taken alone, ignores it. *)
Theorem ignored_entrywise p r name :
  ignored p r name = existsb (fun i => ignored p (only_ignore r i) name) (r_ignore r).
Proof.
  destruct r as [nm fl sl ig]. cbn [r_ignore].
  induction ig as [|i rest IH].
  - reflexivity.
  - rewrite (ignored_cons p {| r_name := nm; r_files := fl; r_select := sl; r_ignore := i :: rest |}
                          i rest name eq_refl).
    cbn [existsb r_name r_files r_select]. rewrite IH. reflexivity.
Qed.

(** Independence: a directory ignore [d/] covers every name beneath [d]
    whatever other entries the rule has and wherever [d/] stands among them;
    other entries never take a name out again; and the verdict does not
    depend on the order of the entries. *)
Theorem dir_ignore_independent_of_other_ignores p r i name :
  In i (r_ignore r) -> ends_with_slash i = true ->
  beneath name (make_rel_path p i) = true ->
  ignored p r name = true.
Proof.
  intros Hi He Hb. rewrite ignored_entrywise. apply existsb_exists. exists i. split; [assumption|].
  rewrite ignored_only, He. exact Hb.
Qed.

Theorem ignored_monotone p r r' name :
  incl (r_ignore r) (r_ignore r') -> ignored p r name = true -> ignored p r' name = true.
Proof.
  intros Hi H. rewrite ignored_entrywise in *. apply existsb_exists in H as (i & Hin & H).
  apply existsb_exists. exists i. split; [now apply Hi|].
  rewrite ignored_only in *. exact H.
Qed.

Theorem ignored_order_irrelevant p r r' name :
  Permutation (r_ignore r) (r_ignore r') -> ignored p r name = ignored p r' name.
Proof.
  intros HP.
  destruct (ignored p r name) eqn:E; symmetry.
  - eapply ignored_monotone; [|exact E]. intros x Hx. eapply Permutation_in; eauto.
  - destruct (ignored p r' name) eqn:E'; [|reflexivity].
    rewrite <- E. symmetry. eapply ignored_monotone; [|exact E'].
    intros x Hx. eapply Permutation_in; [apply Permutation_sym; exact HP|assumption].
Qed.

(** only the entries themselves matter: not ignored iff no entry alone ignores it *)
Corollary not_ignored_iff p r name :
  ignored p r name = false <->
  forall i, In i (r_ignore r) -> ignored p (only_ignore r i) name = false.
Proof.
  rewrite ignored_entrywise. split.
  - intros H i Hi. destruct (ignored p (only_ignore r i) name) eqn:E; [|reflexivity].
    assert (existsb (fun i => ignored p (only_ignore r i) name) (r_ignore r) = true)
      by (apply existsb_exists; eauto). congruence.
  - intros H. destruct (existsb _ (r_ignore r)) eqn:E; [|reflexivity].
    apply existsb_exists in E as (i & Hi & Ht). rewrite (H i Hi) in Ht. discriminate.
Qed.

(** ** A sorted lookup that tests only the predecessor: refuted *)

(** the last element of a sorted list that is below [name]
    ([ignoreDirs[sort.SearchStrings(ignoreDirs, name) - 1]]) *)
Fixpoint predecessor (sorted : list str) (name : str) (best : option str) : option str :=
  match sorted with
  | [] => best
  | d :: rest => if str_ltb d name then predecessor rest name (Some d) else best
  end.

Definition ignored_dirs_bsearch (p : str) (r : rule) (name : str) : bool :=
  let dirs := sort_set (ignore_dirs p r) in
  if existsb is_empty dirs then true
  else match predecessor dirs name None with
       | Some d => has_prefix name (d ++ [slash])
       | None => false
       end.

Local Open Scope string_scope.

Definition ig_rule (igs : list str) : rule :=
  {| r_name := bs "fs"; r_files := []; r_select := [bs "**"]; r_ignore := igs |}.

(** "gen" < "gen.old" < "gen/a.go": with both ignored, the predecessor of
    gen/a.go is gen.old, and the file under the ignored gen/ is kept; the same
    for a/ + a-b/ and for the nested a/ + a/m/ (a/x is lost, a/b is not).
    [ignored] ignores all of them, and [gen.old/] alone is no reason either
    way. *)
Theorem bsearch_dir_ignore_refuted :
  ignored_dirs_bsearch [] (ig_rule [bs "gen/"; bs "gen.old/"]) (bs "gen/a.go") = false /\
  ignored [] (ig_rule [bs "gen/"; bs "gen.old/"]) (bs "gen/a.go") = true /\
  ignored_dirs_bsearch [] (ig_rule [bs "gen/"]) (bs "gen/a.go") = true /\
  ignored_dirs_bsearch [] (ig_rule [bs "a-b/"; bs "a/"]) (bs "a/x") = false /\
  ignored [] (ig_rule [bs "a-b/"; bs "a/"]) (bs "a/x") = true /\
  ignored_dirs_bsearch [] (ig_rule [bs "a/"; bs "a/m/"]) (bs "a/x") = false /\
  ignored_dirs_bsearch [] (ig_rule [bs "a/"; bs "a/m/"]) (bs "a/b") = true /\
  ignored [] (ig_rule [bs "a/"; bs "a/m/"]) (bs "a/x") = true /\
  ignored (bs "pkg") (ig_rule [bs "gen.old/"; bs "gen/"]) (bs "pkg/gen/a.go") = true /\
  ignored (bs "pkg") (ig_rule [bs "gen.old/"; bs "gen/"]) (bs "pkg/gen.old/a.go") = true /\
  ignored (bs "pkg") (ig_rule [bs "gen.old/"; bs "gen/"]) (bs "pkg/generic/a.go") = false.
Proof. vm_compute. repeat split. Qed.

(** ** Every file ignore entry is a [path.Match] pattern - escapes included

    [ignored_only]: an entry that does not end in "/" ignores exactly the names
    [path.Match] matches with it.  The backslash is a meta character of
    [path.Match] like '*', '?' and '[': "a\.txt" matches a.txt, "a\ b" matches
    "a b", "\[x\]" matches "[x]", a trailing backslash is [ErrBadPattern] and
    ignores nothing.  A shortcut that looks entries WITHOUT '*', '?', '[' up as
    literal names is refuted: it no longer ignores a.txt under "a\.txt", and
    ignores the file literally called a\.txt, which the pattern does not match. *)
Definition has_star_qmark_lbrack (s : str) : bool :=
  existsb (fun c => N.eqb c c_star || N.eqb c c_qmark || N.eqb c c_lbrack) s.

Definition ignored_exact_lookup (p : str) (r : rule) (name : str) : bool :=
  existsb (under_ignored_dir name) (ignore_dirs p r) ||
  existsb (fun i => if has_star_qmark_lbrack i then matches i name else str_eqb i name) (ignore_pats p r).

Theorem escaped_ignore_is_a_pattern_refuted :
  ignored [] (ig_rule [bs "a\.txt"]) (bs "a.txt") = true /\
  ignored_exact_lookup [] (ig_rule [bs "a\.txt"]) (bs "a.txt") = false /\
  ignored [] (ig_rule [bs "a\ b"]) (bs "a b") = true /\
  ignored_exact_lookup [] (ig_rule [bs "a\ b"]) (bs "a b") = false /\
  ignored [] (ig_rule [bs "\[x\]"]) (bs "[x]") = true /\
  ignored [] (ig_rule [bs "a.txt\"]) (bs "a.txt") = false /\
  ignored [] (ig_rule [bs "a\.txt"]) (bs "a\.txt") = false /\
  ignored_exact_lookup [] (ig_rule [bs "a\.txt"]) (bs "a\.txt") = true /\
  ignored (bs "pkg") (ig_rule [bs "d/a\.txt"]) (bs "pkg/d/a.txt") = true.
Proof. vm_compute. repeat split. Qed.
