(** Candidate inputs for the counterexample search of the caco3 code
    refinement (Caco/CodeRefine.v): when a refinement lemma stops checking,
    [cex_<f>] is evaluated with [vm_compute] and its first element is reported
    as the concrete input on which the code (as translated now) and the model
    disagree.  Requires only the generated file and the model. *)
From Coq Require Import List NArith Bool.
From Verif Require Import Lib.Path Lib.GoLib Caco.Names Gen.CodeCaco.
Import ListNotations.
Local Open Scope N_scope.

(** Every pair of a package path of <= 3 and a name of <= 4 characters over
    {'/', '.', 'a'}: 40 x 121 inputs. *)
Definition cands_makeRelPath : list (str * str) :=
  pairs (strs_upto [47; 46; 97] 3) (strs_upto [47; 46; 97] 4).

Definition cex_makeRelPath :=
  cex_search str_eqb (fun x => gen_caco3_makeRelPath (fst x) (snd x))
             (fun x => make_rel_path (fst x) (snd x)) cands_makeRelPath.

Definition cands_makePath : list (str * str) := cands_makeRelPath.

Definition cex_makePath :=
  cex_search str_eqb (fun x => gen_caco3_makePath (fst x) (snd x))
             (fun x => make_path (fst x) (snd x)) cands_makePath.
