(** Proofs about the incremental build model of Caco/Build.v (C10). *)
From Coq Require Import List String Bool Arith NArith Lia Relations Ascii.
From Verif Require Import Caco.Load Caco.LoadProofs Caco.Build.
Import ListNotations.
Local Open Scope string_scope.

(** * Decidable equalities used by the model *)

Lemma list_eqb_spec {A} (eqb : A -> A -> bool) :
  (forall x y, eqb x y = true <-> x = y) ->
  forall a b, list_eqb eqb a b = true <-> a = b.
Proof.
  intros H. induction a as [|x a IH]; destruct b as [|y b]; simpl; try (split; congruence).
  rewrite andb_true_iff, H, IH. split; [intros [-> ->]; reflexivity|intros [= -> ->]; auto].
Qed.

Lemma stat_eqb_spec a b : stat_eqb a b = true <-> a = b.
Proof.
  destruct a, b. unfold stat_eqb. simpl.
  rewrite !andb_true_iff, !N.eqb_eq, String.eqb_eq. split.
  - intros [[[-> ->] ->] ->]. reflexivity.
  - intros [= -> -> -> ->]. auto.
Qed.

Lemma sel_eqb_spec a b : sel_eqb a b = true <-> a = b.
Proof.
  destruct a, b; simpl; try (split; congruence).
  - rewrite andb_true_iff, !String.eqb_eq. split; [intros [-> ->]; reflexivity|intros [= -> ->]; auto].
  - rewrite String.eqb_eq. split; [intros ->; reflexivity|intros [= ->]; auto].
Qed.

Lemma str_list_eqb_spec a b : list_eqb String.eqb a b = true <-> a = b.
Proof. apply list_eqb_spec. intros x y. apply String.eqb_eq. Qed.

Lemma ign_eqb_spec a b : ign_eqb a b = true <-> a = b.
Proof.
  destruct a, b; simpl; try (split; congruence).
  - rewrite String.eqb_eq. split; [intros ->; reflexivity|intros [= ->]; auto].
  - rewrite andb_true_iff, !String.eqb_eq. split; [intros [-> ->]; reflexivity|intros [= -> ->]; auto].
  - rewrite String.eqb_eq. split; [intros ->; reflexivity|intros [= ->]; auto].
Qed.

Lemma fkind_eqb_spec a b : fkind_eqb a b = true <-> a = b.
Proof.
  destruct a, b; simpl; try (split; congruence).
  rewrite N.eqb_eq. split; [intros ->; reflexivity|intros [= ->]; auto].
Qed.

Lemma fnodes_eqb_spec a b :
  list_eqb (fun x y : name * fkind => String.eqb (fst x) (fst y) && fkind_eqb (snd x) (snd y)) a b = true
  <-> a = b.
Proof.
  apply list_eqb_spec. intros [n k] [n' k']. simpl.
  rewrite andb_true_iff, String.eqb_eq, fkind_eqb_spec.
  split; [intros [-> ->]; reflexivity|intros [= -> ->]; auto].
Qed.

Lemma rdigest_eqb_spec a b : rdigest_eqb a b = true <-> a = b.
Proof.
  destruct a, b; simpl; try (split; congruence).
  - rewrite !andb_true_iff, String.eqb_eq, !str_list_eqb_spec, (list_eqb_spec sel_eqb sel_eqb_spec),
      (list_eqb_spec ign_eqb ign_eqb_spec).
    split; [intros [[[[-> ->] ->] ->] ->]; reflexivity|intros [= -> -> -> -> ->]; auto].
  - rewrite String.eqb_eq. split; [intros ->; reflexivity|intros [= ->]; auto].
Qed.

Scheme digest_mind := Induction for digest Sort Prop
  with dlist_mind := Induction for dlist Sort Prop.
Combined Scheme digest_dlist_ind from digest_mind, dlist_mind.

Lemma digest_eqb_spec_both :
  (forall a b, digest_eqb a b = true <-> a = b) /\
  (forall a b, dlist_eqb a b = true <-> a = b).
Proof.
  apply digest_dlist_ind.
  - intros nm s [nm' s'| |]; simpl; try (split; congruence).
    rewrite andb_true_iff, String.eqb_eq, stat_eqb_spec.
    split; [intros [-> ->]; reflexivity|intros [= -> ->]; auto].
  - intros rd deps IH outs fn [|rd' deps' outs' fn'|]; simpl; try (split; congruence).
    rewrite !andb_true_iff, rdigest_eqb_spec, IH, str_list_eqb_spec, fnodes_eqb_spec.
    split; [intros [[[-> ->] ->] ->]; reflexivity|intros [= -> -> -> ->]; auto].
  - intros deps IH o [| |deps' o']; simpl; try (split; congruence).
    rewrite andb_true_iff, IH, String.eqb_eq.
    split; [intros [-> ->]; reflexivity|intros [= -> ->]; auto].
  - intros [|]; simpl; split; congruence.
  - intros nm d IHd rest IHr [|nm' d' rest']; simpl; try (split; congruence).
    rewrite !andb_true_iff, String.eqb_eq, IHd, IHr.
    split; [intros [[-> ->] ->]; reflexivity|intros [= -> -> ->]; auto].
Qed.

Lemma digest_eqb_spec a b : digest_eqb a b = true <-> a = b.
Proof. apply digest_eqb_spec_both. Qed.

Lemma digest_eqb_refl a : digest_eqb a a = true.
Proof. now apply digest_eqb_spec. Qed.

Lemma digest_eqb_false a b : digest_eqb a b = false <-> a <> b.
Proof.
  rewrite <- digest_eqb_spec. destruct (digest_eqb a b); intuition congruence.
Qed.

(** * The cache as a finite map *)

Lemma cache_get_remove_same d c : cache_get d (cache_remove d c) = None.
Proof.
  induction c as [|[d' b] c IH]; simpl; [reflexivity|].
  destruct (digest_eqb d d') eqn:E; simpl; [assumption|]. now rewrite E.
Qed.

Lemma cache_get_remove_other d d' c :
  d <> d' -> cache_get d' (cache_remove d c) = cache_get d' c.
Proof.
  intros Hne. induction c as [|[d2 b] c IH]; simpl; [reflexivity|].
  destruct (digest_eqb d d2) eqn:E; simpl.
  - apply digest_eqb_spec in E. subst d2.
    assert (digest_eqb d' d = false) by (apply digest_eqb_false; congruence).
    now rewrite H.
  - destruct (digest_eqb d' d2); [reflexivity|assumption].
Qed.

Lemma cache_get_put_same d b c : cache_get d (cache_put d b c) = Some b.
Proof. unfold cache_put. simpl. now rewrite digest_eqb_refl. Qed.

Lemma cache_get_put_other d d' b c :
  d <> d' -> cache_get d' (cache_put d b c) = cache_get d' (c).
Proof.
  intros Hne. unfold cache_put. simpl.
  assert (digest_eqb d' d = false) by (apply digest_eqb_false; congruence).
  rewrite H. now apply cache_get_remove_other.
Qed.

(** * Association lists *)

Lemma lookup_remove_same {A} k (l : list (name * A)) : lookup k (remove_assoc k l) = None.
Proof.
  induction l as [|[k2 x] l IH]; simpl; [reflexivity|].
  destruct (String.eqb_spec k k2); simpl; [assumption|].
  destruct (String.eqb_spec k k2); [congruence|assumption].
Qed.

Lemma lookup_remove_other {A} k k' (l : list (name * A)) :
  k <> k' -> lookup k' (remove_assoc k l) = lookup k' l.
Proof.
  intros Hne. induction l as [|[k2 x] l IH]; simpl; [reflexivity|].
  destruct (String.eqb_spec k k2) as [->|Hk]; simpl.
  - destruct (String.eqb_spec k' k2); [congruence|assumption].
  - destruct (String.eqb_spec k' k2); [reflexivity|assumption].
Qed.

Lemma lookup_set_same {A} k (v : option A) l : lookup k (set_assoc k v l) = v.
Proof.
  unfold set_assoc. destruct v; simpl; [now rewrite String.eqb_refl|apply lookup_remove_same].
Qed.

Lemma lookup_set_other {A} k k' (v : option A) l :
  k <> k' -> lookup k' (set_assoc k v l) = lookup k' l.
Proof.
  intros Hne. unfold set_assoc. destruct v; simpl.
  - destruct (String.eqb_spec k' k); [congruence|]. now apply lookup_remove_other.
  - now apply lookup_remove_other.
Qed.

Lemma str_length_append (a b : string) :
  String.length (a ++ b) = String.length a + String.length b.
Proof. induction a as [|c a IH]; simpl; [reflexivity|]. now rewrite IH. Qed.

Lemma append_inj_l (a b s : string) : (a ++ s = b ++ s)%string -> a = b.
Proof.
  revert b. induction a as [|c a IH]; intros b H.
  - destruct b as [|d b]; [reflexivity|]. simpl in H. exfalso.
    assert (Hl : String.length s = String.length (String d (b ++ s))) by now rewrite <- H.
    simpl in Hl. rewrite str_length_append in Hl. lia.
  - destruct b as [|d b]; simpl in H.
    + exfalso.
      assert (Hl : String.length (String c (a ++ s)) = String.length s) by now rewrite H.
      simpl in Hl. rewrite str_length_append in Hl. lia.
    + injection H as -> H. f_equal. now apply IH.
Qed.

Lemma fileset_out_inj a b : fileset_out a = fileset_out b -> a = b.
Proof. apply append_inj_l. Qed.

(** * The dependency map of an action digest *)

Fixpoint dl_lookup (k : name) (l : dlist) : option digest :=
  match l with
  | DNil => None
  | DCons n d r => if String.eqb k n then Some d else dl_lookup k r
  end.

Lemma dl_lookup_insert k n d l :
  dl_lookup k (dl_insert n d l) = if String.eqb k n then Some d else dl_lookup k l.
Proof.
  induction l as [|n' d' r IH]; simpl; [reflexivity|].
  destruct (String.eqb_spec n n') as [->|Hn]; simpl.
  - destruct (String.eqb k n'); reflexivity.
  - destruct (String.leb n n'); simpl.
    + reflexivity.
    + rewrite IH. destruct (String.eqb_spec k n') as [->|Hk]; [|reflexivity].
      destruct (String.eqb_spec n' n); [congruence|reflexivity].
Qed.

(** the last binding of [k] in an association list *)
Definition lookup_last (k : name) (l : list (name * digest)) (init : option digest) : option digest :=
  fold_left (fun acc p => if String.eqb k (fst p) then Some (snd p) else acc) l init.

Lemma canon_deps_lookup_gen k l acc :
  dl_lookup k (fold_left (fun acc p => dl_insert (fst p) (snd p) acc) l acc)
  = lookup_last k l (dl_lookup k acc).
Proof.
  revert acc. induction l as [|[n d] l IH]; intros acc; simpl; [reflexivity|].
  rewrite IH, dl_lookup_insert. reflexivity.
Qed.

Lemma canon_deps_lookup k l : dl_lookup k (canon_deps l) = lookup_last k l None.
Proof. unfold canon_deps. now rewrite canon_deps_lookup_gen. Qed.

(** When the list is the graph of a function [g] over [deps]. *)
Lemma lookup_last_graph k (g : name -> digest) deps init :
  lookup_last k (map (fun d => (d, g d)) deps) init =
  if mem k deps then Some (g k) else init.
Proof.
  revert init. induction deps as [|d deps IH]; intros init; simpl; [reflexivity|].
  rewrite IH. destruct (String.eqb_spec k d) as [->|Hk]; simpl.
  - destruct (mem d deps); reflexivity.
  - reflexivity.
Qed.

(** * What a configuration determines: digests and file-set contents *)
Section Spec.
  Variable L : list node.
  Variable rules : list rule.
  Variable src : list (name * stat).

  Definition collect {A} (g : name -> option A) (deps : list name) : option (list (name * A)) :=
    fold_right (fun d acc =>
                  match acc, g d with
                  | Some l, Some x => Some ((d, x) :: l)
                  | _, _ => None
                  end) (Some []) deps.

  (** The digest of node [nm] in this configuration ([buildNodeDigest] over
      the digests of the dependencies). *)
  Fixpoint sdig (fuel : nat) (nm : name) : option digest :=
    match fuel with
    | O => None
    | S f =>
        match find_node nm L with
        | None => None
        | Some n =>
            match ntype n with
            | TSrc => match lookup nm src with Some s => Some (DSrc nm s) | None => None end
            | TOut => match collect (sdig f) (ndeps n) with
                      | Some dd => Some (DOutD (canon_deps dd) nm)
                      | None => None
                      end
            | TRule =>
                match find_rule nm rules, collect (sdig f) (ndeps n) with
                | Some r, Some dd =>
                    match rule_extras L (map fst src) [] r with
                    | inl ex => Some (DRuleD (rdigest_of r) (canon_deps dd) (node_outs rules n) ex)
                    | inr _ => None
                    end
                | _, _ => None
                end
            end
        end
    end.

  (** The list a file set writes when every included file set has the
      content this function gives it. *)
  Definition spec_outs (g : name -> option (list entry + failure)) (incs : list name)
    : list (name * (content * N)) :=
    flat_map (fun i => match g i with
                       | Some (inl l) => [(fileset_out i, (CList l, 0%N))]
                       | _ => []
                       end) incs.

  Fixpoint scont (fuel : nat) (nm : name) : option (list entry + failure) :=
    match fuel with
    | O => None
    | S f =>
        match find_rule nm rules with
        | Some r =>
            match r_kind r with
            | KFileSet files sels igns incs =>
                match expand_files (map fst src) files sels igns with
                | Some fl => Some (fileset_content L rules src (spec_outs (scont f) incs) fl incs)
                | None => None
                end
            | KBundle _ => None
            end
        | None => None
        end
    end.
End Spec.

Lemma collect_spec {A} (g : name -> option A) deps dd :
  collect g deps = Some dd <->
  Forall2 (fun d p => fst p = d /\ g d = Some (snd p)) deps dd.
Proof.
  revert dd. induction deps as [|d deps IH]; intros dd; simpl.
  - split; [intros [= <-]; constructor|intros H; inversion H; reflexivity].
  - split.
    + intros H. destruct (collect g deps) as [l|] eqn:E; [|discriminate].
      destruct (g d) as [x|] eqn:Ex; [|discriminate]. injection H as <-.
      constructor; [simpl; auto|]. now apply IH.
    + intros H. inversion H as [|d0 p deps0 dd0 Hp Hr]; subst.
      destruct p as [d' x']. simpl in Hp. destruct Hp as [-> Hx].
      apply IH in Hr. now rewrite Hr, Hx.
Qed.

Lemma collect_ext {A} (g g' : name -> option A) deps :
  (forall d, In d deps -> g d = g' d) -> collect g deps = collect g' deps.
Proof.
  induction deps as [|d deps IH]; intros H; simpl; [reflexivity|].
  rewrite IH, (H d (or_introl eq_refl)); [reflexivity|]. intros x Hx. apply H. now right.
Qed.

Lemma collect_some_in {A} (g : name -> option A) deps : forall dd d,
  collect g deps = Some dd -> In d deps -> exists x, g d = Some x.
Proof.
  induction deps as [|a deps IH]; intros dd d H Hin; [destruct Hin|].
  simpl in H. destruct (collect g deps) as [l|] eqn:E; [|discriminate].
  destruct (g a) as [x|] eqn:Ex; [|discriminate].
  destruct Hin as [<-|Hin]; [eauto|eapply IH; eauto].
Qed.

Lemma collect_graph {A} (g : name -> option A) (h : name -> A) deps : forall dd,
  collect g deps = Some dd -> (forall d, In d deps -> g d = Some (h d)) ->
  dd = map (fun d => (d, h d)) deps.
Proof.
  induction deps as [|a deps IH]; intros dd H Hh; simpl in *.
  - now injection H as <-.
  - destruct (collect g deps) as [l|] eqn:E; [|discriminate].
    destruct (g a) as [x|] eqn:Ex; [|discriminate]. injection H as <-.
    rewrite (Hh a (or_introl eq_refl)) in Ex. injection Ex as <-.
    f_equal. apply IH; [reflexivity|]. intros d Hd. apply Hh. now right.
Qed.

Lemma collect_mono {A} (g g' : name -> option A) deps dd :
  (forall d x, In d deps -> g d = Some x -> g' d = Some x) ->
  collect g deps = Some dd -> collect g' deps = Some dd.
Proof.
  revert dd. induction deps as [|a deps IH]; intros dd Hm H; simpl in *; [assumption|].
  destruct (collect g deps) as [l|] eqn:E; [|discriminate].
  destruct (g a) as [x|] eqn:Ex; [|discriminate]. injection H as <-.
  rewrite (IH l); [|intros d y Hd; apply Hm; now right|reflexivity].
  now rewrite (Hm a x (or_introl eq_refl) Ex).
Qed.

(** * Dependence of [fileSet.build] on out/ *)
Section ContentExt.
  Variable L : list node.
  Variable rules : list rule.
  Variable src : list (name * stat).

  Definition content_at (out : list (name * (content * N))) (o : name) : option content :=
    match lookup o out with Some (c, _) => Some c | None => None end.

  (** none of the files is an output node *)
  Definition no_out_files (fl : list name) : Prop :=
    forall f n, In f fl -> find_node f L = Some n -> ntype n <> TOut.

  Lemma file_entries_ext out out' fl :
    no_out_files fl -> file_entries L src out fl = file_entries L src out' fl.
  Proof.
    induction fl as [|f fl IH]; intros Hno; simpl; [reflexivity|].
    assert (Hf : file_entry L src out f = file_entry L src out' f).
    { unfold file_entry. destruct (find_node f L) as [n|] eqn:Hn; [|reflexivity].
      destruct (ntype n) eqn:Hty; try reflexivity.
      exfalso. apply (Hno f n (or_introl eq_refl) Hn Hty). }
    rewrite Hf, IH; [reflexivity|]. intros g n Hg. apply Hno. now right.
  Qed.

  Lemma include_entries_ext out out' i :
    content_at out (fileset_out i) = content_at out' (fileset_out i) ->
    include_entries L rules out i = include_entries L rules out' i.
  Proof.
    unfold include_entries, content_at. intros H.
    destruct (find_node i L) as [n|]; [|reflexivity].
    destruct (ntype n); try reflexivity.
    destruct (find_rule i rules) as [r|]; [|reflexivity].
    destruct (r_kind r); [|reflexivity].
    destruct (lookup (fileset_out i) out) as [[c s]|], (lookup (fileset_out i) out') as [[c' s']|];
      try discriminate; try reflexivity.
    injection H as ->. reflexivity.
  Qed.

  Lemma includes_entries_ext out out' incs :
    (forall i, In i incs -> content_at out (fileset_out i) = content_at out' (fileset_out i)) ->
    includes_entries L rules out incs = includes_entries L rules out' incs.
  Proof.
    induction incs as [|i incs IH]; intros H; simpl; [reflexivity|].
    rewrite (include_entries_ext out out' i (H i (or_introl eq_refl))), IH; [reflexivity|].
    intros j Hj. apply H. now right.
  Qed.

  Lemma fileset_content_ext out out' fl incs :
    no_out_files fl ->
    (forall i, In i incs -> content_at out (fileset_out i) = content_at out' (fileset_out i)) ->
    fileset_content L rules src out fl incs = fileset_content L rules src out' fl incs.
  Proof.
    intros Hno H. unfold fileset_content.
    now rewrite (file_entries_ext out out' fl Hno), (includes_entries_ext out out' incs H).
  Qed.

  (** A successful execution found every included list. *)
  Lemma includes_entries_ok out incs l :
    includes_entries L rules out incs = inl l ->
    forall i, In i incs ->
      exists n r files sels igns' incs' li s,
        find_node i L = Some n /\ ntype n = TRule /\ find_rule i rules = Some r /\
        r_kind r = KFileSet files sels igns' incs' /\
        lookup (fileset_out i) out = Some (CList li, s).
  Proof.
    revert l. induction incs as [|j incs IH]; intros l H i Hi; [destruct Hi|].
    simpl in H. destruct (include_entries L rules out j) as [lj|e] eqn:Ej; [|discriminate].
    destruct (includes_entries L rules out incs) as [l'|e] eqn:E'; [|discriminate].
    destruct Hi as [<-|Hi]; [|eapply IH; eauto].
    unfold include_entries in Ej.
    destruct (find_node j L) as [n|] eqn:Hn; [|discriminate].
    destruct (ntype n) eqn:Hty; try discriminate.
    destruct (find_rule j rules) as [r|] eqn:Hr; [|discriminate].
    destruct (r_kind r) as [files sels igns' incs'|] eqn:Hk; [|discriminate].
    destruct (lookup (fileset_out j) out) as [[[li|] s]|] eqn:Hl; try discriminate.
    exists n, r, files, sels, igns', incs', li, s. auto.
  Qed.

  Lemma fileset_content_ok out fl incs l :
    fileset_content L rules src out fl incs = inl l ->
    forall i, In i incs ->
      exists n r files sels igns' incs' li s,
        find_node i L = Some n /\ ntype n = TRule /\ find_rule i rules = Some r /\
        r_kind r = KFileSet files sels igns' incs' /\
        lookup (fileset_out i) out = Some (CList li, s).
  Proof.
    unfold fileset_content. intros H.
    destruct (file_entries L src out fl); [|discriminate].
    destruct (includes_entries L rules out incs) as [inc|] eqn:E; [|discriminate].
    eapply includes_entries_ok; eauto.
  Qed.
End ContentExt.

Lemma lookup_spec_outs g incs i :
  lookup (fileset_out i) (spec_outs g incs) =
  if mem i incs then match g i with Some (inl l) => Some (CList l, 0%N) | _ => None end else None.
Proof.
  induction incs as [|j incs IH]; simpl; [reflexivity|].
  destruct (String.eqb_spec i j) as [->|Hij]; simpl.
  - destruct (g j) as [[l|e]|]; simpl.
    + now rewrite String.eqb_refl.
    + rewrite IH. destruct (mem j incs); reflexivity.
    + rewrite IH. destruct (mem j incs); reflexivity.
  - destruct (g j) as [[l|e]|]; simpl; try assumption.
    destruct (String.eqb_spec (fileset_out i) (fileset_out j)) as [E|E]; [|assumption].
    apply fileset_out_inj in E. congruence.
Qed.

Section SpecMono.
  Variable L : list node.
  Variable rules : list rule.
  Variable src : list (name * stat).

  Lemma sdig_S : forall f nm d, sdig L rules src f nm = Some d -> sdig L rules src (S f) nm = Some d.
  Proof.
    induction f as [|f IH]; intros nm d H; [discriminate|].
    remember (S f) as f1. simpl. subst f1. simpl in H.
    destruct (find_node nm L) as [n|]; [|discriminate].
    destruct (ntype n).
    - exact H.
    - destruct (find_rule nm rules) as [r|]; [|discriminate].
      destruct (collect (sdig L rules src f) (ndeps n)) as [dd|] eqn:E; [|discriminate].
      rewrite (collect_mono _ (sdig L rules src (S f)) _ dd (fun d x _ Hx => IH d x Hx) E). exact H.
    - destruct (collect (sdig L rules src f) (ndeps n)) as [dd|] eqn:E; [|discriminate].
      rewrite (collect_mono _ (sdig L rules src (S f)) _ dd (fun d x _ Hx => IH d x Hx) E). exact H.
  Qed.

  Lemma sdig_mono f f' nm d :
    f <= f' -> sdig L rules src f nm = Some d -> sdig L rules src f' nm = Some d.
  Proof. induction 1 as [|m Hle IH]; [auto|]. intros H0. apply sdig_S. auto. Qed.

  Lemma sdig_unique f f' nm d d' :
    sdig L rules src f nm = Some d -> sdig L rules src f' nm = Some d' -> d = d'.
  Proof.
    intros H H'. apply (sdig_mono f (Nat.max f f')) in H; [|lia].
    apply (sdig_mono f' (Nat.max f f')) in H'; [|lia]. congruence.
  Qed.
End SpecMono.

(** * Well-formed configurations *)

Lemma find_rule_name k rules r : find_rule k rules = Some r -> r_name r = k.
Proof.
  induction rules as [|r' rules IH]; simpl; [discriminate|].
  destruct (String.eqb_spec k (r_name r')); [intros [= <-]; auto|auto].
Qed.

(** A loaded list [L] together with the rules and sources it was loaded from.
    [wg_noout] is the scope restriction of the theorems: file sets list
    source files, not outputs. *)
Record wfG (L : list node) (rules : list rule) (src : list (name * stat)) : Prop := mkWf {
  wg_wf : wf_loaded L;
  wg_rule : forall n, In n L -> ntype n = TRule ->
      exists r, find_rule (nname n) rules = Some r /\
        match r_kind r with
        | KFileSet files sels igns incs =>
            exists fl, expand_files (map fst src) files sels igns = Some fl /\
                       ndeps n = (fl ++ incs)%list
        | KBundle deps => ndeps n = deps
        end;
  wg_noout : forall nm r files sels igns incs fl,
      find_rule nm rules = Some r -> r_kind r = KFileSet files sels igns incs ->
      expand_files (map fst src) files sels igns = Some fl -> no_out_files L fl;
  wg_src : forall n, In n L -> ntype n = TSrc -> exists s, lookup (nname n) src = Some s
}.

Section SpecMono2.
  Variable L : list node.
  Variable rules : list rule.
  Variable src : list (name * stat).
  Hypothesis HG : wfG L rules src.

  Lemma scont_S : forall f nm l,
    scont L rules src f nm = Some (inl l) -> scont L rules src (S f) nm = Some (inl l).
  Proof.
    induction f as [|f IH]; intros nm l H; [discriminate|].
    remember (S f) as f1. simpl. subst f1. simpl in H.
    destruct (find_rule nm rules) as [r|] eqn:Hr; [|discriminate].
    destruct (r_kind r) as [files sels igns incs|] eqn:Hk; [|discriminate].
    destruct (expand_files (map fst src) files sels igns) as [fl|] eqn:He; [|discriminate].
    injection H as H. f_equal. rewrite <- H. symmetry.
    apply fileset_content_ext; [eapply wg_noout; eauto|].
    intros i Hi. unfold content_at.
    destruct (fileset_content_ok _ _ _ _ _ _ _ H i Hi)
      as (n & r' & fs' & ss' & gs' & is' & li & s & _ & _ & _ & _ & Hl).
    rewrite Hl. rewrite lookup_spec_outs in Hl |- *.
    destruct (mem i incs); [|discriminate].
    destruct (scont L rules src f i) as [[l'|e]|] eqn:Ei; try discriminate.
    injection Hl as -> _. now rewrite (IH i li Ei).
  Qed.

  Lemma scont_mono f f' nm l :
    f <= f' -> scont L rules src f nm = Some (inl l) -> scont L rules src f' nm = Some (inl l).
  Proof. induction 1 as [|m Hle IH]; [auto|]. intros H0. apply scont_S. auto. Qed.

  Lemma scont_unique f f' nm l l' :
    scont L rules src f nm = Some (inl l) -> scont L rules src f' nm = Some (inl l') -> l = l'.
  Proof.
    intros H H'. apply (scont_mono f (Nat.max f f')) in H; [|lia].
    apply (scont_mono f' (Nat.max f f')) in H'; [|lia]. congruence.
  Qed.
End SpecMono2.

(** * Shape lemmas for [sdig] *)
Section SdigShape.
  Variable L : list node.
  Variable rules : list rule.
  Variable src : list (name * stat).

  Lemma sdig_rule_inv f x rd dl outs ex :
    sdig L rules src f x = Some (DRuleD rd dl outs ex) ->
    exists f' n r dd, f = S f' /\ find_node x L = Some n /\ ntype n = TRule /\
      find_rule x rules = Some r /\ rd = rdigest_of r /\
      collect (sdig L rules src f') (ndeps n) = Some dd /\ dl = canon_deps dd /\
      outs = node_outs rules n /\ rule_extras L (map fst src) [] r = inl ex.
  Proof.
    destruct f as [|f']; [discriminate|]. simpl.
    destruct (find_node x L) as [n|] eqn:Hn; [|discriminate].
    destruct (ntype n) eqn:Hty.
    - destruct (lookup x src); discriminate.
    - destruct (find_rule x rules) as [r|] eqn:Hr; [|discriminate].
      destruct (collect (sdig L rules src f') (ndeps n)) as [dd|] eqn:Hc; [|discriminate].
      destruct (rule_extras L (map fst src) [] r) as [ex'|] eqn:He; [|discriminate].
      intros [= <- <- <- <-]. exists f', n, r, dd. auto 12.
    - destruct (collect (sdig L rules src f') (ndeps n)); discriminate.
  Qed.

  Lemma sdig_src_inv f x k s :
    sdig L rules src f x = Some (DSrc k s) ->
    k = x /\ exists n, find_node x L = Some n /\ ntype n = TSrc /\ lookup x src = Some s.
  Proof.
    destruct f as [|f']; [discriminate|]. simpl.
    destruct (find_node x L) as [n|] eqn:Hn; [|discriminate].
    destruct (ntype n) eqn:Hty.
    - destruct (lookup x src) as [s'|] eqn:Hs; [|discriminate].
      intros [= <- <-]. split; [reflexivity|]. exists n. auto.
    - destruct (find_rule x rules) as [r|]; [|discriminate].
      destruct (collect (sdig L rules src f') (ndeps n)); [|discriminate].
      destruct (rule_extras L (map fst src) [] r); discriminate.
    - destruct (collect (sdig L rules src f') (ndeps n)); discriminate.
  Qed.

  Lemma sdig_of_src f x n s :
    find_node x L = Some n -> ntype n = TSrc -> lookup x src = Some s ->
    forall d, sdig L rules src f x = Some d -> d = DSrc x s.
  Proof.
    intros Hn Hty Hs d. destruct f as [|f']; [discriminate|]. simpl.
    rewrite Hn, Hty, Hs. congruence.
  Qed.

  Lemma sdig_of_rule f x n r d :
    find_node x L = Some n -> ntype n = TRule -> find_rule x rules = Some r ->
    sdig L rules src f x = Some d ->
    exists f' dd ex, f = S f' /\ collect (sdig L rules src f') (ndeps n) = Some dd /\
                  rule_extras L (map fst src) [] r = inl ex /\
                  d = DRuleD (rdigest_of r) (canon_deps dd) (node_outs rules n) ex.
  Proof.
    intros Hn Hty Hr. destruct f as [|f']; [discriminate|]. simpl.
    rewrite Hn, Hty, Hr.
    destruct (collect (sdig L rules src f') (ndeps n)) as [dd|] eqn:Hc; [|discriminate].
    destruct (rule_extras L (map fst src) [] r) as [ex|] eqn:He; [|discriminate].
    intros [= <-]. exists f', dd, ex. repeat split; auto.
  Qed.
End SdigShape.

(** [file_entries] when every file is a source node. *)
Lemma file_entries_src L src out fl (st : name -> stat) :
  (forall k, In k fl -> exists n, find_node k L = Some n /\ ntype n = TSrc /\
                                  lookup k src = Some (st k)) ->
  file_entries L src out fl = inl (map (fun k => ESrc k (st k)) fl).
Proof.
  induction fl as [|k fl IH]; intros H; simpl; [reflexivity|].
  destruct (H k (or_introl eq_refl)) as (n & Hn & Hty & Hs).
  unfold file_entry. rewrite Hn, Hty, Hs.
  rewrite IH; [reflexivity|]. intros j Hj. apply H. now right.
Qed.

(** a successful [file_entries] over non-output nodes saw source nodes only *)
Lemma file_entries_ok_src L src out fl own :
  no_out_files L fl -> file_entries L src out fl = inl own ->
  forall k, In k fl -> exists n s, find_node k L = Some n /\ ntype n = TSrc /\ lookup k src = Some s.
Proof.
  revert own. induction fl as [|j fl IH]; intros own Hno H k Hk; [destruct Hk|].
  simpl in H. destruct (file_entry L src out j) as [en|e] eqn:Ej; [|discriminate].
  destruct (file_entries L src out fl) as [l|e] eqn:El; [|discriminate].
  destruct Hk as [<-|Hk].
  - unfold file_entry in Ej. destruct (find_node j L) as [n|] eqn:Hn; [|discriminate].
    destruct (ntype n) eqn:Hty; try discriminate.
    + destruct (lookup j src) as [s|] eqn:Hs; [|discriminate]. exists n, s. auto.
    + exfalso. apply (Hno j n (or_introl eq_refl) Hn Hty).
  - eapply IH; eauto. intros g n Hg. apply Hno. now right.
Qed.

(** [includes_entries] when every include is a built file set. *)
Lemma includes_entries_fs L rules out incs (li : name -> list entry) :
  (forall i, In i incs -> exists n r files sels igns' incs' s,
     find_node i L = Some n /\ ntype n = TRule /\ find_rule i rules = Some r /\
     r_kind r = KFileSet files sels igns' incs' /\ lookup (fileset_out i) out = Some (CList (li i), s)) ->
  includes_entries L rules out incs = inl (flat_map li incs).
Proof.
  induction incs as [|i incs IH]; intros H; simpl; [reflexivity|].
  destruct (H i (or_introl eq_refl)) as (n & r & fs & ss & gs & is' & s & Hn & Hty & Hr & Hk & Hl).
  unfold include_entries. rewrite Hn, Hty, Hr, Hk, Hl.
  rewrite IH; [reflexivity|]. intros j Hj. apply H. now right.
Qed.

Lemma uniform_fuel (P : nat -> name -> Prop) (incs : list name) :
  (forall f f' i, f <= f' -> P f i -> P f' i) ->
  (forall i, In i incs -> exists f, P f i) ->
  exists f, forall i, In i incs -> P f i.
Proof.
  intros Hm. induction incs as [|i incs IH]; intros H.
  - exists 0. intros i [].
  - destruct (H i (or_introl eq_refl)) as [fi Hi].
    destruct IH as [f Hf]; [intros j Hj; apply H; now right|].
    exists (Nat.max fi f). intros j [<-|Hj].
    + apply (Hm fi); [lia|assumption].
    + apply (Hm f); [lia|auto].
Qed.

Lemma expand_files_In names files sels igns fl k :
  expand_files names files sels igns = Some fl ->
  (In k fl <-> In k files \/
               (In k names /\ existsb (fun s => sel_matches s k) sels = true /\ ignored igns k = false)).
Proof.
  unfold expand_files. destruct (forallb _ sels); [|discriminate]. intros [= <-].
  rewrite sort_dedup_In, in_app_iff, filter_In. cbv beta.
  rewrite andb_true_iff, negb_true_iff. reflexivity.
Qed.

Lemma expand_files_ssorted names files sels igns fl :
  expand_files names files sels igns = Some fl -> ssorted fl.
Proof.
  unfold expand_files. destruct (forallb _ sels); [|discriminate]. intros [= <-].
  apply sort_dedup_ssorted.
Qed.

Lemma lookup_In_fst {A} k (l : list (name * A)) v : lookup k l = Some v -> In k (map fst l).
Proof.
  induction l as [|[k' v'] l IH]; simpl; [discriminate|].
  destruct (String.eqb_spec k k'); [intros _; left; congruence|intros H; right; auto].
Qed.

Lemma In_fst_lookup {A} k (l : list (name * A)) : In k (map fst l) -> exists v, lookup k l = Some v.
Proof.
  induction l as [|[k' v'] l IH]; simpl; [intros []|].
  destruct (String.eqb_spec k k'); [eauto|]. intros [E|H]; [congruence|auto].
Qed.

(** [fileNodes] is empty exactly when every listed file is a source node. *)
Lemma extras_of_src L out fl :
  (forall k, In k fl -> exists n, find_node k L = Some n /\ ntype n = TSrc) ->
  extras_of L out fl = inl [].
Proof.
  induction fl as [|k fl IH]; intros H; simpl; [reflexivity|].
  rewrite IH; [|intros j Hj; apply H; now right].
  destruct (H k (or_introl eq_refl)) as (n & -> & ->). reflexivity.
Qed.

Lemma extras_of_nil L out fl :
  extras_of L out fl = inl [] ->
  forall k, In k fl -> exists n, find_node k L = Some n /\ ntype n = TSrc.
Proof.
  induction fl as [|j fl IH]; intros H k Hk; [destruct Hk|].
  simpl in H. destruct (extras_of L out fl) as [rest|]; [|discriminate].
  destruct (find_node j L) as [n|] eqn:Hn; [|discriminate].
  destruct (ntype n) eqn:Hty.
  - destruct Hk as [<-|Hk]; [eauto|]. apply IH; [exact H|assumption].
  - discriminate.
  - destruct (lookup j out) as [[c st]|]; discriminate.
Qed.

(** without output files among them, [fileNodes] does not look at out/ *)
Lemma extras_of_ext L out out' fl :
  no_out_files L fl -> extras_of L out fl = extras_of L out' fl.
Proof.
  induction fl as [|k fl IH]; intros Hno; simpl; [reflexivity|].
  rewrite IH; [|intros g n Hg; apply Hno; now right].
  destruct (extras_of L out' fl); [|reflexivity].
  destruct (find_node k L) as [n|] eqn:Hn; [|reflexivity].
  destruct (ntype n) eqn:Hty; try reflexivity.
  exfalso. exact (Hno k n (or_introl eq_refl) Hn Hty).
Qed.

Lemma extras_of_total L out fl :
  no_out_files L fl -> exists ex, extras_of L out fl = inl ex.
Proof.
  induction fl as [|k fl IH]; intros Hno; simpl; [eauto|].
  destruct IH as [rest ->]; [intros g n Hg; apply Hno; now right|].
  destruct (find_node k L) as [n|] eqn:Hn; [|eauto].
  destruct (ntype n) eqn:Hty; eauto.
  exfalso. exact (Hno k n (or_introl eq_refl) Hn Hty).
Qed.

(** * The digest determines the output

    Two configurations (possibly from different moments of a history) in
    which a file-set rule has the same action digest: if executing it
    succeeded in the one, it succeeds in the other and writes the same list.
    This is where "the digest covers every input" is proved. *)
Section Key.
  Variables (L : list node) (rules : list rule) (src : list (name * stat)).
  Variables (L0 : list node) (rules0 : list rule) (src0 : list (name * stat)).
  Hypothesis HG : wfG L rules src.
  Hypothesis HG0 : wfG L0 rules0 src0.

  Let dflt : digest := DSrc "" (mkStat 0 0 0 "").

  Lemma key_lemma : forall f x d,
    sdig L rules src f x = Some d ->
    forall f0 x0, sdig L0 rules0 src0 f0 x0 = Some d ->
    forall n r files sels igns incs,
      find_node x L = Some n -> ntype n = TRule -> find_rule x rules = Some r ->
      r_kind r = KFileSet files sels igns incs ->
    forall g0 l0, scont L0 rules0 src0 g0 x0 = Some (inl l0) ->
    exists g, scont L rules src g x = Some (inl l0).
  Proof.
    induction f as [|f' IH]; intros x d Hd f0 x0 Hd0 n r files sels igns incs Hn Hty Hr Hk g0 l0 Hc0;
      [discriminate|].
    (* the digest in G *)
    destruct (sdig_of_rule _ _ _ _ _ _ _ _ Hn Hty Hr Hd) as (f1 & dd & ex & Ef & Hcol & Hexr & ->).
    injection Ef as <-.
    (* the same digest in G0 *)
    destruct (sdig_rule_inv _ _ _ _ _ _ _ _ _ Hd0)
      as (f0' & n0 & r0 & dd0 & -> & Hn0 & Hty0 & Hr0 & Hrd & Hcol0 & Hcan & Houts & Hexr0).
    (* same rule definition *)
    assert (Hk0 : r_kind r0 = KFileSet files sels igns incs /\ x = x0).
    { unfold rdigest_of in Hrd. rewrite Hk in Hrd.
      pose proof (find_rule_name _ _ _ Hr) as N1. pose proof (find_rule_name _ _ _ Hr0) as N2.
      destruct (r_kind r0); [|discriminate]. injection Hrd as E1 E2 E3 E4 E5. subst.
      split; [reflexivity|congruence]. }
    destruct Hk0 as [Hk0 <-].
    (* the successful execution in G0 *)
    destruct g0 as [|g0']; [discriminate|]. simpl in Hc0. rewrite Hr0, Hk0 in Hc0.
    destruct (expand_files (map fst src0) files sels igns) as [fl0|] eqn:Hex0; [|discriminate].
    injection Hc0 as Hc0.
    (* dependencies of the two nodes *)
    assert (Hin : In n L) by (apply find_node_Some in Hn; tauto).
    assert (Hin0 : In n0 L0) by (apply find_node_Some in Hn0; tauto).
    assert (Hnm : nname n = x) by (apply find_node_Some in Hn; tauto).
    assert (Hnm0 : nname n0 = x) by (apply find_node_Some in Hn0; tauto).
    destruct (wg_rule _ _ _ HG n Hin Hty) as (r' & Hr' & Hdeps). rewrite Hnm, Hr in Hr'.
    injection Hr' as <-. rewrite Hk in Hdeps. destruct Hdeps as (fl & Hex & Hnd).
    destruct (wg_rule _ _ _ HG0 n0 Hin0 Hty0) as (r0' & Hr0' & Hdeps0). rewrite Hnm0, Hr0 in Hr0'.
    injection Hr0' as <-. rewrite Hk0 in Hdeps0. destruct Hdeps0 as (fl0' & Hex0' & Hnd0).
    rewrite Hex0 in Hex0'. injection Hex0' as <-.
    (* the dependency maps as graphs of functions *)
    set (h := fun k => match sdig L rules src f' k with Some dk => dk | None => dflt end).
    set (h0 := fun k => match sdig L0 rules0 src0 f0' k with Some dk => dk | None => dflt end).
    assert (Hh : forall k, In k (ndeps n) -> sdig L rules src f' k = Some (h k)).
    { intros k Hk'. destruct (collect_some_in _ _ _ _ Hcol Hk') as [dk Hdk]. unfold h. now rewrite Hdk. }
    assert (Hh0 : forall k, In k (ndeps n0) -> sdig L0 rules0 src0 f0' k = Some (h0 k)).
    { intros k Hk'. destruct (collect_some_in _ _ _ _ Hcol0 Hk') as [dk Hdk]. unfold h0. now rewrite Hdk. }
    pose proof (collect_graph _ h _ _ Hcol Hh) as Edd.
    pose proof (collect_graph _ h0 _ _ Hcol0 Hh0) as Edd0.
    assert (Hmap : forall k,
               (if mem k (fl ++ incs) then Some (h k) else None) =
               (if mem k (fl0 ++ incs) then Some (h0 k) else None)).
    { intros k. rewrite <- Hnd, <- Hnd0.
      rewrite <- (lookup_last_graph k h (ndeps n) None), <- (lookup_last_graph k h0 (ndeps n0) None).
      rewrite <- Edd, <- Edd0, <- !canon_deps_lookup. now rewrite Hcan. }
    assert (Hmem : forall k, In k (fl ++ incs)%list -> In k (fl0 ++ incs)%list /\ h k = h0 k).
    { intros k Hk'. specialize (Hmap k). apply mem_In in Hk'. rewrite Hk' in Hmap.
      destruct (mem k (fl0 ++ incs)) eqn:E; [|discriminate]. apply mem_In in E.
      split; [assumption|congruence]. }
    assert (Hmem0 : forall k, In k (fl0 ++ incs)%list -> In k (fl ++ incs)%list /\ h k = h0 k).
    { intros k Hk'. specialize (Hmap k). apply mem_In in Hk'. rewrite Hk' in Hmap.
      destruct (mem k (fl ++ incs)) eqn:E; [|discriminate]. apply mem_In in E.
      split; [assumption|congruence]. }
    (* what the success in G0 tells *)
    pose proof (wg_noout _ _ _ HG0 _ _ _ _ _ _ _ Hr0 Hk0 Hex0) as Hno0.
    unfold fileset_content in Hc0.
    destruct (file_entries L0 src0 (spec_outs (scont L0 rules0 src0 g0') incs) fl0)
      as [own0|] eqn:Hown0; [|discriminate].
    destruct (includes_entries L0 rules0 (spec_outs (scont L0 rules0 src0 g0') incs) incs)
      as [inc0|] eqn:Hinc0; [|discriminate].
    injection Hc0 as Hl0.
    pose proof (file_entries_ok_src _ _ _ _ _ Hno0 Hown0) as Hsrc0.
    pose proof (includes_entries_ok _ _ _ _ _ Hinc0) as Hincs0.
    (* no listed file of G0 is anything but a source node, hence none of G *)
    assert (Hex_nil : ex = []).
    { unfold rule_extras in Hexr0. rewrite Hk0, Hex0 in Hexr0.
      rewrite (extras_of_src L0 [] fl0) in Hexr0; [congruence|].
      intros k Hk'. destruct (Hsrc0 k Hk') as (nk & sk & A & B & _). eauto. }
    subst ex.
    assert (Hsrc : forall k, In k fl -> exists nk, find_node k L = Some nk /\ ntype nk = TSrc).
    { unfold rule_extras in Hexr. rewrite Hk, Hex in Hexr. now apply (extras_of_nil L []). }
    (* the same files *)
    assert (Hfl : fl = fl0).
    { apply ssorted_ext; [eapply expand_files_ssorted; eauto|eapply expand_files_ssorted; eauto|].
      intros k. split; intros Hk'.
      - destruct (Hmem k) as [Hk0' Hhk]; [apply in_app_iff; now left|].
        apply in_app_iff in Hk0'. destruct Hk0' as [Hk0'|Hk0']; [assumption|].
        (* k would be an include: a rule in G0, hence a rule in G; but it is a source node *)
        exfalso.
        destruct (Hincs0 k Hk0') as (nk & rk & fs' & ss' & gs' & is' & lk & sk & Hnk & Htk & Hrk & Hkk & _).
        assert (Hdk0 : sdig L0 rules0 src0 f0' k = Some (h0 k)).
        { apply Hh0. rewrite Hnd0. apply in_app_iff. now right. }
        destruct (sdig_of_rule _ _ _ _ _ _ _ _ Hnk Htk Hrk Hdk0) as (fk & ddk & exk & _ & _ & _ & Ehk).
        assert (Hdk : sdig L rules src f' k = Some (h k)).
        { apply Hh. rewrite Hnd. apply in_app_iff. now left. }
        rewrite Hhk, Ehk in Hdk.
        destruct (sdig_rule_inv _ _ _ _ _ _ _ _ _ Hdk) as (_ & nk' & _ & _ & _ & Hnk' & Htk' & _).
        destruct (Hsrc k Hk') as (nk2 & Hnk2 & Htk2). congruence.
      - destruct (Hmem0 k) as [Hk1 Hhk]; [apply in_app_iff; now left|].
        apply in_app_iff in Hk1. destruct Hk1 as [Hk1|Hk1]; [assumption|].
        exfalso. destruct (Hsrc0 k Hk') as (nk & sk & Hnk & Htk & _).
        destruct (Hincs0 k Hk1) as (nk' & _ & _ & _ & _ & _ & _ & _ & Hnk' & Htk' & _).
        congruence. }
    subst fl0.
    (* the same stats *)
    set (st := fun k => match lookup k src0 with Some s => s | None => mkStat 0 0 0 "" end).
    assert (Hfiles0 : forall k, In k fl -> exists nk, find_node k L0 = Some nk /\ ntype nk = TSrc /\
                                                     lookup k src0 = Some (st k)).
    { intros k Hk'. destruct (Hsrc0 k Hk') as (nk & sk & Hnk & Htk & Hsk).
      exists nk. unfold st. rewrite Hsk. auto. }
    assert (Hfiles : forall k, In k fl -> exists nk, find_node k L = Some nk /\ ntype nk = TSrc /\
                                                    lookup k src = Some (st k)).
    { intros k Hk'. destruct (Hfiles0 k Hk') as (nk & Hnk & Htk & Hsk).
      destruct (Hmem k) as [_ Hhk]; [apply in_app_iff; now left|].
      assert (Hdk0 : sdig L0 rules0 src0 f0' k = Some (h0 k)).
      { apply Hh0. rewrite Hnd0. apply in_app_iff. now left. }
      pose proof (sdig_of_src _ _ _ _ _ _ _ Hnk Htk Hsk _ Hdk0) as Ehk.
      assert (Hdk : sdig L rules src f' k = Some (h k)).
      { apply Hh. rewrite Hnd. apply in_app_iff. now left. }
      rewrite Hhk, Ehk in Hdk. apply sdig_src_inv in Hdk. destruct Hdk as (_ & nk' & A & B & C).
      exists nk'. auto. }
    (* the included lists *)
    set (li := fun i => match scont L0 rules0 src0 g0' i with Some (inl l) => l | _ => [] end).
    assert (Hinc_ok0 : forall i, In i incs ->
               exists ni ri fs' ss' gs' is', find_node i L0 = Some ni /\ ntype ni = TRule /\
                 find_rule i rules0 = Some ri /\ r_kind ri = KFileSet fs' ss' gs' is' /\
                 scont L0 rules0 src0 g0' i = Some (inl (li i))).
    { intros i Hi. destruct (Hincs0 i Hi) as (ni & ri & fs' & ss' & gs' & is' & l' & s' & A & B & C & D & E).
      exists ni, ri, fs', ss', gs', is'. repeat split; auto.
      rewrite lookup_spec_outs in E. destruct (mem i incs); [|discriminate]. unfold li.
      destruct (scont L0 rules0 src0 g0' i) as [[l''|]|]; try discriminate. reflexivity. }
    assert (Hinc_ok : forall i, In i incs ->
               exists g, (exists ni ri fs' ss' gs' is', find_node i L = Some ni /\ ntype ni = TRule /\
                 find_rule i rules = Some ri /\ r_kind ri = KFileSet fs' ss' gs' is') /\
                 scont L rules src g i = Some (inl (li i))).
    { intros i Hi. destruct (Hinc_ok0 i Hi) as (ni & ri & fs' & ss' & gs' & is' & A & B & C & D & E).
      destruct (Hmem i) as [_ Hhi]; [apply in_app_iff; now right|].
      assert (Hdi0 : sdig L0 rules0 src0 f0' i = Some (h0 i)).
      { apply Hh0. rewrite Hnd0. apply in_app_iff. now right. }
      assert (Hdi : sdig L rules src f' i = Some (h i)).
      { apply Hh. rewrite Hnd. apply in_app_iff. now right. }
      destruct (sdig_of_rule _ _ _ _ _ _ _ _ A B C Hdi0) as (fi & ddi & exi & _ & _ & _ & Ehi).
      rewrite Hhi in Hdi. pose proof Hdi as Hdi'. rewrite Ehi in Hdi'.
      destruct (sdig_rule_inv _ _ _ _ _ _ _ _ _ Hdi') as (_ & ni' & ri' & _ & _ & A' & B' & C' & Erd & _).
      assert (D' : exists fs2 ss2 gs2 is2, r_kind ri' = KFileSet fs2 ss2 gs2 is2).
      { unfold rdigest_of in Erd. rewrite D in Erd. destruct (r_kind ri'); [eauto|discriminate]. }
      destruct D' as (fs2 & ss2 & gs2 & is2 & D').
      destruct (IH i _ Hdi _ _ Hdi0 _ _ _ _ _ _ A' B' C' D' _ _ E) as [g Hg].
      exists g. split; [|assumption]. exists ni', ri', fs2, ss2, gs2, is2. auto. }
    destruct (uniform_fuel (fun g i => scont L rules src g i = Some (inl (li i))) incs) as [g Hg].
    { intros a b i Hab. now apply scont_mono. }
    { intros i Hi. destruct (Hinc_ok i Hi) as [g [_ Hg]]. eauto. }
    exists (S g). simpl. rewrite Hr, Hk, Hex. f_equal. unfold fileset_content.
    rewrite (file_entries_src L src _ fl st Hfiles).
    rewrite (file_entries_src L0 src0 _ fl st Hfiles0) in Hown0. injection Hown0 as <-.
    rewrite (includes_entries_fs L rules _ incs li).
    - rewrite (includes_entries_fs L0 rules0 _ incs li) in Hinc0.
      + injection Hinc0 as <-. now rewrite Hl0.
      + intros i Hi. destruct (Hinc_ok0 i Hi) as (ni & ri & fs' & ss' & gs' & is' & A & B & C & D & E).
        exists ni, ri, fs', ss', gs', is', 0%N. repeat split; auto.
        rewrite lookup_spec_outs. apply mem_In in Hi. now rewrite Hi, E.
    - intros i Hi. destruct (Hinc_ok i Hi) as [_ [(ni & ri & fs' & ss' & gs' & is' & A & B & C & D) _]].
      exists ni, ri, fs', ss', gs', is', 0%N. repeat split; auto.
      rewrite lookup_spec_outs. pose proof (Hg i Hi) as E. apply mem_In in Hi. now rewrite Hi, E.
  Qed.
End Key.

(** * The cache invariant *)

(** A cache entry stands for a successful execution of a rule in some
    (earlier) configuration: its key is that rule's action digest there, and
    if the recorded output still carries the recorded stamp, its content is
    what that execution wrote. *)
Definition entry_ok (out : list (name * (content * N))) (d : digest) (b : built) : Prop :=
  exists L0 rules0 src0 x0 n0 r0 f,
    wfG L0 rules0 src0 /\ find_node x0 L0 = Some n0 /\ ntype n0 = TRule /\
    find_rule x0 rules0 = Some r0 /\ sdig L0 rules0 src0 f x0 = Some d /\
    match r_kind r0 with
    | KFileSet _ _ _ _ =>
        exists l s, b = [(fileset_out x0, s)] /\
                    scont L0 rules0 src0 f x0 = Some (inl l) /\
                    (forall c, lookup (fileset_out x0) out = Some (c, s) -> c = CList l)
    | KBundle _ => b = []
    end.

Definition cache_inv (out : list (name * (content * N))) (cache : list (digest * built)) : Prop :=
  forall d b, cache_get d cache = Some b -> entry_ok out d b.

(** Every stamp in out/ and in the cache is older than the clock. *)
Definition fresh (out : list (name * (content * N))) (cache : list (digest * built)) (clock : N) : Prop :=
  (forall o c s, lookup o out = Some (c, s) -> (s < clock)%N) /\
  (forall d b o s, cache_get d cache = Some b -> In (o, s) b -> (s < clock)%N) /\
  (* a recorded (output, stamp) belongs to one action digest only *)
  (forall d d' b b' o s, cache_get d cache = Some b -> cache_get d' cache = Some b' ->
                         In (o, s) b -> In (o, s) b' -> d = d').

Lemma entry_ok_stamp out d b o s : entry_ok out d b -> In (o, s) b ->
  exists x0, o = fileset_out x0.
Proof.
  intros (L0 & rules0 & src0 & x0 & n0 & r0 & f & _ & _ & _ & _ & _ & Hk) Hin.
  destruct (r_kind r0).
  - destruct Hk as (l & s' & -> & _). destruct Hin as [[= <- <-]|[]]. eauto.
  - subst b. destruct Hin.
Qed.

(** an entry only looks at the recorded outputs with the recorded stamps *)
Lemma entry_ok_out out out' d b :
  entry_ok out d b ->
  (forall o s, In (o, s) b -> forall c, lookup o out' = Some (c, s) -> lookup o out = Some (c, s)) ->
  entry_ok out' d b.
Proof.
  intros (L0 & rules0 & src0 & x0 & n0 & r0 & f & A & B & C & D & E & Hk) Hsame.
  exists L0, rules0, src0, x0, n0, r0, f.
  split; [exact A|]. split; [exact B|]. split; [exact C|]. split; [exact D|]. split; [exact E|].
  destruct (r_kind r0); [|assumption].
  destruct Hk as (l & s & -> & Hs & Hc). exists l, s.
  split; [reflexivity|]. split; [exact Hs|].
  intros c' Hl. apply Hc. apply (Hsame _ _ (or_introl eq_refl)). exact Hl.
Qed.

(** writing an output (by a rule or by tampering) with the next stamp *)
Lemma cache_inv_write out cache clock o c :
  cache_inv out cache -> fresh out cache clock ->
  cache_inv (set_assoc o (Some (c, clock)) out) cache.
Proof.
  intros Hinv (_ & Hf & _) d b Hget. apply (entry_ok_out out); [auto|].
  intros o' s Hin c' Hl. destruct (String.eqb_spec o o') as [->|Hne].
  - rewrite lookup_set_same in Hl. injection Hl as _ <-.
    exfalso. specialize (Hf d _ o' clock Hget Hin). lia.
  - now rewrite lookup_set_other in Hl by assumption.
Qed.

Lemma cache_inv_delete out cache o :
  cache_inv out cache -> cache_inv (set_assoc o None out) cache.
Proof.
  intros Hinv d b Hget. apply (entry_ok_out out); [auto|].
  intros o' s Hin c' Hl. destruct (String.eqb_spec o o') as [->|Hne].
  - rewrite lookup_set_same in Hl. discriminate.
  - now rewrite lookup_set_other in Hl by assumption.
Qed.

Lemma cache_get_remove_some d d' c b :
  cache_get d' (cache_remove d c) = Some b -> cache_get d' c = Some b /\ d <> d'.
Proof.
  intros H. destruct (digest_eqb d d') eqn:E.
  - apply digest_eqb_spec in E. subst. rewrite cache_get_remove_same in H. discriminate.
  - apply digest_eqb_false in E. rewrite cache_get_remove_other in H by assumption. auto.
Qed.

Lemma cache_inv_remove out cache d : cache_inv out cache -> cache_inv out (cache_remove d cache).
Proof. intros Hinv d' b H. apply cache_get_remove_some in H. destruct H. eauto. Qed.

Lemma cache_inv_put out cache d b :
  cache_inv out cache -> entry_ok out d b -> cache_inv out (cache_put d b cache).
Proof.
  intros Hinv He d' b' H. destruct (digest_eqb d d') eqn:E.
  - apply digest_eqb_spec in E. subst. rewrite cache_get_put_same in H. now injection H as <-.
  - apply digest_eqb_false in E. rewrite cache_get_put_other in H by assumption. eauto.
Qed.

Lemma fresh_write out cache clock o c :
  fresh out cache clock -> fresh (set_assoc o (Some (c, clock)) out) cache (N.succ clock).
Proof.
  intros (H1 & H2 & H3). split; [|split; [|exact H3]].
  - intros o' c' s Hl. destruct (String.eqb_spec o o') as [->|Hne].
    + rewrite lookup_set_same in Hl. injection Hl as _ <-. lia.
    + rewrite lookup_set_other in Hl by assumption. specialize (H1 _ _ _ Hl). lia.
  - intros d b o' s Hg Hin. specialize (H2 _ _ _ _ Hg Hin). lia.
Qed.

Lemma fresh_delete out cache clock o :
  fresh out cache clock -> fresh (set_assoc o None out) cache (N.succ clock).
Proof.
  intros (H1 & H2 & H3). split; [|split; [|exact H3]].
  - intros o' c' s Hl. destruct (String.eqb_spec o o') as [->|Hne].
    + rewrite lookup_set_same in Hl. discriminate.
    + rewrite lookup_set_other in Hl by assumption. specialize (H1 _ _ _ Hl). lia.
  - intros d b o' s Hg Hin. specialize (H2 _ _ _ _ Hg Hin). lia.
Qed.

Lemma fresh_remove out cache clock d : fresh out cache clock -> fresh out (cache_remove d cache) clock.
Proof.
  intros (H1 & H2 & H3). split; [assumption|]. split.
  - intros d' b o s Hg Hin. apply cache_get_remove_some in Hg. destruct Hg. eauto.
  - intros d1 d2 b1 b2 o s Hg1 Hg2 Hi1 Hi2.
    apply cache_get_remove_some in Hg1. apply cache_get_remove_some in Hg2.
    destruct Hg1, Hg2. eauto.
Qed.

(** storing an entry whose stamps are older than the clock and newer than
    every stamp recorded so far *)
Lemma fresh_put out out0 cache clock clock0 d b :
  fresh out0 cache clock0 -> (clock0 <= clock)%N ->
  (forall o c s, lookup o out = Some (c, s) -> (s < clock)%N) ->
  (forall o s, In (o, s) b -> (clock0 <= s < clock)%N) ->
  fresh out (cache_put d b cache) clock.
Proof.
  intros (_ & H2 & H3) Hle Hout Hb. split; [assumption|]. split.
  - intros d' b' o s Hg Hin. destruct (digest_eqb d d') eqn:E.
    + apply digest_eqb_spec in E. subst. rewrite cache_get_put_same in Hg. injection Hg as <-.
      apply (Hb o s Hin).
    + apply digest_eqb_false in E. rewrite cache_get_put_other in Hg by assumption.
      specialize (H2 _ _ _ _ Hg Hin). lia.
  - intros d1 d2 b1 b2 o s Hg1 Hg2 Hi1 Hi2.
    destruct (digest_eqb d d1) eqn:E1; destruct (digest_eqb d d2) eqn:E2.
    + apply digest_eqb_spec in E1, E2. congruence.
    + apply digest_eqb_spec in E1. apply digest_eqb_false in E2. subst d1.
      rewrite cache_get_put_same in Hg1. injection Hg1 as <-.
      rewrite cache_get_put_other in Hg2 by assumption.
      pose proof (Hb o s Hi1). pose proof (H2 _ _ _ _ Hg2 Hi2). lia.
    + apply digest_eqb_spec in E2. apply digest_eqb_false in E1. subst d2.
      rewrite cache_get_put_same in Hg2. injection Hg2 as <-.
      rewrite cache_get_put_other in Hg1 by assumption.
      pose proof (Hb o s Hi2). pose proof (H2 _ _ _ _ Hg1 Hi1). lia.
    + apply digest_eqb_false in E1, E2.
      rewrite cache_get_put_other in Hg1, Hg2 by assumption. eauto.
Qed.

Lemma lookup_In_pair {A} k (l : list (name * A)) v : lookup k l = Some v -> In (k, v) l.
Proof.
  induction l as [|[k' v'] l IH]; simpl; [discriminate|].
  destruct (String.eqb_spec k k') as [->|Hne]; [intros [= ->]; now left|intros H; right; auto].
Qed.

(** * One build: invariants of [buildNode] *)

Lemma rdigest_of_kind r r0 :
  rdigest_of r = rdigest_of r0 ->
  r_name r = r_name r0 /\
  (forall f s g i, r_kind r = KFileSet f s g i <-> r_kind r0 = KFileSet f s g i) /\
  ((exists ds, r_kind r = KBundle ds) <-> (exists ds, r_kind r0 = KBundle ds)).
Proof.
  unfold rdigest_of. destruct (r_kind r), (r_kind r0); try discriminate.
  - intros [= -> -> -> -> ->]. split; [reflexivity|]. split; [tauto|].
    split; intros [ds H]; discriminate.
  - intros [= ->]. split; [reflexivity|]. split.
    + intros f s g i. split; discriminate.
    + split; eauto.
Qed.

Arguments set_assoc : simpl never.
Arguments cache_put : simpl never.
Arguments cache_remove : simpl never.

Section Run.
  Variables (L : list node) (rules : list rule) (src : list (name * stat)).
  Hypothesis HG : wfG L rules src.

  Definition memo_ok (memo : list (name * digest)) : Prop :=
    exists F, forall nm d, In (nm, d) memo -> sdig L rules src F nm = Some d.

  Definition outs_ok (memo : list (name * digest)) (out : list (name * (content * N))) : Prop :=
    exists F, forall nm d n r files sels igns incs,
      In (nm, d) memo -> find_node nm L = Some n -> ntype n = TRule ->
      find_rule nm rules = Some r -> r_kind r = KFileSet files sels igns incs ->
      exists l s, scont L rules src F nm = Some (inl l) /\
                  lookup (fileset_out nm) out = Some (CList l, s).

  Record binv (st : bstate) : Prop := mkBinv {
    bi_memo : memo_ok (b_memo st);
    bi_outs : outs_ok (b_memo st) (b_out st);
    bi_cache : cache_inv (b_out st) (b_cache st);
    bi_fresh : fresh (b_out st) (b_cache st) (b_clock st)
  }.

  Lemma dep_digests_collect memo deps :
    dep_digests memo deps = collect (fun d => lookup d memo) deps.
  Proof. reflexivity. Qed.

  Lemma memo_collect memo F deps dd :
    (forall nm d, In (nm, d) memo -> sdig L rules src F nm = Some d) ->
    dep_digests memo deps = Some dd -> collect (sdig L rules src F) deps = Some dd.
  Proof.
    intros HF H. rewrite dep_digests_collect in H.
    eapply collect_mono; [|exact H]. intros d x _ Hx. apply HF. now apply lookup_In_pair.
  Qed.

  Lemma memo_ok_add memo x d :
    memo_ok memo ->
    (forall F, (forall nm d', In (nm, d') memo -> sdig L rules src F nm = Some d') ->
               sdig L rules src (S F) x = Some d) ->
    memo_ok ((x, d) :: memo).
  Proof.
    intros [F HF] Hx. exists (S F). intros nm d' [[= <- <-]|Hin]; [now apply Hx|].
    apply sdig_S. now apply HF.
  Qed.

  (** what a successful [fileSet.build] writes is the configuration's content *)
  Lemma exec_content_spec memo out nm r files sels igns incs fl l :
    outs_ok memo out ->
    (forall i, In i incs -> exists di, In (i, di) memo) ->
    find_rule nm rules = Some r -> r_kind r = KFileSet files sels igns incs ->
    expand_files (map fst src) files sels igns = Some fl ->
    fileset_content L rules src out fl incs = inl l ->
    exists F1, scont L rules src F1 nm = Some (inl l).
  Proof.
    intros [F HF] Hmemo Hr Hk Hex Hc. exists (S F). simpl. rewrite Hr, Hk, Hex. f_equal.
    rewrite <- Hc. apply fileset_content_ext; [eapply wg_noout; eauto|].
    intros i Hi. unfold content_at.
    destruct (fileset_content_ok _ _ _ _ _ _ _ Hc i Hi)
      as (n & ri & fs' & ss' & gs' & is' & li & s & Hn & Hty & Hri & Hki & Hl).
    destruct (Hmemo i Hi) as [di Hdi].
    destruct (HF i di n ri fs' ss' gs' is' Hdi Hn Hty Hri Hki) as (l' & s' & Hsc & Hl').
    rewrite Hl in Hl'. injection Hl' as <- <-.
    rewrite Hl, lookup_spec_outs. apply mem_In in Hi. now rewrite Hi, Hsc.
  Qed.

  Lemma outs_ok_add_other memo out x d :
    outs_ok memo out ->
    (forall n r files sels igns incs, find_node x L = Some n -> ntype n = TRule ->
        find_rule x rules = Some r -> r_kind r = KFileSet files sels igns incs -> False) ->
    outs_ok ((x, d) :: memo) out.
  Proof.
    intros [F HF] Hno. exists F. intros nm d' n r files sels igns incs [[= <- <-]|Hin] Hn Hty Hr Hk.
    - exfalso. eauto.
    - eauto.
  Qed.

  Lemma outs_ok_add_fs memo out x d l s g :
    outs_ok memo out ->
    scont L rules src g x = Some (inl l) -> lookup (fileset_out x) out = Some (CList l, s) ->
    outs_ok ((x, d) :: memo) out.
  Proof.
    intros [F HF] Hg Hl. exists (Nat.max F g).
    intros nm d' n r files sels igns incs [[= <- <-]|Hin] Hn Hty Hr Hk.
    - exists l, s. split; [|assumption].
      apply (scont_mono L rules src HG g (Nat.max F g)); [lia|assumption].
    - destruct (HF nm d' n r files sels igns incs Hin Hn Hty Hr Hk) as (l' & s' & A & B).
      exists l', s'. split; [|assumption].
      apply (scont_mono L rules src HG F (Nat.max F g)); [lia|assumption].
  Qed.

  (** [outs_ok] after the rule [x] wrote its output *)
  Lemma outs_ok_write memo out x l g clock :
    outs_ok memo out ->
    scont L rules src g x = Some (inl l) ->
    outs_ok memo (set_assoc (fileset_out x) (Some (CList l, clock)) out).
  Proof.
    intros [F HF] Hg. exists (Nat.max F g).
    intros nm d' n r files sels igns incs Hin Hn Hty Hr Hk.
    destruct (String.eqb_spec x nm) as [->|Hne].
    - exists l, clock. split; [|apply lookup_set_same].
      apply (scont_mono L rules src HG g (Nat.max F g)); [lia|assumption].
    - destruct (HF nm d' n r files sels igns incs Hin Hn Hty Hr Hk) as (l' & s' & A & B).
      exists l', s'. split; [apply (scont_mono L rules src HG F (Nat.max F g)); [lia|assumption]|].
      rewrite lookup_set_other; [assumption|]. intros E. apply fileset_out_inj in E. congruence.
  Qed.

  Variable always : bool.
  Variable now : N.

  (** a cache entry that is present, not expired, with outputs unchanged *)
  Definition valid_cached (out : list (name * (content * N))) (cache : list (digest * built))
             (times : list (digest * N)) (d : digest) : Prop :=
    exists b, cache_get d cache = Some b /\ live now times d = true /\ same_built out b = true.

  Lemma hitb_valid st d :
    hitb now st d = true <-> valid_cached (b_out st) (b_cache st) (b_times st) d.
  Proof.
    unfold hitb, valid_cached. destruct (cache_get d (b_cache st)) as [b|].
    - rewrite andb_true_iff. split; [intros [A B]; eauto|].
      intros [b' [[= <-] H]]. exact H.
    - split; [discriminate|]. intros [b' [H _]]. discriminate.
  Qed.

  Lemma same_built_single out o s :
    same_built out [(o, s)] = true <-> exists c, lookup o out = Some (c, s).
  Proof.
    unfold same_built. simpl. rewrite andb_true_r.
    destruct (lookup o out) as [[c s']|]; split.
    - intros H. apply N.eqb_eq in H. subst. eauto.
    - intros [c' [= -> ->]]. apply N.eqb_refl.
    - discriminate.
    - intros [c' H]. discriminate.
  Qed.

  Lemma node_outs_fs x r files sels igns incs :
    find_rule (nname x) rules = Some r -> r_kind r = KFileSet files sels igns incs ->
    node_outs rules x = [fileset_out (nname x)].
  Proof. intros Hr Hk. unfold node_outs. now rewrite Hr, Hk. Qed.

  Lemma node_outs_bundle x r ds :
    find_rule (nname x) rules = Some r -> r_kind r = KBundle ds -> node_outs rules x = [].
  Proof. intros Hr Hk. unfold node_outs. now rewrite Hr, Hk. Qed.

  (** in scope, [fileNodes] neither fails nor looks at out/ *)
  Lemma rule_extras_ext nm r out out' :
    find_rule nm rules = Some r ->
    rule_extras L (map fst src) out r = rule_extras L (map fst src) out' r.
  Proof.
    intros Hr. unfold rule_extras. destruct (r_kind r) as [files sels igns incs|] eqn:Hk; [|reflexivity].
    destruct (expand_files (map fst src) files sels igns) as [fl|] eqn:Hex; [|reflexivity].
    apply extras_of_ext. eapply wg_noout; eauto.
  Qed.

  Lemma rule_extras_total nm r out :
    find_rule nm rules = Some r -> exists ex, rule_extras L (map fst src) out r = inl ex.
  Proof.
    intros Hr. unfold rule_extras. destruct (r_kind r) as [files sels igns incs|] eqn:Hk; [|eauto].
    destruct (expand_files (map fst src) files sels igns) as [fl|] eqn:Hex; [|eauto].
    apply extras_of_total. eapply wg_noout; eauto.
  Qed.

  (** The digest [visit] computes for a rule node is the configuration's. *)
  Lemma visit_digest x r memo dd F out ex :
    find_node (nname x) L = Some x -> ntype x = TRule -> find_rule (nname x) rules = Some r ->
    (forall nm d, In (nm, d) memo -> sdig L rules src F nm = Some d) ->
    dep_digests memo (ndeps x) = Some dd ->
    rule_extras L (map fst src) out r = inl ex ->
    sdig L rules src (S F) (nname x)
    = Some (DRuleD (rdigest_of r) (canon_deps dd) (node_outs rules x) ex).
  Proof.
    intros Hx Hty Hr HF Hdd Hex. simpl. rewrite Hx, Hty, Hr.
    rewrite (memo_collect memo F (ndeps x) dd HF Hdd).
    now rewrite (rule_extras_ext _ r [] out Hr), Hex.
  Qed.

  (** A cache hit hands over the configuration's content (the key lemma). *)
  Lemma hit_content st x r files sels igns incs d F b :
    cache_inv (b_out st) (b_cache st) ->
    find_node (nname x) L = Some x -> ntype x = TRule -> find_rule (nname x) rules = Some r ->
    r_kind r = KFileSet files sels igns incs ->
    sdig L rules src F (nname x) = Some d ->
    cache_get d (b_cache st) = Some b -> same_built (b_out st) b = true ->
    exists g l s, scont L rules src g (nname x) = Some (inl l) /\
                  lookup (fileset_out (nname x)) (b_out st) = Some (CList l, s).
  Proof.
    intros Hinv Hx Hty Hr Hk Hd Hget Hsame.
    destruct (Hinv d b Hget) as (L0 & rules0 & src0 & x0 & n0 & r0 & f0 & HG0 & Hn0 & Hty0 & Hr0 & Hd0 & Hb).
    (* same rule on both sides *)
    destruct (sdig_of_rule _ _ _ _ _ _ _ _ Hx Hty Hr Hd) as (f1 & dd & ex & -> & _ & _ & Ed).
    destruct (sdig_of_rule _ _ _ _ _ _ _ _ Hn0 Hty0 Hr0 Hd0) as (f1' & dd0 & ex0 & -> & _ & _ & Ed0).
    assert (Erd : rdigest_of r = rdigest_of r0) by congruence.
    destruct (rdigest_of_kind _ _ Erd) as (Enm & Hfs & _).
    rewrite (find_rule_name _ _ _ Hr), (find_rule_name _ _ _ Hr0) in Enm.
    pose proof (proj1 (Hfs _ _ _ _) Hk) as Hk0. rewrite Hk0 in Hb.
    destruct Hb as (l & s & -> & Hsc & Hc).
    apply same_built_single in Hsame. destruct Hsame as [c Hl].
    pose proof (Hc c Hl) as ->.
    destruct (key_lemma L rules src L0 rules0 src0 HG HG0 _ _ _ Hd _ _ Hd0 _ _ _ _ _ _ Hx Hty Hr Hk _ _ Hsc)
      as [g Hg].
    exists g, l, s. split; [assumption|]. now rewrite Enm.
  Qed.

  Let vis := visit L rules src always now.

  Theorem visit_inv x st :
    binv st -> find_node (nname x) L = Some x ->
    match vis x st with
    | inl st' => binv st'
    | inr (st', _) => cache_inv (b_out st') (b_cache st') /\
                      fresh (b_out st') (b_cache st') (b_clock st')
    end.
  Proof.
    intros [Hm Ho Hc Hf] Hx. unfold vis, visit.
    destruct (dep_digests (b_memo st) (ndeps x)) as [dd|] eqn:Hdd; [|split; assumption].
    destruct (ntype x) eqn:Hty.
    - (* a source file *)
      destruct (lookup (nname x) src) as [s|] eqn:Hs; [|split; assumption].
      constructor; simpl; auto.
      + apply memo_ok_add; [assumption|]. intros F _. simpl. now rewrite Hx, Hty, Hs.
      + apply outs_ok_add_other; [assumption|]. intros n r fs ss gs is' Hn Ht. congruence.
    - (* a rule *)
      destruct (find_rule (nname x) rules) as [r|] eqn:Hr; [|split; assumption].
      destruct (rule_extras L (map fst src) (b_out st) r) as [ex|e] eqn:Hex; [|split; assumption].
      cbv zeta.
      set (d := DRuleD (rdigest_of r) (canon_deps dd) (node_outs rules x) ex).
      assert (Hdig : forall F, (forall nm d', In (nm, d') (b_memo st) -> sdig L rules src F nm = Some d') ->
                               sdig L rules src (S F) (nname x) = Some d).
      { intros F HF. exact (visit_digest x r (b_memo st) dd F _ ex Hx Hty Hr HF Hdd Hex). }
      assert (Hmemo' : memo_ok ((nname x, d) :: b_memo st)).
      { apply memo_ok_add; [assumption|]. exact Hdig. }
      destruct (hitb now st d && negb always) eqn:Hhit.
      + (* cache hit *)
        apply andb_true_iff in Hhit. destruct Hhit as [Hhit _]. unfold hitb in Hhit.
        destruct (cache_get d (b_cache st)) as [b|] eqn:Hget; [|discriminate].
        apply andb_true_iff in Hhit. destruct Hhit as [_ Hsame].
        constructor; simpl; auto.
        destruct (r_kind r) as [files sels igns incs|ds] eqn:Hk.
        * destruct Hm as [F HF].
          destruct (hit_content st x r files sels igns incs d (S F) b Hc Hx Hty Hr Hk (Hdig F HF) Hget Hsame)
            as (g & l & s & Hg & Hl).
          eapply outs_ok_add_fs; eauto.
        * apply outs_ok_add_other; [assumption|]. intros n r' fs ss gs is' Hn Ht Hr' Hk'. congruence.
      + (* no valid entry (or AlwaysRebuild): remove, log, execute, store *)
        clear Hhit.
        assert (Hc1 : cache_inv (b_out st) (cache_remove d (b_cache st))) by now apply cache_inv_remove.
        assert (Hf1 : fresh (b_out st) (cache_remove d (b_cache st)) (b_clock st)) by now apply fresh_remove.
        pose proof (find_rule_name _ _ _ Hr) as Hrn.
        unfold exec_rule, log. cbn [b_out b_cache b_clock b_memo b_exec b_times].
        destruct (r_kind r) as [files sels igns incs|ds] eqn:Hk.
        * (* a file set *)
          destruct (expand_files (map fst src) files sels igns) as [fl|] eqn:Hexp; [|split; assumption].
          destruct (fileset_content L rules src (b_out st) fl incs) as [l|e] eqn:Hcont;
            [|split; assumption].
          rewrite Hrn, (node_outs_fs x r files sels igns incs Hr Hk).
          assert (Hnb : new_built (set_assoc (fileset_out (nname x)) (Some (CList l, b_clock st)) (b_out st))
                                  [fileset_out (nname x)]
                        = inl [(fileset_out (nname x), b_clock st)]).
          { unfold new_built. cbn [fold_right]. now rewrite lookup_set_same. }
          rewrite Hnb.
          (* the content written is the configuration's *)
          assert (Hincs : forall i, In i incs -> exists di, In (i, di) (b_memo st)).
          { intros i Hi.
            assert (Hin : In x L) by (apply find_node_Some in Hx; tauto).
            destruct (wg_rule _ _ _ HG x Hin Hty) as (r' & Hr' & Hdeps). rewrite Hr in Hr'.
            injection Hr' as <-. rewrite Hk in Hdeps. destruct Hdeps as (fl' & _ & Hnd).
            rewrite dep_digests_collect in Hdd.
            destruct (collect_some_in _ _ _ i Hdd) as [di Hdi];
              [rewrite Hnd; apply in_app_iff; now right|].
            exists di. now apply lookup_In_pair. }
          destruct (exec_content_spec _ _ (nname x) r files sels igns incs fl l Ho Hincs Hr Hk Hexp Hcont)
            as [g Hg].
          constructor; simpl.
          -- exact Hmemo'.
          -- eapply outs_ok_add_fs; [eapply outs_ok_write; eauto|exact Hg|apply lookup_set_same].
          -- apply cache_inv_put.
             ++ apply cache_inv_write with (clock := b_clock st); assumption.
             ++ destruct Hm as [F HF].
                exists L, rules, src, (nname x), x, r, (Nat.max (S F) g).
                split; [exact HG|]. split; [exact Hx|]. split; [exact Hty|]. split; [exact Hr|].
                split.
                { apply (sdig_mono L rules src (S F)); [lia|]. exact (Hdig F HF). }
                rewrite Hk. exists l, (b_clock st). split; [reflexivity|]. split.
                { apply (scont_mono L rules src HG g); [lia|assumption]. }
                intros c Hl. rewrite lookup_set_same in Hl. now injection Hl as <-.
          -- apply fresh_put with (clock0 := b_clock st) (out0 := b_out st).
             ++ exact Hf1.
             ++ lia.
             ++ intros o c s Hl. destruct (String.eqb_spec (fileset_out (nname x)) o) as [<-|Hne].
                ** rewrite lookup_set_same in Hl. injection Hl as _ <-. lia.
                ** rewrite lookup_set_other in Hl by assumption.
                   destruct Hf as (F1 & _). specialize (F1 _ _ _ Hl). lia.
             ++ intros o s [[= <- <-]|[]]. lia.
        * (* a bundle *)
          rewrite (node_outs_bundle x r ds Hr Hk). cbn [new_built fold_right].
          constructor; simpl.
          -- exact Hmemo'.
          -- apply outs_ok_add_other; [assumption|]. intros n r' fs ss gs is' Hn Ht Hr' Hk'. congruence.
          -- apply cache_inv_put; [assumption|].
             destruct Hm as [F HF].
             exists L, rules, src, (nname x), x, r, (S F).
             split; [exact HG|]. split; [exact Hx|]. split; [exact Hty|]. split; [exact Hr|].
             split; [exact (Hdig F HF)|].
             rewrite Hk. reflexivity.
          -- apply fresh_put with (clock0 := b_clock st) (out0 := b_out st);
               [exact Hf1|lia| |intros o s []].
             destruct Hf as (F1 & _). exact F1.
    - (* an output *)
      constructor; simpl; auto.
      + apply memo_ok_add; [assumption|]. intros F HF. simpl. rewrite Hx, Hty.
        now rewrite (memo_collect (b_memo st) F (ndeps x) dd HF Hdd).
      + apply outs_ok_add_other; [assumption|]. intros n r fs ss gs is' Hn Ht. congruence.
  Qed.
End Run.

(** * From one node to a whole build *)
Section RunAll.
  Variables (L : list node) (rules : list rule) (src : list (name * stat)).
  Hypothesis HG : wfG L rules src.

  Variables (always : bool) (now : N).

  Let vis := visit L rules src always now.

  Lemma run_inv new : forall b st,
    binv L rules src st ->
    (forall x, In x new -> find_node (nname x) L = Some x) ->
    match LoadProofs.run bstate (bstate * failure) vis new (b, st) with
    | inl (_, st') => binv L rules src st'
    | inr (st', _) => cache_inv (b_out st') (b_cache st') /\
                      fresh (b_out st') (b_cache st') (b_clock st')
    end.
  Proof.
    induction new as [|x new IH]; intros b st Hinv Hnew; simpl; [assumption|].
    pose proof (visit_inv L rules src HG always now x st Hinv (Hnew x (or_introl eq_refl))) as Hv.
    fold vis in Hv. destruct (vis x st) as [st'|[st' e]]; [|assumption].
    apply IH; [assumption|]. intros y Hy. apply Hnew. now right.
  Qed.
End RunAll.

(** * Loading a world gives a well-formed configuration *)

Lemma load_world_inv w ts L :
  load_world w ts = LOk L ->
  exists st, read_roots (graph_of w) [""] = Some st /\ r_errs st = [] /\
             topo (r_nodes st) (src_kind (w_src w)) L /\
             (forall t, In t ts -> has_node t L = true).
Proof.
  unfold load_world, load_nodes. intros H.
  destruct (read_roots (graph_of w) [""]) as [st|] eqn:Hr; [|discriminate].
  destruct (r_errs st) as [|e es] eqn:He; [|discriminate].
  destruct (load_all_spec (r_nodes st) (src_kind (w_src w)) ts) as [s' [El [_ Hok]]].
  rewrite El in H. destruct (l_errs s') as [|e es] eqn:Hes; [|discriminate].
  injection H as <-. exists st. destruct (Hok eq_refl) as [Ht Hin]. auto.
Qed.

(** the nodes a rule declares *)
Lemma file_nodes_In n ds :
  In n (file_nodes ds) <->
  exists nm deps outs, In (DRule nm deps outs) ds /\
    (n = mkNode nm TRule deps \/ exists o, In o outs /\ n = mkNode o TOut [nm]).
Proof.
  unfold file_nodes. rewrite in_flat_map. split.
  - intros [d [Hd Hn]]. destruct d as [nm deps outs| |]; try destruct Hn.
    + exists nm, deps, outs. split; [assumption|]. now left.
    + exists nm, deps, outs. split; [assumption|]. right.
      apply in_map_iff in H. destruct H as [o [<- Ho]]. eauto.
  - intros (nm & deps & outs & Hd & [->|[o [Ho ->]]]); exists (DRule nm deps outs); split; auto.
    + now left.
    + right. apply in_map_iff. eauto.
Qed.

Lemma find_rule_In k rules r : find_rule k rules = Some r -> In r rules.
Proof.
  induction rules as [|r' rules IH]; simpl; [discriminate|].
  destruct (String.eqb k (r_name r')); [intros [= <-]; now left|intros H; right; auto].
Qed.

Lemma find_rule_first rules r :
  In r rules -> exists r', find_rule (r_name r) rules = Some r' /\ r_name r' = r_name r.
Proof.
  induction rules as [|r0 rules IH]; intros H; [destruct H|]. simpl.
  destruct (String.eqb_spec (r_name r) (r_name r0)) as [E|E]; [eauto|].
  destruct H as [->|H]; [congruence|auto].
Qed.

Lemma file_errs_nil_no_bad ds e : file_errs ds = [] -> ~ In (DBad e) ds.
Proof.
  unfold file_errs. intros H Hin.
  assert (Hi : In e (flat_map (fun d => match d with DBad e => [e] | _ => [] end) ds)).
  { apply in_flat_map. exists (DBad e). split; [assumption|now left]. }
  rewrite H in Hi. destruct Hi.
Qed.

Theorem load_world_wfG w ts L :
  load_world w ts = LOk L -> scopeb L (w_rules w) (w_src w) = true ->
  wfG L (w_rules w) (w_src w).
Proof.
  intros Hload Hscope.
  destruct (load_world_inv w ts L Hload) as (st & Hr & He & Htopo & _).
  destruct (read_roots_spec (graph_of w) [""] st Hr) as (Herr & Hok & _).
  destruct (Hok He) as [Hnd Hin].
  set (names := map fst (w_src w)) in *.
  set (decls := map (decl_of_rule names) (w_rules w)).
  assert (Hreach : reached (graph_of w) [""] "").
  { exists "". split; [now left|apply rt_refl]. }
  assert (Hfn : fnodes (graph_of w) "" = file_nodes decls) by reflexivity.
  assert (Hgood : file_errs decls = []).
  { destruct (file_errs decls) as [|e es] eqn:E; [reflexivity|]. exfalso.
    assert (Hp : read_problem (graph_of w) [""]).
    { left. exists "". split; [assumption|]. unfold good_file. simpl. fold names. fold decls.
      rewrite E. discriminate. }
    apply Herr in Hp. contradiction. }
  assert (Hreg : forall n, In n (file_nodes decls) -> find_node (nname n) (r_nodes st) = Some n).
  { intros n Hn. apply find_node_NoDup; [assumption|]. apply Hin. exists "". now rewrite Hfn. }
  pose proof Hscope as Hs1. unfold scopeb in Hs1. rewrite forallb_forall in Hs1.
  constructor.
  - eapply topo_wf; eauto.
  - (* rule nodes come from the rules *)
    intros n HnL Hty.
    destruct (topo_In _ _ _ Htopo n HnL) as [Hf|(_ & _ & _ & Hs)]; [|rewrite Hs in Hty; discriminate].
    assert (Hn : In n (file_nodes decls)).
    { apply find_node_Some in Hf. destruct Hf as [Hn _]. apply Hin in Hn.
      destruct Hn as [q [_ Hq]]. unfold fnodes in Hq. simpl in Hq.
      destruct (String.eqb q ""); [exact Hq|destruct Hq]. }
    apply file_nodes_In in Hn. destruct Hn as (nm & deps & outs & Hd & [->|[o [_ ->]]]);
      [|discriminate].
    unfold decls in Hd. apply in_map_iff in Hd. destruct Hd as [r [Hdr Hr']].
    (* the rule find_rule returns declares the same node *)
    assert (Enm : nm = r_name r).
    { unfold decl_of_rule in Hdr. destruct (r_kind r) as [files sels igns incs|ds].
      - destruct (expand_files names files sels igns); [|discriminate]. now injection Hdr as <- _ _.
      - now injection Hdr as <- _ _. }
    subst nm. destruct (find_rule_first _ _ Hr') as [r' [Hfr Enm]].
    exists r'. simpl. split; [exact Hfr|].
    pose proof (find_rule_In _ _ _ Hfr) as Hr'in.
    assert (Hd' : In (decl_of_rule names r') decls) by (unfold decls; now apply in_map).
    assert (Hnode : forall deps' outs', decl_of_rule names r' = DRule (r_name r') deps' outs' ->
                                        deps' = deps).
    { intros deps' outs' E. rewrite E in Hd'.
      assert (Hn' : In (mkNode (r_name r') TRule deps') (file_nodes decls)).
      { apply file_nodes_In. exists (r_name r'), deps', outs'. split; [assumption|now left]. }
      assert (Hn0 : In (mkNode (r_name r) TRule deps) (file_nodes decls)).
      { apply file_nodes_In. exists (r_name r), deps, outs. split; [|now left].
        unfold decls. apply in_map_iff. eauto. }
      pose proof (Hreg _ Hn') as H1. pose proof (Hreg _ Hn0) as H2. simpl in H1, H2.
      rewrite Enm in H1. rewrite H1 in H2. now injection H2. }
    unfold decl_of_rule in Hnode, Hd'. destruct (r_kind r') as [files sels igns incs|ds].
    + destruct (expand_files names files sels igns) as [fl|] eqn:Hex.
      * exists fl. split; [exact Hex|]. symmetry. eapply Hnode. reflexivity.
      * exfalso. eapply file_errs_nil_no_bad; eauto.
    + symmetry. eapply Hnode. reflexivity.
  - intros nm r files sels igns incs fl Hfr Hk Hex f n Hf Hn Hty.
    specialize (Hs1 r (find_rule_In _ _ _ Hfr)). rewrite Hk in Hs1.
    unfold names in *. rewrite Hex in Hs1. unfold no_out_filesb in Hs1. rewrite forallb_forall in Hs1.
    specialize (Hs1 f Hf). rewrite Hn, Hty in Hs1. discriminate.
  - intros n HnL Hty.
    destruct (topo_In _ _ _ Htopo n HnL) as [Hf|(_ & Hk & _)].
    + exfalso. apply find_node_Some in Hf. destruct Hf as [Hn _].
      exact (read_roots_nonsrc _ _ _ Hr n Hn Hty).
    + unfold src_kind in Hk. destruct (lookup (nname n) (w_src w)) as [s|]; [eauto|discriminate].
Qed.

(** * The invariant over histories (cache validity) *)

Definition winv (w : world) : Prop :=
  cache_inv (w_out w) (w_cache w) /\ fresh (w_out w) (w_cache w) (w_clock w).

(** every build of the history stays inside the theorems' scope *)
Definition build_in_scope (ts : list name) (w : world) : Prop :=
  match load_world w ts with
  | LOk L => scopeb L (w_rules w) (w_src w) = true
  | _ => True
  end.

Definition op_in_scope (o : op) (w : world) : Prop :=
  match o with
  | OBuild ts | OBuildAlways ts => build_in_scope ts w
  | _ => True
  end.

Fixpoint hist_in_scope (h : list op) (w : world) : Prop :=
  match h with
  | [] => True
  | o :: r => op_in_scope o w /\ hist_in_scope r (step w o)
  end.

Definition st0_of (w : world) : bstate :=
  mkB (w_out w) (w_cache w) (w_clock w) [] [] (w_times w).

Lemma binv_st0 L rules src w : winv w -> binv L rules src (st0_of w).
Proof.
  intros [Hc Hf]. constructor; simpl; auto.
  - exists 0. intros nm d [].
  - exists 0. intros nm d n r fs ss gs is' [].
Qed.

(** [build] as a fold of [visit] over the visiting order *)
Lemma build_unfold always ts w L :
  load_world w ts = LOk L -> wf_loaded L ->
  exists new,
    post_targets L ts [] = Some new /\
    build_with always ts w =
    match LoadProofs.run bstate (bstate * failure)
            (visit L (w_rules w) (w_src w) always (w_now w)) new ([], st0_of w) with
    | inl (_, st) => (with_state w st, b_exec st, BOk)
    | inr (st, e) => (with_state w st, b_exec st, BFail e)
    end.
Proof.
  intros Hl Hwf. destruct (post_targets_total L Hwf ts []) as [new Hn].
  exists new. split; [assumption|]. unfold build_with. rewrite Hl.
  fold (st0_of w).
  rewrite (dfs_targets_post L bstate (bstate * failure) _ _ ts [] (st0_of w) new Hn).
  destruct (LoadProofs.run bstate (bstate * failure) (visit L (w_rules w) (w_src w) always (w_now w))
              new ([], st0_of w))
    as [[b st]|[st e]]; reflexivity.
Qed.

Theorem build_inv always ts w :
  winv w -> build_in_scope ts w -> winv (fst (fst (build_with always ts w))).
Proof.
  intros Hw Hs. unfold build_in_scope in Hs.
  destruct (load_world w ts) as [|es|L] eqn:Hl.
  - unfold build_with. now rewrite Hl.
  - unfold build_with. now rewrite Hl.
  - pose proof (load_world_wfG w ts L Hl Hs) as HG.
    destruct (build_unfold always ts w L Hl (wg_wf _ _ _ HG)) as [new [Hn ->]].
    destruct (post_targets_spec L (wg_wf _ _ _ HG) ts [] new Hn) as [Hok _].
    pose proof (run_inv L (w_rules w) (w_src w) HG always (w_now w) new [] (st0_of w)
                  (binv_st0 _ _ _ w Hw)) as Hr.
    assert (Hnodes : forall x, In x new -> find_node (nname x) L = Some x).
    { intros x Hx. destruct (po_nodes _ _ _ _ Hok x Hx) as [H _]. exact H. }
    specialize (Hr Hnodes).
    destruct (LoadProofs.run bstate (bstate * failure)
                (visit L (w_rules w) (w_src w) always (w_now w)) new ([], st0_of w))
      as [[b st]|[st e]]; simpl.
    + destruct Hr as [_ _ Hc Hf]. split; assumption.
    + exact Hr.
Qed.

Lemma fresh_mono out cache clock clock' :
  fresh out cache clock -> (clock <= clock')%N -> fresh out cache clock'.
Proof.
  intros (F1 & F2 & F3) Hle. split; [|split; [|exact F3]].
  - intros o c s Hl. specialize (F1 _ _ _ Hl). lia.
  - intros d b o s Hg Hin. specialize (F2 _ _ _ _ Hg Hin). lia.
Qed.

Theorem step_inv w o : winv w -> op_in_scope o w -> winv (step w o).
Proof.
  intros [Hc Hf] Hs. destruct o as [nm s|rs|o c|o|dt|ts|ts]; simpl.
  - split; assumption.
  - split; assumption.
  - destruct c as [c|]; split.
    + now apply cache_inv_write.
    + now apply fresh_write.
    + now apply cache_inv_delete.
    + now apply fresh_delete.
  - destruct (lookup o (w_out w)) as [[c s]|]; split.
    + now apply cache_inv_write.
    + now apply fresh_write.
    + assumption.
    + apply (fresh_mono _ _ (w_clock w)); [assumption|apply N.le_succ_diag_r].
  - split; assumption.
  - apply (build_inv false); [split; assumption|assumption].
  - apply (build_inv true); [split; assumption|assumption].
Qed.

Theorem run_hist_inv h : forall w, winv w -> hist_in_scope h w -> winv (run h w).
Proof.
  induction h as [|o h IH]; intros w Hw Hs; simpl; [assumption|].
  destruct Hs as [Ho Hr]. apply IH; [|assumption]. now apply step_inv.
Qed.

Lemma winv_empty rs src : winv (empty_world rs src).
Proof.
  split.
  - intros d b H. discriminate.
  - split; [intros o c s H; discriminate|split; [intros d b o s H; discriminate|intros d d' b b' o s H; discriminate]].
Qed.

(** * A build succeeds when the configuration says every file set can be computed *)

Lemma collect_total {A} (g : name -> option A) deps :
  (forall d, In d deps -> exists x, g d = Some x) -> exists dd, collect g deps = Some dd.
Proof.
  induction deps as [|d deps IH]; intros H; simpl; [eauto|].
  destruct IH as [l ->]; [intros k Hk; apply H; now right|].
  destruct (H d (or_introl eq_refl)) as [x ->]. eauto.
Qed.

Section Succeeds.
  Variables (L : list node) (rules : list rule) (src : list (name * stat)).
  Hypothesis HG : wfG L rules src.

  Variables (always : bool) (now : N).

  Let vis := visit L rules src always now.

  (** every file-set rule among these nodes has a computable content *)
  Definition spec_ok (xs : list node) : Prop :=
    forall x r fs ss gs is', In x xs -> ntype x = TRule -> find_rule (nname x) rules = Some r ->
      r_kind r = KFileSet fs ss gs is' -> exists g l, scont L rules src g (nname x) = Some (inl l).

  Lemma visit_memo x st st' :
    vis x st = inl st' -> exists d, b_memo st' = (nname x, d) :: b_memo st.
  Proof.
    unfold vis, visit.
    destruct (dep_digests (b_memo st) (ndeps x)) as [dd|]; [|discriminate].
    destruct (ntype x).
    - destruct (lookup (nname x) src); [|discriminate]. intros [= <-]. simpl. eauto.
    - destruct (find_rule (nname x) rules) as [r|]; [|discriminate].
      destruct (rule_extras L (map fst src) (b_out st) r) as [ex|]; [|discriminate]. cbv zeta.
      destruct (hitb now st _ && negb always).
      + intros [= <-]. simpl. eauto.
      + destruct (exec_rule L rules src r x _) as [[out' clock']|e]; [|discriminate].
        destruct (new_built out' (node_outs rules x)); [|discriminate].
        intros [= <-]. simpl. eauto.
    - intros [= <-]. simpl. eauto.
  Qed.

  Lemma visit_succeeds x st :
    binv L rules src st -> find_node (nname x) L = Some x ->
    (forall k, In k (ndeps x) -> exists d, In (k, d) (b_memo st)) ->
    spec_ok [x] ->
    exists st', vis x st = inl st'.
  Proof.
    intros [Hm Ho Hc Hf] Hx Hdeps Hspec. unfold vis, visit.
    assert (Hin : In x L) by (apply find_node_Some in Hx; tauto).
    destruct (collect_total (fun d => lookup d (b_memo st)) (ndeps x)) as [dd Hdd].
    { intros k Hk. destruct (Hdeps k Hk) as [d Hd]. apply In_fst_lookup.
      apply in_map_iff. exists (k, d). auto. }
    rewrite dep_digests_collect, Hdd.
    destruct (ntype x) eqn:Hty.
    - destruct (wg_src _ _ _ HG x Hin Hty) as [s ->]. eauto.
    - destruct (wg_rule _ _ _ HG x Hin Hty) as (r & Hr & Hdeps'). rewrite Hr.
      destruct (rule_extras_total L rules src HG _ r (b_out st) Hr) as [ex ->]. cbv zeta.
      destruct (hitb now st _ && negb always); [eauto|].
      unfold exec_rule, log. cbn [b_out b_cache b_clock b_memo b_exec b_times].
      pose proof (find_rule_name _ _ _ Hr) as Hrn.
      destruct (r_kind r) as [files sels igns incs|ds] eqn:Hk.
      + destruct Hdeps' as (fl & Hex & Hnd). rewrite Hex.
        destruct (Hspec x r files sels igns incs (or_introl eq_refl) Hty Hr Hk) as (g & l & Hg).
        assert (Hcont : fileset_content L rules src (b_out st) fl incs = inl l).
        { destruct g as [|g']; [discriminate|]. simpl in Hg. rewrite Hr, Hk, Hex in Hg.
          injection Hg as Hg. rewrite <- Hg.
          apply fileset_content_ext; [eapply wg_noout; eauto|].
          intros i Hi. unfold content_at.
          destruct (fileset_content_ok _ _ _ _ _ _ _ Hg i Hi)
            as (n & ri & fs' & ss' & gs' & is' & li & s & Hn & Hti & Hri & Hki & Hl).
          rewrite Hl. rewrite lookup_spec_outs in Hl.
          destruct (mem i incs); [|discriminate].
          destruct (scont L rules src g' i) as [[li'|]|] eqn:Hsi; try discriminate.
          injection Hl as -> _.
          destruct (Hdeps i) as [di Hdi]; [rewrite Hnd; apply in_app_iff; now right|].
          destruct Ho as [F HF].
          destruct (HF i di n ri fs' ss' gs' is' Hdi Hn Hti Hri Hki) as (l2 & s2 & Hs2 & Hl2).
          rewrite Hl2. now rewrite (scont_unique L rules src HG _ _ _ _ _ Hs2 Hsi). }
        rewrite Hcont, Hrn, (node_outs_fs rules x r files sels igns incs Hr Hk).
        unfold new_built. cbn [fold_right]. rewrite lookup_set_same. eauto.
      + rewrite (node_outs_bundle rules x r ds Hr Hk). cbn [new_built fold_right]. eauto.
    - eauto.
  Qed.

  (** Running the rest of the visiting order from a state in which the
      nodes of [done] are in the memo. *)
  Lemma run_complete ts : forall rest done b st,
    post_ok L ts [] (done ++ rest) ->
    binv L rules src st ->
    (forall y, In y done -> exists d, In (nname y, d) (b_memo st)) ->
    spec_ok rest ->
    exists b' st', LoadProofs.run bstate (bstate * failure) vis rest (b, st) = inl (b', st') /\
      binv L rules src st' /\
      (forall y, In y (done ++ rest) -> exists d, In (nname y, d) (b_memo st')).
  Proof.
    induction rest as [|x rest IH]; intros done b st Hok Hinv Hdone Hspec.
    - exists b, st. rewrite app_nil_r. simpl. auto.
    - simpl.
      destruct (po_nodes _ _ _ _ Hok x) as (Hx & _); [apply in_app_iff; right; now left|].
      assert (Hdeps : forall k, In k (ndeps x) -> exists d, In (k, d) (b_memo st)).
      { intros k Hk. destruct (po_deps _ _ _ _ Hok done x rest eq_refl k Hk) as [[]|Hkd].
        apply in_map_iff in Hkd. destruct Hkd as [y [<- Hy]]. auto. }
      destruct (visit_succeeds x st Hinv Hx Hdeps) as [st' Hv].
      { intros y r fs ss gs is' [<-|[]]. apply Hspec. now left. }
      rewrite Hv. destruct (visit_memo _ _ _ Hv) as [d Hmemo].
      pose proof (visit_inv L rules src HG always now x st Hinv Hx) as Hinv'. fold vis in Hinv'.
      rewrite Hv in Hinv'.
      destruct (IH (done ++ [x])%list (nname x :: b) st') as (b' & st2 & Hrun & Hinv2 & Hall).
      + now rewrite <- app_assoc.
      + assumption.
      + intros y Hy. apply in_app_iff in Hy. rewrite Hmemo. destruct Hy as [Hy|[<-|[]]].
        * destruct (Hdone y Hy) as [dy Hdy]. exists dy. now right.
        * exists d. now left.
      + intros y r fs ss gs is' Hy. apply Hspec. now right.
      + exists b', st2. split; [exact Hrun|]. split; [assumption|].
        now rewrite <- app_assoc in Hall.
  Qed.
End Succeeds.

(** * An incremental build equals a clean build *)

Lemma run_memo L rules src always now new : forall b st b' st',
  LoadProofs.run bstate (bstate * failure) (visit L rules src always now) new (b, st) = inl (b', st') ->
  (forall nm d, In (nm, d) (b_memo st) -> In (nm, d) (b_memo st')) /\
  (forall x, In x new -> exists d, In (nname x, d) (b_memo st')).
Proof.
  induction new as [|x new IH]; intros b st b' st' H; simpl in H.
  - injection H as <- <-. split; [auto|intros x []].
  - destruct (visit L rules src always now x st) as [st1|[st1 e]] eqn:Hv; [|discriminate].
    destruct (visit_memo L rules src always now x st st1 Hv) as [d Hm].
    destruct (IH _ _ _ _ H) as [I1 I2]. split.
    + intros nm d' Hin. apply I1. rewrite Hm. now right.
    + intros y [<-|Hy]; [|auto]. exists d. apply I1. rewrite Hm. now left.
Qed.

(** the rules the build walk reaches from the targets *)
Definition reach_rule (L : list node) (ts : list name) (r : name) : Prop :=
  exists t n, In t ts /\ clos_refl_trans name (edgeL L) t r /\
              find_node r L = Some n /\ ntype n = TRule.

Lemma reach_rule_visited L ts new r :
  wf_loaded L -> (forall t, In t ts -> has_node t L = true) ->
  (forall n, In n L -> ntype n = TSrc -> ndeps n = []) ->
  post_targets L ts [] = Some new ->
  (reach_rule L ts r <-> exists x, In x new /\ nname x = r /\ ntype x = TRule).
Proof.
  intros Hwf Hts Hsrc Hn.
  destruct (exec_sound L Hwf ts Hts Hsrc) as (ex & Hex & _ & Hiff & _).
  destruct (exec_order_post L Hwf ts) as (new' & Hn' & Hex').
  rewrite Hn in Hn'. injection Hn' as <-. rewrite Hex in Hex'. injection Hex' as ->.
  unfold reach_rule. rewrite <- Hiff. unfold names. rewrite in_map_iff. split.
  - intros [x [Hx Hin]]. apply filter_In in Hin. destruct Hin as [Hin Hr].
    exists x. repeat split; auto. unfold is_rule in Hr. destruct (ntype x); congruence.
  - intros [x (Hin & Hx & Hty)]. exists x. split; [assumption|]. apply filter_In.
    split; [assumption|]. unfold is_rule. now rewrite Hty.
Qed.

Theorem incremental_eq_clean always always' ts w w1 e1 L :
  winv w -> build_in_scope ts w -> load_world w ts = LOk L ->
  build_with always ts w = (w1, e1, BOk) ->
  exists w2 e2, build_with always' ts (clean w) = (w2, e2, BOk) /\
    forall r rl fs ss gs is',
      reach_rule L ts r -> find_rule r (w_rules w) = Some rl -> r_kind rl = KFileSet fs ss gs is' ->
      exists l, content_at (w_out w1) (fileset_out r) = Some (CList l) /\
                content_at (w_out w2) (fileset_out r) = Some (CList l).
Proof.
  intros Hw Hs Hl Hb. unfold build_in_scope in Hs. rewrite Hl in Hs.
  pose proof (load_world_wfG w ts L Hl Hs) as HG.
  pose proof (wg_wf _ _ _ HG) as Hwf.
  destruct (load_world_inv w ts L Hl) as (stl & Hrr & Hre & Htopo & Hts).
  assert (Hsrcnd : forall n, In n L -> ntype n = TSrc -> ndeps n = []).
  { intros n Hn Hty. eapply loaded_src_nodeps; eauto. eapply read_roots_nonsrc; eauto. }
  destruct (build_unfold always ts w L Hl Hwf) as [new [Hn Hbu]].
  destruct (post_targets_spec L Hwf ts [] new Hn) as [Hok _].
  assert (Hnodes : forall x, In x new -> find_node (nname x) L = Some x).
  { intros x Hx. destruct (po_nodes _ _ _ _ Hok x Hx) as [H _]. exact H. }
  (* the incremental run *)
  rewrite Hb in Hbu.
  pose proof (run_inv L (w_rules w) (w_src w) HG always (w_now w) new [] (st0_of w)
                (binv_st0 _ _ _ w Hw) Hnodes) as Hinv1.
  destruct (LoadProofs.run bstate (bstate * failure) (visit L (w_rules w) (w_src w) always (w_now w))
              new ([], st0_of w))
    as [[b1 st1]|[st1 e]] eqn:Hrun1; [|discriminate].
  injection Hbu as -> _.
  destruct (run_memo _ _ _ _ _ _ _ _ _ _ Hrun1) as [_ Hmemo1].
  destruct Hinv1 as [_ Ho1 _ _].
  (* hence every visited file set has a computable content *)
  assert (Hspec : spec_ok L (w_rules w) (w_src w) new).
  { intros x r fs ss gs is' Hx Hty Hr Hk. destruct (Hmemo1 x Hx) as [d Hd].
    destruct Ho1 as [F HF].
    destruct (HF (nname x) d x r fs ss gs is' Hd (Hnodes x Hx) Hty Hr Hk) as (l & s & Hsc & _). eauto. }
  (* the clean run *)
  assert (Hl2 : load_world (clean w) ts = LOk L) by exact Hl.
  destruct (build_unfold always' ts (clean w) L Hl2 Hwf) as [new2 [Hn2 Hbu2]].
  rewrite Hn in Hn2. injection Hn2 as <-.
  assert (Hw2 : winv (clean w)).
  { split; [intros d b H; discriminate|].
    split; [intros o c s H; discriminate|split; [intros d b o s H; discriminate|intros d d' b b' o s H; discriminate]]. }
  destruct (run_complete L (w_rules w) (w_src w) HG always' (w_now w) ts new [] [] (st0_of (clean w)))
    as (b2 & st2 & Hrun2 & Hinv2 & Hmemo2); auto.
  { exact (binv_st0 L (w_rules w) (w_src w) (clean w) Hw2). }
  { intros y []. }
  change (w_rules (clean w)) with (w_rules w) in Hbu2.
  change (w_src (clean w)) with (w_src w) in Hbu2.
  change (w_now (clean w)) with (w_now w) in Hbu2.
  rewrite Hrun2 in Hbu2.
  exists (with_state (clean w) st2), (b_exec st2). split; [exact Hbu2|].
  intros r rl fs ss gs is' Hreach Hrl Hk.
  apply (reach_rule_visited L ts new r Hwf Hts Hsrcnd Hn) in Hreach.
  destruct Hreach as (x & Hx & Hnm & Hty). subst r.
  destruct (Hmemo1 x Hx) as [d1 Hd1]. destruct (Hmemo2 x Hx) as [d2 Hd2].
  destruct Ho1 as [F1 HF1]. destruct Hinv2 as [_ [F2 HF2] _ _].
  destruct (HF1 (nname x) d1 x rl fs ss gs is' Hd1 (Hnodes x Hx) Hty Hrl Hk) as (l1 & s1 & Hs1 & Hl1).
  destruct (HF2 (nname x) d2 x rl fs ss gs is' Hd2 (Hnodes x Hx) Hty Hrl Hk) as (l2 & s2 & Hs2 & Hl2').
  pose proof (scont_unique L (w_rules w) (w_src w) HG _ _ _ _ _ Hs1 Hs2) as <-.
  exists l1. unfold content_at. simpl. now rewrite Hl1, Hl2'.
Qed.

(** * What one visit changes *)

Definition rd_name (rd : rdigest) : name :=
  match rd with RDFileSet n _ _ _ _ => n | RDBundle n => n end.

Definition dname (d : digest) : option name :=
  match d with DRuleD rd _ _ _ => Some (rd_name rd) | _ => None end.

Lemma rdigest_of_name r : rd_name (rdigest_of r) = r_name r.
Proof. unfold rdigest_of. destruct (r_kind r); reflexivity. Qed.

Lemma sdig_dname L rules src f x d n :
  find_node x L = Some n -> ntype n = TRule -> sdig L rules src f x = Some d -> dname d = Some x.
Proof.
  intros Hn Hty Hd.
  destruct (find_rule x rules) as [r|] eqn:Hr.
  - destruct (sdig_of_rule _ _ _ _ _ _ _ _ Hn Hty Hr Hd) as (f' & dd & ex & _ & _ & _ & ->). simpl.
    now rewrite rdigest_of_name, (find_rule_name _ _ _ Hr).
  - destruct f as [|f]; [discriminate|]. simpl in Hd. rewrite Hn, Hty, Hr in Hd. discriminate.
Qed.

Lemma entry_ok_shape out d b :
  entry_ok out d b ->
  exists x0, dname d = Some x0 /\ forall o s, In (o, s) b -> o = fileset_out x0.
Proof.
  intros (L0 & rules0 & src0 & x0 & n0 & r0 & f & _ & Hn & Hty & _ & Hd & Hk).
  exists x0. split; [eapply sdig_dname; eauto|].
  destruct (r_kind r0).
  - destruct Hk as (l & s' & -> & _). intros o s [[= <- <-]|[]]. reflexivity.
  - subst b. intros o s [].
Qed.

(** same validity when neither the entry, nor its creation time, nor the
    outputs it names changed *)
Lemma valid_cached_same now out cache times out' cache' times' d x0 :
  cache_inv out cache -> dname d = Some x0 ->
  cache_get d cache' = cache_get d cache ->
  time_get d times' = time_get d times ->
  lookup (fileset_out x0) out' = lookup (fileset_out x0) out ->
  (valid_cached now out' cache' times' d <-> valid_cached now out cache times d).
Proof.
  intros Hinv Hdn Hget Ht Hl. unfold valid_cached, live. rewrite Hget, Ht.
  split; intros [b [Hb [Hlv Hs]]]; exists b; (split; [assumption|split; [assumption|]]);
    destruct (entry_ok_shape _ _ _ (Hinv d b Hb)) as (x1 & Hdn1 & Hshape);
    rewrite Hdn in Hdn1; injection Hdn1 as <-;
    unfold same_built in *; rewrite forallb_forall in *; intros [o s] Hin;
    specialize (Hs (o, s) Hin); simpl in *; rewrite (Hshape o s Hin) in *.
  - now rewrite <- Hl.
  - now rewrite Hl.
Qed.

Lemma expire_pos now : N.ltb now (now + expire) = true.
Proof. apply N.ltb_lt. unfold expire. lia. Qed.

Lemma live_put now d times : live now ((d, now) :: times) d = true.
Proof. unfold live. cbn [time_get]. rewrite digest_eqb_refl. apply expire_pos. Qed.

Section Effect.
  Variables (L : list node) (rules : list rule) (src : list (name * stat)).
  Variables (always : bool) (now : N).

  Let vis := visit L rules src always now.

  (** the effect of a successful visit *)
  Inductive effect (x : node) (st st' : bstate) : Prop :=
  | eff_other d :           (* not a rule: only the memo grows *)
      ntype x <> TRule -> st' = remember (nname x) d st -> effect x st st'
  | eff_hit r dd ex :       (* a rule with a valid cache entry: nothing happens *)
      ntype x = TRule -> find_rule (nname x) rules = Some r ->
      dep_digests (b_memo st) (ndeps x) = Some dd ->
      rule_extras L (map fst src) (b_out st) r = inl ex ->
      let d := DRuleD (rdigest_of r) (canon_deps dd) (node_outs rules x) ex in
      hitb now st d = true -> always = false -> st' = remember (nname x) d st -> effect x st st'
  | eff_exec r dd ex :      (* executed *)
      ntype x = TRule -> find_rule (nname x) rules = Some r ->
      dep_digests (b_memo st) (ndeps x) = Some dd ->
      rule_extras L (map fst src) (b_out st) r = inl ex ->
      let d := DRuleD (rdigest_of r) (canon_deps dd) (node_outs rules x) ex in
      (hitb now st d = false \/ always = true) ->
      b_memo st' = (nname x, d) :: b_memo st ->
      b_exec st' = (b_exec st ++ [nname x])%list ->
      hitb now st' d = true ->
      (forall d0, d0 <> d -> cache_get d0 (b_cache st') = cache_get d0 (b_cache st)) ->
      (forall d0, d0 <> d -> time_get d0 (b_times st') = time_get d0 (b_times st)) ->
      (forall o, o <> fileset_out (nname x) -> lookup o (b_out st') = lookup o (b_out st)) ->
      effect x st st'.

  Lemma time_get_cons_other d d0 t times : d0 <> d -> time_get d0 ((d, t) :: times) = time_get d0 times.
  Proof. intros H. simpl. apply digest_eqb_false in H. now rewrite H. Qed.

  Lemma visit_effect x st st' : vis x st = inl st' -> effect x st st'.
  Proof.
    unfold vis, visit.
    destruct (dep_digests (b_memo st) (ndeps x)) as [dd|] eqn:Hdd; [|discriminate].
    destruct (ntype x) eqn:Hty.
    - destruct (lookup (nname x) src); [|discriminate]. intros [= <-].
      eapply eff_other; [congruence|reflexivity].
    - destruct (find_rule (nname x) rules) as [r|] eqn:Hr; [|discriminate].
      destruct (rule_extras L (map fst src) (b_out st) r) as [ex|] eqn:Hex; [|discriminate].
      cbv zeta.
      set (d := DRuleD (rdigest_of r) (canon_deps dd) (node_outs rules x) ex).
      destruct (hitb now st d && negb always) eqn:Hhit.
      + apply andb_true_iff in Hhit. destruct Hhit as [H1 H2]. apply negb_true_iff in H2.
        intros [= <-]. eapply eff_hit; eauto.
      + assert (Hcond : hitb now st d = false \/ always = true).
        { apply andb_false_iff in Hhit. destruct Hhit as [H|H]; [now left|right].
          now apply negb_false_iff in H. }
        unfold exec_rule, log. cbn [b_out b_cache b_clock b_memo b_exec b_times].
        pose proof (find_rule_name _ _ _ Hr) as Hrn.
        destruct (r_kind r) as [files sels igns incs|ds] eqn:Hk.
        * destruct (expand_files (map fst src) files sels igns) as [fl|]; [|discriminate].
          destruct (fileset_content L rules src (b_out st) fl incs) as [l|]; [|discriminate].
          rewrite Hrn.
          assert (Hno : node_outs rules x = [fileset_out (nname x)])
            by (unfold node_outs; now rewrite Hr, Hk).
          rewrite Hno. unfold new_built. cbn [fold_right]. rewrite lookup_set_same.
          intros [= <-]. eapply eff_exec with (r := r) (dd := dd) (ex := ex); eauto; fold d;
            unfold remember; cbn [b_out b_cache b_clock b_memo b_exec b_times].
          -- unfold hitb. cbn [b_out b_cache b_times]. rewrite cache_get_put_same.
             rewrite live_put. cbn [andb].
             apply same_built_single. rewrite lookup_set_same. eauto.
          -- intros d0 Hne. rewrite cache_get_put_other by congruence.
             apply cache_get_remove_other. congruence.
          -- intros d0 Hne. now apply time_get_cons_other.
          -- intros o Hne. apply lookup_set_other. congruence.
        * assert (Hno : node_outs rules x = []) by (unfold node_outs; now rewrite Hr, Hk).
          rewrite Hno. cbn [new_built fold_right].
          intros [= <-]. eapply eff_exec with (r := r) (dd := dd) (ex := ex); eauto; fold d;
            unfold remember; cbn [b_out b_cache b_clock b_memo b_exec b_times].
          -- unfold hitb. cbn [b_out b_cache b_times]. rewrite cache_get_put_same.
             rewrite live_put. reflexivity.
          -- intros d0 Hne. rewrite cache_get_put_other by congruence.
             apply cache_get_remove_other. congruence.
          -- intros d0 Hne. now apply time_get_cons_other.
    - intros [= <-]. eapply eff_other; [congruence|reflexivity].
  Qed.
End Effect.

(** * Which rules execute, and what holds afterwards *)

Lemma bool_eq_iff (a b : bool) : (a = true <-> b = true) -> a = b.
Proof. destruct a, b; intuition congruence. Qed.

Section Track.
  Variables (L : list node) (rules : list rule) (src : list (name * stat)).
  Hypothesis HG : wfG L rules src.
  Variable ts : list name.
  Variable st0 : bstate.          (* the state the build started from *)

  Variables (always : bool) (now : N).

  Let vis := visit L rules src always now.

  Record trk (done rest : list node) (st : bstate) : Prop := mkTrk {
    tk_exec : forall y d, In y done -> ntype y = TRule -> In (nname y, d) (b_memo st) ->
                (In (nname y) (b_exec st) <-> hitb now st0 d = false \/ always = true);
    tk_only : forall nm, In nm (b_exec st) ->
                exists y, In y done /\ nname y = nm /\ ntype y = TRule;
    tk_rest : forall x d F, In x rest -> ntype x = TRule ->
                sdig L rules src F (nname x) = Some d -> hitb now st d = hitb now st0 d;
    tk_valid : forall y d, In y done -> ntype y = TRule -> In (nname y, d) (b_memo st) ->
                 hitb now st d = true;
    tk_memo_done : forall y, In y done -> exists d, In (nname y, d) (b_memo st);
    tk_memo_only : forall nm d, In (nm, d) (b_memo st) -> In nm (names done)
  }.

  Lemma hitb_same st st' d x0 :
    cache_inv (b_out st) (b_cache st) -> dname d = Some x0 ->
    cache_get d (b_cache st') = cache_get d (b_cache st) ->
    time_get d (b_times st') = time_get d (b_times st) ->
    lookup (fileset_out x0) (b_out st') = lookup (fileset_out x0) (b_out st) ->
    hitb now st' d = hitb now st d.
  Proof.
    intros Hinv Hdn Hg Ht Hl. apply bool_eq_iff. rewrite !hitb_valid.
    eapply valid_cached_same; eauto.
  Qed.

  Lemma dname_neq d d' x x' : dname d = Some x -> dname d' = Some x' -> x <> x' -> d <> d'.
  Proof. intros H1 H2 Hne ->. congruence. Qed.

  Lemma run_track : forall rest done b st b' st',
    post_ok L ts [] (done ++ rest) ->
    binv L rules src st -> trk done rest st ->
    LoadProofs.run bstate (bstate * failure) vis rest (b, st) = inl (b', st') ->
    binv L rules src st' /\ trk (done ++ rest) [] st'.
  Proof.
    induction rest as [|x rest IH]; intros done b st b' st' Hok Hinv Htk Hrun.
    { simpl in Hrun. injection Hrun as <- <-. rewrite app_nil_r. auto. }
    simpl in Hrun. destruct (vis x st) as [st1|[st1 e]] eqn:Hv; [|discriminate].
    assert (Hxin : In x (done ++ x :: rest)) by (apply in_app_iff; right; now left).
    destruct (po_nodes _ _ _ _ Hok x Hxin) as (Hx & _).
    pose proof (visit_inv L rules src HG always now x st Hinv Hx) as Hinv1. fold vis in Hinv1. rewrite Hv in Hinv1.
    pose proof (po_nodup _ _ _ _ Hok) as Hnd. unfold names in Hnd. rewrite map_app in Hnd. simpl in Hnd.
    apply NoDup_app_inv in Hnd. destruct Hnd as (Hnd1 & Hnd2 & Hdisj).
    inversion Hnd2 as [|? ? Hxrest Hnd3]; subst.
    assert (Hxdone : ~ In (nname x) (names done)).
    { intros Hc. apply (Hdisj (nname x) Hc). now left. }
    destruct Htk as [Ta To Tr Tv Tm Tmo].
    destruct Hinv as [Hm Ho Hc Hf].
    assert (Hdig : forall y d, In y (done ++ x :: rest) -> ntype y = TRule ->
                     (exists F, sdig L rules src F (nname y) = Some d) -> dname d = Some (nname y)).
    { intros y d Hy Hty [F HF]. destruct (po_nodes _ _ _ _ Hok y Hy) as (Hfy & _).
      eapply sdig_dname; eauto. }
    assert (Hmemo_dig : forall y d, In (nname y, d) (b_memo st) ->
                          exists F, sdig L rules src F (nname y) = Some d).
    { intros y d Hin. destruct Hm as [F HF]. exists F. now apply HF. }
    (* the state after visiting x satisfies the tracking invariant for done ++ [x] *)
    assert (Htk1 : trk (done ++ [x]) rest st1).
    { pose proof (visit_effect L rules src always now x st st1 Hv) as Heff.
      destruct Heff as [d Hnr ->|r dd ex Hty Hr Hdd Hexr d Hhit Halw ->|r dd ex Hty Hr Hdd Hexr d Hhit Hmemo Hexec Hhit1 Hcache Htime Hout].
      - (* not a rule *)
        constructor; simpl.
        + intros y d' Hy Hty [[= E1 E2]|Hin].
          * apply in_app_iff in Hy. destruct Hy as [Hy|[<-|[]]]; [|congruence].
            exfalso. apply Hxdone. rewrite E1. now apply in_map.
          * apply in_app_iff in Hy. destruct Hy as [Hy|[<-|[]]]; [eauto|congruence].
        + intros nm Hnm. destruct (To nm Hnm) as (y' & Hy' & E' & Ht').
          exists y'. split; [apply in_app_iff; now left|auto].
        + intros z dz F Hz Htz Hsz. apply (Tr z dz F); [now right|assumption|assumption].
        + intros y d' Hy Hty [[= E1 E2]|Hin].
          * apply in_app_iff in Hy. destruct Hy as [Hy|[<-|[]]]; [|congruence].
            exfalso. apply Hxdone. rewrite E1. now apply in_map.
          * apply in_app_iff in Hy. destruct Hy as [Hy|[<-|[]]]; [|congruence].
            change (hitb now (remember (nname x) d st) d') with (hitb now st d'). eauto.
        + intros y Hy. apply in_app_iff in Hy. destruct Hy as [Hy|[<-|[]]].
          * destruct (Tm y Hy) as [dy Hdy]. exists dy. now right.
          * exists d. now left.
        + intros nm d' [[= <- <-]|Hin]; unfold names; rewrite map_app; apply in_app_iff.
          * right. now left.
          * left. eapply Tmo; eauto.
      - (* a hit: nothing changes *)
        assert (Hd : exists F, sdig L rules src F (nname x) = Some d).
        { destruct Hm as [F HF]. exists (S F).
          exact (visit_digest L rules src HG x r _ dd F _ ex Hx Hty Hr HF Hdd Hexr). }
        assert (Hh0 : hitb now st0 d = true).
        { destruct Hd as [F HF]. rewrite <- (Tr x d F (or_introl eq_refl) Hty HF). exact Hhit. }
        constructor; simpl.
        + intros y d' Hy Hty' [[= E1 E2]|Hin].
          * subst d'. split; [|intros [H|H]; congruence]. intros Hex. exfalso. apply Hxdone. rewrite E1.
            destruct (To _ Hex) as (y' & Hy' & E' & _). rewrite <- E'. now apply in_map.
          * apply in_app_iff in Hy. destruct Hy as [Hy|[<-|[]]]; [eauto|].
            exfalso. apply Hxdone. eapply Tmo; eauto.
        + intros nm Hnm. destruct (To nm Hnm) as (y' & Hy' & E' & Ht').
          exists y'. split; [apply in_app_iff; now left|auto].
        + intros z dz F Hz Htz Hsz. apply (Tr z dz F); [now right|assumption|assumption].
        + intros y d' Hy Hty' [[= E1 E2]|Hin].
          * subst d'. exact Hhit.
          * apply in_app_iff in Hy. destruct Hy as [Hy|[<-|[]]].
            -- change (hitb now (remember (nname x) d st) d') with (hitb now st d'). eauto.
            -- exfalso. apply Hxdone. eapply Tmo; eauto.
        + intros y Hy. apply in_app_iff in Hy. destruct Hy as [Hy|[<-|[]]].
          * destruct (Tm y Hy) as [dy Hdy]. exists dy. now right.
          * exists d. now left.
        + intros nm d' [[= <- <-]|Hin]; unfold names; rewrite map_app; apply in_app_iff.
          * right. now left.
          * left. eapply Tmo; eauto.
      - (* executed *)
        assert (Hd : exists F, sdig L rules src F (nname x) = Some d).
        { destruct Hm as [F HF]. exists (S F).
          exact (visit_digest L rules src HG x r _ dd F _ ex Hx Hty Hr HF Hdd Hexr). }
        assert (Hh0 : hitb now st0 d = false \/ always = true).
        { destruct Hhit as [Hhit|Hhit]; [left|now right].
          destruct Hd as [F HF]. rewrite <- (Tr x d F (or_introl eq_refl) Hty HF). exact Hhit. }
        assert (Hdnx : dname d = Some (nname x)) by (apply Hdig; auto).
        (* validity of every other rule digest is untouched *)
        assert (Hsame : forall y dy, In y (done ++ x :: rest) -> nname y <> nname x -> ntype y = TRule ->
                          (exists F, sdig L rules src F (nname y) = Some dy) ->
                          hitb now st1 dy = hitb now st dy).
        { intros y dy Hy Hne Hty' Hdy. pose proof (Hdig y dy Hy Hty' Hdy) as Hdny.
          apply hitb_same with (x0 := nname y); auto.
          - apply Hcache. eapply dname_neq; eauto.
          - apply Htime. eapply dname_neq; eauto.
          - apply Hout. intros E. apply fileset_out_inj in E. congruence. }
        constructor.
        + intros y d' Hy Hty' Hin. rewrite Hmemo in Hin. rewrite Hexec, in_app_iff.
          destruct Hin as [[= E1 E2]|Hin].
          * subst d'. split; [auto|]. intros _. right. now left.
          * apply in_app_iff in Hy. destruct Hy as [Hy|[<-|[]]].
            -- rewrite <- (Ta y d' Hy Hty' Hin). split; [|tauto].
               intros [H|[H|[]]]; [assumption|]. exfalso. apply Hxdone. rewrite H. now apply in_map.
            -- exfalso. apply Hxdone. eapply Tmo; eauto.
        + intros nm Hnm. rewrite Hexec in Hnm.
          apply in_app_iff in Hnm. destruct Hnm as [Hnm|[<-|[]]].
          * destruct (To nm Hnm) as (y' & Hy' & E' & Ht'). exists y'. split; [apply in_app_iff; now left|auto].
          * exists x. split; [apply in_app_iff; right; now left|auto].
        + intros z dz F Hz Htz Hsz. rewrite <- (Tr z dz F (or_intror Hz) Htz Hsz).
          apply (Hsame z dz); eauto.
          * apply in_app_iff. right. now right.
          * intros E. apply Hxrest. rewrite <- E. now apply in_map.
        + intros y d' Hy Hty' Hin. rewrite Hmemo in Hin. destruct Hin as [[= E1 E2]|Hin].
          * subst d'. exact Hhit1.
          * apply in_app_iff in Hy. destruct Hy as [Hy|[<-|[]]].
            -- rewrite (Hsame y d'); eauto.
               ++ apply in_app_iff. now left.
               ++ intros E. apply Hxdone. rewrite <- E. now apply in_map.
            -- exfalso. apply Hxdone. eapply Tmo; eauto.
        + intros y Hy. rewrite Hmemo. apply in_app_iff in Hy. destruct Hy as [Hy|[<-|[]]].
          * destruct (Tm y Hy) as [dy Hdy]. exists dy. now right.
          * exists d. now left.
        + intros nm d' Hin. rewrite Hmemo in Hin. unfold names. rewrite map_app. apply in_app_iff.
          destruct Hin as [[= <- <-]|Hin]; [right; now left|left; eapply Tmo; eauto]. }
    destruct (IH (done ++ [x])%list (nname x :: b) st1 b' st') as [I1 I2]; auto.
    { now rewrite <- app_assoc. }
    split; [assumption|]. now rewrite <- app_assoc in I2.
  Qed.
End Track.

(** * A rule executes exactly when its action digest has no valid cache entry *)

Lemma trk_init L rules src st0 always now new :
  b_memo st0 = [] -> b_exec st0 = [] -> trk L rules src st0 always now [] new st0.
Proof.
  intros Hm He. constructor; rewrite ?Hm, ?He; simpl; try tauto.
Qed.

(** common set-up of a successful build *)
Lemma build_ok_run always ts w w1 e1 L :
  winv w -> build_in_scope ts w -> load_world w ts = LOk L ->
  build_with always ts w = (w1, e1, BOk) ->
  exists new b1 st1,
    wfG L (w_rules w) (w_src w) /\
    post_targets L ts [] = Some new /\ post_ok L ts [] new /\
    LoadProofs.run bstate (bstate * failure) (visit L (w_rules w) (w_src w) always (w_now w))
      new ([], st0_of w) = inl (b1, st1) /\
    w1 = with_state w st1 /\ e1 = b_exec st1 /\
    binv L (w_rules w) (w_src w) st1 /\
    trk L (w_rules w) (w_src w) (st0_of w) always (w_now w) new [] st1.
Proof.
  intros Hw Hs Hl Hb. unfold build_in_scope in Hs. rewrite Hl in Hs.
  pose proof (load_world_wfG w ts L Hl Hs) as HG.
  destruct (build_unfold always ts w L Hl (wg_wf _ _ _ HG)) as [new [Hn Hbu]].
  destruct (post_targets_spec L (wg_wf _ _ _ HG) ts [] new Hn) as [Hok _].
  rewrite Hb in Hbu.
  destruct (LoadProofs.run bstate (bstate * failure) (visit L (w_rules w) (w_src w) always (w_now w))
              new ([], st0_of w))
    as [[b1 st1]|[st1 e]] eqn:Hrun; [|discriminate].
  injection Hbu as -> ->.
  pose proof (run_track L (w_rules w) (w_src w) HG ts (st0_of w) always (w_now w) new [] [] (st0_of w) b1 st1
                Hok (binv_st0 _ _ _ w Hw) (trk_init _ _ _ (st0_of w) _ _ new eq_refl eq_refl) Hrun)
    as [Hinv Htk].
  exists new, b1, st1.
  split; [exact HG|]. split; [exact Hn|]. split; [exact Hok|]. split; [exact Hrun|].
  split; [reflexivity|]. split; [reflexivity|]. split; assumption.
Qed.

(** validity of a cache entry in a world *)
Definition wvalid (w : world) (d : digest) : Prop :=
  valid_cached (w_now w) (w_out w) (w_cache w) (w_times w) d.

Theorem exec_iff always ts w w1 e1 L :
  winv w -> build_in_scope ts w -> load_world w ts = LOk L ->
  build_with always ts w = (w1, e1, BOk) ->
  forall r,
    In r e1 <->
    reach_rule L ts r /\
    exists F d, sdig L (w_rules w) (w_src w) F r = Some d /\ (~ wvalid w d \/ always = true).
Proof.
  intros Hw Hs Hl Hb r.
  destruct (build_ok_run always ts w w1 e1 L Hw Hs Hl Hb)
    as (new & b1 & st1 & HG & Hn & Hok & Hrun & -> & -> & Hinv & Htk).
  destruct (load_world_inv w ts L Hl) as (stl & Hrr & Hre & Htopo & Hts).
  assert (Hsrcnd : forall n, In n L -> ntype n = TSrc -> ndeps n = []).
  { intros n Hn' Hty. eapply loaded_src_nodeps; eauto. eapply read_roots_nonsrc; eauto. }
  rewrite (reach_rule_visited L ts new r (wg_wf _ _ _ HG) Hts Hsrcnd Hn).
  destruct Htk as [Ta To _ _ Tm _]. destruct Hinv as [[F HF] _ _ _].
  assert (Hvalid0 : forall d, hitb (w_now w) (st0_of w) d = false <-> ~ wvalid w d).
  { intros d. unfold wvalid. rewrite <- (hitb_valid (w_now w) (st0_of w) d).
    destruct (hitb (w_now w) (st0_of w) d); intuition congruence. }
  split.
  - intros Hr. destruct (To r Hr) as (y & Hy & <- & Hty).
    split; [exists y; auto|].
    destruct (Tm y Hy) as [d Hd]. exists F, d. split; [now apply HF|].
    destruct (proj1 (Ta y d Hy Hty Hd) Hr) as [H|H]; [left; now apply Hvalid0|now right].
  - intros [(x & Hx & <- & Hty) (F' & d & Hd & Hnv)].
    destruct (Tm x Hx) as [d' Hd']. pose proof (HF _ _ Hd') as Hd2.
    pose proof (sdig_unique _ _ _ _ _ _ _ _ Hd Hd2) as <-.
    apply (Ta x d Hx Hty Hd'). destruct Hnv as [H|H]; [left; now apply Hvalid0|now right].
Qed.

(** * A rebuild with nothing changed executes nothing *)

Section AllHits.
  Variables (L : list node) (rules : list rule) (src : list (name * stat)).
  Hypothesis HG : wfG L rules src.
  Variable ts : list name.
  Variable now : N.

  Let vis := visit L rules src false now.

  Lemma run_all_hits : forall rest done b st,
    post_ok L ts [] (done ++ rest) ->
    binv L rules src st ->
    (forall y, In y done -> exists d, In (nname y, d) (b_memo st)) ->
    spec_ok L rules src rest ->
    (forall x F d, In x rest -> ntype x = TRule -> sdig L rules src F (nname x) = Some d ->
                   hitb now st d = true) ->
    exists b' st', LoadProofs.run bstate (bstate * failure) vis rest (b, st) = inl (b', st') /\
      b_out st' = b_out st /\ b_cache st' = b_cache st /\ b_clock st' = b_clock st /\
      b_exec st' = b_exec st /\ b_times st' = b_times st.
  Proof.
    induction rest as [|x rest IH]; intros done b st Hok Hinv Hdone Hspec Hhits.
    - exists b, st. simpl. auto 6.
    - simpl.
      destruct (po_nodes _ _ _ _ Hok x) as (Hx & _); [apply in_app_iff; right; now left|].
      assert (Hdeps : forall k, In k (ndeps x) -> exists d, In (k, d) (b_memo st)).
      { intros k Hk. destruct (po_deps _ _ _ _ Hok done x rest eq_refl k Hk) as [[]|Hkd].
        apply in_map_iff in Hkd. destruct Hkd as [y [<- Hy]]. auto. }
      destruct (visit_succeeds L rules src HG false now x st Hinv Hx Hdeps) as [st1 Hv].
      { intros y r fs ss gs is' [<-|[]]. apply Hspec. now left. }
      fold vis in Hv. rewrite Hv.
      pose proof (visit_inv L rules src HG false now x st Hinv Hx) as Hinv1. fold vis in Hinv1.
      rewrite Hv in Hinv1.
      destruct (visit_memo L rules src false now x st st1 Hv) as [dx Hmemo].
      (* the visit changed nothing but the memo *)
      assert (Hsame : b_out st1 = b_out st /\ b_cache st1 = b_cache st /\
                      b_clock st1 = b_clock st /\ b_exec st1 = b_exec st /\ b_times st1 = b_times st).
      { destruct (visit_effect L rules src false now x st st1 Hv)
          as [d Hnr ->|r dd ex Hty Hr Hdd Hexr d Hhit _ ->|r dd ex Hty Hr Hdd Hexr d Hhit _ _ _ _ _ _];
          simpl; auto 6.
        exfalso. destruct Hinv as [[F HF] _ _ _].
        pose proof (visit_digest L rules src HG x r _ dd F _ ex Hx Hty Hr HF Hdd Hexr) as Hd.
        destruct Hhit as [Hhit|Hhit]; [|discriminate].
        rewrite (Hhits x (S F) d (or_introl eq_refl) Hty Hd) in Hhit. discriminate. }
      destruct Hsame as (E1 & E2 & E3 & E4 & E5).
      destruct (IH (done ++ [x])%list (nname x :: b) st1) as (b' & st' & Hrun & A & B & C & D & E).
      + now rewrite <- app_assoc.
      + assumption.
      + intros y Hy. rewrite Hmemo. apply in_app_iff in Hy. destruct Hy as [Hy|[<-|[]]].
        * destruct (Hdone y Hy) as [dy Hdy]. exists dy. now right.
        * exists dx. now left.
      + intros y r fs ss gs is' Hy. apply Hspec. now right.
      + intros z F d Hz Htz Hsz. unfold hitb. rewrite E1, E2, E5.
        exact (Hhits z F d (or_intror Hz) Htz Hsz).
      + exists b', st'. split; [exact Hrun|]. repeat split; congruence.
  Qed.
End AllHits.

Theorem noop_rebuild always ts w w1 e1 :
  winv w -> build_in_scope ts w -> build_with always ts w = (w1, e1, BOk) ->
  build ts w1 = (w1, [], BOk).
Proof.
  intros Hw Hs Hb.
  destruct (load_world w ts) as [|es|L] eqn:Hl;
    try (unfold build_with in Hb; rewrite Hl in Hb; discriminate).
  destruct (build_ok_run always ts w w1 e1 L Hw Hs Hl Hb)
    as (new & b1 & st1 & HG & Hn & Hok & Hrun & -> & -> & Hinv & Htk).
  set (w1 := with_state w st1).
  assert (Hl1 : load_world w1 ts = LOk L) by exact Hl.
  destruct (build_unfold false ts w1 L Hl1 (wg_wf _ _ _ HG)) as [new1 [Hn1 Hbu]].
  rewrite Hn in Hn1. injection Hn1 as <-.
  change (w_rules w1) with (w_rules w) in Hbu. change (w_src w1) with (w_src w) in Hbu.
  change (w_now w1) with (w_now w) in Hbu.
  (* every visited file set has a computable content; every visited rule is validly cached *)
  destruct (run_memo _ _ _ _ _ _ _ _ _ _ Hrun) as [_ Hmemo1].
  assert (Hnodes : forall x, In x new -> find_node (nname x) L = Some x).
  { intros x Hx. destruct (po_nodes _ _ _ _ Hok x Hx) as [H _]. exact H. }
  assert (Hspec : spec_ok L (w_rules w) (w_src w) new).
  { intros x r fs ss gs is' Hx Hty Hr Hk. destruct (Hmemo1 x Hx) as [d Hd].
    destruct Hinv as [_ [F HF] _ _].
    destruct (HF (nname x) d x r fs ss gs is' Hd (Hnodes x Hx) Hty Hr Hk) as (l & s & Hsc & _). eauto. }
  assert (Hw1 : winv w1).
  { destruct Hinv as [_ _ Hc Hf]. split; assumption. }
  destruct (run_all_hits L (w_rules w) (w_src w) HG ts (w_now w) new [] [] (st0_of w1))
    as (b2 & st2 & Hrun2 & A & B & C & D & E); auto.
  - exact (binv_st0 _ _ _ w1 Hw1).
  - intros y [].
  - intros x F d Hx Hty Hd. destruct (Hmemo1 x Hx) as [d' Hd'].
    destruct Hinv as [[F1 HF1] _ _ _]. pose proof (HF1 _ _ Hd') as Hd2.
    pose proof (sdig_unique _ _ _ _ _ _ _ _ Hd Hd2) as ->.
    exact (tk_valid _ _ _ _ _ _ _ _ _ Htk x d' Hx Hty Hd').
  - unfold build. rewrite Hbu, Hrun2. simpl in A, B, C, D, E.
    unfold with_state. simpl. rewrite A, B, C, D, E. reflexivity.
Qed.

(** * A rule whose execution failed has no cache entry *)

Lemma run_fail_split {St Er} (vis : node -> St -> St + Er) new : forall b st err,
  LoadProofs.run St Er vis new (b, st) = inr err ->
  exists done x rest b1 st1,
    new = (done ++ x :: rest)%list /\
    LoadProofs.run St Er vis done (b, st) = inl (b1, st1) /\ vis x st1 = inr err.
Proof.
  induction new as [|y new IH]; intros b st err H; simpl in H; [discriminate|].
  destruct (vis y st) as [st1|e1] eqn:Hv.
  - destruct (IH _ _ _ H) as (done & x & rest & b1 & st2 & -> & Hr & Hx).
    exists (y :: done), x, rest, b1, st2. simpl. rewrite Hv. auto.
  - injection H as <-. exists [], y, new, b, st. simpl. auto.
Qed.

Theorem failed_not_cached always ts w w' ex e L :
  winv w -> build_in_scope ts w -> load_world w ts = LOk L ->
  build_with always ts w = (w', ex, BFail e) ->
  exists ex0 x F d,
    ex = (ex0 ++ [x])%list /\ reach_rule L ts x /\
    sdig L (w_rules w) (w_src w) F x = Some d /\
    cache_get d (w_cache w') = None.
Proof.
  intros Hw Hs Hl Hb. unfold build_in_scope in Hs. rewrite Hl in Hs.
  pose proof (load_world_wfG w ts L Hl Hs) as HG.
  pose proof (wg_wf _ _ _ HG) as Hwf.
  destruct (load_world_inv w ts L Hl) as (stl & Hrr & Hre & Htopo & Hts).
  assert (Hsrcnd : forall n, In n L -> ntype n = TSrc -> ndeps n = []).
  { intros n Hn' Hty. eapply loaded_src_nodeps; eauto. eapply read_roots_nonsrc; eauto. }
  destruct (build_unfold always ts w L Hl Hwf) as [new [Hn Hbu]].
  destruct (post_targets_spec L Hwf ts [] new Hn) as [Hok _].
  rewrite Hb in Hbu.
  destruct (LoadProofs.run bstate (bstate * failure) (visit L (w_rules w) (w_src w) always (w_now w))
              new ([], st0_of w))
    as [[b1 st1]|[st1 e1]] eqn:Hrun; [discriminate|].
  injection Hbu as -> -> ->.
  destruct (run_fail_split _ _ _ _ _ Hrun) as (done & x & rest & b1 & st2 & -> & Hrd & Hvx).
  (* the state before the failing visit *)
  assert (Hnodes : forall y, In y (done ++ x :: rest) -> find_node (nname y) L = Some y).
  { intros y Hy. destruct (po_nodes _ _ _ _ Hok y Hy) as [H _]. exact H. }
  pose proof (run_inv L (w_rules w) (w_src w) HG always (w_now w) done [] (st0_of w)
                (binv_st0 _ _ _ w Hw)) as Hinv2.
  rewrite Hrd in Hinv2.
  assert (Hinv : binv L (w_rules w) (w_src w) st2).
  { apply Hinv2. intros y Hy. apply Hnodes. apply in_app_iff. now left. }
  destruct (run_memo _ _ _ _ _ _ _ _ _ _ Hrd) as [_ Hmemo].
  assert (Hx : find_node (nname x) L = Some x) by (apply Hnodes; apply in_app_iff; right; now left).
  assert (Hxin : In x L) by (apply find_node_Some in Hx; tauto).
  assert (Hdeps : forall k, In k (ndeps x) -> exists d, lookup k (b_memo st2) = Some d).
  { intros k Hk. destruct (po_deps _ _ _ _ Hok done x rest eq_refl k Hk) as [[]|Hkd].
    apply in_map_iff in Hkd. destruct Hkd as [y [<- Hy]].
    destruct (Hmemo y Hy) as [d Hd]. apply In_fst_lookup. apply in_map_iff. exists (nname y, d). auto. }
  (* analysis of the failing visit *)
  unfold visit in Hvx.
  destruct (collect_total (fun d => lookup d (b_memo st2)) (ndeps x) Hdeps) as [dd Hdd].
  rewrite dep_digests_collect, Hdd in Hvx.
  destruct (ntype x) eqn:Hty.
  - destruct (wg_src _ _ _ HG x Hxin Hty) as [s Hsrc]. rewrite Hsrc in Hvx. discriminate.
  - destruct (wg_rule _ _ _ HG x Hxin Hty) as (r & Hr & Hdeps'). rewrite Hr in Hvx.
    destruct (rule_extras_total L (w_rules w) (w_src w) HG _ r (b_out st2) Hr) as [exr Hexr].
    rewrite Hexr in Hvx. cbv zeta in Hvx.
    set (d := DRuleD (rdigest_of r) (canon_deps dd) (node_outs (w_rules w) x) exr) in *.
    destruct (hitb (w_now w) st2 d && negb always); [discriminate|].
    assert (Hd : exists F, sdig L (w_rules w) (w_src w) F (nname x) = Some d).
    { destruct Hinv as [[F HF] _ _ _]. exists (S F).
      exact (visit_digest L (w_rules w) (w_src w) HG x r _ dd F _ exr Hx Hty Hr HF Hdd Hexr). }
    destruct Hd as [F Hd].
    assert (Hreach : reach_rule L ts (nname x)).
    { apply (reach_rule_visited L ts _ (nname x) Hwf Hts Hsrcnd Hn).
      exists x. repeat split; auto. apply in_app_iff. right. now left. }
    unfold exec_rule, log in Hvx. cbn [b_out b_cache b_clock b_memo b_exec b_times] in Hvx.
    pose proof (find_rule_name _ _ _ Hr) as Hrn.
    destruct (r_kind r) as [files sels igns incs|ds] eqn:Hk.
    + destruct Hdeps' as (fl & Hex & _). rewrite Hex in Hvx.
      destruct (fileset_content L (w_rules w) (w_src w) (b_out st2) fl incs) as [l|e2] eqn:Hc.
      * rewrite Hrn in Hvx.
        assert (Hno : node_outs (w_rules w) x = [fileset_out (nname x)])
          by (unfold node_outs; now rewrite Hr, Hk).
        rewrite Hno in Hvx. unfold new_built in Hvx. cbn [fold_right] in Hvx.
        rewrite lookup_set_same in Hvx. discriminate.
      * injection Hvx as <- <-. simpl.
        exists (b_exec st2), (nname x), F, d. repeat split; auto.
        apply cache_get_remove_same.
    + assert (Hno : node_outs (w_rules w) x = []) by (unfold node_outs; now rewrite Hr, Hk).
      rewrite Hno in Hvx. cbn [new_built fold_right] in Hvx. discriminate.
  - discriminate.
Qed.

(** * After a successful build every reachable rule is validly cached *)

Theorem built_is_cached always ts w w1 e1 L :
  winv w -> build_in_scope ts w -> load_world w ts = LOk L ->
  build_with always ts w = (w1, e1, BOk) ->
  forall r F d, reach_rule L ts r -> sdig L (w_rules w) (w_src w) F r = Some d -> wvalid w1 d.
Proof.
  intros Hw Hs Hl Hb r F d Hreach Hd.
  destruct (build_ok_run always ts w w1 e1 L Hw Hs Hl Hb)
    as (new & b1 & st1 & HG & Hn & Hok & Hrun & -> & -> & Hinv & Htk).
  destruct (load_world_inv w ts L Hl) as (stl & Hrr & Hre & Htopo & Hts).
  assert (Hsrcnd : forall n, In n L -> ntype n = TSrc -> ndeps n = []).
  { intros n Hn' Hty. eapply loaded_src_nodeps; eauto. eapply read_roots_nonsrc; eauto. }
  apply (reach_rule_visited L ts new r (wg_wf _ _ _ HG) Hts Hsrcnd Hn) in Hreach.
  destruct Hreach as (x & Hx & <- & Hty).
  destruct (tk_memo_done _ _ _ _ _ _ _ _ _ Htk x Hx) as [d' Hd'].
  destruct Hinv as [[F1 HF1] _ _ _]. pose proof (HF1 _ _ Hd') as Hd2.
  pose proof (sdig_unique _ _ _ _ _ _ _ _ Hd Hd2) as ->.
  unfold wvalid. simpl.
  apply (hitb_valid (w_now w) st1 d'). exact (tk_valid _ _ _ _ _ _ _ _ _ Htk x d' Hx Hty Hd').
Qed.

(** * Expiry only ever causes re-execution *)

(** An expired entry is not a hit: the rule is executed (and what it
    writes is again what a clean build writes, by [incremental_eq_clean],
    which holds for every history, also those in which time passes). *)
Theorem expired_is_rebuilt always ts w w1 e1 L :
  winv w -> build_in_scope ts w -> load_world w ts = LOk L ->
  build_with always ts w = (w1, e1, BOk) ->
  forall r F d, reach_rule L ts r -> sdig L (w_rules w) (w_src w) F r = Some d ->
    live (w_now w) (w_times w) d = false -> In r e1.
Proof.
  intros Hw Hs Hl Hb r F d Hreach Hd Hlive.
  apply (exec_iff always ts w w1 e1 L Hw Hs Hl Hb). split; [assumption|].
  exists F, d. split; [assumption|]. left. intros (b & _ & Hlv & _). congruence.
Qed.

(** * The statements over whole histories (as used by Props/C10.v) *)

Theorem cache_valid_hist h rs src :
  hist_in_scope h (empty_world rs src) -> winv (run h (empty_world rs src)).
Proof. intros Hs. apply run_hist_inv; [apply winv_empty|assumption]. Qed.

Theorem incremental_eq_clean_hist h rs src always always' ts w1 e1 L :
  hist_in_scope h (empty_world rs src) ->
  let w := run h (empty_world rs src) in
  build_in_scope ts w -> load_world w ts = LOk L -> build_with always ts w = (w1, e1, BOk) ->
  exists w2 e2, build_with always' ts (clean w) = (w2, e2, BOk) /\
    forall r rl fs ss gs is',
      reach_rule L ts r -> find_rule r (w_rules w) = Some rl -> r_kind rl = KFileSet fs ss gs is' ->
      exists l, content_at (w_out w1) (fileset_out r) = Some (CList l) /\
                content_at (w_out w2) (fileset_out r) = Some (CList l).
Proof.
  intros Hh w Hs Hl Hb. eapply incremental_eq_clean; eauto. now apply cache_valid_hist.
Qed.

Theorem noop_rebuild_hist h rs src always ts w1 e1 :
  hist_in_scope h (empty_world rs src) ->
  let w := run h (empty_world rs src) in
  build_in_scope ts w -> build_with always ts w = (w1, e1, BOk) -> build ts w1 = (w1, [], BOk).
Proof. intros Hh w Hs Hb. eapply noop_rebuild; eauto. now apply cache_valid_hist. Qed.

Theorem exec_iff_hist h rs src always ts w1 e1 L :
  hist_in_scope h (empty_world rs src) ->
  let w := run h (empty_world rs src) in
  build_in_scope ts w -> load_world w ts = LOk L -> build_with always ts w = (w1, e1, BOk) ->
  forall r,
    In r e1 <->
    reach_rule L ts r /\
    exists F d, sdig L (w_rules w) (w_src w) F r = Some d /\ (~ wvalid w d \/ always = true).
Proof. intros Hh w Hs Hl Hb. eapply exec_iff; eauto. now apply cache_valid_hist. Qed.

Theorem built_is_cached_hist h rs src always ts w1 e1 L :
  hist_in_scope h (empty_world rs src) ->
  let w := run h (empty_world rs src) in
  build_in_scope ts w -> load_world w ts = LOk L -> build_with always ts w = (w1, e1, BOk) ->
  forall r F d, reach_rule L ts r -> sdig L (w_rules w) (w_src w) F r = Some d -> wvalid w1 d.
Proof. intros Hh w Hs Hl Hb. eapply built_is_cached; eauto. now apply cache_valid_hist. Qed.

Theorem expired_is_rebuilt_hist h rs src always ts w1 e1 L :
  hist_in_scope h (empty_world rs src) ->
  let w := run h (empty_world rs src) in
  build_in_scope ts w -> load_world w ts = LOk L -> build_with always ts w = (w1, e1, BOk) ->
  forall r F d, reach_rule L ts r -> sdig L (w_rules w) (w_src w) F r = Some d ->
    live (w_now w) (w_times w) d = false -> In r e1.
Proof. intros Hh w Hs Hl Hb. eapply expired_is_rebuilt; eauto. now apply cache_valid_hist. Qed.

Theorem failed_not_cached_hist h rs src always ts w' ex e L :
  hist_in_scope h (empty_world rs src) ->
  let w := run h (empty_world rs src) in
  build_in_scope ts w -> load_world w ts = LOk L -> build_with always ts w = (w', ex, BFail e) ->
  exists ex0 x F d,
    ex = (ex0 ++ [x])%list /\ reach_rule L ts x /\
    sdig L (w_rules w) (w_src w) F x = Some d /\ cache_get d (w_cache w') = None.
Proof. intros Hh w Hs Hl Hb. eapply failed_not_cached; eauto. now apply cache_valid_hist. Qed.

(** a build never runs out of the model's fuel *)
Theorem build_total always ts w : snd (build_with always ts w) <> BOutOfFuel.
Proof.
  unfold build_with. destruct (load_world w ts) as [|es|L] eqn:Hl; simpl; try discriminate.
  - exfalso. unfold load_world, load_nodes in Hl.
    destruct (read_roots (graph_of w) [""]) as [st|] eqn:Hr;
      [|now apply (read_roots_terminates (graph_of w) [""])].
    destruct (r_errs st); [|discriminate].
    destruct (load_all_spec (r_nodes st) (src_kind (w_src w)) ts) as [s' [El _]].
    rewrite El in Hl. destruct (l_errs s'); discriminate.
  - destruct (load_world_inv w ts L Hl) as (st & _ & _ & Htopo & _).
    pose proof (topo_wf _ _ _ Htopo) as Hwf.
    destruct (post_targets_total L Hwf ts []) as [new Hn].
    rewrite (dfs_targets_post L bstate (bstate * failure) _ _ ts [] _ new Hn).
    destruct (LoadProofs.run _ _ _ new _) as [[b st']|[st' e]]; simpl; discriminate.
Qed.

(** * What did not change is not rebuilt; what changed is *)

Definition is_edit (o : op) : bool :=
  match o with OSetSrc _ _ | OSetRules _ => true | _ => false end.

(** edits, and time passing *)
Definition is_edit_or_time (o : op) : bool :=
  match o with OSetSrc _ _ | OSetRules _ | OAdvance _ => true | _ => false end.

Lemma run_edits_same edits : forall w,
  forallb is_edit_or_time edits = true ->
  w_out (run edits w) = w_out w /\ w_cache (run edits w) = w_cache w /\
  w_clock (run edits w) = w_clock w /\ w_times (run edits w) = w_times w.
Proof.
  induction edits as [|o edits IH]; intros w H; simpl in *; [auto|].
  apply andb_true_iff in H. destruct H as [Ho Hr].
  destruct (IH (step w o) Hr) as (A & B & C & D). rewrite A, B, C, D.
  destruct o; simpl in *; try discriminate; auto.
Qed.

Lemma is_edit_time edits : forallb is_edit edits = true -> forallb is_edit_or_time edits = true.
Proof.
  induction edits as [|o edits IH]; simpl; [auto|]. intros H. apply andb_true_iff in H.
  destruct H as [Ho Hr]. rewrite (IH Hr). destruct o; simpl in *; try discriminate; reflexivity.
Qed.

Lemma run_edits_now edits : forall w, forallb is_edit edits = true -> w_now (run edits w) = w_now w.
Proof.
  induction edits as [|o edits IH]; intros w H; simpl in *; [auto|].
  apply andb_true_iff in H. destruct H as [Ho Hr]. rewrite (IH _ Hr).
  destruct o; simpl in *; try discriminate; auto.
Qed.

(** After a successful build, source and rule edits (outputs left alone, no
    time passing), and another successful build: a rule that was reachable
    before and whose action digest is the same as before is not executed. *)
Theorem unchanged_not_rebuilt always ts w w1 e1 L edits ts2 w3 e3 L2 :
  winv w -> build_in_scope ts w -> load_world w ts = LOk L -> build_with always ts w = (w1, e1, BOk) ->
  forallb is_edit edits = true ->
  let w2 := run edits w1 in
  build_in_scope ts2 w2 -> load_world w2 ts2 = LOk L2 -> build ts2 w2 = (w3, e3, BOk) ->
  forall r F d F2,
    reach_rule L ts r -> sdig L (w_rules w) (w_src w) F r = Some d ->
    sdig L2 (w_rules w2) (w_src w2) F2 r = Some d ->
    ~ In r e3.
Proof.
  intros Hw Hs Hl Hb Hed w2 Hs2 Hl2 Hb2 r F d F2 Hreach Hd Hd2 Hin.
  pose proof (built_is_cached always ts w w1 e1 L Hw Hs Hl Hb r F d Hreach Hd) as Hvalid.
  destruct (run_edits_same edits w1 (is_edit_time _ Hed)) as (A & B & C & D). fold w2 in A, B, C, D.
  pose proof (run_edits_now edits w1 Hed) as E. fold w2 in E.
  assert (Hw1 : winv w1).
  { pose proof (build_inv always ts w Hw Hs) as H. now rewrite Hb in H. }
  assert (Hw2 : winv w2).
  { unfold winv. rewrite A, B, C. exact Hw1. }
  apply (exec_iff false ts2 w2 w3 e3 L2 Hw2 Hs2 Hl2 Hb2) in Hin.
  destruct Hin as [_ (F' & d' & Hd' & Hnv)].
  pose proof (sdig_unique _ _ _ _ _ _ _ _ Hd2 Hd') as <-.
  destruct Hnv as [Hnv|Hnv]; [|discriminate].
  apply Hnv. unfold wvalid. rewrite A, B, D, E. exact Hvalid.
Qed.

Lemma entry_ok_fs out d b nm fs ss gs is' dl outs ex :
  entry_ok out d b -> d = DRuleD (RDFileSet nm fs ss gs is') dl outs ex ->
  exists s, b = [(fileset_out nm, s)].
Proof.
  intros (L0 & rules0 & src0 & x0 & n0 & r0 & f & _ & Hn & Hty & Hr & Hd & Hk) ->.
  destruct (sdig_of_rule _ _ _ _ _ _ _ _ Hn Hty Hr Hd) as (f' & dd & ex' & _ & _ & _ & E).
  injection E as Erd _ _ _. unfold rdigest_of in Erd.
  pose proof (find_rule_name _ _ _ Hr) as Hnm.
  destruct (r_kind r0); [|discriminate]. injection Erd as -> _ _ _ _.
  destruct Hk as (l & s & -> & _). rewrite <- Hnm. eauto.
Qed.

(** After a successful build, source and rule edits, any amount of time
    (outputs left alone) and another successful build of any targets: a file
    set that was reachable before, is reachable now, and whose action digest
    differs from the one it had, is executed. *)
Theorem changed_is_rebuilt always always2 ts w w1 e1 L edits ts2 w3 e3 L2 :
  winv w -> build_in_scope ts w -> load_world w ts = LOk L -> build_with always ts w = (w1, e1, BOk) ->
  forallb is_edit_or_time edits = true ->
  let w2 := run edits w1 in
  build_in_scope ts2 w2 -> load_world w2 ts2 = LOk L2 -> build_with always2 ts2 w2 = (w3, e3, BOk) ->
  forall r rl0 fs0 ss0 gs0 is0 rl fs ss gs is' F d F2 d2,
    reach_rule L ts r -> reach_rule L2 ts2 r ->
    find_rule r (w_rules w) = Some rl0 -> r_kind rl0 = KFileSet fs0 ss0 gs0 is0 ->
    find_rule r (w_rules w2) = Some rl -> r_kind rl = KFileSet fs ss gs is' ->
    sdig L (w_rules w) (w_src w) F r = Some d ->
    sdig L2 (w_rules w2) (w_src w2) F2 r = Some d2 ->
    d <> d2 -> In r e3.
Proof.
  intros Hw Hs Hl Hb Hed w2 Hs2 Hl2 Hb2 r rl0 fs0 ss0 gs0 is0 rl fs ss gs is' F d F2 d2
         Hreach Hreach2 Hr0 Hk0 Hr2 Hk2 Hd Hd2 Hne.
  pose proof (built_is_cached always ts w w1 e1 L Hw Hs Hl Hb r F d Hreach Hd) as Hvalid.
  destruct (run_edits_same edits w1 Hed) as (A & B & C & D). fold w2 in A, B, C, D.
  assert (Hw1 : winv w1).
  { pose proof (build_inv always ts w Hw Hs) as H. now rewrite Hb in H. }
  assert (Hw2 : winv w2).
  { unfold winv. rewrite A, B, C. exact Hw1. }
  apply (exec_iff always2 ts2 w2 w3 e3 L2 Hw2 Hs2 Hl2 Hb2). split; [assumption|].
  exists F2, d2. split; [assumption|]. left. unfold wvalid. rewrite A, B, D. intros Hvalid2.
  destruct Hw1 as [Hc1 (_ & _ & Huniq)].
  (* shapes of the two digests and of their entries *)
  destruct Hreach as (t & n & _ & _ & Hn & Hty).
  destruct (sdig_of_rule _ _ _ _ _ _ _ _ Hn Hty Hr0 Hd) as (f1 & dd1 & ex1 & _ & _ & _ & E1).
  destruct Hreach2 as (t2 & n2 & _ & _ & Hn2 & Hty2).
  destruct (sdig_of_rule _ _ _ _ _ _ _ _ Hn2 Hty2 Hr2 Hd2) as (f2 & dd2 & ex2 & _ & _ & _ & E2).
  unfold rdigest_of in E1, E2. rewrite Hk0 in E1. rewrite Hk2 in E2.
  rewrite (find_rule_name _ _ _ Hr0) in E1. rewrite (find_rule_name _ _ _ Hr2) in E2.
  destruct Hvalid as (b1 & Hg1 & _ & Hsame1). destruct Hvalid2 as (b2 & Hg2 & _ & Hsame2).
  simpl in Hg1, Hsame1.
  destruct (entry_ok_fs _ _ _ _ _ _ _ _ _ _ _ (Hc1 _ _ Hg1) E1) as [s1 ->].
  destruct (entry_ok_fs _ _ _ _ _ _ _ _ _ _ _ (Hc1 _ _ Hg2) E2) as [s2 ->].
  apply same_built_single in Hsame1, Hsame2.
  destruct Hsame1 as [c1 Hl1]. destruct Hsame2 as [c2 Hl2']. rewrite Hl1 in Hl2'.
  injection Hl2' as _ <-.
  apply Hne. apply (Huniq d d2 _ _ (fileset_out r) s1 Hg1 Hg2); now left.
Qed.

Theorem unchanged_not_rebuilt_hist h rs src always ts w1 e1 L edits ts2 w3 e3 L2 :
  hist_in_scope h (empty_world rs src) ->
  let w := run h (empty_world rs src) in
  build_in_scope ts w -> load_world w ts = LOk L -> build_with always ts w = (w1, e1, BOk) ->
  forallb is_edit edits = true ->
  let w2 := run edits w1 in
  build_in_scope ts2 w2 -> load_world w2 ts2 = LOk L2 -> build ts2 w2 = (w3, e3, BOk) ->
  forall r F d F2,
    reach_rule L ts r -> sdig L (w_rules w) (w_src w) F r = Some d ->
    sdig L2 (w_rules w2) (w_src w2) F2 r = Some d ->
    ~ In r e3.
Proof. intros Hh w. apply unchanged_not_rebuilt. now apply cache_valid_hist. Qed.

Theorem changed_is_rebuilt_hist h rs src always always2 ts w1 e1 L edits ts2 w3 e3 L2 :
  hist_in_scope h (empty_world rs src) ->
  let w := run h (empty_world rs src) in
  build_in_scope ts w -> load_world w ts = LOk L -> build_with always ts w = (w1, e1, BOk) ->
  forallb is_edit_or_time edits = true ->
  let w2 := run edits w1 in
  build_in_scope ts2 w2 -> load_world w2 ts2 = LOk L2 -> build_with always2 ts2 w2 = (w3, e3, BOk) ->
  forall r rl0 fs0 ss0 gs0 is0 rl fs ss gs is' F d F2 d2,
    reach_rule L ts r -> reach_rule L2 ts2 r ->
    find_rule r (w_rules w) = Some rl0 -> r_kind rl0 = KFileSet fs0 ss0 gs0 is0 ->
    find_rule r (w_rules w2) = Some rl -> r_kind rl = KFileSet fs ss gs is' ->
    sdig L (w_rules w) (w_src w) F r = Some d ->
    sdig L2 (w_rules w2) (w_src w2) F2 r = Some d2 ->
    d <> d2 -> In r e3.
Proof. intros Hh w. apply changed_is_rebuilt. now apply cache_valid_hist. Qed.

(** Both directions together: exactly the file sets whose action digest
    changed are re-executed. *)
Theorem minimal_rebuild_hist h rs src always ts w1 e1 L edits ts2 w3 e3 L2 :
  hist_in_scope h (empty_world rs src) ->
  let w := run h (empty_world rs src) in
  build_in_scope ts w -> load_world w ts = LOk L -> build_with always ts w = (w1, e1, BOk) ->
  forallb is_edit edits = true ->
  let w2 := run edits w1 in
  build_in_scope ts2 w2 -> load_world w2 ts2 = LOk L2 -> build ts2 w2 = (w3, e3, BOk) ->
  forall r rl0 fs0 ss0 gs0 is0 rl fs ss gs is' F d F2 d2,
    reach_rule L ts r -> reach_rule L2 ts2 r ->
    find_rule r (w_rules w) = Some rl0 -> r_kind rl0 = KFileSet fs0 ss0 gs0 is0 ->
    find_rule r (w_rules w2) = Some rl -> r_kind rl = KFileSet fs ss gs is' ->
    sdig L (w_rules w) (w_src w) F r = Some d ->
    sdig L2 (w_rules w2) (w_src w2) F2 r = Some d2 ->
    (In r e3 <-> d <> d2).
Proof.
  intros Hh w Hs Hl Hb Hed w2 Hs2 Hl2 Hb2 r rl0 fs0 ss0 gs0 is0 rl fs ss gs is' F d F2 d2
         Hreach Hreach2 Hr0 Hk0 Hr2 Hk2 Hd Hd2.
  split.
  - intros Hin E. subst d2.
    exact (unchanged_not_rebuilt_hist h rs src always ts w1 e1 L edits ts2 w3 e3 L2 Hh Hs Hl Hb Hed Hs2 Hl2 Hb2
             r F d F2 Hreach Hd Hd2 Hin).
  - intros Hne.
    exact (changed_is_rebuilt_hist h rs src always false ts w1 e1 L edits ts2 w3 e3 L2 Hh Hs Hl Hb
             (is_edit_time _ Hed) Hs2 Hl2 Hb2
             r rl0 fs0 ss0 gs0 is0 rl fs ss gs is' F d F2 d2 Hreach Hreach2 Hr0 Hk0 Hr2 Hk2 Hd Hd2 Hne).
Qed.

(** * The scope hypothesis as a computation *)

Lemma build_in_scopeb_ok ts w : build_in_scopeb ts w = true -> build_in_scope ts w.
Proof. unfold build_in_scopeb, build_in_scope. destruct (load_world w ts); auto. Qed.

Lemma hist_in_scopeb_ok h : forall w, hist_in_scopeb h w = true -> hist_in_scope h w.
Proof.
  induction h as [|o h IH]; intros w H; simpl in *; [exact I|].
  apply andb_true_iff in H. destruct H as [H1 H2]. split; [|now apply IH].
  destruct o; simpl; auto; now apply build_in_scopeb_ok.
Qed.
