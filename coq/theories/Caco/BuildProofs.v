(** Proofs about the incremental build model of Caco/Build.v (C10). *)
From Coq Require Import List String Bool Arith NArith Lia Relations Ascii.
From Verif Require Import Caco.Load Caco.LoadProofs Caco.Build.
Import ListNotations.
Local Open Scope string_scope.

(** * Decidable equalities used by the model *)

Lemma list_eqb_spec {A} (eqb : A -> A -> bool) :
  (forall x y, eqb x y = true <-> x = y) ->
  forall a b, list_eqb eqb a b = true <-> a = b.
Proof.
  intros H. induction a as [|x a IH]; destruct b as [|y b]; simpl; try (split; congruence).
  rewrite andb_true_iff, H, IH. split; [intros [-> ->]; reflexivity|intros [= -> ->]; auto].
Qed.

Lemma stat_eqb_spec a b : stat_eqb a b = true <-> a = b.
Proof.
  destruct a, b. unfold stat_eqb. simpl.
  rewrite !andb_true_iff, !N.eqb_eq, String.eqb_eq. split.
  - intros [[[-> ->] ->] ->]. reflexivity.
  - intros [= -> -> -> ->]. auto.
Qed.

Lemma sel_eqb_spec a b : sel_eqb a b = true <-> a = b.
Proof.
  destruct a, b; simpl; try (split; congruence).
  - rewrite andb_true_iff, !String.eqb_eq. split; [intros [-> ->]; reflexivity|intros [= -> ->]; auto].
  - rewrite String.eqb_eq. split; [intros ->; reflexivity|intros [= ->]; auto].
Qed.

Lemma str_list_eqb_spec a b : list_eqb String.eqb a b = true <-> a = b.
Proof. apply list_eqb_spec. intros x y. apply String.eqb_eq. Qed.

Lemma rdigest_eqb_spec a b : rdigest_eqb a b = true <-> a = b.
Proof.
  destruct a, b; simpl; try (split; congruence).
  - rewrite !andb_true_iff, String.eqb_eq, !str_list_eqb_spec, (list_eqb_spec sel_eqb sel_eqb_spec).
    split; [intros [[[-> ->] ->] ->]; reflexivity|intros [= -> -> -> ->]; auto].
  - rewrite String.eqb_eq. split; [intros ->; reflexivity|intros [= ->]; auto].
Qed.

Scheme digest_mind := Induction for digest Sort Prop
  with dlist_mind := Induction for dlist Sort Prop.
Combined Scheme digest_dlist_ind from digest_mind, dlist_mind.

Lemma digest_eqb_spec_both :
  (forall a b, digest_eqb a b = true <-> a = b) /\
  (forall a b, dlist_eqb a b = true <-> a = b).
Proof.
  apply digest_dlist_ind.
  - intros nm s [nm' s'| |]; simpl; try (split; congruence).
    rewrite andb_true_iff, String.eqb_eq, stat_eqb_spec.
    split; [intros [-> ->]; reflexivity|intros [= -> ->]; auto].
  - intros rd deps IH outs [|rd' deps' outs'|]; simpl; try (split; congruence).
    rewrite !andb_true_iff, rdigest_eqb_spec, IH, str_list_eqb_spec.
    split; [intros [[-> ->] ->]; reflexivity|intros [= -> -> ->]; auto].
  - intros deps IH o [| |deps' o']; simpl; try (split; congruence).
    rewrite andb_true_iff, IH, String.eqb_eq.
    split; [intros [-> ->]; reflexivity|intros [= -> ->]; auto].
  - intros [|]; simpl; split; congruence.
  - intros nm d IHd rest IHr [|nm' d' rest']; simpl; try (split; congruence).
    rewrite !andb_true_iff, String.eqb_eq, IHd, IHr.
    split; [intros [[-> ->] ->]; reflexivity|intros [= -> -> ->]; auto].
Qed.

Lemma digest_eqb_spec a b : digest_eqb a b = true <-> a = b.
Proof. apply digest_eqb_spec_both. Qed.

Lemma digest_eqb_refl a : digest_eqb a a = true.
Proof. now apply digest_eqb_spec. Qed.

Lemma digest_eqb_false a b : digest_eqb a b = false <-> a <> b.
Proof.
  rewrite <- digest_eqb_spec. destruct (digest_eqb a b); intuition congruence.
Qed.

(** * The cache as a finite map *)

Lemma cache_get_remove_same d c : cache_get d (cache_remove d c) = None.
Proof.
  induction c as [|[d' b] c IH]; simpl; [reflexivity|].
  destruct (digest_eqb d d') eqn:E; simpl; [assumption|]. now rewrite E.
Qed.

Lemma cache_get_remove_other d d' c :
  d <> d' -> cache_get d' (cache_remove d c) = cache_get d' c.
Proof.
  intros Hne. induction c as [|[d2 b] c IH]; simpl; [reflexivity|].
  destruct (digest_eqb d d2) eqn:E; simpl.
  - apply digest_eqb_spec in E. subst d2.
    assert (digest_eqb d' d = false) by (apply digest_eqb_false; congruence).
    now rewrite H.
  - destruct (digest_eqb d' d2); [reflexivity|assumption].
Qed.

Lemma cache_get_put_same d b c : cache_get d (cache_put d b c) = Some b.
Proof. unfold cache_put. simpl. now rewrite digest_eqb_refl. Qed.

Lemma cache_get_put_other d d' b c :
  d <> d' -> cache_get d' (cache_put d b c) = cache_get d' (c).
Proof.
  intros Hne. unfold cache_put. simpl.
  assert (digest_eqb d' d = false) by (apply digest_eqb_false; congruence).
  rewrite H. now apply cache_get_remove_other.
Qed.

(** * Association lists *)

Lemma lookup_set_other {A} k k' (v : option A) l :
  k <> k' -> lookup k' (set_assoc k v l) = lookup k' l.
Proof.
  intros Hne. induction l as [|[k2 x] l IH]; simpl.
  - destruct v; simpl; [|reflexivity].
    destruct (String.eqb_spec k' k); [congruence|reflexivity].
  - destruct (String.eqb_spec k k2) as [->|Hk].
    + destruct v; simpl.
      * destruct (String.eqb_spec k' k2); [congruence|reflexivity].
      * destruct (String.eqb_spec k' k2); [congruence|reflexivity].
    + simpl. destruct (String.eqb_spec k' k2); [reflexivity|assumption].
Qed.

Lemma lookup_set_some {A} k (x : A) l : lookup k (set_assoc k (Some x) l) = Some x.
Proof.
  induction l as [|[k2 y] l IH]; simpl.
  - now rewrite String.eqb_refl.
  - destruct (String.eqb_spec k k2) as [->|Hk]; simpl.
    + now rewrite String.eqb_refl.
    + destruct (String.eqb_spec k k2); [congruence|assumption].
Qed.

Lemma str_length_append (a b : string) :
  String.length (a ++ b) = String.length a + String.length b.
Proof. induction a as [|c a IH]; simpl; [reflexivity|]. now rewrite IH. Qed.

Lemma append_inj_l (a b s : string) : (a ++ s = b ++ s)%string -> a = b.
Proof.
  revert b. induction a as [|c a IH]; intros b H.
  - destruct b as [|d b]; [reflexivity|]. simpl in H. exfalso.
    assert (Hl : String.length s = String.length (String d (b ++ s))) by now rewrite <- H.
    simpl in Hl. rewrite str_length_append in Hl. lia.
  - destruct b as [|d b]; simpl in H.
    + exfalso.
      assert (Hl : String.length (String c (a ++ s)) = String.length s) by now rewrite H.
      simpl in Hl. rewrite str_length_append in Hl. lia.
    + injection H as -> H. f_equal. now apply IH.
Qed.

Lemma fileset_out_inj a b : fileset_out a = fileset_out b -> a = b.
Proof. apply append_inj_l. Qed.

(** * The dependency map of an action digest *)

Fixpoint dl_lookup (k : name) (l : dlist) : option digest :=
  match l with
  | DNil => None
  | DCons n d r => if String.eqb k n then Some d else dl_lookup k r
  end.

Lemma dl_lookup_insert k n d l :
  dl_lookup k (dl_insert n d l) = if String.eqb k n then Some d else dl_lookup k l.
Proof.
  induction l as [|n' d' r IH]; simpl; [reflexivity|].
  destruct (String.eqb_spec n n') as [->|Hn]; simpl.
  - destruct (String.eqb k n'); reflexivity.
  - destruct (String.leb n n'); simpl.
    + reflexivity.
    + rewrite IH. destruct (String.eqb_spec k n') as [->|Hk]; [|reflexivity].
      destruct (String.eqb_spec n' n); [congruence|reflexivity].
Qed.

(** the last binding of [k] in an association list *)
Definition lookup_last (k : name) (l : list (name * digest)) (init : option digest) : option digest :=
  fold_left (fun acc p => if String.eqb k (fst p) then Some (snd p) else acc) l init.

Lemma canon_deps_lookup_gen k l acc :
  dl_lookup k (fold_left (fun acc p => dl_insert (fst p) (snd p) acc) l acc)
  = lookup_last k l (dl_lookup k acc).
Proof.
  revert acc. induction l as [|[n d] l IH]; intros acc; simpl; [reflexivity|].
  rewrite IH, dl_lookup_insert. reflexivity.
Qed.

Lemma canon_deps_lookup k l : dl_lookup k (canon_deps l) = lookup_last k l None.
Proof. unfold canon_deps. now rewrite canon_deps_lookup_gen. Qed.

(** When the list is the graph of a function [g] over [deps]. *)
Lemma lookup_last_graph k (g : name -> digest) deps init :
  lookup_last k (map (fun d => (d, g d)) deps) init =
  if mem k deps then Some (g k) else init.
Proof.
  revert init. induction deps as [|d deps IH]; intros init; simpl; [reflexivity|].
  rewrite IH. destruct (String.eqb_spec k d) as [->|Hk]; simpl.
  - destruct (mem d deps); reflexivity.
  - reflexivity.
Qed.

(** * What a configuration determines: digests and file-set contents *)
Section Spec.
  Variable L : list node.
  Variable rules : list rule.
  Variable src : list (name * stat).

  Definition collect {A} (g : name -> option A) (deps : list name) : option (list (name * A)) :=
    fold_right (fun d acc =>
                  match acc, g d with
                  | Some l, Some x => Some ((d, x) :: l)
                  | _, _ => None
                  end) (Some []) deps.

  (** The digest of node [nm] in this configuration ([buildNodeDigest] over
      the digests of the dependencies). *)
  Fixpoint sdig (fuel : nat) (nm : name) : option digest :=
    match fuel with
    | O => None
    | S f =>
        match find_node nm L with
        | None => None
        | Some n =>
            match ntype n with
            | TSrc => match lookup nm src with Some s => Some (DSrc nm s) | None => None end
            | TOut => match collect (sdig f) (ndeps n) with
                      | Some dd => Some (DOutD (canon_deps dd) nm)
                      | None => None
                      end
            | TRule =>
                match find_rule nm rules, collect (sdig f) (ndeps n) with
                | Some r, Some dd => Some (DRuleD (rdigest_of r) (canon_deps dd) (node_outs rules n))
                | _, _ => None
                end
            end
        end
    end.

  (** The list a file set writes when every included file set has the
      content this function gives it. *)
  Definition spec_outs (g : name -> option (list entry + failure)) (incs : list name)
    : list (name * (content * N)) :=
    flat_map (fun i => match g i with
                       | Some (inl l) => [(fileset_out i, (CList l, 0%N))]
                       | _ => []
                       end) incs.

  Fixpoint scont (fuel : nat) (nm : name) : option (list entry + failure) :=
    match fuel with
    | O => None
    | S f =>
        match find_rule nm rules with
        | Some r =>
            match r_kind r with
            | KFileSet files sels incs =>
                match expand_files (map fst src) files sels with
                | Some fl => Some (fileset_content L rules src (spec_outs (scont f) incs) fl incs)
                | None => None
                end
            | KBundle _ => None
            end
        | None => None
        end
    end.
End Spec.

Lemma collect_spec {A} (g : name -> option A) deps dd :
  collect g deps = Some dd <->
  Forall2 (fun d p => fst p = d /\ g d = Some (snd p)) deps dd.
Proof.
  revert dd. induction deps as [|d deps IH]; intros dd; simpl.
  - split; [intros [= <-]; constructor|intros H; inversion H; reflexivity].
  - split.
    + intros H. destruct (collect g deps) as [l|] eqn:E; [|discriminate].
      destruct (g d) as [x|] eqn:Ex; [|discriminate]. injection H as <-.
      constructor; [simpl; auto|]. now apply IH.
    + intros H. inversion H as [|d0 p deps0 dd0 Hp Hr]; subst.
      destruct p as [d' x']. simpl in Hp. destruct Hp as [-> Hx].
      apply IH in Hr. now rewrite Hr, Hx.
Qed.

Lemma collect_ext {A} (g g' : name -> option A) deps :
  (forall d, In d deps -> g d = g' d) -> collect g deps = collect g' deps.
Proof.
  induction deps as [|d deps IH]; intros H; simpl; [reflexivity|].
  rewrite IH, (H d (or_introl eq_refl)); [reflexivity|]. intros x Hx. apply H. now right.
Qed.

Lemma collect_some_in {A} (g : name -> option A) deps : forall dd d,
  collect g deps = Some dd -> In d deps -> exists x, g d = Some x.
Proof.
  induction deps as [|a deps IH]; intros dd d H Hin; [destruct Hin|].
  simpl in H. destruct (collect g deps) as [l|] eqn:E; [|discriminate].
  destruct (g a) as [x|] eqn:Ex; [|discriminate].
  destruct Hin as [<-|Hin]; [eauto|eapply IH; eauto].
Qed.

Lemma collect_graph {A} (g : name -> option A) (h : name -> A) deps : forall dd,
  collect g deps = Some dd -> (forall d, In d deps -> g d = Some (h d)) ->
  dd = map (fun d => (d, h d)) deps.
Proof.
  induction deps as [|a deps IH]; intros dd H Hh; simpl in *.
  - now injection H as <-.
  - destruct (collect g deps) as [l|] eqn:E; [|discriminate].
    destruct (g a) as [x|] eqn:Ex; [|discriminate]. injection H as <-.
    rewrite (Hh a (or_introl eq_refl)) in Ex. injection Ex as <-.
    f_equal. apply IH; [reflexivity|]. intros d Hd. apply Hh. now right.
Qed.

Lemma collect_mono {A} (g g' : name -> option A) deps dd :
  (forall d x, In d deps -> g d = Some x -> g' d = Some x) ->
  collect g deps = Some dd -> collect g' deps = Some dd.
Proof.
  revert dd. induction deps as [|a deps IH]; intros dd Hm H; simpl in *; [assumption|].
  destruct (collect g deps) as [l|] eqn:E; [|discriminate].
  destruct (g a) as [x|] eqn:Ex; [|discriminate]. injection H as <-.
  rewrite (IH l); [|intros d y Hd; apply Hm; now right|reflexivity].
  now rewrite (Hm a x (or_introl eq_refl) Ex).
Qed.

(** * Dependence of [fileSet.build] on out/ *)
Section ContentExt.
  Variable L : list node.
  Variable rules : list rule.
  Variable src : list (name * stat).

  Definition content_at (out : list (name * (content * N))) (o : name) : option content :=
    match lookup o out with Some (c, _) => Some c | None => None end.

  (** none of the files is an output node *)
  Definition no_out_files (fl : list name) : Prop :=
    forall f n, In f fl -> find_node f L = Some n -> ntype n <> TOut.

  Lemma file_entries_ext out out' fl :
    no_out_files fl -> file_entries L src out fl = file_entries L src out' fl.
  Proof.
    induction fl as [|f fl IH]; intros Hno; simpl; [reflexivity|].
    assert (Hf : file_entry L src out f = file_entry L src out' f).
    { unfold file_entry. destruct (find_node f L) as [n|] eqn:Hn; [|reflexivity].
      destruct (ntype n) eqn:Hty; try reflexivity.
      exfalso. apply (Hno f n (or_introl eq_refl) Hn Hty). }
    rewrite Hf, IH; [reflexivity|]. intros g n Hg. apply Hno. now right.
  Qed.

  Lemma include_entries_ext out out' i :
    content_at out (fileset_out i) = content_at out' (fileset_out i) ->
    include_entries L rules out i = include_entries L rules out' i.
  Proof.
    unfold include_entries, content_at. intros H.
    destruct (find_node i L) as [n|]; [|reflexivity].
    destruct (ntype n); try reflexivity.
    destruct (find_rule i rules) as [r|]; [|reflexivity].
    destruct (r_kind r); [|reflexivity].
    destruct (lookup (fileset_out i) out) as [[c s]|], (lookup (fileset_out i) out') as [[c' s']|];
      try discriminate; try reflexivity.
    injection H as ->. reflexivity.
  Qed.

  Lemma includes_entries_ext out out' incs :
    (forall i, In i incs -> content_at out (fileset_out i) = content_at out' (fileset_out i)) ->
    includes_entries L rules out incs = includes_entries L rules out' incs.
  Proof.
    induction incs as [|i incs IH]; intros H; simpl; [reflexivity|].
    rewrite (include_entries_ext out out' i (H i (or_introl eq_refl))), IH; [reflexivity|].
    intros j Hj. apply H. now right.
  Qed.

  Lemma fileset_content_ext out out' fl incs :
    no_out_files fl ->
    (forall i, In i incs -> content_at out (fileset_out i) = content_at out' (fileset_out i)) ->
    fileset_content L rules src out fl incs = fileset_content L rules src out' fl incs.
  Proof.
    intros Hno H. unfold fileset_content.
    now rewrite (file_entries_ext out out' fl Hno), (includes_entries_ext out out' incs H).
  Qed.

  (** A successful execution found every included list. *)
  Lemma includes_entries_ok out incs l :
    includes_entries L rules out incs = inl l ->
    forall i, In i incs ->
      exists n r files sels incs' li s,
        find_node i L = Some n /\ ntype n = TRule /\ find_rule i rules = Some r /\
        r_kind r = KFileSet files sels incs' /\
        lookup (fileset_out i) out = Some (CList li, s).
  Proof.
    revert l. induction incs as [|j incs IH]; intros l H i Hi; [destruct Hi|].
    simpl in H. destruct (include_entries L rules out j) as [lj|e] eqn:Ej; [|discriminate].
    destruct (includes_entries L rules out incs) as [l'|e] eqn:E'; [|discriminate].
    destruct Hi as [<-|Hi]; [|eapply IH; eauto].
    unfold include_entries in Ej.
    destruct (find_node j L) as [n|] eqn:Hn; [|discriminate].
    destruct (ntype n) eqn:Hty; try discriminate.
    destruct (find_rule j rules) as [r|] eqn:Hr; [|discriminate].
    destruct (r_kind r) as [files sels incs'|] eqn:Hk; [|discriminate].
    destruct (lookup (fileset_out j) out) as [[[li|] s]|] eqn:Hl; try discriminate.
    exists n, r, files, sels, incs', li, s. auto.
  Qed.

  Lemma fileset_content_ok out fl incs l :
    fileset_content L rules src out fl incs = inl l ->
    forall i, In i incs ->
      exists n r files sels incs' li s,
        find_node i L = Some n /\ ntype n = TRule /\ find_rule i rules = Some r /\
        r_kind r = KFileSet files sels incs' /\
        lookup (fileset_out i) out = Some (CList li, s).
  Proof.
    unfold fileset_content. intros H.
    destruct (file_entries L src out fl); [|discriminate].
    destruct (includes_entries L rules out incs) as [inc|] eqn:E; [|discriminate].
    eapply includes_entries_ok; eauto.
  Qed.
End ContentExt.

Lemma lookup_spec_outs g incs i :
  lookup (fileset_out i) (spec_outs g incs) =
  if mem i incs then match g i with Some (inl l) => Some (CList l, 0%N) | _ => None end else None.
Proof.
  induction incs as [|j incs IH]; simpl; [reflexivity|].
  destruct (String.eqb_spec i j) as [->|Hij]; simpl.
  - destruct (g j) as [[l|e]|]; simpl.
    + now rewrite String.eqb_refl.
    + rewrite IH. destruct (mem j incs); reflexivity.
    + rewrite IH. destruct (mem j incs); reflexivity.
  - destruct (g j) as [[l|e]|]; simpl; try assumption.
    destruct (String.eqb_spec (fileset_out i) (fileset_out j)) as [E|E]; [|assumption].
    apply fileset_out_inj in E. congruence.
Qed.

Section SpecMono.
  Variable L : list node.
  Variable rules : list rule.
  Variable src : list (name * stat).

  Lemma sdig_S : forall f nm d, sdig L rules src f nm = Some d -> sdig L rules src (S f) nm = Some d.
  Proof.
    induction f as [|f IH]; intros nm d H; [discriminate|].
    remember (S f) as f1. simpl. subst f1. simpl in H.
    destruct (find_node nm L) as [n|]; [|discriminate].
    destruct (ntype n).
    - exact H.
    - destruct (find_rule nm rules) as [r|]; [|discriminate].
      destruct (collect (sdig L rules src f) (ndeps n)) as [dd|] eqn:E; [|discriminate].
      rewrite (collect_mono _ (sdig L rules src (S f)) _ dd (fun d x _ Hx => IH d x Hx) E). exact H.
    - destruct (collect (sdig L rules src f) (ndeps n)) as [dd|] eqn:E; [|discriminate].
      rewrite (collect_mono _ (sdig L rules src (S f)) _ dd (fun d x _ Hx => IH d x Hx) E). exact H.
  Qed.

  Lemma sdig_mono f f' nm d :
    f <= f' -> sdig L rules src f nm = Some d -> sdig L rules src f' nm = Some d.
  Proof. induction 1 as [|m Hle IH]; [auto|]. intros H0. apply sdig_S. auto. Qed.

  Lemma sdig_unique f f' nm d d' :
    sdig L rules src f nm = Some d -> sdig L rules src f' nm = Some d' -> d = d'.
  Proof.
    intros H H'. apply (sdig_mono f (Nat.max f f')) in H; [|lia].
    apply (sdig_mono f' (Nat.max f f')) in H'; [|lia]. congruence.
  Qed.
End SpecMono.

(** * Well-formed configurations *)

Lemma find_rule_name k rules r : find_rule k rules = Some r -> r_name r = k.
Proof.
  induction rules as [|r' rules IH]; simpl; [discriminate|].
  destruct (String.eqb_spec k (r_name r')); [intros [= <-]; auto|auto].
Qed.

(** A loaded list [L] together with the rules and sources it was loaded from.
    The last two clauses are the scope restrictions of the model: file sets
    list source files, not outputs; and no rule or output bears the name of a
    source file (the loader would silently prefer the rule). *)
Record wfG (L : list node) (rules : list rule) (src : list (name * stat)) : Prop := mkWf {
  wg_wf : wf_loaded L;
  wg_rule : forall n, In n L -> ntype n = TRule ->
      exists r, find_rule (nname n) rules = Some r /\
        match r_kind r with
        | KFileSet files sels incs =>
            exists fl, expand_files (map fst src) files sels = Some fl /\
                       ndeps n = (fl ++ incs)%list
        | KBundle deps => ndeps n = deps
        end;
  wg_noout : forall nm r files sels incs fl,
      find_rule nm rules = Some r -> r_kind r = KFileSet files sels incs ->
      expand_files (map fst src) files sels = Some fl -> no_out_files L fl;
  wg_noshadow : forall n, In n L -> ntype n <> TSrc -> lookup (nname n) src = None
}.

Section SpecMono2.
  Variable L : list node.
  Variable rules : list rule.
  Variable src : list (name * stat).
  Hypothesis HG : wfG L rules src.

  Lemma scont_S : forall f nm l,
    scont L rules src f nm = Some (inl l) -> scont L rules src (S f) nm = Some (inl l).
  Proof.
    induction f as [|f IH]; intros nm l H; [discriminate|].
    remember (S f) as f1. simpl. subst f1. simpl in H.
    destruct (find_rule nm rules) as [r|] eqn:Hr; [|discriminate].
    destruct (r_kind r) as [files sels incs|] eqn:Hk; [|discriminate].
    destruct (expand_files (map fst src) files sels) as [fl|] eqn:He; [|discriminate].
    injection H as H. f_equal. rewrite <- H. symmetry.
    apply fileset_content_ext; [eapply wg_noout; eauto|].
    intros i Hi. unfold content_at.
    destruct (fileset_content_ok _ _ _ _ _ _ _ H i Hi)
      as (n & r' & fs' & ss' & is' & li & s & _ & _ & _ & _ & Hl).
    rewrite Hl. rewrite lookup_spec_outs in Hl |- *.
    destruct (mem i incs); [|discriminate].
    destruct (scont L rules src f i) as [[l'|e]|] eqn:Ei; try discriminate.
    injection Hl as -> _. now rewrite (IH i li Ei).
  Qed.

  Lemma scont_mono f f' nm l :
    f <= f' -> scont L rules src f nm = Some (inl l) -> scont L rules src f' nm = Some (inl l).
  Proof. induction 1 as [|m Hle IH]; [auto|]. intros H0. apply scont_S. auto. Qed.

  Lemma scont_unique f f' nm l l' :
    scont L rules src f nm = Some (inl l) -> scont L rules src f' nm = Some (inl l') -> l = l'.
  Proof.
    intros H H'. apply (scont_mono f (Nat.max f f')) in H; [|lia].
    apply (scont_mono f' (Nat.max f f')) in H'; [|lia]. congruence.
  Qed.
End SpecMono2.

(** * Shape lemmas for [sdig] *)
Section SdigShape.
  Variable L : list node.
  Variable rules : list rule.
  Variable src : list (name * stat).

  Lemma sdig_rule_inv f x rd dl outs :
    sdig L rules src f x = Some (DRuleD rd dl outs) ->
    exists f' n r dd, f = S f' /\ find_node x L = Some n /\ ntype n = TRule /\
      find_rule x rules = Some r /\ rd = rdigest_of r /\
      collect (sdig L rules src f') (ndeps n) = Some dd /\ dl = canon_deps dd /\
      outs = node_outs rules n.
  Proof.
    destruct f as [|f']; [discriminate|]. simpl.
    destruct (find_node x L) as [n|] eqn:Hn; [|discriminate].
    destruct (ntype n) eqn:Hty.
    - destruct (lookup x src); discriminate.
    - destruct (find_rule x rules) as [r|] eqn:Hr; [|discriminate].
      destruct (collect (sdig L rules src f') (ndeps n)) as [dd|] eqn:Hc; [|discriminate].
      intros [= <- <- <-]. exists f', n, r, dd. auto 10.
    - destruct (collect (sdig L rules src f') (ndeps n)); discriminate.
  Qed.

  Lemma sdig_src_inv f x k s :
    sdig L rules src f x = Some (DSrc k s) ->
    k = x /\ exists n, find_node x L = Some n /\ ntype n = TSrc /\ lookup x src = Some s.
  Proof.
    destruct f as [|f']; [discriminate|]. simpl.
    destruct (find_node x L) as [n|] eqn:Hn; [|discriminate].
    destruct (ntype n) eqn:Hty.
    - destruct (lookup x src) as [s'|] eqn:Hs; [|discriminate].
      intros [= <- <-]. split; [reflexivity|]. exists n. auto.
    - destruct (find_rule x rules); [|discriminate].
      destruct (collect (sdig L rules src f') (ndeps n)); discriminate.
    - destruct (collect (sdig L rules src f') (ndeps n)); discriminate.
  Qed.

  Lemma sdig_of_src f x n s :
    find_node x L = Some n -> ntype n = TSrc -> lookup x src = Some s ->
    forall d, sdig L rules src f x = Some d -> d = DSrc x s.
  Proof.
    intros Hn Hty Hs d. destruct f as [|f']; [discriminate|]. simpl.
    rewrite Hn, Hty, Hs. congruence.
  Qed.

  Lemma sdig_of_rule f x n r d :
    find_node x L = Some n -> ntype n = TRule -> find_rule x rules = Some r ->
    sdig L rules src f x = Some d ->
    exists f' dd, f = S f' /\ collect (sdig L rules src f') (ndeps n) = Some dd /\
                  d = DRuleD (rdigest_of r) (canon_deps dd) (node_outs rules n).
  Proof.
    intros Hn Hty Hr. destruct f as [|f']; [discriminate|]. simpl.
    rewrite Hn, Hty, Hr.
    destruct (collect (sdig L rules src f') (ndeps n)) as [dd|] eqn:Hc; [|discriminate].
    intros [= <-]. exists f', dd. repeat split; auto.
  Qed.
End SdigShape.

(** [file_entries] when every file is a source node. *)
Lemma file_entries_src L src out fl (st : name -> stat) :
  (forall k, In k fl -> exists n, find_node k L = Some n /\ ntype n = TSrc /\
                                  lookup k src = Some (st k)) ->
  file_entries L src out fl = inl (map (fun k => ESrc k (st k)) fl).
Proof.
  induction fl as [|k fl IH]; intros H; simpl; [reflexivity|].
  destruct (H k (or_introl eq_refl)) as (n & Hn & Hty & Hs).
  unfold file_entry. rewrite Hn, Hty, Hs.
  rewrite IH; [reflexivity|]. intros j Hj. apply H. now right.
Qed.

(** a successful [file_entries] over non-output nodes saw source nodes only *)
Lemma file_entries_ok_src L src out fl own :
  no_out_files L fl -> file_entries L src out fl = inl own ->
  forall k, In k fl -> exists n s, find_node k L = Some n /\ ntype n = TSrc /\ lookup k src = Some s.
Proof.
  revert own. induction fl as [|j fl IH]; intros own Hno H k Hk; [destruct Hk|].
  simpl in H. destruct (file_entry L src out j) as [en|e] eqn:Ej; [|discriminate].
  destruct (file_entries L src out fl) as [l|e] eqn:El; [|discriminate].
  destruct Hk as [<-|Hk].
  - unfold file_entry in Ej. destruct (find_node j L) as [n|] eqn:Hn; [|discriminate].
    destruct (ntype n) eqn:Hty; try discriminate.
    + destruct (lookup j src) as [s|] eqn:Hs; [|discriminate]. exists n, s. auto.
    + exfalso. apply (Hno j n (or_introl eq_refl) Hn Hty).
  - eapply IH; eauto. intros g n Hg. apply Hno. now right.
Qed.

(** [includes_entries] when every include is a built file set. *)
Lemma includes_entries_fs L rules out incs (li : name -> list entry) :
  (forall i, In i incs -> exists n r files sels incs' s,
     find_node i L = Some n /\ ntype n = TRule /\ find_rule i rules = Some r /\
     r_kind r = KFileSet files sels incs' /\ lookup (fileset_out i) out = Some (CList (li i), s)) ->
  includes_entries L rules out incs = inl (flat_map li incs).
Proof.
  induction incs as [|i incs IH]; intros H; simpl; [reflexivity|].
  destruct (H i (or_introl eq_refl)) as (n & r & fs & ss & is' & s & Hn & Hty & Hr & Hk & Hl).
  unfold include_entries. rewrite Hn, Hty, Hr, Hk, Hl.
  rewrite IH; [reflexivity|]. intros j Hj. apply H. now right.
Qed.

Lemma uniform_fuel (P : nat -> name -> Prop) (incs : list name) :
  (forall f f' i, f <= f' -> P f i -> P f' i) ->
  (forall i, In i incs -> exists f, P f i) ->
  exists f, forall i, In i incs -> P f i.
Proof.
  intros Hm. induction incs as [|i incs IH]; intros H.
  - exists 0. intros i [].
  - destruct (H i (or_introl eq_refl)) as [fi Hi].
    destruct IH as [f Hf]; [intros j Hj; apply H; now right|].
    exists (Nat.max fi f). intros j [<-|Hj].
    + apply (Hm fi); [lia|assumption].
    + apply (Hm f); [lia|auto].
Qed.

Lemma expand_files_In names files sels fl k :
  expand_files names files sels = Some fl ->
  (In k fl <-> In k files \/ (In k names /\ existsb (fun s => sel_matches s k) sels = true)).
Proof.
  unfold expand_files. destruct (forallb _ sels); [|discriminate]. intros [= <-].
  rewrite sort_dedup_In, in_app_iff, filter_In. reflexivity.
Qed.

Lemma expand_files_ssorted names files sels fl :
  expand_files names files sels = Some fl -> ssorted fl.
Proof.
  unfold expand_files. destruct (forallb _ sels); [|discriminate]. intros [= <-].
  apply sort_dedup_ssorted.
Qed.

Lemma lookup_In_fst {A} k (l : list (name * A)) v : lookup k l = Some v -> In k (map fst l).
Proof.
  induction l as [|[k' v'] l IH]; simpl; [discriminate|].
  destruct (String.eqb_spec k k'); [intros _; left; congruence|intros H; right; auto].
Qed.

Lemma In_fst_lookup {A} k (l : list (name * A)) : In k (map fst l) -> exists v, lookup k l = Some v.
Proof.
  induction l as [|[k' v'] l IH]; simpl; [intros []|].
  destruct (String.eqb_spec k k'); [eauto|]. intros [E|H]; [congruence|auto].
Qed.

(** * The digest determines the output

    Two configurations (possibly from different moments of a history) in
    which a file-set rule has the same action digest: if executing it
    succeeded in the one, it succeeds in the other and writes the same list.
    This is where "the digest covers every input" is proved. *)
Section Key.
  Variables (L : list node) (rules : list rule) (src : list (name * stat)).
  Variables (L0 : list node) (rules0 : list rule) (src0 : list (name * stat)).
  Hypothesis HG : wfG L rules src.
  Hypothesis HG0 : wfG L0 rules0 src0.

  Let dflt : digest := DSrc "" (mkStat 0 0 0 "").

  Lemma key_lemma : forall f x d,
    sdig L rules src f x = Some d ->
    forall f0 x0, sdig L0 rules0 src0 f0 x0 = Some d ->
    forall n r files sels incs,
      find_node x L = Some n -> ntype n = TRule -> find_rule x rules = Some r ->
      r_kind r = KFileSet files sels incs ->
    forall g0 l0, scont L0 rules0 src0 g0 x0 = Some (inl l0) ->
    exists g, scont L rules src g x = Some (inl l0).
  Proof.
    induction f as [|f' IH]; intros x d Hd f0 x0 Hd0 n r files sels incs Hn Hty Hr Hk g0 l0 Hc0;
      [discriminate|].
    (* the digest in G *)
    destruct (sdig_of_rule _ _ _ _ _ _ _ _ Hn Hty Hr Hd) as (f1 & dd & Ef & Hcol & ->).
    injection Ef as <-.
    (* the same digest in G0 *)
    destruct (sdig_rule_inv _ _ _ _ _ _ _ _ Hd0)
      as (f0' & n0 & r0 & dd0 & -> & Hn0 & Hty0 & Hr0 & Hrd & Hcol0 & Hcan & Houts).
    (* same rule definition *)
    assert (Hk0 : r_kind r0 = KFileSet files sels incs /\ x = x0).
    { unfold rdigest_of in Hrd. rewrite Hk in Hrd.
      pose proof (find_rule_name _ _ _ Hr) as N1. pose proof (find_rule_name _ _ _ Hr0) as N2.
      destruct (r_kind r0); [|discriminate]. injection Hrd as E1 E2 E3 E4. subst.
      split; [reflexivity|congruence]. }
    destruct Hk0 as [Hk0 <-].
    (* the successful execution in G0 *)
    destruct g0 as [|g0']; [discriminate|]. simpl in Hc0. rewrite Hr0, Hk0 in Hc0.
    destruct (expand_files (map fst src0) files sels) as [fl0|] eqn:Hex0; [|discriminate].
    injection Hc0 as Hc0.
    (* dependencies of the two nodes *)
    assert (Hin : In n L) by (apply find_node_Some in Hn; tauto).
    assert (Hin0 : In n0 L0) by (apply find_node_Some in Hn0; tauto).
    assert (Hnm : nname n = x) by (apply find_node_Some in Hn; tauto).
    assert (Hnm0 : nname n0 = x) by (apply find_node_Some in Hn0; tauto).
    destruct (wg_rule _ _ _ HG n Hin Hty) as (r' & Hr' & Hdeps). rewrite Hnm, Hr in Hr'.
    injection Hr' as <-. rewrite Hk in Hdeps. destruct Hdeps as (fl & Hex & Hnd).
    destruct (wg_rule _ _ _ HG0 n0 Hin0 Hty0) as (r0' & Hr0' & Hdeps0). rewrite Hnm0, Hr0 in Hr0'.
    injection Hr0' as <-. rewrite Hk0 in Hdeps0. destruct Hdeps0 as (fl0' & Hex0' & Hnd0).
    rewrite Hex0 in Hex0'. injection Hex0' as <-.
    (* the dependency maps as graphs of functions *)
    set (h := fun k => match sdig L rules src f' k with Some dk => dk | None => dflt end).
    set (h0 := fun k => match sdig L0 rules0 src0 f0' k with Some dk => dk | None => dflt end).
    assert (Hh : forall k, In k (ndeps n) -> sdig L rules src f' k = Some (h k)).
    { intros k Hk'. destruct (collect_some_in _ _ _ _ Hcol Hk') as [dk Hdk]. unfold h. now rewrite Hdk. }
    assert (Hh0 : forall k, In k (ndeps n0) -> sdig L0 rules0 src0 f0' k = Some (h0 k)).
    { intros k Hk'. destruct (collect_some_in _ _ _ _ Hcol0 Hk') as [dk Hdk]. unfold h0. now rewrite Hdk. }
    pose proof (collect_graph _ h _ _ Hcol Hh) as Edd.
    pose proof (collect_graph _ h0 _ _ Hcol0 Hh0) as Edd0.
    assert (Hmap : forall k,
               (if mem k (fl ++ incs) then Some (h k) else None) =
               (if mem k (fl0 ++ incs) then Some (h0 k) else None)).
    { intros k. rewrite <- Hnd, <- Hnd0.
      rewrite <- (lookup_last_graph k h (ndeps n) None), <- (lookup_last_graph k h0 (ndeps n0) None).
      rewrite <- Edd, <- Edd0, <- !canon_deps_lookup. now rewrite Hcan. }
    assert (Hmem : forall k, In k (fl ++ incs)%list -> In k (fl0 ++ incs)%list /\ h k = h0 k).
    { intros k Hk'. specialize (Hmap k). apply mem_In in Hk'. rewrite Hk' in Hmap.
      destruct (mem k (fl0 ++ incs)) eqn:E; [|discriminate]. apply mem_In in E.
      split; [assumption|congruence]. }
    assert (Hmem0 : forall k, In k (fl0 ++ incs)%list -> In k (fl ++ incs)%list /\ h k = h0 k).
    { intros k Hk'. specialize (Hmap k). apply mem_In in Hk'. rewrite Hk' in Hmap.
      destruct (mem k (fl ++ incs)) eqn:E; [|discriminate]. apply mem_In in E.
      split; [assumption|congruence]. }
    (* what the success in G0 tells *)
    pose proof (wg_noout _ _ _ HG0 _ _ _ _ _ _ Hr0 Hk0 Hex0) as Hno0.
    unfold fileset_content in Hc0.
    destruct (file_entries L0 src0 (spec_outs (scont L0 rules0 src0 g0') incs) fl0)
      as [own0|] eqn:Hown0; [|discriminate].
    destruct (includes_entries L0 rules0 (spec_outs (scont L0 rules0 src0 g0') incs) incs)
      as [inc0|] eqn:Hinc0; [|discriminate].
    injection Hc0 as Hl0.
    pose proof (file_entries_ok_src _ _ _ _ _ Hno0 Hown0) as Hsrc0.
    pose proof (includes_entries_ok _ _ _ _ _ Hinc0) as Hincs0.
    (* the same files *)
    assert (Hfl : fl = fl0).
    { apply ssorted_ext; [eapply expand_files_ssorted; eauto|eapply expand_files_ssorted; eauto|].
      intros k. split; intros Hk'.
      - destruct (Hmem k) as [Hk0' Hhk]; [apply in_app_iff; now left|].
        apply in_app_iff in Hk0'. destruct Hk0' as [Hk0'|Hk0']; [assumption|].
        (* k is an include: a rule in G0, hence a rule in G; but it is a selected or listed file *)
        destruct (Hincs0 k Hk0') as (nk & rk & fs' & ss' & is' & lk & sk & Hnk & Htk & Hrk & Hkk & _).
        assert (Hdk0 : sdig L0 rules0 src0 f0' k = Some (h0 k)).
        { apply Hh0. rewrite Hnd0. apply in_app_iff. now right. }
        destruct (sdig_of_rule _ _ _ _ _ _ _ _ Hnk Htk Hrk Hdk0) as (fk & ddk & _ & _ & Ehk).
        assert (Hdk : sdig L rules src f' k = Some (h k)).
        { apply Hh. rewrite Hnd. apply in_app_iff. now left. }
        rewrite Hhk, Ehk in Hdk.
        destruct (sdig_rule_inv _ _ _ _ _ _ _ _ Hdk) as (_ & nk' & _ & _ & _ & Hnk' & Htk' & _).
        apply (expand_files_In _ _ _ _ k Hex) in Hk'. destruct Hk' as [Hk'|[Hk' _]].
        + apply (expand_files_In _ _ _ _ k Hex0). now left.
        + exfalso. apply In_fst_lookup in Hk'. destruct Hk' as [v Hv].
          assert (Hnone : lookup (nname nk') src = None).
          { apply (wg_noshadow _ _ _ HG nk'); [apply find_node_Some in Hnk'; tauto|congruence]. }
          apply find_node_Some in Hnk'. destruct Hnk' as [_ E]. rewrite E in Hnone. congruence.
      - destruct (Hmem0 k) as [Hk1 Hhk]; [apply in_app_iff; now left|].
        apply in_app_iff in Hk1. destruct Hk1 as [Hk1|Hk1]; [assumption|].
        exfalso. destruct (Hsrc0 k Hk') as (nk & sk & Hnk & Htk & _).
        destruct (Hincs0 k Hk1) as (nk' & _ & _ & _ & _ & _ & _ & Hnk' & Htk' & _).
        congruence. }
    subst fl0.
    (* the same stats *)
    set (st := fun k => match lookup k src0 with Some s => s | None => mkStat 0 0 0 "" end).
    assert (Hfiles0 : forall k, In k fl -> exists nk, find_node k L0 = Some nk /\ ntype nk = TSrc /\
                                                     lookup k src0 = Some (st k)).
    { intros k Hk'. destruct (Hsrc0 k Hk') as (nk & sk & Hnk & Htk & Hsk).
      exists nk. unfold st. rewrite Hsk. auto. }
    assert (Hfiles : forall k, In k fl -> exists nk, find_node k L = Some nk /\ ntype nk = TSrc /\
                                                    lookup k src = Some (st k)).
    { intros k Hk'. destruct (Hfiles0 k Hk') as (nk & Hnk & Htk & Hsk).
      destruct (Hmem k) as [_ Hhk]; [apply in_app_iff; now left|].
      assert (Hdk0 : sdig L0 rules0 src0 f0' k = Some (h0 k)).
      { apply Hh0. rewrite Hnd0. apply in_app_iff. now left. }
      pose proof (sdig_of_src _ _ _ _ _ _ _ Hnk Htk Hsk _ Hdk0) as Ehk.
      assert (Hdk : sdig L rules src f' k = Some (h k)).
      { apply Hh. rewrite Hnd. apply in_app_iff. now left. }
      rewrite Hhk, Ehk in Hdk. apply sdig_src_inv in Hdk. destruct Hdk as (_ & nk' & A & B & C).
      exists nk'. auto. }
    (* the included lists *)
    set (li := fun i => match scont L0 rules0 src0 g0' i with Some (inl l) => l | _ => [] end).
    assert (Hinc_ok0 : forall i, In i incs ->
               exists ni ri fs' ss' is', find_node i L0 = Some ni /\ ntype ni = TRule /\
                 find_rule i rules0 = Some ri /\ r_kind ri = KFileSet fs' ss' is' /\
                 scont L0 rules0 src0 g0' i = Some (inl (li i))).
    { intros i Hi. destruct (Hincs0 i Hi) as (ni & ri & fs' & ss' & is' & l' & s' & A & B & C & D & E).
      exists ni, ri, fs', ss', is'. repeat split; auto.
      rewrite lookup_spec_outs in E. destruct (mem i incs); [|discriminate]. unfold li.
      destruct (scont L0 rules0 src0 g0' i) as [[l''|]|]; try discriminate. reflexivity. }
    assert (Hinc_ok : forall i, In i incs ->
               exists g, (exists ni ri fs' ss' is', find_node i L = Some ni /\ ntype ni = TRule /\
                 find_rule i rules = Some ri /\ r_kind ri = KFileSet fs' ss' is') /\
                 scont L rules src g i = Some (inl (li i))).
    { intros i Hi. destruct (Hinc_ok0 i Hi) as (ni & ri & fs' & ss' & is' & A & B & C & D & E).
      destruct (Hmem i) as [_ Hhi]; [apply in_app_iff; now right|].
      assert (Hdi0 : sdig L0 rules0 src0 f0' i = Some (h0 i)).
      { apply Hh0. rewrite Hnd0. apply in_app_iff. now right. }
      assert (Hdi : sdig L rules src f' i = Some (h i)).
      { apply Hh. rewrite Hnd. apply in_app_iff. now right. }
      destruct (sdig_of_rule _ _ _ _ _ _ _ _ A B C Hdi0) as (fi & ddi & _ & _ & Ehi).
      rewrite Hhi in Hdi. pose proof Hdi as Hdi'. rewrite Ehi in Hdi'.
      destruct (sdig_rule_inv _ _ _ _ _ _ _ _ Hdi') as (_ & ni' & ri' & _ & _ & A' & B' & C' & Erd & _).
      assert (D' : exists fs2 ss2 is2, r_kind ri' = KFileSet fs2 ss2 is2).
      { unfold rdigest_of in Erd. rewrite D in Erd. destruct (r_kind ri'); [eauto|discriminate]. }
      destruct D' as (fs2 & ss2 & is2 & D').
      destruct (IH i _ Hdi _ _ Hdi0 _ _ _ _ _ A' B' C' D' _ _ E) as [g Hg].
      exists g. split; [|assumption]. exists ni', ri', fs2, ss2, is2. auto. }
    destruct (uniform_fuel (fun g i => scont L rules src g i = Some (inl (li i))) incs) as [g Hg].
    { intros a b i Hab. now apply scont_mono. }
    { intros i Hi. destruct (Hinc_ok i Hi) as [g [_ Hg]]. eauto. }
    exists (S g). simpl. rewrite Hr, Hk, Hex. f_equal. unfold fileset_content.
    rewrite (file_entries_src L src _ fl st Hfiles).
    rewrite (file_entries_src L0 src0 _ fl st Hfiles0) in Hown0. injection Hown0 as <-.
    rewrite (includes_entries_fs L rules _ incs li).
    - rewrite (includes_entries_fs L0 rules0 _ incs li) in Hinc0.
      + injection Hinc0 as <-. now rewrite Hl0.
      + intros i Hi. destruct (Hinc_ok0 i Hi) as (ni & ri & fs' & ss' & is' & A & B & C & D & E).
        exists ni, ri, fs', ss', is', 0%N. repeat split; auto.
        rewrite lookup_spec_outs. apply mem_In in Hi. now rewrite Hi, E.
    - intros i Hi. destruct (Hinc_ok i Hi) as [_ [(ni & ri & fs' & ss' & is' & A & B & C & D) _]].
      exists ni, ri, fs', ss', is', 0%N. repeat split; auto.
      rewrite lookup_spec_outs. pose proof (Hg i Hi) as E. apply mem_In in Hi. now rewrite Hi, E.
  Qed.
End Key.
