(** caco3: the parse of the BUILD files is per [Build] call (C10, round 3).

    Reading a BUILD file is not a function of the BUILD file alone:
    [newFileSet] expands the [Select] patterns against the source tree while
    the file is read, and the expanded list is what the loader turns into
    dependencies, what the action digest records and what [fileSet.build]
    writes.  [Caco/Build.v] expands at every build against the current
    sources ([graph_of], [rule_extras], [exec_rule] all take the names from
    [w_src w]), because [loadNodes] reads every BUILD file anew at every call.

    Here the source tree the patterns were expanded against is a parameter
    ([build_parsed names]), a [psession] records what a Builder that keeps its
    parsed BUILD files would hold (the names at the time of the parse, dropped
    when the BUILD files are edited - the validation by identity, size and
    mtime of such a cache), and [parse_policy] says which the code does:
    [ParsePerBuild] (decided on the current source in Caco/BuildSessionGen.v)
    or [ParseKept].

    [build_parsed_current]: expanded against the current sources it is
    [build_with]; [prun_per_build]: with a parse per Build every history is the
    history of Caco/Build.v; [kept_parse_*_refuted]: with a kept parse a file
    added to a selected directory is not listed (stale output, nothing
    executed) and a file removed from it fails the build that a clean build
    passes. *)
From Coq Require Import List String Bool Arith NArith.
From Verif Require Import Caco.Load Caco.LoadProofs Caco.Build Caco.BuildProofs.
Import ListNotations.
Local Open Scope string_scope.

Section Parsed.
  Variable names : list name.    (* the source names the Select patterns were expanded against *)

  Section VisitP.
    Variable L : list node.
    Variable rules : list rule.
    Variable src : list (name * stat).
    Variable always : bool.
    Variable now : N.

    Definition exec_rule_p (r : rule) (n : node) (st : bstate)
      : (list (name * (content * N)) * N) + failure :=
      match r_kind r with
      | KBundle _ => inl (b_out st, b_clock st)
      | KFileSet files sels igns incs =>
          match expand_files names files sels igns with
          | None => inr (FFileNotFound (r_name r))
          | Some fl =>
              match fileset_content L rules src (b_out st) fl incs with
              | inr e => inr e
              | inl l => inl (set_assoc (fileset_out (r_name r)) (Some (CList l, b_clock st)) (b_out st),
                              N.succ (b_clock st))
              end
          end
      end.

    Definition visit_p (n : node) (st : bstate) : bstate + (bstate * failure) :=
      match dep_digests (b_memo st) (ndeps n) with
      | None => inr (st, FDepMissing (nname n))
      | Some dd =>
          match ntype n with
          | TSrc =>
              match lookup (nname n) src with
              | Some s => inl (remember (nname n) (DSrc (nname n) s) st)
              | None => inr (st, FStat (nname n))
              end
          | TOut => inl (remember (nname n) (DOutD (canon_deps dd) (nname n)) st)
          | TRule =>
              match find_rule (nname n) rules with
              | None => inr (st, FDepMissing (nname n))
              | Some r =>
                  match rule_extras L names (b_out st) r with
                  | inr e => inr (st, e)
                  | inl ex =>
                      let outs := node_outs rules n in
                      let d := DRuleD (rdigest_of r) (canon_deps dd) outs ex in
                      if hitb now st d && negb always then inl (remember (nname n) d st)
                      else
                        let st1 := log (nname n)
                                     (mkB (b_out st) (cache_remove d (b_cache st)) (b_clock st)
                                          (b_memo st) (b_exec st) (b_times st)) in
                        match exec_rule_p r n st1 with
                        | inr e => inr (st1, e)
                        | inl (out', clock') =>
                            match new_built out' outs with
                            | inr e => inr (mkB out' (b_cache st1) clock' (b_memo st1) (b_exec st1)
                                                (b_times st1), e)
                            | inl b =>
                                inl (remember (nname n) d
                                       (mkB out' (cache_put d b (b_cache st1)) clock'
                                            (b_memo st1) (b_exec st1) ((d, now) :: b_times st1)))
                            end
                        end
                  end
              end
          end
      end.
  End VisitP.

  (** the loader's view: declarations from the kept expansion, [lstat] of
      dependencies against the current sources *)
  Definition load_world_p (w : world) (ts : list name) : lresult :=
    load_nodes [("", map (decl_of_rule names) (w_rules w))] [""] (src_kind (w_src w)) ts.

  Definition build_parsed (always : bool) (ts : list name) (w : world) : world * list name * bres :=
    match load_world_p w ts with
    | LOutOfFuel => (w, [], BOutOfFuel)
    | LErr es => (w, [], BLoadErr es)
    | LOk L =>
        let st0 := mkB (w_out w) (w_cache w) (w_clock w) [] [] (w_times w) in
        match dfs_targets bstate (bstate * failure) L
                          (visit_p L (w_rules w) (w_src w) always (w_now w))
                          (fun d p => (st0, FDepMissing d)) ts ([], st0) with
        | None => (w, [], BOutOfFuel)
        | Some (inl (_, st)) => (with_state w st, b_exec st, BOk)
        | Some (inr (st, e)) => (with_state w st, b_exec st, BFail e)
        end
    end.
End Parsed.

(** Expanded against the current sources, it is the build of Caco/Build.v. *)
Theorem build_parsed_current always ts w :
  build_parsed (map fst (w_src w)) always ts w = build_with always ts w.
Proof. reflexivity. Qed.

(** ** Where the parse of a Build call comes from *)
Inductive parse_policy :=
| ParsePerBuild     (* every Build call reads the BUILD files *)
| ParseKept.        (* parsed BUILD files kept on the Builder while the files are unchanged *)

(** a Builder in use: the world, and the source names of the kept parse *)
Record psession := mkP { p_world : world; p_names : option (list name) }.

Definition parse_names (p : parse_policy) (s : psession) : list name :=
  match p, p_names s with
  | ParseKept, Some names => names
  | _, _ => map fst (w_src (p_world s))
  end.

Definition pbuild (p : parse_policy) (always : bool) (ts : list name) (s : psession)
  : psession * list name * bres :=
  let names := parse_names p s in
  match build_parsed names always ts (p_world s) with
  | (w', ex, r) => (mkP w' (Some names), ex, r)
  end.

Definition pstep (p : parse_policy) (s : psession) (o : op) : psession * option (list name * bres) :=
  match o with
  | OBuild ts => match pbuild p false ts s with (s', ex, r) => (s', Some (ex, r)) end
  | OBuildAlways ts => match pbuild p true ts s with (s', ex, r) => (s', Some (ex, r)) end
  | OSetRules rs => (mkP (step (p_world s) o) None, None)     (* an edited BUILD file is read again *)
  | _ => (mkP (step (p_world s) o) (p_names s), None)
  end.

Fixpoint prun (p : parse_policy) (h : list op) (s : psession) : psession * list (list name * bres) :=
  match h with
  | [] => (s, [])
  | o :: r =>
      match pstep p s o with
      | (s', t) =>
          match prun p r s' with
          | (s'', tr) => (s'', match t with Some x => x :: tr | None => tr end)
          end
      end
  end.

Fixpoint btrace (h : list op) (w : world) : list (list name * bres) :=
  match h with
  | [] => []
  | OBuild ts :: r =>
      match build_with false ts w with (w', ex, res) => (ex, res) :: btrace r w' end
  | OBuildAlways ts :: r =>
      match build_with true ts w with (w', ex, res) => (ex, res) :: btrace r w' end
  | o :: r => btrace r (step w o)
  end.

(** With a parse per Build, a history on one long-lived Builder goes
    through the worlds of [run] and executes what its builds execute. *)
Theorem prun_per_build : forall h s,
  p_world (fst (prun ParsePerBuild h s)) = run h (p_world s) /\
  snd (prun ParsePerBuild h s) = btrace h (p_world s).
Proof.
  induction h as [|o h IH]; intros s; [split; reflexivity|].
  assert (Hplain : forall o' names',
             pstep ParsePerBuild s o' = (mkP (step (p_world s) o') names', None) ->
             btrace (o' :: h) (p_world s) = btrace h (step (p_world s) o') ->
             p_world (fst (prun ParsePerBuild (o' :: h) s)) = run (o' :: h) (p_world s) /\
             snd (prun ParsePerBuild (o' :: h) s) = btrace (o' :: h) (p_world s)).
  { intros o' names' E Et. rewrite Et. cbn [prun run fold_left]. rewrite E.
    specialize (IH (mkP (step (p_world s) o') names')).
    destruct (prun ParsePerBuild h _) as [s'' tr]. simpl in *. exact IH. }
  destruct o as [nm st|rs|o c|o|dt|ts|ts].
  1-5: (eapply Hplain; reflexivity).
  - simpl. unfold pbuild. simpl parse_names. rewrite build_parsed_current.
    destruct (build_with false ts (p_world s)) as [[w' ex] r] eqn:Hb.
    specialize (IH (mkP w' (Some (map fst (w_src (p_world s)))))).
    destruct (prun ParsePerBuild h _) as [s'' tr]. simpl in *. unfold build. rewrite Hb. simpl.
    destruct IH as [IH1 IH2]. split; [exact IH1|now rewrite IH2].
  - simpl. unfold pbuild. simpl parse_names. rewrite build_parsed_current.
    destruct (build_with true ts (p_world s)) as [[w' ex] r] eqn:Hb.
    specialize (IH (mkP w' (Some (map fst (w_src (p_world s)))))).
    destruct (prun ParsePerBuild h _) as [s'' tr]. simpl in *.
    destruct IH as [IH1 IH2]. split; [exact IH1|now rewrite IH2].
Qed.

(** ** A kept parse: refuted *)
Local Open Scope N_scope.

(** p0/a selects p0/*.go; p1/b includes it *)
Definition kp_rules : list rule :=
  [ mkRule "p0/a" (KFileSet ["p0/x.txt"] [SGlobExt "p0" ".go"] [] []);
    mkRule "p1/b" (KFileSet ["p1/y.txt"] [] [] ["p0/a"]) ].

Definition kp_src : list (name * stat) :=
  [ ("p0/x.txt", mkStat 4 1001 420 ""); ("p0/m.go", mkStat 10 1002 420 "");
    ("p1/y.txt", mkStat 4 1003 420 "") ].

(** build; a file appears in the selected set (BUILD files untouched); build:
    with the kept parse nothing executes and the new file is not listed; a
    clean build - and the build with a parse per call - lists it. *)
Theorem kept_parse_added_file_refuted :
  let h := [OBuild ["p1/b"]; OSetSrc "p0/n.go" (Some (mkStat 10 1030 420 ""))] in
  let s := fst (prun ParseKept h (mkP (empty_world kp_rules kp_src) None)) in
  let '(s1, e1, r1) := pbuild ParseKept false ["p1/b"] s in
  let '(w2, e2, r2) := build_with false ["p1/b"] (clean (p_world s)) in
  let '(s3, e3, r3) := pbuild ParsePerBuild false ["p1/b"] s in
  r1 = BOk /\ e1 = [] /\ r2 = BOk /\ e2 = ["p0/a"; "p1/b"] /\ r3 = BOk /\ e3 = ["p0/a"; "p1/b"] /\
  content_at (w_out (p_world s1)) "p0/a.fileset" =
    Some (CList [ESrc "p0/m.go" (mkStat 10 1002 420 ""); ESrc "p0/x.txt" (mkStat 4 1001 420 "")]) /\
  content_at (w_out w2) "p0/a.fileset" =
    Some (CList [ESrc "p0/m.go" (mkStat 10 1002 420 ""); ESrc "p0/n.go" (mkStat 10 1030 420 "");
                 ESrc "p0/x.txt" (mkStat 4 1001 420 "")]) /\
  content_at (w_out (p_world s3)) "p0/a.fileset" = content_at (w_out w2) "p0/a.fileset".
Proof. vm_compute. repeat split. Qed.

(** build; a selected file is deleted (another stays); build: with the kept
    parse the deleted file is still a dependency and loading fails; a clean
    build succeeds. *)
Theorem kept_parse_removed_file_refuted :
  let src := ("p0/n.go", mkStat 10 1030 420 "") :: kp_src in
  let h := [OBuild ["p1/b"]; OSetSrc "p0/n.go" None] in
  let s := fst (prun ParseKept h (mkP (empty_world kp_rules src) None)) in
  let '(s1, e1, r1) := pbuild ParseKept false ["p1/b"] s in
  let '(w2, e2, r2) := build_with false ["p1/b"] (clean (p_world s)) in
  r1 = BLoadErr [EStat "p0/n.go"] /\ r2 = BOk /\ e2 = ["p0/a"; "p1/b"].
Proof. vm_compute. repeat split. Qed.

(** an edit of the BUILD files drops the kept parse: then it is right again *)
Example kept_parse_after_build_edit :
  let h := [OBuild ["p1/b"]; OSetSrc "p0/n.go" (Some (mkStat 10 1030 420 "")); OSetRules kp_rules] in
  let s := fst (prun ParseKept h (mkP (empty_world kp_rules kp_src) None)) in
  let '(s1, e1, r1) := pbuild ParseKept false ["p1/b"] s in
  r1 = BOk /\ e1 = ["p0/a"; "p1/b"].
Proof. vm_compute. repeat split. Qed.
