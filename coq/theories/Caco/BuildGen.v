(** Obligations on the objects regenerated from /repo's source
    (Gen/CacoBuild.v) for the build model of Caco/Build.v (C10): the
    statement skeletons of the functions the model mirrors and the layouts of
    the structures that are hashed or stored equal the ones the model was
    written against, and the facts the theorems lean on are decided on the
    regenerated objects. *)
From Coq Require Import List String Bool Arith NArith.
From Verif Require Import Caco.Load Caco.LoadGen Caco.Build Gen.CacoBuild.
Import ListNotations.
Local Open Scope string_scope.

Definition lay_eqb (a b : list (string * string * string)) : bool :=
  list_eqb (fun x y => String.eqb (fst (fst x)) (fst (fst y)) &&
                       String.eqb (snd (fst x)) (snd (fst y)) &&
                       String.eqb (snd x) (snd y)) a b.

Definition frozen_builder_Build : list (string * string) :=
  [ ("init", "w := b.env.workSrcPath");
    ("if", "w != """"");
    ("decl", "var absPaths []string");
    ("range", "_, r := range rules");
    ("assign", "p := makePath(w, r)");
    ("assign", "absPaths = append(absPaths, p)");
    ("endrange", "");
    ("assign", "rules = absPaths");
    ("endif", "");
    ("assign", "nodes, nodeMap, errs := loadNodes(b.env, rules)");
    ("if", "errs != nil");
    ("return", "errs");
    ("endif", "");
    ("assign", "cacheFile, err := b.env.prepareOut(""CACHE"")");
    ("if", "err != nil");
    ("return", "lexing.SingleErr(errcode.Annotate(err, ""prepare CACHE""))");
    ("endif", "");
    ("assign", "cache, err := newBuildCache(cacheFile)");
    ("if", "err != nil");
    ("assign", "err := errcode.Annotate(err, ""create build cache"")");
    ("return", "lexing.SingleErr(err)");
    ("endif", "");
    ("assign", "ctx := &buildContext{ nodes: nodeMap, built: make(map[string]string), cache: cache, }");
    ("return", "b.buildNodes(ctx, nodes)") ].

Lemma gen_builder_Build_frozen : sk_eqb sk_builder_Build frozen_builder_Build = true.
Proof. vm_compute. reflexivity. Qed.

Definition frozen_builder_buildNode : list (string * string) :=
  [ ("init", "digest, ok := ctx.built[n.name]");
    ("if", "ok");
    ("return", "digest, nil");
    ("endif", "");
    ("assign", "digest := """"");
    ("defer", "func");
    ("assign", "ctx.built[n.name] = digest");
    ("enddefer", "");
    ("assign", "deps := make(map[string]string)");
    ("range", "_, dep := range n.deps");
    ("assign", "depNode := ctx.nodes[dep]");
    ("if", "depNode == nil");
    ("return", """"", errcode.InvalidArgf( ""dep %q for %q not found"", dep, n.name, )");
    ("endif", "");
    ("assign", "d, err := b.buildNode(ctx, depNode)");
    ("if", "err != nil");
    ("return", """"", err");
    ("endif", "");
    ("if", "d == """"");
    ("assign", "deps = nil");
    ("else", "");
    ("if", "deps != nil");
    ("assign", "deps[dep] = d");
    ("endif", "");
    ("endif", "");
    ("endrange", "");
    ("if", "deps != nil");
    ("assign", "d, err := buildNodeDigest(b.env, n, deps)");
    ("if", "err != nil");
    ("return", """"", errcode.Annotate(err, ""digest"")");
    ("endif", "");
    ("assign", "digest = d");
    ("endif", "");
    ("assign", "outputChanged := true");
    ("if", "digest != """"");
    ("assign", "built, err := ctx.cache.get(digest)");
    ("if", "err != nil");
    ("if", "!errors.Is(err, errNotFoundInCache)");
    ("return", """"", errcode.Annotate(err, ""check from build cache"")");
    ("endif", "");
    ("else", "");
    ("assign", "same, err := checkSameBuilt(b.env, built)");
    ("if", "err != nil");
    ("return", """"", errcode.Annotate(err, ""check built"")");
    ("endif", "");
    ("assign", "outputChanged = !same");
    ("endif", "");
    ("endif", "");
    ("if", "!outputChanged && !b.opts.alwaysRebuild");
    ("return", "digest, nil");
    ("endif", "");
    ("init", "err := ctx.cache.remove(digest)");
    ("if", "err != nil");
    ("return", """"", errcode.Annotate(err, ""invalidate cache"")");
    ("endif", "");
    ("if", "n.typ == nodeRule && n.rule != nil");
    ("call", "log.Printf(""BUILD %s"", n.name)");
    ("init", "err := n.rule.build(b.env, b.opts)");
    ("if", "err != nil");
    ("return", """"", errcode.Annotatef(err, ""build %s"", n.name)");
    ("endif", "");
    ("assign", "built, err := newBuilt(b.env, n.ruleMeta)");
    ("if", "err != nil");
    ("return", """"", errcode.Annotate(err, ""make built"")");
    ("endif", "");
    ("init", "err := ctx.cache.put(digest, built)");
    ("if", "err != nil");
    ("return", """"", errcode.Annotate(err, ""save in build cache"")");
    ("endif", "");
    ("endif", "");
    ("return", "digest, nil") ].

Lemma gen_builder_buildNode_frozen : sk_eqb sk_builder_buildNode frozen_builder_buildNode = true.
Proof. vm_compute. reflexivity. Qed.

Definition frozen_buildNodeDigest : list (string * string) :=
  [ ("switch", "n.typ");
    ("case", "nodeRule");
    ("assign", "action := &buildAction{ Deps: deps, RuleType: n.ruleType, }");
    ("init", "meta := n.ruleMeta");
    ("if", "meta != nil");
    ("if", "meta.digest == """"");
    ("return", """"", nil");
    ("endif", "");
    ("assign", "action.Rule = meta.digest");
    ("assign", "action.Outs = meta.outs");
    ("assign", "action.DockerOut = meta.dockerOut");
    ("endif", "");
    ("init", "fs, ok := n.rule.(*fileSet)");
    ("if", "ok");
    ("assign", "nodes, err := fs.fileNodes(env)");
    ("if", "err != nil");
    ("return", """"", errcode.Annotate(err, ""digest file nodes"")");
    ("endif", "");
    ("assign", "action.FileNodes = nodes");
    ("endif", "");
    ("assign", "d, err := makeDigest(""build_action"", """", action)");
    ("if", "err != nil");
    ("return", """"", errcode.Annotate(err, ""digest build action"")");
    ("endif", "");
    ("return", "d, nil");
    ("case", "nodeSrc");
    ("assign", "stat, err := newSrcFileStat(env, n.name)");
    ("if", "err != nil");
    ("return", """"", errcode.Annotatef(err, ""stat file %q"", n.name)");
    ("endif", "");
    ("assign", "d, err := makeDigest(""src"", """", stat)");
    ("if", "err != nil");
    ("return", """"", errcode.Annotate(err, ""digest source file"")");
    ("endif", "");
    ("return", "d, nil");
    ("case", "nodeOut");
    ("assign", "action := &buildAction{ Deps: deps, OutputOf: n.name, }");
    ("assign", "d, err := makeDigest(""out"", """", action)");
    ("if", "err != nil");
    ("return", """"", errcode.Annotate(err, ""digest output-of"")");
    ("endif", "");
    ("return", "d, nil");
    ("default", "");
    ("return", """"", nil");
    ("endswitch", "") ].

Lemma gen_buildNodeDigest_frozen : sk_eqb sk_buildNodeDigest frozen_buildNodeDigest = true.
Proof. vm_compute. reflexivity. Qed.

Definition frozen_makeDigest : list (string * string) :=
  [ ("assign", "buf := new(bytes.Buffer)");
    ("call", "fmt.Fprintln(buf, t)");
    ("call", "fmt.Fprintln(buf, name)");
    ("assign", "bs, err := json.Marshal(v)");
    ("if", "err != nil");
    ("return", """"", errcode.Annotate(err, ""json marshal"")");
    ("endif", "");
    ("call", "buf.Write(bs)");
    ("assign", "sum := sha256.Sum256(buf.Bytes())");
    ("return", """sha256:"" + hex.EncodeToString(sum[:]), nil") ].

Lemma gen_makeDigest_frozen : sk_eqb sk_makeDigest frozen_makeDigest = true.
Proof. vm_compute. reflexivity. Qed.

Definition frozen_newBuilt : list (string * string) :=
  [ ("assign", "b := new(built)");
    ("range", "i, out := range meta.outs");
    ("if", "i == 0 && meta.dockerOut");
    ("assign", "sum, err := loadDockerSum(env.out(out))");
    ("if", "err != nil");
    ("return", "nil, errcode.Annotatef( err, ""read docker sum: %s"", out, )");
    ("endif", "");
    ("assign", "b.Dockers = append(b.Dockers, sum)");
    ("endif", "");
    ("assign", "stat, err := newOutFileStat(env, out)");
    ("if", "err != nil");
    ("return", "nil, errcode.Annotatef( err, ""get output stat: %s"", out, )");
    ("endif", "");
    ("assign", "b.Outs = append(b.Outs, stat)");
    ("endrange", "");
    ("return", "b, nil") ].

Lemma gen_newBuilt_frozen : sk_eqb sk_newBuilt frozen_newBuilt = true.
Proof. vm_compute. reflexivity. Qed.

Definition frozen_checkSameBuilt : list (string * string) :=
  [ ("range", "_, out := range b.Outs");
    ("assign", "same, err := sameFileStat(env, out)");
    ("if", "err != nil");
    ("return", "false, errcode.Annotatef( err, ""check output stat of %q"", out.Name, )");
    ("endif", "");
    ("if", "!same");
    ("return", "false, nil");
    ("endif", "");
    ("endrange", "");
    ("range", "_, d := range b.Dockers");
    ("assign", "repoTag := repoTag(d.Repo, d.Tag)");
    ("assign", "info, err := dock.InspectImage(env.dock, repoTag)");
    ("if", "err != nil");
    ("if", "errcode.IsNotFound(err)");
    ("return", "false, nil");
    ("endif", "");
    ("return", "false, errcode.Annotatef(err, ""inspect docker %s"", repoTag)");
    ("endif", "");
    ("if", "info.ID != d.ID");
    ("return", "false, nil");
    ("endif", "");
    ("endrange", "");
    ("return", "true, nil") ].

Lemma gen_checkSameBuilt_frozen : sk_eqb sk_checkSameBuilt frozen_checkSameBuilt = true.
Proof. vm_compute. reflexivity. Qed.

Definition frozen_newFileStat : list (string * string) :=
  [ ("decl", "var f string");
    ("if", "t == fileTypeOut");
    ("assign", "f = env.out(p)");
    ("else", "");
    ("assign", "f = env.src(p)");
    ("endif", "");
    ("assign", "info, err := os.Lstat(f)");
    ("if", "err != nil");
    ("if", "os.IsNotExist(err)");
    ("return", "nil, errcode.NotFoundf(""%s:%s not found"", t, p)");
    ("endif", "");
    ("return", "nil, err");
    ("endif", "");
    ("decl", "var symLink string");
    ("assign", "mod := info.Mode()");
    ("if", "mod&fs.ModeSymlink != 0");
    ("assign", "dest, err := os.Readlink(f)");
    ("if", "err != nil");
    ("return", "nil, errcode.Annotate(err, ""read sym link"")");
    ("endif", "");
    ("assign", "symLink = dest");
    ("endif", "");
    ("return", "&fileStat{ Name: p, Type: t, Size: info.Size(), ModTimestamp: info.ModTime().UnixNano(), Mode: uint32(info.Mode()), Symlink: symLink, }, nil") ].

Lemma gen_newFileStat_frozen : sk_eqb sk_newFileStat frozen_newFileStat = true.
Proof. vm_compute. reflexivity. Qed.

Definition frozen_sameFileStat : list (string * string) :=
  [ ("assign", "cur, err := newFileStat(env, stat.Name, stat.Type)");
    ("if", "err != nil");
    ("if", "errcode.IsNotFound(err)");
    ("return", "false, nil");
    ("endif", "");
    ("return", "false, errcode.Annotate(err, ""check current"")");
    ("endif", "");
    ("assign", "same := cur.Size == stat.Size");
    ("assign", "same = same && cur.ModTimestamp == stat.ModTimestamp");
    ("assign", "same = same && cur.Mode == stat.Mode");
    ("assign", "same = same && cur.Symlink == stat.Symlink");
    ("return", "same, nil") ].

Lemma gen_sameFileStat_frozen : sk_eqb sk_sameFileStat frozen_sameFileStat = true.
Proof. vm_compute. reflexivity. Qed.

Definition frozen_cache_put : list (string * string) :=
  [ ("assign", "t := timeutil.ReadTime(c.clock)");
    ("assign", "entry := &buildCacheEntry{ Key: k, Built: out, CreateTime: timeutil.NewTimestamp(t), }");
    ("return", "c.cache.Replace(k, entry)") ].

Lemma gen_cache_put_frozen : sk_eqb sk_cache_put frozen_cache_put = true.
Proof. vm_compute. reflexivity. Qed.

Definition frozen_cache_get : list (string * string) :=
  [ ("assign", "entry := new(buildCacheEntry)");
    ("init", "err := c.cache.Get(k, entry)");
    ("if", "err != nil");
    ("if", "errcode.IsNotFound(err)");
    ("return", "nil, errNotFoundInCache");
    ("endif", "");
    ("return", "nil, errcode.Annotate(err, ""get from cache"")");
    ("endif", "");
    ("assign", "now := timeutil.ReadTime(c.clock)");
    ("assign", "expire := timeutil.Time(entry.CreateTime).Add(c.expire)");
    ("if", "now.Before(expire)");
    ("return", "entry.Built, nil");
    ("endif", "");
    ("return", "nil, errNotFoundInCache") ].

Lemma gen_cache_get_frozen : sk_eqb sk_cache_get frozen_cache_get = true.
Proof. vm_compute. reflexivity. Qed.

Definition frozen_cache_remove : list (string * string) :=
  [ ("init", "err := c.cache.Remove(k)");
    ("if", "err != nil");
    ("if", "errcode.IsNotFound(err)");
    ("return", "nil");
    ("endif", "");
    ("return", "err");
    ("endif", "");
    ("return", "nil") ].

Lemma gen_cache_remove_frozen : sk_eqb sk_cache_remove frozen_cache_remove = true.
Proof. vm_compute. reflexivity. Qed.

Definition frozen_newFileSet : list (string * string) :=
  [ ("assign", "name := makeRelPath(p, r.Name)");
    ("assign", "m := make(map[string]bool)");
    ("range", "_, f := range r.Files");
    ("assign", "m[makePath(p, f)] = true");
    ("endrange", "");
    ("decl", "var ignores []string");
    ("decl", "var ignoreDirs []string");
    ("range", "_, ignore := range r.Ignore");
    ("if", "strings.HasSuffix(ignore, ""/"")");
    ("assign", "ignoreDirs = append(ignoreDirs, makeRelPath(p, ignore))");
    ("else", "");
    ("assign", "ignores = append(ignores, makeRelPath(p, ignore))");
    ("endif", "");
    ("endrange", "");
    ("assign", "bads := make(map[string]bool)");
    ("assign", "ignore := func(name string) bool { for _, i := range ignoreDirs { if i == """" || strings.HasPrefix(name, i+""/"") { return true } } for _, i := range ignores { matched, err := path.Match(i, name) if err != nil { if !bads[i] { log.Printf(""bad ignore pattern: %q: %s"", i, err) } bads[i] = true continue } if matched { return true } } return false }");
    ("range", "_, sel := range r.Select");
    ("decl", "var matches []string");
    ("if", "strings.HasSuffix(sel, ""/**"") || sel == ""**""");
    ("decl", "var dir string");
    ("if", "sel == ""**""");
    ("assign", "dir = env.src(p)");
    ("else", "");
    ("assign", "dir = env.src(makeRelPath(p, strings.TrimSuffix(sel, ""/**"")))");
    ("endif", "");
    ("assign", "files, err := listAllFiles(dir)");
    ("if", "err != nil");
    ("return", "nil, errcode.Annotatef(err, ""list all files %q"", sel)");
    ("endif", "");
    ("assign", "matches = files");
    ("else", "");
    ("assign", "glob, err := filepath.Glob(env.src(makeRelPath(p, sel)))");
    ("if", "err != nil");
    ("return", "nil, errcode.Annotatef(err, ""glob %q"", sel)");
    ("endif", "");
    ("assign", "matches = glob");
    ("endif", "");
    ("if", "len(matches) == 0");
    ("return", "nil, errcode.InvalidArgf(""%q select no files"", sel)");
    ("endif", "");
    ("range", "_, match := range matches");
    ("assign", "rel, err := filepath.Rel(env.srcDir, match)");
    ("if", "err != nil");
    ("return", "nil, errcode.Annotatef( err, ""get relative path for %q"", match, )");
    ("endif", "");
    ("if", "ignore(rel)");
    ("branch", "continue");
    ("endif", "");
    ("assign", "name := filepath.ToSlash(rel)");
    ("assign", "m[name] = true");
    ("endrange", "");
    ("endrange", "");
    ("return", "&fileSet{ name: name, files: strutil.SortedList(m), includes: r.Include, rule: r, out: fileSetOut(name), }, nil") ].

Lemma gen_newFileSet_frozen : sk_eqb sk_newFileSet frozen_newFileSet = true.
Proof. vm_compute. reflexivity. Qed.

Definition frozen_fileSet_meta : list (string * string) :=
  [ ("assign", "d, err := makeDigest(ruleFileSet, fs.name, fs.rule)");
    ("if", "err != nil");
    ("return", "nil, errcode.Annotate(err, ""digest"")");
    ("endif", "");
    ("decl", "var deps []string");
    ("assign", "deps = append(deps, fs.files...)");
    ("assign", "deps = append(deps, fs.includes...)");
    ("return", "&buildRuleMeta{ name: fs.name, deps: deps, outs: []string{fs.out}, digest: d, }, nil") ].

Lemma gen_fileSet_meta_frozen : sk_eqb sk_fileSet_meta frozen_fileSet_meta = true.
Proof. vm_compute. reflexivity. Qed.

Definition frozen_fileSet_build : list (string * string) :=
  [ ("assign", "m := make(map[string]*fileStat)");
    ("assign", "add := func(s *fileStat) { if _, ok := m[s.Name]; !ok { m[s.Name] = s } }");
    ("range", "_, f := range fs.files");
    ("assign", "t := env.nodeType(f)");
    ("switch", "t");
    ("case", """""");
    ("return", "errcode.NotFoundf(""file %q not found"", f)");
    ("case", "nodeSrc");
    ("assign", "s, err := newSrcFileStat(env, f)");
    ("if", "err != nil");
    ("return", "errcode.Annotatef(err, ""file stat %q"", f)");
    ("endif", "");
    ("call", "add(s)");
    ("case", "nodeOut");
    ("assign", "s, err := newOutFileStat(env, f)");
    ("if", "err != nil");
    ("return", "errcode.Annotatef(err, ""out file stat %q"", f)");
    ("endif", "");
    ("call", "add(s)");
    ("default", "");
    ("return", "errcode.Internalf(""unsupported file type %q"", t)");
    ("endswitch", "");
    ("endrange", "");
    ("range", "_, inc := range fs.includes");
    ("assign", "fileSet, err := referenceFileSetOut(env, inc)");
    ("if", "err != nil");
    ("return", "errcode.Annotatef(err, ""include %q"", inc)");
    ("endif", "");
    ("decl", "var list []*fileStat");
    ("init", "err := jsonutil.ReadFile(env.out(fileSet), &list)");
    ("if", "err != nil");
    ("return", "errcode.Annotatef(err, ""read file set %q"", inc)");
    ("endif", "");
    ("range", "_, entry := range list");
    ("call", "add(entry)");
    ("endrange", "");
    ("endrange", "");
    ("decl", "var names []string");
    ("range", "name := range m");
    ("assign", "names = append(names, name)");
    ("endrange", "");
    ("call", "sort.Strings(names)");
    ("decl", "var list []*fileStat");
    ("range", "_, name := range names");
    ("assign", "list = append(list, m[name])");
    ("endrange", "");
    ("assign", "out, err := env.prepareOut(fs.out)");
    ("if", "err != nil");
    ("return", "errcode.Annotate(err, ""prepare output"")");
    ("endif", "");
    ("init", "err := jsonutil.WriteFile(out, list)");
    ("if", "err != nil");
    ("return", "errcode.Annotate(err, ""write output"")");
    ("endif", "");
    ("return", "nil") ].

Lemma gen_fileSet_build_frozen : sk_eqb sk_fileSet_build frozen_fileSet_build = true.
Proof. vm_compute. reflexivity. Qed.

Definition frozen_referenceFileSetOut : list (string * string) :=
  [ ("init", "t := env.nodeType(name)");
    ("if", "t != nodeRule");
    ("return", """"", errcode.Internalf(""not a file set, but %q"", t)");
    ("endif", "");
    ("init", "rt := env.ruleType(name)");
    ("if", "rt != ruleFileSet");
    ("return", """"", errcode.Internalf(""not a file set, but %q"", rt)");
    ("endif", "");
    ("return", "fileSetOut(name), nil") ].

Lemma gen_referenceFileSetOut_frozen : sk_eqb sk_referenceFileSetOut frozen_referenceFileSetOut = true.
Proof. vm_compute. reflexivity. Qed.

Definition frozen_fileSetOut : list (string * string) :=
  [ ("return", "name + "".fileset""") ].

Lemma gen_fileSetOut_frozen : sk_eqb sk_fileSetOut frozen_fileSetOut = true.
Proof. vm_compute. reflexivity. Qed.

Definition frozen_listAllFiles : list (string * string) :=
  [ ("decl", "var files []string");
    ("assign", "walk := func(p string, d fs.DirEntry, err error) error { if err != nil { return err } if d.IsDir() { name := d.Name() if name == "".git"" { return filepath.SkipDir } return nil } name := d.Name() switch name { case "".gitignore"", ""COPYING"", ""tags"", "".DS_Store"": return nil } if strings.HasSuffix(name, "".caco3"") { return nil } typ := d.Type() if typ.IsRegular() || typ.Type() == fs.ModeSymlink { files = append(files, p) } return nil }");
    ("init", "err := filepath.WalkDir(dir, walk)");
    ("if", "err != nil");
    ("return", "nil, err");
    ("endif", "");
    ("return", "files, nil") ].

Lemma gen_listAllFiles_frozen : sk_eqb sk_listAllFiles frozen_listAllFiles = true.
Proof. vm_compute. reflexivity. Qed.

Definition frozen_newBundle : list (string * string) :=
  [ ("assign", "name := makeRelPath(p, r.Name)");
    ("decl", "var deps []string");
    ("range", "_, dep := range r.Deps");
    ("assign", "deps = append(deps, makePath(p, dep))");
    ("endrange", "");
    ("return", "&bundle{ name: name, deps: deps, rule: r, }") ].

Lemma gen_newBundle_frozen : sk_eqb sk_newBundle frozen_newBundle = true.
Proof. vm_compute. reflexivity. Qed.

Definition frozen_bundle_meta : list (string * string) :=
  [ ("assign", "d, err := makeDigest(ruleBundle, b.name, struct{}{})");
    ("if", "err != nil");
    ("return", "nil, errcode.Annotate(err, ""digest"")");
    ("endif", "");
    ("return", "&buildRuleMeta{ name: b.name, deps: b.deps, digest: d, }, nil") ].

Lemma gen_bundle_meta_frozen : sk_eqb sk_bundle_meta frozen_bundle_meta = true.
Proof. vm_compute. reflexivity. Qed.

Definition frozen_bundle_build : list (string * string) :=
  [ ("return", "nil") ].

Lemma gen_bundle_build_frozen : sk_eqb sk_bundle_build frozen_bundle_build = true.
Proof. vm_compute. reflexivity. Qed.

Definition frozen_ctx_nodeType : list (string * string) :=
  [ ("assign", "node, ok := c.nodes[n]");
    ("if", "!ok");
    ("return", """""");
    ("endif", "");
    ("return", "node.typ") ].

Lemma gen_ctx_nodeType_frozen : sk_eqb sk_ctx_nodeType frozen_ctx_nodeType = true.
Proof. vm_compute. reflexivity. Qed.

Definition frozen_ctx_ruleType : list (string * string) :=
  [ ("assign", "node, ok := c.nodes[n]");
    ("if", "!ok");
    ("return", """""");
    ("endif", "");
    ("return", "node.ruleType") ].

Lemma gen_ctx_ruleType_frozen : sk_eqb sk_ctx_ruleType frozen_ctx_ruleType = true.
Proof. vm_compute. reflexivity. Qed.

Definition frozen_newBuildCache : list (string * string) :=
  [ ("assign", "tables, err := pisces.OpenSqlite3Tables(f)");
    ("if", "err != nil");
    ("return", "nil, errcode.Annotate(err, ""open cache table"")");
    ("endif", "");
    ("assign", "cache := tables.NewKV(""build_cache"")");
    ("init", "err := tables.CreateMissing()");
    ("if", "err != nil");
    ("return", "nil, errcode.Annotate(err, ""create cache tables"")");
    ("endif", "");
    ("return", "&buildCache{ expire: time.Hour * 24 * 7, tables: tables, cache: cache, clock: verifCacheClock(), }, nil") ].

Lemma gen_newBuildCache_frozen : sk_eqb sk_newBuildCache frozen_newBuildCache = true.
Proof. vm_compute. reflexivity. Qed.

Definition frozen_fileSet_fileNodes : list (string * string) :=
  [ ("decl", "var m map[string]string");
    ("range", "_, f := range fs.files");
    ("assign", "t := env.nodeType(f)");
    ("if", "t == nodeSrc");
    ("branch", "continue");
    ("endif", "");
    ("if", "m == nil");
    ("assign", "m = make(map[string]string)");
    ("endif", "");
    ("assign", "m[f] = t");
    ("if", "t == nodeOut");
    ("assign", "stat, err := newOutFileStat(env, f)");
    ("if", "err != nil");
    ("return", "nil, errcode.Annotatef(err, ""out file stat %q"", f)");
    ("endif", "");
    ("assign", "d, err := makeDigest(nodeOut, f, stat)");
    ("if", "err != nil");
    ("return", "nil, errcode.Annotate(err, ""digest out file stat"")");
    ("endif", "");
    ("assign", "m[f] = d");
    ("endif", "");
    ("endrange", "");
    ("return", "m, nil") ].

Lemma gen_fileSet_fileNodes_frozen : sk_eqb sk_fileSet_fileNodes frozen_fileSet_fileNodes = true.
Proof. vm_compute. reflexivity. Qed.

Definition frozen_layout_buildAction : list (string * string * string) :=
  [ ("Rule", "string", "json:"",omitempty""");
    ("RuleType", "string", "json:"",omitempty""");
    ("Deps", "map[string]string", "json:"",omitempty""");
    ("Outs", "[]string", "json:"",omitempty""");
    ("DockerOut", "bool", "json:"",omitempty""");
    ("OutputOf", "string", "json:"",omitempty""");
    ("FileNodes", "map[string]string", "json:"",omitempty""") ].

Lemma gen_layout_buildAction_frozen : lay_eqb layout_buildAction frozen_layout_buildAction = true.
Proof. vm_compute. reflexivity. Qed.

Definition frozen_layout_fileStat : list (string * string * string) :=
  [ ("Name", "string", "");
    ("Type", "string", "");
    ("Size", "int64", "");
    ("ModTimestamp", "int64", "");
    ("Mode", "uint32", "");
    ("Symlink", "string", "json:"",omitempty""") ].

Lemma gen_layout_fileStat_frozen : lay_eqb layout_fileStat frozen_layout_fileStat = true.
Proof. vm_compute. reflexivity. Qed.

Definition frozen_layout_built : list (string * string * string) :=
  [ ("Outs", "[]*fileStat", "json:"",omitempty""");
    ("Dockers", "[]*dockerSum", "json:"",omitempty""") ].

Lemma gen_layout_built_frozen : lay_eqb layout_built frozen_layout_built = true.
Proof. vm_compute. reflexivity. Qed.

Definition frozen_layout_buildCacheEntry : list (string * string * string) :=
  [ ("Key", "string", "json:""K""");
    ("CreateTime", "*timeutil.Timestamp", "json:""T""");
    ("Built", "*built", "json:""B""") ].

Lemma gen_layout_buildCacheEntry_frozen : lay_eqb layout_buildCacheEntry frozen_layout_buildCacheEntry = true.
Proof. vm_compute. reflexivity. Qed.

Definition frozen_layout_buildRuleMeta : list (string * string * string) :=
  [ ("name", "string", "");
    ("deps", "[]string", "");
    ("outs", "[]string", "");
    ("dockerOut", "bool", "");
    ("digest", "string", "") ].

Lemma gen_layout_buildRuleMeta_frozen : lay_eqb layout_buildRuleMeta frozen_layout_buildRuleMeta = true.
Proof. vm_compute. reflexivity. Qed.

Definition frozen_layout_FileSet : list (string * string * string) :=
  [ ("Name", "string", "");
    ("Files", "[]string", "json:"",omitempty""");
    ("Select", "[]string", "json:"",omitempty""");
    ("Ignore", "[]string", "json:"",omitempty""");
    ("Include", "[]string", "json:"",omitempty""") ].

Lemma gen_layout_FileSet_frozen : lay_eqb layout_FileSet frozen_layout_FileSet = true.
Proof. vm_compute. reflexivity. Qed.

Definition frozen_layout_Bundle : list (string * string * string) :=
  [ ("Name", "string", "");
    ("Deps", "[]string", "") ].

Lemma gen_layout_Bundle_frozen : lay_eqb layout_Bundle frozen_layout_Bundle = true.
Proof. vm_compute. reflexivity. Qed.

(** ** Facts the model and the theorems rely on *)

(** [buildNode]: the memo is consulted first; the cache entry of the digest is
    removed before the rule executes; the entry is stored only after the
    execution and [newBuilt] returned without error (each error returns
    before the [put]). *)
Definition buildnode_order_okb : bool :=
  match sk_builder_buildNode with
  | ("init", "digest, ok := ctx.built[n.name]") :: ("if", "ok") :: ("return", "digest, nil") :: _ => true
  | _ => false
  end &&
  before ("assign", "d, err := b.buildNode(ctx, depNode)")
         ("assign", "d, err := buildNodeDigest(b.env, n, deps)") sk_builder_buildNode &&
  before ("assign", "d, err := buildNodeDigest(b.env, n, deps)")
         ("assign", "built, err := ctx.cache.get(digest)") sk_builder_buildNode &&
  before ("assign", "built, err := ctx.cache.get(digest)")
         ("assign", "same, err := checkSameBuilt(b.env, built)") sk_builder_buildNode &&
  before ("if", "!outputChanged && !b.opts.alwaysRebuild")
         ("init", "err := ctx.cache.remove(digest)") sk_builder_buildNode &&
  before ("init", "err := ctx.cache.remove(digest)")
         ("init", "err := n.rule.build(b.env, b.opts)") sk_builder_buildNode &&
  before ("call", "log.Printf(""BUILD %s"", n.name)")
         ("init", "err := n.rule.build(b.env, b.opts)") sk_builder_buildNode &&
  before ("return", """"", errcode.Annotatef(err, ""build %s"", n.name)")
         ("assign", "built, err := newBuilt(b.env, n.ruleMeta)") sk_builder_buildNode &&
  before ("assign", "built, err := newBuilt(b.env, n.ruleMeta)")
         ("init", "err := ctx.cache.put(digest, built)") sk_builder_buildNode &&
  before ("return", """"", errcode.Annotate(err, ""make built"")")
         ("init", "err := ctx.cache.put(digest, built)") sk_builder_buildNode.

Lemma gen_buildnode_order_ok : buildnode_order_okb = true.
Proof. vm_compute. reflexivity. Qed.

(** [sameFileStat] compares size, mtime, mode and symlink: the model's stat
    record ([Build.stat]) has exactly these components. *)
Definition samestat_okb : bool :=
  match index_of ("assign", "same := cur.Size == stat.Size") sk_sameFileStat,
        index_of ("assign", "same = same && cur.ModTimestamp == stat.ModTimestamp") sk_sameFileStat,
        index_of ("assign", "same = same && cur.Mode == stat.Mode") sk_sameFileStat,
        index_of ("assign", "same = same && cur.Symlink == stat.Symlink") sk_sameFileStat,
        index_of ("return", "same, nil") sk_sameFileStat with
  | Some _, Some _, Some _, Some _, Some _ => true
  | _, _, _, _, _ => false
  end.

Lemma gen_samestat_ok : samestat_okb = true.
Proof. vm_compute. reflexivity. Qed.

(** What is hashed for a source file is [fileStat] (name, type, size,
    mtime, mode, symlink); for an action, rule digest, rule type, dependency
    digests, outputs (and the docker flag / output-of). *)
Definition field_names (l : list (string * string * string)) : list string :=
  map (fun x => fst (fst x)) l.

Lemma gen_hashed_fields :
  field_names layout_fileStat = ["Name"; "Type"; "Size"; "ModTimestamp"; "Mode"; "Symlink"] /\
  field_names layout_buildAction =
    ["Rule"; "RuleType"; "Deps"; "Outs"; "DockerOut"; "OutputOf"; "FileNodes"] /\
  field_names layout_FileSet = ["Name"; "Files"; "Select"; "Ignore"; "Include"] /\
  field_names layout_Bundle = ["Name"; "Deps"].
Proof. repeat split; vm_compute; reflexivity. Qed.

(** The action digest of a file set carries [fileNodes] ([Build.extras_of]);
    the cache expires entries after [Build.expire]; the cache reads its
    clock where the model reads [w_now] (at [get] and at [put]). *)
Definition filenodes_okb : bool :=
  before ("init", "fs, ok := n.rule.(*fileSet)") ("assign", "d, err := makeDigest(""build_action"", """", action)")
         sk_buildNodeDigest &&
  match index_of ("assign", "nodes, err := fs.fileNodes(env)") sk_buildNodeDigest,
        index_of ("assign", "action.FileNodes = nodes") sk_buildNodeDigest with
  | Some _, Some _ => true
  | _, _ => false
  end.

Lemma gen_filenodes_ok : filenodes_okb = true.
Proof. vm_compute. reflexivity. Qed.

Lemma gen_cache_expire_ok : gen_cache_expire_ns = Build.expire.
Proof. vm_compute. reflexivity. Qed.

Definition cache_clock_okb : bool :=
  match index_of ("assign", "t := timeutil.ReadTime(c.clock)") sk_cache_put,
        index_of ("assign", "now := timeutil.ReadTime(c.clock)") sk_cache_get,
        index_of ("assign", "expire := timeutil.Time(entry.CreateTime).Add(c.expire)") sk_cache_get,
        index_of ("if", "now.Before(expire)") sk_cache_get with
  | Some _, Some _, Some _, Some _ => true
  | _, _, _, _ => false
  end.

Lemma gen_cache_clock_ok : cache_clock_okb = true.
Proof. vm_compute. reflexivity. Qed.

Definition builder_frozenb : bool :=
  sk_eqb sk_newBuildCache frozen_newBuildCache &&
  sk_eqb sk_fileSet_fileNodes frozen_fileSet_fileNodes &&
  sk_eqb sk_builder_Build frozen_builder_Build &&
  sk_eqb sk_builder_buildNode frozen_builder_buildNode &&
  sk_eqb sk_buildNodeDigest frozen_buildNodeDigest &&
  sk_eqb sk_makeDigest frozen_makeDigest &&
  sk_eqb sk_newBuilt frozen_newBuilt &&
  sk_eqb sk_checkSameBuilt frozen_checkSameBuilt &&
  sk_eqb sk_newFileStat frozen_newFileStat &&
  sk_eqb sk_sameFileStat frozen_sameFileStat &&
  sk_eqb sk_cache_put frozen_cache_put &&
  sk_eqb sk_cache_get frozen_cache_get &&
  sk_eqb sk_cache_remove frozen_cache_remove &&
  sk_eqb sk_newFileSet frozen_newFileSet &&
  sk_eqb sk_fileSet_meta frozen_fileSet_meta &&
  sk_eqb sk_fileSet_build frozen_fileSet_build &&
  sk_eqb sk_referenceFileSetOut frozen_referenceFileSetOut &&
  sk_eqb sk_fileSetOut frozen_fileSetOut &&
  sk_eqb sk_listAllFiles frozen_listAllFiles &&
  sk_eqb sk_newBundle frozen_newBundle &&
  sk_eqb sk_bundle_meta frozen_bundle_meta &&
  sk_eqb sk_bundle_build frozen_bundle_build &&
  sk_eqb sk_ctx_nodeType frozen_ctx_nodeType &&
  sk_eqb sk_ctx_ruleType frozen_ctx_ruleType &&
  lay_eqb layout_buildAction frozen_layout_buildAction &&
  lay_eqb layout_fileStat frozen_layout_fileStat &&
  lay_eqb layout_built frozen_layout_built &&
  lay_eqb layout_buildCacheEntry frozen_layout_buildCacheEntry &&
  lay_eqb layout_buildRuleMeta frozen_layout_buildRuleMeta &&
  lay_eqb layout_FileSet frozen_layout_FileSet &&
  lay_eqb layout_Bundle frozen_layout_Bundle.

Lemma gen_builder_shape :
  builder_frozenb = true /\ buildnode_order_okb = true /\ samestat_okb = true /\
  filenodes_okb = true /\ cache_clock_okb = true /\ gen_cache_expire_ns = Build.expire /\
  gen_ruleFileSet = "file_set" /\ gen_ruleBundle = "bundle".
Proof. repeat split; vm_compute; reflexivity. Qed.
