(** caco3: the arguments of [Build] belong to the caller (C11, round 3).

    A Builder made inside a package directory [w] (<root>/src/w) reads its
    targets relative to [w]: [Build] resolves each with [makePath(w, r)] INTO A
    NEW SLICE and loads those.  The caller's slice is not written, so handing
    the same slice to [Build] again means the same targets.  [makePath] is
    not idempotent ("top" -> "pkg/top" -> "pkg/pkg/top": the result is again
    a relative name), which is why writing the resolved names back would
    change the meaning of the caller's list.

    The call as a function of the VALUES passed: [build_call] returns what is
    loaded and what the caller's slice holds afterwards.  [args_policy]:
    [ArgsCopied] (the code as it is; decided on the current source in
    Caco/LoadSessionGen.v from the translator's [param_writes]) or
    [ArgsInPlace]. *)
From Coq Require Import List String Bool Arith.
From Verif Require Import Lib.Path Caco.Names Caco.Load Caco.LoadNames Caco.LoadSession.
Import ListNotations.
Local Open Scope string_scope.

(** [if w := b.env.workSrcPath; w != "" { ... makePath(w, r) ... }] *)
Definition resolve_targets (w : string) (ts : list string) : list string :=
  if String.eqb w "" then ts else map (pth w) ts.

Inductive args_policy :=
| ArgsCopied      (* resolved into a new slice *)
| ArgsInPlace.    (* resolved names written back into the caller's slice *)

(** one call: (the names handed to the loader, the caller's slice afterwards) *)
Definition build_call (p : args_policy) (w : string) (slice : list string)
  : list string * list string :=
  let resolved := resolve_targets w slice in
  (resolved, match p with ArgsCopied => slice | ArgsInPlace => resolved end).

(** [n] consecutive calls with the very same slice: what each of them loads *)
Fixpoint same_slice_calls (p : args_policy) (w : string) (slice : list string) (n : nat)
  : list (list string) :=
  match n with
  | O => []
  | S n' => match build_call p w slice with
            | (resolved, slice') => resolved :: same_slice_calls p w slice' n'
            end
  end.

(** The arguments are not written. *)
Theorem build_does_not_write_targets w slice : snd (build_call ArgsCopied w slice) = slice.
Proof. reflexivity. Qed.

(** ... so every call with the same slice loads the same names, *)
Theorem same_slice_same_targets w slice : forall n,
  same_slice_calls ArgsCopied w slice n = repeat (resolve_targets w slice) n.
Proof. induction n as [|n IH]; [reflexivity|]. cbn. now rewrite IH. Qed.

(** ... and - with the loader made per call - gives the same result: the
    outcome of a call is a function of the values passed. *)
Theorem same_slice_same_result fs roots kind w slice n held :
  lrun LoaderPerBuild fs roots kind (same_slice_calls ArgsCopied w slice n) held =
  repeat (c11_run fs roots kind (resolve_targets w slice)) n.
Proof.
  rewrite lrun_per_build, same_slice_same_targets. induction n as [|n IH]; [reflexivity|].
  cbn. now rewrite IH.
Qed.

(** ** Written back in place: refuted *)

(** "top" asked for twice from inside pkg: the second call loads pkg/pkg/top *)
Theorem in_place_changes_targets_refuted :
  same_slice_calls ArgsInPlace "pkg" ["top"] 3 = [["pkg/top"]; ["pkg/pkg/top"]; ["pkg/pkg/pkg/top"]] /\
  same_slice_calls ArgsCopied "pkg" ["top"] 3 = [["pkg/top"]; ["pkg/top"]; ["pkg/top"]] /\
  same_slice_calls ArgsInPlace "pkg" ["//pkg/top"] 2 = [["pkg/top"]; ["pkg/pkg/top"]].
Proof. repeat split; vm_compute; reflexivity. Qed.

(** pkg/top -> pkg/leaf; the nested package pkg/pkg has rules of the same base
    names.  Asked twice for "top": in place, the second call executes the
    nested package's rules - none of which the requested target reaches - and
    without the nested package it fails on a sound graph. *)
Definition ia_files : bfiles :=
  [ ("pkg", [ DRule "pkg/leaf" [] []; DRule "pkg/top" ["pkg/leaf"] []; DSub ["pkg/pkg"] ]);
    ("pkg/pkg", [ DRule "pkg/pkg/inner" [] []; DRule "pkg/pkg/top" ["pkg/pkg/inner"] [] ]) ].

Theorem in_place_builds_other_rules_refuted :
  lrun LoaderPerBuild ia_files ["pkg"] (fun _ => KNone) (same_slice_calls ArgsInPlace "pkg" ["top"] 2) [] =
    [CExec ["pkg/leaf"; "pkg/top"]; CExec ["pkg/pkg/inner"; "pkg/pkg/top"]] /\
  lrun LoaderPerBuild ia_files ["pkg"] (fun _ => KNone) (same_slice_calls ArgsCopied "pkg" ["top"] 2) [] =
    [CExec ["pkg/leaf"; "pkg/top"]; CExec ["pkg/leaf"; "pkg/top"]] /\
  lrun LoaderPerBuild [("pkg", [DRule "pkg/leaf" [] []; DRule "pkg/top" ["pkg/leaf"] []])] ["pkg"]
       (fun _ => KNone) (same_slice_calls ArgsInPlace "pkg" ["top"] 2) [] =
    [CExec ["pkg/leaf"; "pkg/top"]; CErr [EStat "pkg/pkg/top"]].
Proof. repeat split; vm_compute; reflexivity. Qed.
