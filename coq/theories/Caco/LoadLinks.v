(** caco3: a build file that is a symbolic link (C11, round 3).

    [readBuildFile] tests [osutil.IsRegular(<p>/BUILD.caco3)], which is
    [os.Stat]: the path is RESOLVED.  The build file of package [p] is what
    the path resolves to - the text of a shared build file kept elsewhere and
    linked in, read as the build file of [p] (relative names resolve against
    [p]); a dangling link or a link to a directory is no build file.

    [lfiles]: per package directory what [BUILD.caco3] is on disk;
    [effective] the raw build files ([Caco/LoadNames.v]) after resolution of the
    links - what every theorem of Caco/LoadProofs.v is about, through
    [run_links]; [lstat_view] what a test by [lstat] would see (a link is not a
    regular file: no build file).  [lstat_misses_*_refuted]: errors declared
    through a linked build file go unreported and a sound graph living in one is
    rejected. *)
From Coq Require Import List String Bool Arith.
From Verif Require Import Lib.Path Caco.Names Caco.Load Caco.LoadProofs Caco.LoadNames Caco.LoadNamesProofs.
Import ListNotations.
Local Open Scope string_scope.

Inductive bfile :=
| BText (ds : list rdecl)        (* a regular file with this text *)
| BLink (to : bfile_target)      (* a symbolic link *)
with bfile_target :=
| TPkg (p : name)                (* ... to <p>/BUILD.caco3 *)
| TOutside (ds : list rdecl)     (* ... to a regular file outside src with this text *)
| TNowhere                       (* ... dangling *)
| TDirectory.                    (* ... to a directory *)

Definition lfiles := list (name * bfile).

(** [os.Stat]: follow links (the fuel bounds a chain; a loop is ELOOP: no file) *)
Fixpoint resolve_text (fuel : nat) (fs : lfiles) (p : name) : option (list rdecl) :=
  match fuel with
  | O => None
  | S f =>
      match lookup p fs with
      | None => None
      | Some (BText ds) => Some ds
      | Some (BLink (TPkg q)) => resolve_text f fs q
      | Some (BLink (TOutside ds)) => Some ds
      | Some (BLink TNowhere) => None
      | Some (BLink TDirectory) => None
      end
  end.

Definition effective (fs : lfiles) : raw_files :=
  flat_map (fun pf => match resolve_text (S (List.length fs)) fs (fst pf) with
                      | Some ds => [(fst pf, ds)]
                      | None => []
                      end) fs.

(** [os.Lstat]: a link is not a regular file *)
Definition lstat_view (fs : lfiles) : raw_files :=
  flat_map (fun pf => match snd pf with BText ds => [(fst pf, ds)] | BLink _ => [] end) fs.

Definition run_links (fs : lfiles) (roots : list name) (kind : name -> skind) (ts : list name) : cres :=
  c11_run_raw (effective fs) roots kind ts.

(** Every theorem about [c11_run_raw] is a theorem about the resolved view;
    in particular the error characterisation. *)
Theorem run_links_error_iff fs roots kind ts :
  (exists es, run_links fs roots kind ts = CErr es /\ es <> []) <->
  read_problem (resolve_fs (effective fs)) roots \/ graph_problem (resolve_fs (effective fs)) roots kind ts.
Proof. apply c11_raw_error_iff. Qed.

(** ** [lstat] instead: refuted *)

(** q/BUILD.caco3 -> outside: "twice" declared twice *)
Definition ll_dup : lfiles :=
  [ ("p", BText [RBundle "ok" []]);
    ("q", BLink (TOutside [RBundle "twice" []; RBundle "twice" []])) ].

(** q/BUILD.caco3 -> ../p/BUILD.caco3: the text declares p/leaf, p/shared AND q/leaf, q/shared *)
Definition ll_shared : lfiles :=
  [ ("p", BText [RBundle "leaf" []; RBundle "shared" ["leaf"]]);
    ("q", BLink (TPkg "p")) ].

Theorem lstat_misses_errors_refuted :
  run_links ll_dup ["p"; "q"] (fun _ => KNone) ["p/ok"] = CErr [EDup "q/twice"; EPrev] /\
  c11_run_raw (lstat_view ll_dup) ["p"; "q"] (fun _ => KNone) ["p/ok"] = CExec ["p/ok"].
Proof. split; vm_compute; reflexivity. Qed.

Theorem lstat_rejects_linked_rules_refuted :
  run_links ll_shared ["p"; "q"] (fun _ => KNone) ["q/shared"] = CExec ["q/leaf"; "q/shared"] /\
  run_links ll_shared ["p"; "q"] (fun _ => KNone) ["p/shared"] = CExec ["p/leaf"; "p/shared"] /\
  c11_run_raw (lstat_view ll_shared) ["p"; "q"] (fun _ => KNone) ["q/shared"] = CErr [EStat "q/shared"].
Proof. repeat split; vm_compute; reflexivity. Qed.

(** a dangling link, a link to a directory, a chain of links *)
Example links_resolution :
  effective [("p", BText [RBundle "a" []]); ("q", BLink TNowhere); ("r", BLink TDirectory);
             ("s", BLink (TPkg "t")); ("t", BLink (TPkg "p")); ("u", BLink (TPkg "u"))] =
  [("p", [RBundle "a" []]); ("s", [RBundle "a" []]); ("t", [RBundle "a" []])].
Proof. vm_compute. reflexivity. Qed.
