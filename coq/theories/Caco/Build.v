(** caco3 incremental build model (C10), on top of the loader model
    (Caco/Load.v).

    Models [Builder.Build] for file_set and bundle rules:
    - loading (Caco/Load.v) of the rule set of the workspace, with file sets
      expanded against the current source tree ([newFileSet]: explicit files
      plus selections; a selection matching nothing is an error);
    - [buildNode] (caco3/builder.go): memo per Build, dependencies first,
      action digest ([buildNodeDigest]), cache [get] + [checkSameBuilt],
      [remove] before executing, [put] only after success;
    - [fileSet.build] / [bundle.build];
    - histories of source edits, rule edits, output tampering and builds.

    Abstractions, each stated again where the theorems use it:
    - a SHA-256 digest is modelled by the structured value that is hashed
      (collision-freeness of the hash);
    - a source file is its [lstat] record (size, mtime, mode, symlink): an
      edit that changes none of them is not an edit (the property's wording);
    - the stat of an output file is a stamp drawn from a strictly increasing
      clock at every write (by a rule or by tampering): two different writes
      never leave the same (size, mtime, mode);
    - the creation time of a cache entry is kept in a map beside the cache
      ([w_times]), written where the entry is written; [w_now] is the
      cache's clock, constant during one build;
    - names are the strings after [makeRelPath]/[makePath] (C12), and the
      rule digest is taken over the resolved rule;
    - for source and output nodes the code also performs a cache [get] that
      cannot hit (only rule executions [put]) and a [remove] of an absent key;
      the model omits both. *)
From Coq Require Import List String Bool Arith NArith Ascii.
From Verif Require Import Caco.Load.
Import ListNotations.
Local Open Scope string_scope.

(** ** Source files, outputs *)
Record stat := mkStat { st_size : N; st_mtime : N; st_mode : N; st_link : string }.

Definition stat_eqb (a b : stat) : bool :=
  N.eqb (st_size a) (st_size b) && N.eqb (st_mtime a) (st_mtime b) &&
  N.eqb (st_mode a) (st_mode b) && String.eqb (st_link a) (st_link b).

(** One entry of a .fileset output: [fileStat] of a source file, or of an
    output file (whose stat is its stamp). *)
Inductive entry :=
| ESrc (nm : name) (s : stat)
| EOut (nm : name) (stamp : N).

Definition entry_name (e : entry) : name :=
  match e with ESrc n _ => n | EOut n _ => n end.

Inductive content :=
| CList (l : list entry)      (* a file set written by [fileSet.build] *)
| CGarbage (id : N).          (* anything else (tampering) *)

(** ** Rules (after name resolution) *)
Inductive sel :=
| SGlobExt (dir : name) (ext : string)   (* "dir/*ext": files directly in dir *)
| SAll (dir : name).                     (* "dir/**": every file below dir *)

(** [Ignore] entries: "dir/" (everything beneath dir; the root for ""),
    "dir/*ext" and a literal name, as [path.Match] reads them. *)
Inductive ign :=
| IDir (dir : name)
| IGlobExt (dir : name) (ext : string)
| ILit (nm : name).

Inductive rkind :=
| KFileSet (files : list name) (sels : list sel) (ignores : list ign) (includes : list name)
| KBundle (deps : list name).

Record rule := mkRule { r_name : name; r_kind : rkind }.

(** ** String helpers for selections *)
Fixpoint ends_with (s suffix : string) : bool :=
  if String.eqb s suffix then true
  else match s with
       | EmptyString => false
       | String _ r => ends_with r suffix
       end.

Fixpoint has_slash (s : string) : bool :=
  match s with
  | EmptyString => false
  | String c r => if Ascii.eqb c "/"%char then true else has_slash r
  end.

(** [strip_prefix p s] = the rest of [s] after [p], if [p] is a prefix. *)
Fixpoint strip_prefix (p s : string) : option string :=
  match p with
  | EmptyString => Some s
  | String c p' =>
      match s with
      | EmptyString => None
      | String d s' => if Ascii.eqb c d then strip_prefix p' s' else None
      end
  end.

(** the path below directory [dir] ("" is the source root) *)
Definition below (dir f : name) : option string :=
  if String.eqb dir "" then Some f else strip_prefix (dir ++ "/") f.

Fixpoint base_name (s : string) : string :=
  match s with
  | EmptyString => EmptyString
  | String c r => if has_slash r then base_name r
                  else if Ascii.eqb c "/"%char then r else s
  end.

(** Is ".git" one of the directory segments of the relative path [s]? *)
Fixpoint in_git_dir_from (seg : string) (s : string) : bool :=
  match s with
  | EmptyString => false
  | String c r =>
      if Ascii.eqb c "/"%char then String.eqb seg ".git" || in_git_dir_from "" r
      else in_git_dir_from (seg ++ String c EmptyString) r
  end.

(** Files never listed by [listAllFiles]. *)
Definition excluded_name (b : string) : bool :=
  String.eqb b ".gitignore" || String.eqb b "COPYING" || String.eqb b "tags" ||
  String.eqb b ".DS_Store" || ends_with b ".caco3".

Definition sel_matches (s : sel) (f : name) : bool :=
  match s with
  | SGlobExt dir ext =>
      match below dir f with
      | Some rest => negb (has_slash rest) && ends_with rest ext
      | None => false
      end
  | SAll dir =>
      match below dir f with
      | Some rest => negb (excluded_name (base_name rest)) && negb (in_git_dir_from "" rest)
      | None => false
      end
  end.

(** the [ignore] closure of [newFileSet] (after the repair of the directory
    ignore: a directory covers only what is beneath it) *)
Definition ign_matches (i : ign) (f : name) : bool :=
  match i with
  | IDir dir => match below dir f with Some _ => true | None => false end
  | IGlobExt dir ext => sel_matches (SGlobExt dir ext) f
  | ILit nm => String.eqb nm f
  end.

Definition ignored (igns : list ign) (f : name) : bool := existsb (fun i => ign_matches i f) igns.

(** [newFileSet]: explicit files plus selected files that are not ignored,
    sorted, no duplicates; [None] when a selection selects nothing (tested
    before the ignores apply). *)
Definition expand_files (src_names : list name) (files : list name) (sels : list sel)
           (igns : list ign) : option (list name) :=
  if forallb (fun s => existsb (sel_matches s) src_names) sels
  then Some (sort_dedup (files ++ filter (fun f => existsb (fun s => sel_matches s f) sels &&
                                                   negb (ignored igns f)) src_names))
  else None.

Definition fileset_out (nm : name) : name := nm ++ ".fileset".

Definition decl_of_rule (src_names : list name) (r : rule) : decl :=
  match r_kind r with
  | KFileSet files sels igns incs =>
      match expand_files src_names files sels igns with
      | Some fl => DRule (r_name r) (fl ++ incs) [fileset_out (r_name r)]
      | None => DBad ESelectNone
      end
  | KBundle deps => DRule (r_name r) deps []
  end.

Fixpoint find_rule (k : name) (l : list rule) : option rule :=
  match l with
  | [] => None
  | r :: t => if String.eqb k (r_name r) then Some r else find_rule k t
  end.

(** ** Digests: the value that is hashed *)
Inductive rdigest :=
| RDFileSet (nm : name) (files : list name) (sels : list sel) (ignores : list ign)
            (includes : list name)
| RDBundle (nm : name).          (* a bundle's rule digest covers its name only *)

(** [FileNodes] of a file set's action: what bears the name of a listed
    file that is no plain source node; for an output file, its stat. *)
Inductive fkind := FKRule | FKOut (stamp : N) | FKNone.

Inductive digest :=
| DSrc (nm : name) (s : stat)                          (* "src" + fileStat *)
| DRuleD (rd : rdigest) (deps : dlist) (outs : list name)
         (fnodes : list (name * fkind))                (* "build_action" *)
| DOutD (deps : dlist) (of : name)                     (* "out" *)
with dlist :=
| DNil
| DCons (nm : name) (d : digest) (rest : dlist).

Definition rdigest_of (r : rule) : rdigest :=
  match r_kind r with
  | KFileSet f s g i => RDFileSet (r_name r) f s g i
  | KBundle _ => RDBundle (r_name r)
  end.

(** [Deps map[string]string] marshalled by encoding/json: keys sorted, one
    entry per key (a later assignment to the same key replaces the value). *)
Fixpoint dl_insert (nm : name) (d : digest) (l : dlist) : dlist :=
  match l with
  | DNil => DCons nm d DNil
  | DCons nm' d' r =>
      if String.eqb nm nm' then DCons nm d r
      else if String.leb nm nm' then DCons nm d l
      else DCons nm' d' (dl_insert nm d r)
  end.

Definition canon_deps (l : list (name * digest)) : dlist :=
  fold_left (fun acc p => dl_insert (fst p) (snd p) acc) l DNil.

Definition sel_eqb (a b : sel) : bool :=
  match a, b with
  | SGlobExt d e, SGlobExt d' e' => String.eqb d d' && String.eqb e e'
  | SAll d, SAll d' => String.eqb d d'
  | _, _ => false
  end.

Definition ign_eqb (a b : ign) : bool :=
  match a, b with
  | IDir d, IDir d' => String.eqb d d'
  | IGlobExt d e, IGlobExt d' e' => String.eqb d d' && String.eqb e e'
  | ILit n, ILit n' => String.eqb n n'
  | _, _ => false
  end.

Definition fkind_eqb (a b : fkind) : bool :=
  match a, b with
  | FKRule, FKRule => true
  | FKOut s, FKOut s' => N.eqb s s'
  | FKNone, FKNone => true
  | _, _ => false
  end.

Fixpoint list_eqb {A : Type} (eqb : A -> A -> bool) (a b : list A) : bool :=
  match a, b with
  | [], [] => true
  | x :: a', y :: b' => eqb x y && list_eqb eqb a' b'
  | _, _ => false
  end.

Definition rdigest_eqb (a b : rdigest) : bool :=
  match a, b with
  | RDFileSet n f s g i, RDFileSet n' f' s' g' i' =>
      String.eqb n n' && list_eqb String.eqb f f' && list_eqb sel_eqb s s' &&
      list_eqb ign_eqb g g' && list_eqb String.eqb i i'
  | RDBundle n, RDBundle n' => String.eqb n n'
  | _, _ => false
  end.

Fixpoint digest_eqb (a b : digest) : bool :=
  match a, b with
  | DSrc n s, DSrc n' s' => String.eqb n n' && stat_eqb s s'
  | DRuleD r d o x, DRuleD r' d' o' x' =>
      rdigest_eqb r r' && dlist_eqb d d' && list_eqb String.eqb o o' &&
      list_eqb (fun a b => String.eqb (fst a) (fst b) && fkind_eqb (snd a) (snd b)) x x'
  | DOutD d o, DOutD d' o' => dlist_eqb d d' && String.eqb o o'
  | _, _ => false
  end
with dlist_eqb (a b : dlist) : bool :=
  match a, b with
  | DNil, DNil => true
  | DCons n d r, DCons n' d' r' => String.eqb n n' && digest_eqb d d' && dlist_eqb r r'
  | _, _ => false
  end.

(** ** The world *)
Definition built := list (name * N).     (* recorded output stats: name, stamp *)

Record world := mkW {
  w_rules : list rule;
  w_src : list (name * stat);
  w_out : list (name * (content * N));   (* out/: content and stamp *)
  w_cache : list (digest * built);       (* out/CACHE *)
  w_clock : N;                           (* next stamp *)
  w_times : list (digest * N);           (* creation time of the cache entries *)
  w_now : N                              (* the cache's clock *)
}.

(** cache entries expire after 7 days (nanoseconds) *)
Definition expire : N := 604800000000000.

Fixpoint time_get (d : digest) (t : list (digest * N)) : N :=
  match t with
  | [] => 0%N
  | (d', x) :: r => if digest_eqb d d' then x else time_get d r
  end.

(** [now.Before(createTime + expire)] *)
Definition live (now : N) (times : list (digest * N)) (d : digest) : bool :=
  N.ltb now (time_get d times + expire).

Definition remove_assoc {A : Type} (k : name) (l : list (name * A)) : list (name * A) :=
  filter (fun p => negb (String.eqb k (fst p))) l.

Definition set_assoc {A : Type} (k : name) (v : option A) (l : list (name * A)) : list (name * A) :=
  match v with
  | Some x => (k, x) :: remove_assoc k l
  | None => remove_assoc k l
  end.

Fixpoint cache_get (d : digest) (c : list (digest * built)) : option built :=
  match c with
  | [] => None
  | (d', b) :: r => if digest_eqb d d' then Some b else cache_get d r
  end.

Definition cache_remove (d : digest) (c : list (digest * built)) : list (digest * built) :=
  filter (fun p => negb (digest_eqb d (fst p))) c.

Definition cache_put (d : digest) (b : built) (c : list (digest * built)) : list (digest * built) :=
  (d, b) :: cache_remove d c.

(** [checkSameBuilt]: every recorded output still has the recorded stat. *)
Definition same_built (out : list (name * (content * N))) (b : built) : bool :=
  forallb (fun p => match lookup (fst p) out with
                    | Some (_, stamp) => N.eqb stamp (snd p)
                    | None => false
                    end) b.

(** ** Executing a rule *)
Inductive failure :=
| FFileNotFound (f : name)         (* "file %q not found" *)
| FFileType (f : name)             (* "unsupported file type" *)
| FStat (f : name)                 (* lstat failed *)
| FInclude (i : name)              (* include is not a file set *)
| FReadInclude (i : name)          (* the included list cannot be read *)
| FDepMissing (d : name)           (* "dep %q for %q not found" *)
| FMakeBuilt (o : name).           (* output missing after the build *)

(** first entry for a name wins ([add] in [fileSet.build]) *)
Fixpoint add_entries (es : list entry) (acc : list entry) : list entry :=
  match es with
  | [] => acc
  | e :: r =>
      if existsb (fun e' => String.eqb (entry_name e) (entry_name e')) acc
      then add_entries r acc
      else add_entries r (acc ++ [e])%list
  end.

Fixpoint insert_entry (e : entry) (l : list entry) : list entry :=
  match l with
  | [] => [e]
  | e' :: r => if String.leb (entry_name e) (entry_name e') then e :: l
               else e' :: insert_entry e r
  end.

Definition sort_entries (l : list entry) : list entry := fold_right insert_entry [] l.

Section Exec.
  Variable L : list node.        (* buildContext.nodes *)
  Variable rules : list rule.
  Variable src : list (name * stat).

  Definition file_entry (out : list (name * (content * N))) (f : name) : entry + failure :=
    match find_node f L with
    | None => inr (FFileNotFound f)
    | Some n =>
        match ntype n with
        | TSrc => match lookup f src with
                  | Some s => inl (ESrc f s)
                  | None => inr (FStat f)
                  end
        | TOut => match lookup f out with
                  | Some (_, stamp) => inl (EOut f stamp)
                  | None => inr (FStat f)
                  end
        | TRule => inr (FFileType f)
        end
    end.

  Fixpoint file_entries (out : list (name * (content * N))) (fs : list name)
    : list entry + failure :=
    match fs with
    | [] => inl []
    | f :: r =>
        match file_entry out f with
        | inr e => inr e
        | inl en => match file_entries out r with
                    | inr e => inr e
                    | inl l => inl (en :: l)
                    end
        end
    end.

  (** [referenceFileSetOut] + reading the included list from out/ *)
  Definition include_entries (out : list (name * (content * N))) (i : name)
    : list entry + failure :=
    match find_node i L with
    | Some n =>
        match ntype n, find_rule i rules with
        | TRule, Some r =>
            match r_kind r with
            | KFileSet _ _ _ _ =>
                match lookup (fileset_out i) out with
                | Some (CList l, _) => inl l
                | _ => inr (FReadInclude i)
                end
            | KBundle _ => inr (FInclude i)
            end
        | _, _ => inr (FInclude i)
        end
    | None => inr (FInclude i)
    end.

  Fixpoint includes_entries (out : list (name * (content * N))) (is : list name)
    : list entry + failure :=
    match is with
    | [] => inl []
    | i :: r =>
        match include_entries out i with
        | inr e => inr e
        | inl l => match includes_entries out r with
                   | inr e => inr e
                   | inl l' => inl (l ++ l')%list
                   end
        end
    end.

  (** [fileSet.build]: the list written to <name>.fileset *)
  Definition fileset_content (out : list (name * (content * N))) (fl incs : list name)
    : list entry + failure :=
    match file_entries out fl with
    | inr e => inr e
    | inl own =>
        match includes_entries out incs with
        | inr e => inr e
        | inl inc => inl (sort_entries (add_entries (own ++ inc)%list []))
        end
    end.
End Exec.

(** ** [buildNode] after the dependencies are done *)
Record bstate := mkB {
  b_out : list (name * (content * N));
  b_cache : list (digest * built);
  b_clock : N;
  b_memo : list (name * digest);       (* ctx.built *)
  b_exec : list name;                  (* the "BUILD <name>" log lines *)
  b_times : list (digest * N)          (* creation times of cache entries *)
}.

Definition dep_digests (memo : list (name * digest)) (deps : list name)
  : option (list (name * digest)) :=
  fold_right (fun d acc =>
                match acc, lookup d memo with
                | Some l, Some dg => Some ((d, dg) :: l)
                | _, _ => None
                end) (Some []) deps.

Definition node_outs (rules : list rule) (n : node) : list name :=
  match find_rule (nname n) rules with
  | Some r => match r_kind r with
              | KFileSet _ _ _ _ => [fileset_out (nname n)]
              | KBundle _ => []
              end
  | None => []
  end.

Definition new_built (out : list (name * (content * N))) (outs : list name)
  : built + failure :=
  fold_right (fun o acc =>
                match acc, lookup o out with
                | inl l, Some (_, stamp) => inl ((o, stamp) :: l)
                | inr e, _ => inr e
                | inl _, None => inr (FMakeBuilt o)
                end) (inl []) outs.

(** [fileSet.fileNodes]: for every listed file that is no plain source node,
    the kind of node bearing its name; for an output file its stat (a missing
    output file makes the digest, hence the build, fail). *)
Fixpoint extras_of (L : list node) (out : list (name * (content * N))) (fl : list name)
  : list (name * fkind) + failure :=
  match fl with
  | [] => inl []
  | f :: r =>
      match extras_of L out r with
      | inr e => inr e
      | inl rest =>
          match find_node f L with
          | None => inl ((f, FKNone) :: rest)
          | Some n =>
              match ntype n with
              | TSrc => inl rest
              | TRule => inl ((f, FKRule) :: rest)
              | TOut => match lookup f out with
                        | Some (_, stamp) => inl ((f, FKOut stamp) :: rest)
                        | None => inr (FStat f)
                        end
              end
          end
      end
  end.

Definition rule_extras (L : list node) (src_names : list name)
           (out : list (name * (content * N))) (r : rule) : list (name * fkind) + failure :=
  match r_kind r with
  | KBundle _ => inl []
  | KFileSet files sels igns _ =>
      match expand_files src_names files sels igns with
      | Some fl => extras_of L out fl
      | None => inl []
      end
  end.

Section Visit.
  Variable L : list node.
  Variable rules : list rule.
  Variable src : list (name * stat).
  Variable always : bool.        (* Config.AlwaysRebuild *)
  Variable now : N.              (* the cache's clock during this build *)

  Definition log (nm : name) (st : bstate) : bstate :=
    mkB (b_out st) (b_cache st) (b_clock st) (b_memo st) (b_exec st ++ [nm])%list (b_times st).

  Definition remember (nm : name) (d : digest) (st : bstate) : bstate :=
    mkB (b_out st) (b_cache st) (b_clock st) ((nm, d) :: b_memo st) (b_exec st) (b_times st).

  (** [n.rule.build]: [inl] the new out/ and clock *)
  Definition exec_rule (r : rule) (n : node) (st : bstate)
    : (list (name * (content * N)) * N) + failure :=
    match r_kind r with
    | KBundle _ => inl (b_out st, b_clock st)
    | KFileSet files sels igns incs =>
        match expand_files (map fst src) files sels igns with
        | None => inr (FFileNotFound (r_name r))     (* cannot happen after loading *)
        | Some fl =>
            match fileset_content L rules src (b_out st) fl incs with
            | inr e => inr e
            | inl l => inl (set_assoc (fileset_out (r_name r)) (Some (CList l, b_clock st)) (b_out st),
                            N.succ (b_clock st))
            end
        end
    end.

  (** [cache.get] (entry present and not expired) + [checkSameBuilt] *)
  Definition hitb (st : bstate) (d : digest) : bool :=
    match cache_get d (b_cache st) with
    | Some b => live now (b_times st) d && same_built (b_out st) b
    | None => false
    end.

  Definition visit (n : node) (st : bstate) : bstate + (bstate * failure) :=
    match dep_digests (b_memo st) (ndeps n) with
    | None => inr (st, FDepMissing (nname n))       (* cannot happen: deps come first *)
    | Some dd =>
        match ntype n with
        | TSrc =>
            match lookup (nname n) src with
            | Some s => inl (remember (nname n) (DSrc (nname n) s) st)
            | None => inr (st, FStat (nname n))
            end
        | TOut => inl (remember (nname n) (DOutD (canon_deps dd) (nname n)) st)
        | TRule =>
            match find_rule (nname n) rules with
            | None => inr (st, FDepMissing (nname n))   (* every rule node has its rule *)
            | Some r =>
                match rule_extras L (map fst src) (b_out st) r with
                | inr e => inr (st, e)              (* "digest file nodes" *)
                | inl ex =>
                    let outs := node_outs rules n in
                    let d := DRuleD (rdigest_of r) (canon_deps dd) outs ex in
                    if hitb st d && negb always then inl (remember (nname n) d st)
                    else
                      let st1 := log (nname n)
                                   (mkB (b_out st) (cache_remove d (b_cache st)) (b_clock st)
                                        (b_memo st) (b_exec st) (b_times st)) in
                      match exec_rule r n st1 with
                      | inr e => inr (st1, e)
                      | inl (out', clock') =>
                          match new_built out' outs with
                          | inr e => inr (mkB out' (b_cache st1) clock' (b_memo st1) (b_exec st1)
                                              (b_times st1), e)
                          | inl b =>
                              inl (remember (nname n) d
                                     (mkB out' (cache_put d b (b_cache st1)) clock'
                                          (b_memo st1) (b_exec st1) ((d, now) :: b_times st1)))
                          end
                      end
                end
            end
        end
    end.
End Visit.

(** ** [Builder.Build] *)
Inductive bres :=
| BOk
| BLoadErr (es : list lerr)       (* nothing was touched *)
| BFail (e : failure)             (* a rule failed; earlier rules of this build stay done *)
| BOutOfFuel.

Definition src_kind (src : list (name * stat)) (nm : name) : skind :=
  match lookup nm src with Some _ => KFile | None => KNone end.

Definition graph_of (w : world) : bfiles :=
  [("", map (decl_of_rule (map fst (w_src w))) (w_rules w))].

Definition load_world (w : world) (ts : list name) : lresult :=
  load_nodes (graph_of w) [""] (src_kind (w_src w)) ts.

Definition with_state (w : world) (st : bstate) : world :=
  mkW (w_rules w) (w_src w) (b_out st) (b_cache st) (b_clock st) (b_times st) (w_now w).

Definition build_with (always : bool) (ts : list name) (w : world) : world * list name * bres :=
  match load_world w ts with
  | LOutOfFuel => (w, [], BOutOfFuel)
  | LErr es => (w, [], BLoadErr es)
  | LOk L =>
      let st0 := mkB (w_out w) (w_cache w) (w_clock w) [] [] (w_times w) in
      match dfs_targets bstate (bstate * failure) L
                        (visit L (w_rules w) (w_src w) always (w_now w))
                        (fun d p => (st0, FDepMissing d)) ts ([], st0) with
      | None => (w, [], BOutOfFuel)
      | Some (inl (_, st)) => (with_state w st, b_exec st, BOk)
      | Some (inr (st, e)) => (with_state w st, b_exec st, BFail e)
      end
  end.

Definition build := build_with false.

(** ** Histories *)
Inductive op :=
| OSetSrc (nm : name) (s : option stat)      (* add, edit, touch, chmod, delete *)
| OSetRules (rs : list rule)                 (* the BUILD files were edited *)
| OTamper (o : name) (c : option content)    (* overwrite or delete an output *)
| OTouchOut (o : name)                       (* chmod / touch an output: same bytes, new stat *)
| OAdvance (dt : N)                          (* time passes *)
| OBuild (ts : list name)
| OBuildAlways (ts : list name).             (* Config.AlwaysRebuild *)

Definition step (w : world) (o : op) : world :=
  match o with
  | OSetSrc nm s =>
      mkW (w_rules w) (set_assoc nm s (w_src w)) (w_out w) (w_cache w) (w_clock w) (w_times w) (w_now w)
  | OSetRules rs => mkW rs (w_src w) (w_out w) (w_cache w) (w_clock w) (w_times w) (w_now w)
  | OTamper o c =>
      mkW (w_rules w) (w_src w)
          (set_assoc o (match c with Some x => Some (x, w_clock w) | None => None end) (w_out w))
          (w_cache w) (N.succ (w_clock w)) (w_times w) (w_now w)
  | OTouchOut o =>
      mkW (w_rules w) (w_src w)
          (match lookup o (w_out w) with
           | Some (c, _) => set_assoc o (Some (c, w_clock w)) (w_out w)
           | None => w_out w
           end)
          (w_cache w) (N.succ (w_clock w)) (w_times w) (w_now w)
  | OAdvance dt =>
      mkW (w_rules w) (w_src w) (w_out w) (w_cache w) (w_clock w) (w_times w) (w_now w + dt)
  | OBuild ts => fst (fst (build ts w))
  | OBuildAlways ts => fst (fst (build_with true ts w))
  end.

Definition run (h : list op) (w : world) : world := fold_left step h w.

Definition empty_world (rs : list rule) (src : list (name * stat)) : world :=
  mkW rs src [] [] 0%N [] 0%N.

(** The same sources and rules with an empty out/ (cache included). *)
Definition clean (w : world) : world :=
  mkW (w_rules w) (w_src w) [] [] (w_clock w) [] (w_now w).

(** The scope of the theorems, as a decidable predicate on a loaded world:
    no file set lists an output file (what such a file set writes contains
    the output's own stat, which no two builds share). *)
Definition no_out_filesb (L : list node) (fl : list name) : bool :=
  forallb (fun f => match find_node f L with
                    | Some n => match ntype n with TOut => false | _ => true end
                    | None => true
                    end) fl.

Definition scopeb (L : list node) (rules : list rule) (src : list (name * stat)) : bool :=
  forallb (fun r => match r_kind r with
                    | KFileSet files sels igns incs =>
                        match expand_files (map fst src) files sels igns with
                        | Some fl => no_out_filesb L fl
                        | None => true
                        end
                    | KBundle _ => true
                    end) rules.

Definition build_in_scopeb (ts : list name) (w : world) : bool :=
  match load_world w ts with
  | LOk L => scopeb L (w_rules w) (w_src w)
  | _ => true
  end.

Fixpoint hist_in_scopeb (h : list op) (w : world) : bool :=
  match h with
  | [] => true
  | o :: r => match o with
              | OBuild ts | OBuildAlways ts => build_in_scopeb ts w
              | _ => true
              end &&
              hist_in_scopeb r (step w o)
  end.

