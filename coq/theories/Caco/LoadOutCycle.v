(** Cycles that close through an OUTPUT FILE of a rule (C11, round 3).

    The dependency edges of Caco/LoadProofs.v ([dedge]) are those of all
    declared nodes, and every output a rule declares is a node whose one edge
    leads to its rule ([file_nodes]).  So [c11_error_iff] already covers a
    cycle such as  r -> mid -> r.fileset -> r  (a file set whose [Files] lists
    the [.fileset] output of another rule, or its own); this file states that
    consequence on its own, for every entry point, and refutes a loader that
    marks a rule's outputs as loaded when it starts loading the rule. *)
From Coq Require Import List String Bool Arith Relations.
From Verif Require Import Caco.Load Caco.LoadProofs.
Import ListNotations.
Local Open Scope string_scope.

Lemma declared_rule_node fs roots q ds r deps outs :
  reached fs roots q -> lookup q fs = Some ds -> In (DRule r deps outs) ds ->
  declared fs roots (mkNode r TRule deps).
Proof.
  intros Hq Hl Hin. exists q. split; [assumption|]. unfold fnodes. rewrite Hl.
  unfold file_nodes. apply in_flat_map. exists (DRule r deps outs). split; [assumption|]. now left.
Qed.

Lemma declared_out_node fs roots q ds r deps outs o :
  reached fs roots q -> lookup q fs = Some ds -> In (DRule r deps outs) ds -> In o outs ->
  declared fs roots (mkNode o TOut [r]).
Proof.
  intros Hq Hl Hin Ho. exists q. split; [assumption|]. unfold fnodes. rewrite Hl.
  unfold file_nodes. apply in_flat_map. exists (DRule r deps outs). split; [assumption|].
  right. apply in_map_iff. exists o. split; [reflexivity|assumption].
Qed.

(** the edge from an output file to the rule that writes it *)
Lemma out_edge fs roots q ds r deps outs o :
  reached fs roots q -> lookup q fs = Some ds -> In (DRule r deps outs) ds -> In o outs ->
  dedge fs roots o r.
Proof.
  intros Hq Hl Hin Ho. exists (mkNode o TOut [r]). split; [|split; [reflexivity|now left]].
  eapply declared_out_node; eauto.
Qed.

(** A rule that reaches one of its own output files (it lists the file, or
    includes / depends on something that does) is on a cycle; whenever a
    requested name reaches that rule - entering the cycle at the rule, at the
    output file, or anywhere else - the build reports an error. *)
Theorem cycle_through_output_reported fs roots kind ts t q ds r deps outs o :
  reached fs roots q -> lookup q fs = Some ds -> In (DRule r deps outs) ds -> In o outs ->
  clos_trans name (dedge fs roots) r o ->
  In t ts -> clos_refl_trans name (dedge fs roots) t r ->
  exists es, c11_run fs roots kind ts = CErr es /\ es <> [].
Proof.
  intros Hq Hl Hin Ho Hro Ht Htr. apply c11_error_iff. right.
  exists t, r. split; [assumption|]. split; [assumption|]. right.
  eapply t_trans; [exact Hro|]. apply t_step. eapply out_edge; eauto.
Qed.

(** the shortest case: a file set that lists its own output *)
Corollary own_output_listed_reported fs roots kind ts t q ds r deps outs o :
  reached fs roots q -> lookup q fs = Some ds -> In (DRule r deps outs) ds -> In o outs ->
  In o deps ->
  In t ts -> clos_refl_trans name (dedge fs roots) t r ->
  exists es, c11_run fs roots kind ts = CErr es /\ es <> [].
Proof.
  intros Hq Hl Hin Ho Hd. eapply cycle_through_output_reported; eauto.
  apply t_step. exists (mkNode r TRule deps). split; [|split; [reflexivity|assumption]].
  eapply declared_rule_node; eauto.
Qed.

(** ** A loader that marks the outputs of a rule as loaded early: refuted *)
Section Early.
  Variable ns : list node.
  Variable kind : name -> skind.

  (** the output nodes of rule [nm] among the registered nodes *)
  Definition outs_of (nm : name) : list node :=
    filter (fun n => match ntype n with
                     | TOut => match ndeps n with [r] => String.eqb r nm | _ => false end
                     | _ => false
                     end) ns.

  (** [load1] with "its outputs come along with it" before the dependencies *)
  Fixpoint load1_early (fuel : nat) (nm : name) (s : lstate) : option lstate :=
    match fuel with
    | O => None
    | S f =>
        if mem nm (l_stack s) then Some (l_err (ECycle (rev (l_stack s))) s)
        else if has_node nm (l_loaded s) then Some s
        else
          match find_node nm ns with
          | Some n =>
              let early := match ntype n with TRule => outs_of nm | _ => [] end in
              match ofold (load1_early f) (ndeps n)
                          (Some (mkL (nm :: l_stack s) (early ++ l_loaded s)%list (l_errs s))) with
              | None => None
              | Some s1 => Some (mkL (l_stack s) (n :: l_loaded s1) (l_errs s1))
              end
          | None =>
              match kind nm with
              | KFile => Some (mkL (l_stack s) (src_node nm :: l_loaded s) (l_errs s))
              | KNone => Some (l_err (EStat nm) s)
              | KOther => Some (l_err (EResolve nm) s)
              end
          end
    end.
End Early.

(** p/r includes q/mid; q/mid lists p/r.fileset; p/self lists its own output *)
Definition oc_nodes : list node :=
  [ mkNode "p/r" TRule ["q/mid"]; mkNode "p/r.fileset" TOut ["p/r"];
    mkNode "q/mid" TRule ["p/r.fileset"]; mkNode "q/mid.fileset" TOut ["q/mid"];
    mkNode "p/self" TRule ["p/self.fileset"]; mkNode "p/self.fileset" TOut ["p/self"] ].

(** Entered at the rule whose output is on the cycle, the early-marking
    loader reports nothing; the loader of the model (and of the code) reports
    the cycle from every entry point. *)
Theorem early_outputs_miss_cycle_refuted :
  (match load1_early oc_nodes (fun _ => KNone) 10 "p/r" (mkL [] [] []) with
   | Some s => l_errs s | None => [EOther] end) = [] /\
  (match load1_early oc_nodes (fun _ => KNone) 10 "p/self" (mkL [] [] []) with
   | Some s => l_errs s | None => [EOther] end) = [] /\
  (match load1 oc_nodes (fun _ => KNone) 10 "p/r" (mkL [] [] []) with
   | Some s => l_errs s | None => [] end) = [ECycle ["p/r"; "q/mid"; "p/r.fileset"]] /\
  (match load1 oc_nodes (fun _ => KNone) 10 "q/mid" (mkL [] [] []) with
   | Some s => l_errs s | None => [] end) = [ECycle ["q/mid"; "p/r.fileset"; "p/r"]] /\
  (match load1 oc_nodes (fun _ => KNone) 10 "p/r.fileset" (mkL [] [] []) with
   | Some s => l_errs s | None => [] end) = [ECycle ["p/r.fileset"; "p/r"; "q/mid"]] /\
  (match load1 oc_nodes (fun _ => KNone) 10 "p/self" (mkL [] [] []) with
   | Some s => l_errs s | None => [] end) = [ECycle ["p/self"; "p/self.fileset"]].
Proof. repeat split; vm_compute; reflexivity. Qed.
