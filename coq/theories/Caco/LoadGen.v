(** Obligations on the objects regenerated from /repo's source
    (Gen/CacoBuild.v) for the loader model of Caco/Load.v (C11).

    The statement skeletons (control structure, calls, assignments and
    returns in source order) of the functions the model mirrors are compared
    with the skeletons the model was written against; a change of shape in
    the code makes the corresponding [Lemma] stop checking, which the driver
    reports as a proof obligation that no longer holds.  A few facts the model
    relies on are also decided directly on the regenerated skeletons. *)
From Coq Require Import List String Bool Arith.
From Verif Require Import Caco.Load Gen.CacoBuild.
Import ListNotations.
Local Open Scope string_scope.

Definition tok_eqb (a b : string * string) : bool :=
  String.eqb (fst a) (fst b) && String.eqb (snd a) (snd b).

Fixpoint sk_eqb (a b : list (string * string)) : bool :=
  match a, b with
  | [], [] => true
  | x :: a', y :: b' => tok_eqb x y && sk_eqb a' b'
  | _, _ => false
  end.

(** position of the first token equal to [t] *)
Fixpoint index_of (t : string * string) (l : list (string * string)) : option nat :=
  match l with
  | [] => None
  | x :: r => if tok_eqb x t then Some 0
              else match index_of t r with Some i => Some (S i) | None => None end
  end.

Definition before (a b : string * string) (l : list (string * string)) : bool :=
  match index_of a l, index_of b l with
  | Some i, Some j => Nat.ltb i j
  | _, _ => false
  end.

Definition no_unknown (l : list (string * string)) : bool :=
  forallb (fun t => negb (String.eqb (fst t) "unknown")) l.

Definition frozen_loader_register : list (string * string) :=
  [ ("if", "n.name == """"");
    ("call", "l.errList.Errorf(n.pos, ""node name is empty"")");
    ("return", "");
    ("endif", "");
    ("init", "p, ok := l.nodes[n.name]");
    ("if", "ok");
    ("call", "l.errList.Errorf(n.pos, ""node with name %q redeclared"", n.name)");
    ("if", "p.pos != nil");
    ("call", "l.errList.Errorf(p.pos, "" previously defined here"")");
    ("endif", "");
    ("return", "");
    ("endif", "");
    ("assign", "l.nodes[n.name] = n") ].

Lemma gen_loader_register_frozen : sk_eqb sk_loader_register frozen_loader_register = true.
Proof. vm_compute. reflexivity. Qed.

Definition frozen_loader_load : list (string * string) :=
  [ ("decl", "var nodes []*buildNode");
    ("range", "_, name := range names");
    ("assign", "n := l.load1(name, pos)");
    ("assign", "nodes = append(nodes, n)");
    ("endrange", "");
    ("return", "nodes") ].

Lemma gen_loader_load_frozen : sk_eqb sk_loader_load frozen_loader_load = true.
Proof. vm_compute. reflexivity. Qed.

Definition frozen_loader_load1 : list (string * string) :=
  [ ("if", "!l.tracer.push(name)");
    ("call", "l.errList.Errorf( pos, ""has circular dependency: %q"", l.tracer.stack(), )");
    ("return", "nil");
    ("endif", "");
    ("defer", "l.tracer.pop()");
    ("init", "n, ok := l.loaded[name]");
    ("if", "ok");
    ("return", "n");
    ("endif", "");
    ("assign", "n, ok := l.nodes[name]");
    ("if", "ok");
    ("call", "l.load(n.deps, pos)");
    ("assign", "l.loaded[name] = n");
    ("return", "n");
    ("endif", "");
    ("assign", "f := l.env.src(name)");
    ("assign", "stat, err := os.Lstat(f)");
    ("if", "err != nil");
    ("call", "l.errList.Errorf(pos, ""stat %q: %s"", f, err)");
    ("return", "nil");
    ("endif", "");
    ("assign", "mode := stat.Mode()");
    ("if", "mode.IsRegular() || mode.Type() == fs.ModeSymlink");
    ("assign", "n := &buildNode{ name: name, typ: nodeSrc, }");
    ("call", "l.register(n)");
    ("assign", "l.loaded[name] = n");
    ("return", "n");
    ("endif", "");
    ("call", "l.errList.Errorf(pos, ""cannot resolve %q"", name)");
    ("return", "nil") ].

Lemma gen_loader_load1_frozen : sk_eqb sk_loader_load1 frozen_loader_load1 = true.
Proof. vm_compute. reflexivity. Qed.

Definition frozen_loader_registerOuts : list (string * string) :=
  [ ("if", "len(names) == 0");
    ("return", "");
    ("endif", "");
    ("assign", "deps := []string{rule}");
    ("range", "_, name := range names");
    ("assign", "n := &buildNode{ name: name, typ: nodeOut, deps: deps, pos: pos, }");
    ("call", "l.register(n)");
    ("endrange", "") ].

Lemma gen_loader_registerOuts_frozen : sk_eqb sk_loader_registerOuts frozen_loader_registerOuts = true.
Proof. vm_compute. reflexivity. Qed.

Definition frozen_loader_readBuildFile : list (string * string) :=
  [ ("if", "l.read[p]");
    ("return", "");
    ("endif", "");
    ("assign", "l.read[p] = true");
    ("assign", "subDirMap := make(map[string]bool)");
    ("assign", "nodes, errs := readBuildFile(l.env, p)");
    ("call", "l.errList.AddAll(errs)");
    ("range", "_, n := range nodes");
    ("if", "n.typ == nodeSub");
    ("range", "_, d := range n.sub.Dirs()");
    ("assign", "subDirMap[d] = true");
    ("endrange", "");
    ("branch", "continue");
    ("endif", "");
    ("call", "l.register(n)");
    ("if", "n.typ == nodeRule");
    ("call", "l.registerOuts(n.name, n.ruleMeta.outs, n.pos)");
    ("endif", "");
    ("endrange", "");
    ("decl", "var subDirs []string");
    ("range", "subDir := range subDirMap");
    ("assign", "subDirs = append(subDirs, subDir)");
    ("endrange", "");
    ("call", "sort.Strings(subDirs)");
    ("range", "_, d := range subDirs");
    ("call", "l.readBuildFile(d)");
    ("endrange", "") ].

Lemma gen_loader_readBuildFile_frozen : sk_eqb sk_loader_readBuildFile frozen_loader_readBuildFile = true.
Proof. vm_compute. reflexivity. Qed.

Definition frozen_loadNodes : list (string * string) :=
  [ ("assign", "l := newLoader(env)");
    ("assign", "repoMap := env.workspace.RepoMap");
    ("if", "repoMap == nil || len(repoMap.Src) == 0");
    ("assign", "err := errcode.InvalidArgf(""repo map missing"")");
    ("return", "nil, nil, lexing.SingleErr(err)");
    ("endif", "");
    ("decl", "var dirs []string");
    ("range", "dir := range repoMap.Src");
    ("assign", "dirs = append(dirs, makeRelPath("""", dir))");
    ("endrange", "");
    ("call", "sort.Strings(dirs)");
    ("range", "_, dir := range dirs");
    ("call", "l.readBuildFile(dir)");
    ("endrange", "");
    ("init", "errs := l.Errs()");
    ("if", "errs != nil");
    ("return", "nil, nil, errs");
    ("endif", "");
    ("assign", "nodes := l.load(names, nil)");
    ("init", "errs := l.Errs()");
    ("if", "errs != nil");
    ("return", "nil, nil, errs");
    ("endif", "");
    ("return", "nodes, l.loaded, nil") ].

Lemma gen_loadNodes_frozen : sk_eqb sk_loadNodes frozen_loadNodes = true.
Proof. vm_compute. reflexivity. Qed.

Definition frozen_tracer_push : list (string * string) :=
  [ ("if", "t.m[name]");
    ("return", "false");
    ("endif", "");
    ("assign", "t.trace = append(t.trace, name)");
    ("assign", "t.m[name] = true");
    ("return", "true") ].

Lemma gen_tracer_push_frozen : sk_eqb sk_tracer_push frozen_tracer_push = true.
Proof. vm_compute. reflexivity. Qed.

Definition frozen_tracer_pop : list (string * string) :=
  [ ("assign", "n := len(t.trace)");
    ("if", "n == 0");
    ("return", "");
    ("endif", "");
    ("assign", "last := t.trace[n-1]");
    ("call", "delete(t.m, last)");
    ("assign", "t.trace = t.trace[:n-1]") ].

Lemma gen_tracer_pop_frozen : sk_eqb sk_tracer_pop frozen_tracer_pop = true.
Proof. vm_compute. reflexivity. Qed.

Definition frozen_readBuildFile : list (string * string) :=
  [ ("decl", "var fp string");
    ("if", "p == """"");
    ("assign", "fp = filepath.Join(env.rootDir, buildFileName)");
    ("else", "");
    ("assign", "fp = env.src(p, buildFileName)");
    ("endif", "");
    ("init", "ok, err := osutil.IsRegular(fp)");
    ("if", "err != nil");
    ("return", "nil, lexing.SingleErr(err)");
    ("else", "");
    ("if", "!ok");
    ("return", "nil, nil");
    ("endif", "");
    ("endif", "");
    ("assign", "rules, errs := jsonx.ReadSeriesFile(fp, makeBuildFileNode)");
    ("if", "errs != nil");
    ("return", "nil, errs");
    ("endif", "");
    ("decl", "var nodes []*buildNode");
    ("assign", "errList := lexing.NewErrorList()");
    ("range", "_, r := range rules");
    ("assign", "node := &buildNode{ typ: nodeRule, pos: r.Pos, ruleType: r.Type, }");
    ("typeswitch", "v := r.V.(type)");
    ("case", "*FileSet");
    ("assign", "fset, err := newFileSet(env, p, v)");
    ("if", "err != nil");
    ("call", "errList.Add(&lexing.Error{Pos: r.Pos, Err: err})");
    ("branch", "continue");
    ("endif", "");
    ("assign", "node.rule = fset");
    ("case", "*DockerPull");
    ("assign", "dp, err := newDockerPull(env, p, v)");
    ("if", "err != nil");
    ("call", "errList.Add(&lexing.Error{Pos: r.Pos, Err: err})");
    ("branch", "continue");
    ("endif", "");
    ("assign", "node.rule = dp");
    ("case", "*DockerBuild");
    ("assign", "db, err := newDockerBuild(env, p, v)");
    ("if", "err != nil");
    ("call", "errList.Add(&lexing.Error{Pos: r.Pos, Err: err})");
    ("branch", "continue");
    ("endif", "");
    ("assign", "node.rule = db");
    ("case", "*DockerRun");
    ("assign", "node.rule = newDockerRun(env, p, v)");
    ("case", "*Download");
    ("assign", "d, err := newDownload(env, p, v)");
    ("if", "err != nil");
    ("call", "errList.Add(&lexing.Error{Pos: r.Pos, Err: err})");
    ("branch", "continue");
    ("endif", "");
    ("assign", "node.rule = d");
    ("case", "*Bundle");
    ("assign", "node.rule = newBundle(env, p, v)");
    ("case", "*SubBuilds");
    ("assign", "node.sub = newSubBuilds(env, p, v)");
    ("assign", "node.typ = nodeSub");
    ("default", "");
    ("call", "errList.Errorf(r.Pos, ""unknown type: %q"", r.Type)");
    ("branch", "continue");
    ("endswitch", "");
    ("if", "node.rule != nil");
    ("assign", "meta, err := node.rule.meta(env)");
    ("if", "err != nil");
    ("call", "errList.Errorf(r.Pos, ""fail to get rule meta"")");
    ("endif", "");
    ("assign", "node.ruleMeta = meta");
    ("assign", "node.name = meta.name");
    ("assign", "node.deps = meta.deps");
    ("endif", "");
    ("if", "node.typ == nodeRule && (node.name == p || node.name == """")");
    ("call", "errList.Errorf(r.Pos, ""rule has no name"")");
    ("branch", "continue");
    ("endif", "");
    ("assign", "nodes = append(nodes, node)");
    ("endrange", "");
    ("init", "errs := errList.Errs()");
    ("if", "errs != nil");
    ("return", "nil, errs");
    ("endif", "");
    ("return", "nodes, nil") ].

Lemma gen_readBuildFile_frozen : sk_eqb sk_readBuildFile frozen_readBuildFile = true.
Proof. vm_compute. reflexivity. Qed.

Definition frozen_newSubBuilds : list (string * string) :=
  [ ("decl", "var dirs []string");
    ("range", "_, d := range v.Dirs");
    ("assign", "dirs = append(dirs, makeRelPath(p, d))");
    ("endrange", "");
    ("return", "&subBuilds{dirs: dirs, rule: v}") ].

Lemma gen_newSubBuilds_frozen : sk_eqb sk_newSubBuilds frozen_newSubBuilds = true.
Proof. vm_compute. reflexivity. Qed.

Definition frozen_builder_buildNodes : list (string * string) :=
  [ ("assign", "b.env.nodeType = ctx.nodeType");
    ("assign", "b.env.ruleType = ctx.ruleType");
    ("range", "_, n := range nodes");
    ("if", "n.typ == nodeSrc");
    ("call", "log.Printf(""%s is a source file"", n.name)");
    ("branch", "continue");
    ("endif", "");
    ("init", "_, err := b.buildNode(ctx, n)");
    ("if", "err != nil");
    ("return", "lexing.SingleErr(err)");
    ("endif", "");
    ("endrange", "");
    ("return", "nil") ].

Lemma gen_builder_buildNodes_frozen : sk_eqb sk_builder_buildNodes frozen_builder_buildNodes = true.
Proof. vm_compute. reflexivity. Qed.

Definition frozen_errorlist_add : list (string * string) :=
  [ ("if", "e == nil");
    ("call", "panic(""nil error"")");
    ("endif", "");
    ("assign", "lst.inJail = true");
    ("if", "len(lst.errs) >= lst.Max");
    ("return", "");
    ("endif", "");
    ("assign", "lst.errs = append(lst.errs, e)") ].

Lemma gen_errorlist_add_frozen : sk_eqb sk_errorlist_add frozen_errorlist_add = true.
Proof. vm_compute. reflexivity. Qed.

Definition frozen_errorlist_errs : list (string * string) :=
  [ ("assign", "ret := lst.errs");
    ("if", "len(ret) == 0");
    ("return", "nil");
    ("endif", "");
    ("return", "ret") ].

Lemma gen_errorlist_errs_frozen : sk_eqb sk_errorlist_errs frozen_errorlist_errs = true.
Proof. vm_compute. reflexivity. Qed.

(** ** Facts the model relies on, decided on the regenerated skeletons *)

(** The error list keeps at most [max_errs] entries ([Load.add_err]). *)
Lemma gen_max_errs_ok : gen_max_errs = max_errs.
Proof. vm_compute. reflexivity. Qed.

(** [loader.readBuildFile] returns at once for a directory already read, and
    marks the directory before it recurses ([Load.read_dir]). *)
Definition read_guard_okb : bool :=
  match sk_loader_readBuildFile with
  | ("if", "l.read[p]") :: ("return", "") :: ("endif", "") :: ("assign", "l.read[p] = true") :: rest =>
      match index_of ("call", "l.readBuildFile(d)") rest with Some _ => true | None => false end
  | _ => false
  end.

Lemma gen_read_guard_ok : read_guard_okb = true.
Proof. vm_compute. reflexivity. Qed.

(** [load1]: the tracer is pushed (and a failed push reported) before the
    [loaded] memo is consulted, the memo before [nodes], and a registered
    node is put into [loaded] after its dependencies were loaded. *)
Definition load1_order_okb : bool :=
  before ("if", "!l.tracer.push(name)") ("init", "n, ok := l.loaded[name]") sk_loader_load1 &&
  before ("init", "n, ok := l.loaded[name]") ("assign", "n, ok := l.nodes[name]") sk_loader_load1 &&
  before ("call", "l.load(n.deps, pos)") ("assign", "l.loaded[name] = n") sk_loader_load1 &&
  before ("defer", "l.tracer.pop()") ("init", "n, ok := l.loaded[name]") sk_loader_load1.

Lemma gen_load1_order_ok : load1_order_okb = true.
Proof. vm_compute. reflexivity. Qed.

(** [loadNodes] gives up after reading when there are errors, before loading. *)
Definition loadnodes_order_okb : bool :=
  before ("call", "l.readBuildFile(dir)") ("init", "errs := l.Errs()") sk_loadNodes &&
  before ("init", "errs := l.Errs()") ("assign", "nodes := l.load(names, nil)") sk_loadNodes.

Lemma gen_loadnodes_order_ok : loadnodes_order_okb = true.
Proof. vm_compute. reflexivity. Qed.

Lemma gen_load_skeletons_known :
  forallb no_unknown
    [sk_loader_register; sk_loader_load; sk_loader_load1; sk_loader_registerOuts;
     sk_loader_readBuildFile; sk_loadNodes; sk_tracer_push; sk_tracer_pop; sk_readBuildFile;
     sk_builder_buildNodes] = true.
Proof. vm_compute. reflexivity. Qed.

Lemma gen_build_file_name : gen_buildFileName = "BUILD.caco3" /\ gen_ruleSubBuilds = "sub_builds".
Proof. split; reflexivity. Qed.

Definition loader_frozenb : bool :=
  sk_eqb sk_loader_register frozen_loader_register &&
  sk_eqb sk_loader_load frozen_loader_load &&
  sk_eqb sk_loader_load1 frozen_loader_load1 &&
  sk_eqb sk_loader_registerOuts frozen_loader_registerOuts &&
  sk_eqb sk_loader_readBuildFile frozen_loader_readBuildFile &&
  sk_eqb sk_loadNodes frozen_loadNodes &&
  sk_eqb sk_tracer_push frozen_tracer_push &&
  sk_eqb sk_tracer_pop frozen_tracer_pop &&
  sk_eqb sk_readBuildFile frozen_readBuildFile &&
  sk_eqb sk_newSubBuilds frozen_newSubBuilds &&
  sk_eqb sk_builder_buildNodes frozen_builder_buildNodes &&
  sk_eqb sk_errorlist_add frozen_errorlist_add &&
  sk_eqb sk_errorlist_errs frozen_errorlist_errs.

Lemma gen_loader_shape :
  loader_frozenb = true /\
  read_guard_okb = true /\
  load1_order_okb = true /\
  loadnodes_order_okb = true /\
  gen_max_errs = max_errs.
Proof. repeat split; vm_compute; reflexivity. Qed.
