(** Go's [path.Match] / [filepath.Match] (unix) in full: '*', '?', character
    classes [[a-z]], [[^x]], escapes, multi-byte UTF-8 ('?' and classes take
    one rune, literals compare bytes) and [ErrBadPattern]; written after the
    code: [scanChunk] (byte-level chunk boundaries with its simple in-range
    flag), [matchChunk]/[getEsc] (here: parse the chunk into items, then
    match the items), and the greedy chunk loop of [Match].  Also the
    declarative reading of a pattern.  Definitions only. *)
From Coq Require Import List NArith Bool.
From Verif Require Import Lib.Path Lib.Utf8.
Import ListNotations.
Local Open Scope N_scope.

Definition c_star : N := 42.
Definition c_qmark : N := 63.
Definition c_lbrack : N := 91.
Definition c_rbrack : N := 93.
Definition c_bslash : N := 92.
Definition c_caret : N := 94.
Definition c_dash : N := 45.

(** [utf8.DecodeRuneInString]: the rune and its width; an invalid or
    truncated sequence is U+FFFD of width 1, the empty string width 0. *)
Definition decode_rune (s : str) : N * nat :=
  match s with
  | [] => (rune_error, 0%nat)
  | b0 :: r0 =>
      if b0 <? 128 then (b0, 1%nat)
      else
        match lead b0 with
        | None => (rune_error, 1%nat)
        | Some (sz, lo, hi) =>
            match r0 with
            | [] => (rune_error, 1%nat)
            | b1 :: r1 =>
                if negb (in_range lo hi b1) then (rune_error, 1%nat)
                else if sz =? 2 then ((b0 mod 32) * 64 + b1 mod 64, 2%nat)
                else
                  match r1 with
                  | [] => (rune_error, 1%nat)
                  | b2 :: r2 =>
                      if negb (cont b2) then (rune_error, 1%nat)
                      else if sz =? 3 then
                        ((b0 mod 16) * 4096 + (b1 mod 64) * 64 + b2 mod 64, 3%nat)
                      else
                        match r2 with
                        | [] => (rune_error, 1%nat)
                        | b3 :: _ =>
                            if negb (cont b3) then (rune_error, 1%nat)
                            else ((b0 mod 8) * 262144 + (b1 mod 64) * 4096
                                  + (b2 mod 64) * 64 + b3 mod 64, 4%nat)
                        end
                  end
            end
        end
  end.

(** ** scanChunk: chunk boundaries *)

(** The chunks of a pattern, each with its "preceded by stars" flag.  A '*'
    ends a chunk unless the in-range flag is set ('[' sets it, ']' clears it,
    a backslash skips the next byte). [cur] is the current chunk reversed. *)
Fixpoint chunker (pat : str) (inrange star : bool) (cur : str) : list (bool * str) :=
  match pat with
  | [] => if star || negb (is_empty cur) then [(star, rev cur)] else []
  | c :: rest =>
      if (c =? c_star) && negb inrange then
        if is_empty cur then chunker rest false true cur
        else (star, rev cur) :: chunker rest false true []
      else if c =? c_bslash then
        match rest with
        | d :: rest' => chunker rest' inrange star (d :: c :: cur)
        | [] => chunker rest inrange star (c :: cur)
        end
      else if c =? c_lbrack then chunker rest true star (c :: cur)
      else if c =? c_rbrack then chunker rest false star (c :: cur)
      else chunker rest inrange star (c :: cur)
  end.

Definition chunks_of (pat : str) : list (bool * str) := chunker pat false false [].

(** ** matchChunk / getEsc: the items of a chunk *)

Inductive item :=
| ILit (b : N)                                (* one byte, compared as such *)
| IAny                                        (* '?': one rune, not '/' *)
| IClass (neg : bool) (ranges : list (N * N)). (* one rune in / not in the ranges *)

Inductive pres (A : Type) :=
| POk (a : A)
| PBad            (* ErrBadPattern *)
| PFuel.          (* recursion budget exhausted: excluded by [parse_items_fuel] *)
Arguments POk {A}. Arguments PBad {A}. Arguments PFuel {A}.

(** [getEsc]: a possibly escaped rune of a class, and what follows it (which
    must not be empty). *)
Definition get_esc (chunk : str) : option (N * str) :=
  match chunk with
  | [] => None
  | c :: rest =>
      if (c =? c_dash) || (c =? c_rbrack) then None
      else
        let body := if c =? c_bslash then rest else chunk in
        if is_empty body then None
        else
          let '(r, n) := decode_rune body in
          if (r =? rune_error) && Nat.eqb n 1 then None
          else
            let nchunk := skipn n body in
            if is_empty nchunk then None else Some (r, nchunk)
  end.

(** The ranges of a class, after '[' and an optional '^'. *)
Fixpoint parse_class (fuel : nat) (chunk : str) (nrange : nat) (acc : list (N * N))
  : pres (list (N * N) * str) :=
  match fuel with
  | O => PFuel
  | S fuel' =>
      match chunk with
      | c :: rest =>
          if (c =? c_rbrack) && negb (Nat.eqb nrange 0) then POk (rev acc, rest)
          else
            match get_esc chunk with
            | None => PBad
            | Some (lo, chunk1) =>
                match chunk1 with
                | d :: rest1 =>
                    if d =? c_dash then
                      match get_esc rest1 with
                      | None => PBad
                      | Some (hi, chunk2) => parse_class fuel' chunk2 (S nrange) ((lo, hi) :: acc)
                      end
                    else parse_class fuel' chunk1 (S nrange) ((lo, lo) :: acc)
                | [] => PBad      (* not reached: get_esc leaves a non-empty rest *)
                end
            end
      | [] => PBad                (* getEsc on the empty chunk *)
      end
  end.

Fixpoint parse_items (fuel : nat) (chunk : str) : pres (list item) :=
  match fuel with
  | O => PFuel
  | S fuel' =>
      match chunk with
      | [] => POk []
      | c :: rest =>
          if c =? c_lbrack then
            let '(neg, body) :=
              match rest with
              | d :: rest' => if d =? c_caret then (true, rest') else (false, rest)
              | [] => (false, rest)
              end in
            match parse_class fuel' body 0 [] with
            | POk (rs, rest2) =>
                match parse_items fuel' rest2 with
                | POk l => POk (IClass neg rs :: l)
                | e => e
                end
            | PBad => PBad
            | PFuel => PFuel
            end
          else if c =? c_qmark then
            match parse_items fuel' rest with POk l => POk (IAny :: l) | e => e end
          else if c =? c_bslash then
            match rest with
            | [] => PBad
            | d :: rest' =>
                match parse_items fuel' rest' with POk l => POk (ILit d :: l) | e => e end
            end
          else
            match parse_items fuel' rest with POk l => POk (ILit c :: l) | e => e end
      end
  end.

Definition parse_chunk (chunk : str) : pres (list item) := parse_items (S (length chunk)) chunk.

Fixpoint parse_chunks (cs : list (bool * str)) : pres (list (bool * list item)) :=
  match cs with
  | [] => POk []
  | (star, chunk) :: rest =>
      match parse_chunk chunk with
      | POk items =>
          match parse_chunks rest with
          | POk l => POk ((star, items) :: l)
          | e => e
          end
      | PBad => PBad
      | PFuel => PFuel
      end
  end.

Definition parse_pattern (pat : str) : pres (list (bool * list item)) :=
  parse_chunks (chunks_of pat).

(** ** Matching items against the beginning of a name *)

Definition in_ranges (r : N) (rs : list (N * N)) : bool :=
  existsb (fun lh => (fst lh <=? r) && (r <=? snd lh)) rs.

Fixpoint match_items (items : list item) (s : str) : option str :=
  match items with
  | [] => Some s
  | it :: rest =>
      match s with
      | [] => None
      | c :: s' =>
          match it with
          | ILit b => if b =? c then match_items rest s' else None
          | IAny =>
              if c =? slash then None
              else match_items rest (skipn (snd (decode_rune s)) s)
          | IClass neg rs =>
              let '(r, n) := decode_rune s in
              if Bool.eqb (in_ranges r rs) neg then None
              else match_items rest (skipn n s)
          end
      end
  end.

(** ** The chunk loop of [Match] *)

(** [for i := 0; i < len(name) && name[i] != '/'; i++]: the first offset
    [i+1] at which the chunk matches (with nothing left over when it is the
    last chunk). *)
Fixpoint star_scan (items : list item) (last : bool) (name : str) : option str :=
  match name with
  | [] => None
  | c :: name' =>
      if c =? slash then None
      else
        match match_items items name' with
        | Some t => if last && negb (is_empty t) then star_scan items last name' else Some t
        | None => star_scan items last name'
        end
  end.

Definition no_items (l : list item) : bool := match l with [] => true | _ => false end.
Definition no_chunks (l : list (bool * list item)) : bool := match l with [] => true | _ => false end.

Fixpoint greedy (chunks : list (bool * list item)) (name : str) : bool :=
  match chunks with
  | [] => is_empty name
  | (star, items) :: rest =>
      let last := no_chunks rest in
      if star && no_items items then noslashb name          (* trailing '*' *)
      else
        let retry :=
          if star then
            match star_scan items last name with
            | Some t => greedy rest t
            | None => false
            end
          else false in
        match match_items items name with
        | Some t => if is_empty t || negb last then greedy rest t else retry
        | None => retry
        end
  end.

Inductive mres := MTrue | MFalse | MBad | MFuel.

(** [path.Match(pat, name)]: [MBad] = [ErrBadPattern]. *)
Definition go_match (pat name : str) : mres :=
  match parse_pattern pat with
  | POk chunks => if greedy chunks name then MTrue else MFalse
  | PBad => MBad
  | PFuel => MFuel
  end.

Definition matches (pat name : str) : bool :=
  match go_match pat name with MTrue => true | _ => false end.

(** The pattern is well-formed: [path.Match] reports [ErrBadPattern] for
    exactly the others (after a failed match it still checks "that the
    remainder of the pattern is syntactically valid"). *)
Definition well_formed (pat : str) : bool :=
  match parse_pattern pat with POk _ => true | _ => false end.

(** [filepath.Match] (unix) is the same loop WITHOUT that final check: a
    malformed chunk is an error only if the match gets as far as that chunk.
    [filepath.Glob] uses this one. *)
Fixpoint lazy_greedy (chunks : list (bool * str)) (name : str) : mres :=
  match chunks with
  | [] => if is_empty name then MTrue else MFalse
  | (star, chunk) :: rest =>
      match parse_chunk chunk with
      | PBad => MBad
      | PFuel => MFuel
      | POk items =>
          let last := match rest with [] => true | _ => false end in
          if star && no_items items then (if noslashb name then MTrue else MFalse)
          else
            let retry :=
              if star then
                match star_scan items last name with
                | Some t => lazy_greedy rest t
                | None => MFalse
                end
              else MFalse in
            match match_items items name with
            | Some t => if is_empty t || negb last then lazy_greedy rest t else retry
            | None => retry
            end
      end
  end.

Definition fp_match (pat name : str) : mres := lazy_greedy (chunks_of pat) name.

Definition fp_matches (pat name : str) : bool :=
  match fp_match pat name with MTrue => true | _ => false end.

(** [Glob]'s test [Match(pattern, "")] on the pattern it is given: the source
    directory (a non-empty path without magic characters; any stands for all)
    followed by the relative pattern.  The literal beginning fails on the
    empty name at once, so only a malformed FIRST chunk is reported here. *)
Definition src_prefix : str := [47; 115; 47].   (* "/s/" *)

Definition glob_accepts (pat : str) : bool :=
  match fp_match (src_prefix ++ pat) [] with MBad | MFuel => false | _ => true end.

(** [hasMeta] (unix): any of [*?[\]. *)
Definition has_meta (pat : str) : bool :=
  existsb (fun c => (c =? c_star) || (c =? c_qmark) || (c =? c_lbrack) || (c =? c_bslash)) pat.

(** ** The declarative reading *)

(** [f] holds of the name after skipping some '/'-free prefix. *)
Fixpoint dstar (f : str -> bool) (s : str) : bool :=
  f s || match s with
         | [] => false
         | c :: s' => negb (c =? slash) && dstar f s'
         end.

Fixpoint dmatch (chunks : list (bool * list item)) (s : str) : bool :=
  match chunks with
  | [] => is_empty s
  | (star, items) :: rest =>
      let f := fun s0 => match match_items items s0 with
                         | Some t => dmatch rest t
                         | None => false
                         end in
      if star then dstar f s else f s
  end.
