(** Correspondence evaluator for C10: replay a history in the model
    (Caco/Build.v) and compare, after every build, the result, the executed
    rules and the whole out/ tree with what the real [caco3.Builder] did. *)
From Coq Require Import List String Bool Arith NArith.
From Verif Require Import Caco.Load Caco.Build Caco.BuildSession.
Import ListNotations.
Local Open Scope string_scope.

Inductive ocontent := OList (l : list entry) | OGarbage.

Record bobs := mkObs {
  o_ok : bool;
  o_exec : list name;
  o_outs : list (name * ocontent)       (* sorted by name *)
}.

Inductive hstep :=
| HOp (o : op)
| HBuild (always : bool) (ts : list name) (expect : bobs)
| HNew         (* the harness replaces its long-lived Builder *)
| HWipe.       (* the harness removes out/ wholesale (out/CACHE included) *)

Record hcase := mkHist {
  h_rules : list rule;
  h_src : list (name * stat);
  h_steps : list hstep
}.

(** The mtime of an output file listed in a file set is not predicted. *)
Definition strip_entry (e : entry) : entry :=
  match e with ESrc n s => ESrc n s | EOut n _ => EOut n 0%N end.

Definition entry_eqb (a b : entry) : bool :=
  match a, b with
  | ESrc n s, ESrc n' s' => String.eqb n n' && stat_eqb s s'
  | EOut n _, EOut n' _ => String.eqb n n'
  | _, _ => false
  end.

Definition ocontent_eqb (a b : ocontent) : bool :=
  match a, b with
  | OList l, OList l' => list_eqb entry_eqb l l'
  | OGarbage, OGarbage => true
  | _, _ => false
  end.

Fixpoint insert_out (p : name * ocontent) (l : list (name * ocontent)) : list (name * ocontent) :=
  match l with
  | [] => [p]
  | q :: r => if String.leb (fst p) (fst q) then p :: l else q :: insert_out p r
  end.

Definition proj_out (out : list (name * (content * N))) : list (name * ocontent) :=
  fold_right insert_out []
    (map (fun p => (fst p, match fst (snd p) with
                           | CList l => OList (map strip_entry l)
                           | CGarbage _ => OGarbage
                           end)) out).

Definition res_ok (r : bres) : bool := match r with BOk => true | _ => false end.

Definition res_fuel (r : bres) : bool := match r with BOutOfFuel => true | _ => false end.

Definition obs_match (w : world) (ex : list name) (r : bres) (e : bobs) : bool :=
  negb (res_fuel r) &&
  Bool.eqb (res_ok r) (o_ok e) &&
  list_eqb String.eqb ex (o_exec e) &&
  list_eqb (fun a b => String.eqb (fst a) (fst b) && ocontent_eqb (snd a) (snd b))
           (proj_out (w_out w)) (o_outs e).

(** Index (from 1) of the first build whose observation differs; 0 = none. *)
Fixpoint replay (w : world) (steps : list hstep) (i : nat) : nat :=
  match steps with
  | [] => 0
  | HOp o :: r => replay (step w o) r (S i)
  | HBuild always ts e :: r =>
      match build_with always ts w with
      | (w', ex, res) => if obs_match w' ex res e then replay w' r (S i) else S i
      end
  (* what a Builder holds between Build calls is no part of the proved model
     (memo made per Build: Caco/BuildSessionGen.v), so whether the harness
     keeps one Builder or makes a new one is invisible here *)
  | HNew :: r => replay w r (S i)
  | HWipe :: r => replay (clean w) r (S i)
  end.

Definition check_hist (c : hcase) : nat :=
  replay (empty_world (h_rules c) (h_src c)) (h_steps c) 0.

Definition results (cs : list hcase) : list nat := map check_hist cs.

(** Does every build of the history stay in the scope of the theorems
    ([hist_in_scope])? 1 = yes. *)
Definition ops_of (steps : list hstep) : list sop :=
  map (fun s => match s with
                | HOp o => SOp o
                | HBuild false ts _ => SOp (OBuild ts)
                | HBuild true ts _ => SOp (OBuildAlways ts)
                | HNew => SNewBuilder
                | HWipe => SWipeOut
                end) steps.

Definition in_scope (c : hcase) : nat :=
  if shist_in_scopeb (ops_of (h_steps c)) (empty_world (h_rules c) (h_src c)) then 1 else 0.

Definition scopes (cs : list hcase) : list nat := map in_scope cs.

(** What the model did at each build of a history: (executed, hits) counts,
    for the coverage record. *)
Fixpoint model_trace (w : world) (steps : list hstep) : list (nat * nat) :=
  match steps with
  | [] => []
  | HOp o :: r => model_trace (step w o) r
  | HNew :: r => model_trace w r
  | HWipe :: r => model_trace (clean w) r
  | HBuild always ts _ :: r =>
      match build_with always ts w with
      | (w', ex, res) =>
          (List.length ex, match res with BOk => 0 | BLoadErr _ => 1 | BFail _ => 2 | BOutOfFuel => 3 end)
            :: model_trace w' r
      end
  end.
