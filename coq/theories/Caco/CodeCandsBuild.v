(** Candidate inputs for the counterexample search of the caco3 build code
    refinement (Caco/CodeRefineBuild.v, C10).  Requires only the generated
    file and the model. *)
From Coq Require Import String.
From Coq Require Import List NArith ZArith Bool.
From Verif Require Import Lib.Path Lib.GoLib Caco.Build Gen.CodeCaco.
Import ListNotations.
Local Open Scope N_scope.

(** [sameFileStat] on a file that exists: what it reads off the two records. *)
Definition run_sameFileStat (cur_err : bool * go_error) (cur st : stat) : bool * go_error :=
  gen_caco3_sameFileStat cur_err
    (Z.of_N (st_size cur)) (Z.of_N (st_mtime cur)) (Z.of_N (st_mode cur)) (bs (st_link cur))
    (Z.of_N (st_size st)) (Z.of_N (st_mtime st)) (Z.of_N (st_mode st)) (bs (st_link st)).

Definition cand_stats : list stat :=
  flat_map (fun sz => flat_map (fun mt => flat_map (fun md =>
    map (fun l => mkStat sz mt md l) [""%string; "a"%string; "b"%string])
    [420; 493]) [0; 1700000000000000000]) [0; 1; 4096].

Definition cands_sameFileStat : list (stat * stat) := pairs cand_stats cand_stats.

Definition cex_sameFileStat :=
  cex_search (pair_eqb Bool.eqb (opt_eqb go_err_eqb))
             (fun x => run_sameFileStat (true, None) (fst x) (snd x))
             (fun x => (stat_eqb (fst x) (snd x), None)) cands_sameFileStat.
