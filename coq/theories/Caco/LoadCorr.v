(** Correspondence evaluator for C11: run the name resolution and the
    loader/build-order model on the BUILD files the harness wrote and compare with what the real
    [caco3.Builder] reported. *)
From Coq Require Import List String Bool Arith.
From Verif Require Import Caco.Load Caco.LoadNames.
Import ListNotations.
Local Open Scope string_scope.

Fixpoint list_eqb {A : Type} (eqb : A -> A -> bool) (a b : list A) : bool :=
  match a, b with
  | [], [] => true
  | x :: a', y :: b' => eqb x y && list_eqb eqb a' b'
  | _, _ => false
  end.

Definition lerr_eqb (a b : lerr) : bool :=
  match a, b with
  | EUnnamed, EUnnamed => true
  | ESelectNone, ESelectNone => true
  | EEmptyName, EEmptyName => true
  | EDup x, EDup y => String.eqb x y
  | EPrev, EPrev => true
  | ECycle s, ECycle t => list_eqb String.eqb s t
  | EStat x, EStat y => String.eqb x y
  | EResolve x, EResolve y => String.eqb x y
  | EOther, EOther => true
  | _, _ => false
  end.

Inductive cobs :=
| OErr (es : list lerr)      (* Builder.Build returned these errors *)
| OExec (order : list name)  (* no error; the BUILD log lines *)
| OCrash.                    (* the process died or did not return *)

(** One workspace, built for several target lists (each in a fresh copy). *)
Record ccase := mkCase {
  c_fs : raw_files;          (* the BUILD files as written *)
  c_roots : list name;
  c_files : list name;       (* regular files under src/ *)
  c_dirs : list name;        (* directories under src/ ("" is src/ itself) *)
  c_loose : bool;            (* compare the verdict only *)
  c_runs : list (list name * cobs)   (* targets, observed *)
}.

Definition model_of (c : ccase) (targets : list name) : cres :=
  c11_run_raw (c_fs c) (c_roots c) (kind_of (c_files c) (c_dirs c)) targets.

Definition check_run (c : ccase) (r : list name * cobs) : bool :=
  match model_of c (fst r), snd r with
  | CErr es, OErr es' =>
      if c_loose c then negb (match es' with [] => true | _ => false end)
      else list_eqb lerr_eqb es es'
  | CExec l, OExec l' => list_eqb String.eqb l l'
  | _, _ => false
  end.

(** 0 = executed something, 1 = executed nothing, 2.. = first error kind;
    lets the driver count which model branches the cases reached. *)
Definition branch_tag (c : ccase) (r : list name * cobs) : nat :=
  match model_of c (fst r) with
  | CExec [] => 1
  | CExec _ => 0
  | CErr (EUnnamed :: _) => 2
  | CErr (EDup _ :: _) => 3
  | CErr (ECycle _ :: _) => 4
  | CErr (EStat _ :: _) => 5
  | CErr (EResolve _ :: _) => 6
  | CErr (EOther :: _) => 7
  | CErr _ => 8
  | CMissing => 9
  | COutOfFuel => 10
  end.

Definition results (cs : list ccase) : list (bool * nat) :=
  flat_map (fun c => map (fun r => (check_run c r, branch_tag c r)) (c_runs c)) cs.

Fixpoint mismatches_from (i : nat) (rs : list (bool * nat)) : list nat :=
  match rs with
  | [] => []
  | (true, _) :: r => mismatches_from (S i) r
  | (false, _) :: r => i :: mismatches_from (S i) r
  end.

(** Indices (over all runs of all cases, in order) where model and
    implementation disagree. *)
Definition mismatches (cs : list ccase) : list nat := mismatches_from 0 (results cs).

Definition tags (cs : list ccase) : list nat := map snd (results cs).
