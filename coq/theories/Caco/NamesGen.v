(** Obligations on what the translator regenerated from caco3's source
    (Gen/CacoConsts.v): the resolution functions still read as the text the
    model in Caco/Names.v and Caco/FileSet.v was written against, every
    constructor still passes the same build-file fields through
    [makeRelPath]/[makePath], and the listing exclusions and output suffixes
    are of the recognised shape.  Each is decided by computation; when the
    source changes shape the corresponding [Lemma] stops checking. *)
From Coq Require Import List NArith Bool String.
From Verif Require Import Lib.Path Caco.Names Caco.NamesProofs Caco.FileSet Caco.NamesGenDefs Gen.CacoConsts.
Import ListNotations.
Local Open Scope string_scope.

Lemma gen_list_recognised : gen_list_unknown = [].
Proof. reflexivity. Qed.

(** An excluded directory name is a single real path element. *)
Lemma gen_skip_dirs_good : forallb goodb gen_skip_dirs = true.
Proof. vm_compute. reflexivity. Qed.

Definition model_src_makeRelPath : string :=
  "func(p, f string) string { f = path.Clean(path.Join(""/"", f)) return strings.TrimPrefix(path.Join(""/"", p, f), ""/"") }".
Definition model_src_makePath : string :=
  "func(p, f string) string { if path.IsAbs(f) { return strings.TrimPrefix(path.Clean(f), ""/"") } return makeRelPath(p, f) }".
Definition model_src_dirFilePath : string :=
  "func(dir string, ps ...string) string { if len(ps) == 0 { return dir } p := path.Join(ps...) return filepath.Join(dir, filepath.FromSlash(p)) }".
Definition model_src_env_src : string :=
  "func(ps ...string) string { return dirFilePath(e.srcDir, ps...) }".
Definition model_src_env_out : string :=
  "func(ps ...string) string { return dirFilePath(e.outDir, ps...) }".
Definition model_src_listAllFiles : string :=
  "func(dir string) ([]string, error) { var files []string walk := func(p string, d fs.DirEntry, err error) error { if err != nil { return err } if d.IsDir() { name := d.Name() if name == "".git"" { return filepath.SkipDir } return nil } name := d.Name() switch name { case "".gitignore"", ""COPYING"", ""tags"", "".DS_Store"": return nil } if strings.HasSuffix(name, "".caco3"") { return nil } typ := d.Type() if typ.IsRegular() || typ.Type() == fs.ModeSymlink { files = append(files, p) } return nil } if err := filepath.WalkDir(dir, walk); err != nil { return nil, err } return files, nil }".
Definition model_src_ignore : string :=
  "{ for _, i := range ignoreDirs { if i == """" || strings.HasPrefix(name, i+""/"") { return true } } for _, i := range ignores { matched, err := path.Match(i, name) if err != nil { if !bads[i] { log.Printf(""bad ignore pattern: %q: %s"", i, err) } bads[i] = true continue } if matched { return true } } return false }".
Definition model_src_select : string :=
  "{ var matches []string if strings.HasSuffix(sel, ""/**"") || sel == ""**"" { var dir string if sel == ""**"" { dir = env.src(p) } else { dir = env.src(makeRelPath(p, strings.TrimSuffix(sel, ""/**""))) } files, err := listAllFiles(dir) if err != nil { return nil, errcode.Annotatef(err, ""list all files %q"", sel) } matches = files } else { glob, err := filepath.Glob(env.src(makeRelPath(p, sel))) if err != nil { return nil, errcode.Annotatef(err, ""glob %q"", sel) } matches = glob } if len(matches) == 0 { return nil, errcode.InvalidArgf(""%q select no files"", sel) } for _, match := range matches { rel, err := filepath.Rel(env.srcDir, match) if err != nil { return nil, errcode.Annotatef( err, ""get relative path for %q"", match, ) } if ignore(rel) { continue } name := filepath.ToSlash(rel) m[name] = true } }".

Lemma gen_makeRelPath_unchanged : gen_src_makeRelPath = model_src_makeRelPath.
Proof. reflexivity. Qed.
Lemma gen_makePath_unchanged : gen_src_makePath = model_src_makePath.
Proof. reflexivity. Qed.
Lemma gen_dirFilePath_unchanged : gen_src_dirFilePath = model_src_dirFilePath.
Proof. reflexivity. Qed.
Lemma gen_env_src_unchanged : gen_src_env_src = model_src_env_src.
Proof. reflexivity. Qed.
Lemma gen_env_out_unchanged : gen_src_env_out = model_src_env_out.
Proof. reflexivity. Qed.
Lemma gen_listAllFiles_unchanged : gen_src_listAllFiles = model_src_listAllFiles.
Proof. reflexivity. Qed.
Lemma gen_ignore_unchanged : gen_src_ignore = model_src_ignore.
Proof. reflexivity. Qed.
Lemma gen_select_unchanged : gen_src_select = model_src_select.
Proof. reflexivity. Qed.

(** Which build-file strings go through which resolver (constructor,
    resolver, package argument, string argument).  A constructor that starts
    using a field raw drops its row; a new field must be added here together
    with its theorem instance. *)
Definition model_resolve_calls : list (string * string * string * string) :=
  [ ("Builder.Build", "makePath", "w", "r");
    ("newBundle", "makeRelPath", "p", "r.Name");
    ("newBundle", "makePath", "p", "dep");
    ("newDockerBuild", "makeRelPath", "p", "r.Name");
    ("newDockerBuild", "makePath", "p", "r.Dockerfile");
    ("newDockerBuild", "makePath", "p", "from");
    ("newDockerBuild", "makePath", "p", "input");
    ("newDockerBuild", "makePath", "p", "input");
    ("newDockerPull", "makeRelPath", "p", "r.Name");
    ("newDockerRun", "makeRelPath", "p", "r.Name");
    ("newDockerRun", "makePath", "p", "r.Image");
    ("newDockerRun", "makePath", "p", "d");
    ("newDockerRun", "makePath", "p", "f");
    ("newDockerRun", "makePath", "p", "f");
    ("newDockerRun", "makeRelPath", "p", "f");
    ("newDownload", "makeRelPath", "p", "r.Name");
    ("newDownload", "makeRelPath", "p", "r.Output");
    ("newFileSet", "makeRelPath", "p", "r.Name");
    ("newFileSet", "makePath", "p", "f");
    ("newFileSet", "makeRelPath", "p", "ignore");
    ("newFileSet", "makeRelPath", "p", "ignore");
    ("newFileSet", "makeRelPath", "p", "strings.TrimSuffix(sel, ""/**"")");
    ("newFileSet", "makeRelPath", "p", "sel");
    ("loadNodes", "makeRelPath", """""", "dir");
    ("newSubBuilds", "makeRelPath", "p", "d") ].

Lemma gen_resolve_calls_unchanged : gen_resolve_calls = model_resolve_calls.
Proof. reflexivity. Qed.

(** Output suffixes: no slash, and never turning a name into "." or "..". *)
Definition good_suffixb (s : str) : bool :=
  noslashb s && Nat.ltb 2 (List.length s).

Lemma gen_out_suffixes_good : forallb (fun ns => good_suffixb (snd ns)) gen_out_suffixes = true.
Proof. vm_compute. reflexivity. Qed.

Lemma gen_out_suffixes_present :
  map fst gen_out_suffixes = ["dockerSumOut"; "dockerTarOut"; "fileSetOut"].
Proof. reflexivity. Qed.

Lemma gen_suffix_good fn sfx : In (fn, sfx) gen_out_suffixes -> good_suffix sfx.
Proof.
  intros H. pose proof gen_out_suffixes_good as G. rewrite forallb_forall in G.
  specialize (G _ H). cbn [snd] in G. unfold good_suffixb in G.
  apply andb_true_iff in G as [G1 G2]. split; [exact G1|]. now apply PeanoNat.Nat.ltb_lt in G2.
Qed.


(** ** Recursive listings are made per request (Caco/FileSetSeq.v)

    The Builder's env holds no listing (its fields are the frozen ones, nothing
    but the workspace memo and the per-call hooks is written on it:
    Caco/LoadSessionGen.v) and the selection loop of [newFileSet] has the frozen
    text, which calls the plain function [listAllFiles]. *)
From Verif Require Caco.LoadSessionGen Caco.FileSetSeq.

Lemma gen_listings_per_call : forall x sb tree dirs c,
  LoadSessionGen.env_writes_frozenb = true /\ LoadSessionGen.env_layout_frozenb = true /\
  gen_src_select = model_src_select /\
  FileSetSeq.listings_seq FileSetSeq.ListPerCall x sb tree c dirs = map (FileSet.list_all x sb tree) dirs.
Proof.
  intros. split; [exact LoadSessionGen.gen_env_writes_frozen|].
  split; [exact LoadSessionGen.gen_env_layout_frozen|]. split; [exact gen_select_unchanged|].
  apply FileSetSeq.listings_per_call.
Qed.

(** ** Where a build may create files

    [file_creates]: every file-creating call of package caco3 (os.Create,
    os.CreateTemp, os.MkdirTemp, os.WriteFile, os.OpenFile, os.Mkdir(All),
    os.Rename, os.Symlink, os.Link, ioutil.TempFile/TempDir) with the text of its
    first argument.  On the current source: [downloadToFile] creates the path it
    is handed (the caller passes [env.prepareOut(d.out)]), [env.prepareOut]
    makes the directory of a path under out/, [syncRepos] the source directory.
    No call takes a temporary directory ("" as the directory of a CreateTemp /
    MkdirTemp) or a path outside the workspace: outputs(build) are under
    <root>/out (and the synchronised sources under <root>/src). *)
Definition frozen_file_creates : list (string * string * string) :=
  [ ("downloadToFile", "os.Create", "f");
    ("env.prepareOut", "os.MkdirAll", "dir");
    ("syncRepos", "os.MkdirAll", "srcDir") ].

Definition caco3_createsb : bool :=
  LoadSessionGen.lay3_eqb Gen.CacoBuild.file_creates frozen_file_creates.

Lemma gen_caco3_creates : caco3_createsb = true.
Proof. vm_compute. reflexivity. Qed.
