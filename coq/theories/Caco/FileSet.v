(** caco3 file sets (file_set.go [newFileSet], [listAllFiles]) over a source
    tree given as the list of its paths (relative to the source root, clean,
    closed under parents), each with what [lstat] says it is; the paths
    beneath a symbolic link to a directory are part of the list, as the
    kernel presents them.  Patterns are Go's in full (Caco/Match.v); the
    selection by [filepath.Glob] is modelled level by level, with its
    well-formedness tests and its [os.Stat] of intermediate directories.
    Definitions only. *)
From Coq Require Import List NArith Bool.
From Verif Require Import Lib.Path Caco.Names Caco.Match.
Import ListNotations.
Local Open Scope N_scope.

(** [strings.HasSuffix] / [strings.TrimSuffix] *)
Definition has_suffix (s sfx : str) : bool := has_prefix (rev s) (rev sfx).
Definition trim_suffix (s sfx : str) : str :=
  if has_suffix s sfx then firstn (length s - length sfx) s else s.

Definition s_rec : str := [42; 42].              (* "**" *)
Definition s_slash_rec : str := [47; 42; 42].    (* "/**" *)

(** What [lstat] reports for a path of the source tree. *)
Inductive tkind :=
| TFile        (* regular file *)
| TDir         (* directory *)
| TLinkFile    (* symbolic link whose target is a file (anywhere) *)
| TLinkDir     (* symbolic link whose target is a directory (anywhere) *)
| TLinkBad.    (* dangling symbolic link *)

Record tentry := { t_path : str; t_kind : tkind }.

Definition is_real_dir (k : tkind) : bool := match k with TDir => true | _ => false end.
(** [os.Stat(p).IsDir()]: follows the link. *)
Definition is_dir_stat (k : tkind) : bool := match k with TDir | TLinkDir => true | _ => false end.
Definition is_link (k : tkind) : bool :=
  match k with TLinkFile | TLinkDir | TLinkBad => true | _ => false end.

Definition mem_str (x : str) (l : list str) : bool := existsb (str_eqb x) l.

(** Names [listAllFiles] leaves out (regenerated from the source:
    Gen/CacoConsts.v). *)
Record excl := { skip_dirs : list str; skip_files : list str; skip_suffixes : list str }.

Definition base_name (p : str) : str := last (split_slash p) [].

Definition file_ok (x : excl) (name : str) : bool :=
  negb (mem_str name (skip_files x)) && negb (existsb (has_suffix name) (skip_suffixes x)).

(** [name] lies strictly beneath directory [d] ("" = the root). *)
Definition beneath (name d : str) : bool :=
  is_empty d || has_prefix name (d ++ [slash]).

Definition rest_under (name d : str) : str :=
  if is_empty d then name else skipn (S (length d)) name.

Definition find_entry (tree : list tentry) (p : str) : option tentry :=
  find (fun e => str_eqb (t_path e) p) tree.

(** The directories strictly between the listing root [d] and [name]
    (full paths, outermost first). *)
Fixpoint paths_from (pre : str) (segs : list str) : list str :=
  match segs with
  | [] => []
  | x :: r => let q := if is_empty pre then x else pre ++ slash :: x in q :: paths_from q r
  end.

Definition dirs_between (name d : str) : list str :=
  paths_from d (removelast (split_slash (rest_under name d))).

(** [filepath.WalkDir] descends real directories only (a symbolic link is
    reported as an entry, never followed) and [listAllFiles] prunes the
    directories named in [skip_dirs]. *)
Definition walkable (x : excl) (tree : list tentry) (q : str) : bool :=
  match find_entry tree q with
  | Some e => is_real_dir (t_kind e) && negb (mem_str (base_name q) (skip_dirs x))
  | None => false
  end.

(** [listAllFiles(env.src(R))]; [None] = the walk fails (root missing).
    Regular files and symbolic links are listed, by name; nothing is read
    through a link.  [src_base] is the base name of the source root. *)
Definition list_all (x : excl) (src_base : str) (tree : list tentry) (R : str) : option (list str) :=
  let root_name := if is_empty R then src_base else base_name R in
  let walk_dir :=
    if mem_str root_name (skip_dirs x) then []
    else map t_path (filter (fun e =>
           negb (is_real_dir (t_kind e)) && beneath (t_path e) R &&
           forallb (walkable x tree) (dirs_between (t_path e) R) &&
           file_ok x (base_name (t_path e))) tree) in
  if is_empty R then Some walk_dir
  else match find_entry tree R with
       | None => None
       | Some e =>
           if is_real_dir (t_kind e) then Some walk_dir
           else Some (if file_ok x root_name then [R] else [])
       end.

Record rule := { r_name : str; r_files : list str; r_select : list str; r_ignore : list str }.

Definition ends_with_slash (s : str) : bool := has_suffix s [slash].

Definition ignore_dirs (p : str) (r : rule) : list str :=
  map (make_rel_path p) (filter ends_with_slash (r_ignore r)).
Definition ignore_pats (p : str) (r : rule) : list str :=
  map (make_rel_path p) (filter (fun i => negb (ends_with_slash i)) (r_ignore r)).

(** The directory-ignore test of [newFileSet]'s [ignore] closure. *)
Definition under_ignored_dir (name d : str) : bool := beneath name d.

(** A bad ignore pattern is logged and matches nothing. *)
Definition ignored (p : str) (r : rule) (name : str) : bool :=
  existsb (under_ignored_dir name) (ignore_dirs p r) ||
  existsb (fun i => matches i name) (ignore_pats p r).

Definition is_recursive (sel : str) : bool :=
  has_suffix sel s_slash_rec || str_eqb sel s_rec.

(** ** filepath.Glob over the tree *)

Definition exists_path (tree : list tentry) (q : str) : bool :=
  is_empty q || match find_entry tree q with Some _ => true | None => false end.

(** [os.Stat(dir)] succeeds and is a directory: symbolic links are followed. *)
Definition stat_is_dir (tree : list tentry) (d : str) : bool :=
  is_empty d || match find_entry tree d with Some e => is_dir_stat (t_kind e) | None => false end.

(** Names in directory [d]. *)
Definition child_names (tree : list tentry) (d : str) : list str :=
  flat_map (fun e =>
    let r := rest_under (t_path e) d in
    if beneath (t_path e) d && negb (is_empty r) && noslashb r then [r] else []) tree.

Definition join_dir (d n : str) : str := if is_empty d then n else d ++ slash :: n.

(** [glob(dir, pattern, matches)] for each directory of [ds]: [None] when a
    [Match] reports [ErrBadPattern]. *)
Fixpoint glob_level (tree : list tentry) (ds : list str) (seg : str) : option (list str) :=
  match ds with
  | [] => Some []
  | d :: rest =>
      let names := if stat_is_dir tree d then child_names tree d else [] in
      if existsb (fun n => match fp_match seg n with MBad | MFuel => true | _ => false end) names
      then None
      else match glob_level tree rest seg with
           | None => None
           | Some ms => Some (map (join_dir d) (filter (fp_matches seg) names) ++ ms)
           end
  end.

(** [globWithLimit] on the pattern's '/'-separated elements (given last
    first): the pattern is tested with [Match(pattern, "")], a pattern without
    magic characters is an [Lstat], otherwise the directory part is globbed
    first (or taken literally when it has no magic) and the last element is
    matched against the names in each resulting directory. *)
Fixpoint glob_rev (tree : list tentry) (segs_rev : list str) : option (list str) :=
  match segs_rev with
  | [] => Some [[]]
  | seg :: pre_rev =>
      let whole := join_slash (rev segs_rev) in
      if negb (glob_accepts whole) then None
      else if negb (has_meta whole) then Some (if exists_path tree whole then [whole] else [])
      else
        let dirp := join_slash (rev pre_rev) in
        match (if has_meta dirp then glob_rev tree pre_rev else Some [dirp]) with
        | None => None
        | Some ds => glob_level tree ds seg
        end
  end.

(** [filepath.Glob(env.src(pat))] with every match made relative to the
    source root ([filepath.Rel]; the root itself is "."). *)
Definition glob_rel (tree : list tentry) (pat : str) : option (list str) :=
  match glob_rev tree (rev (rel_segs pat)) with
  | None => None
  | Some ms => Some (map (fun m => if is_empty m then s_dot else m) ms)
  end.

Inductive sres :=
| SOk (ms : list str)
| SListErr          (* listAllFiles failed *)
| SGlobErr.         (* filepath.Glob: ErrBadPattern *)

(** Paths (relative to the source root) one [Select] entry matches. *)
Definition select_matches (x : excl) (src_base : str) (tree : list tentry) (p sel : str) : sres :=
  if is_recursive sel then
    let R := if str_eqb sel s_rec then path_join [p]
             else make_rel_path p (trim_suffix sel s_slash_rec) in
    match list_all x src_base tree R with Some ms => SOk ms | None => SListErr end
  else
    match glob_rel tree (make_rel_path p sel) with Some ms => SOk ms | None => SGlobErr end.

Fixpoint insert_str (x : str) (l : list str) : list str :=
  match l with
  | [] => [x]
  | y :: r => if str_ltb x y then x :: l
              else if str_eqb x y then l
              else y :: insert_str x r
  end.

(** [strutil.SortedList] of a set. *)
Definition sort_set (l : list str) : list str := fold_right insert_str [] l.

Inductive sel_err := SelNoFiles (sel : str) | SelListErr (sel : str) | SelGlobErr (sel : str).

Inductive fs_result :=
| FsOk (name : str) (files : list str)
| FsErr (e : sel_err).
(* SelNoFiles: "%q select no files"; SelListErr: "list all files %q"; SelGlobErr: "glob %q" *)

Fixpoint run_selects (x : excl) (src_base : str) (tree : list tentry) (p : str) (r : rule)
         (sels : list str) (acc : list str) : sel_err + list str :=
  match sels with
  | [] => inr acc
  | sel :: rest =>
      match select_matches x src_base tree p sel with
      | SListErr => inl (SelListErr sel)
      | SGlobErr => inl (SelGlobErr sel)
      | SOk [] => inl (SelNoFiles sel)
      | SOk ms =>
          run_selects x src_base tree p r rest
            (acc ++ filter (fun m => negb (ignored p r m)) ms)
      end
  end.

Definition file_set (x : excl) (src_base : str) (tree : list tentry) (p : str) (r : rule) : fs_result :=
  let explicit := map (make_path p) (r_files r) in
  match run_selects x src_base tree p r (r_select r) explicit with
  | inl e => FsErr e
  | inr all => FsOk (make_rel_path p (r_name r)) (sort_set all)
  end.
