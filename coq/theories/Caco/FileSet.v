(** caco3 file sets (file_set.go [newFileSet], [listAllFiles]) over a source
    tree given as the list of its entries (paths relative to the source root,
    clean, closed under parents).  Patterns: literals, '*' and '?' (classes
    and escapes are outside the model: [simple_patb]).  Definitions only. *)
From Coq Require Import List NArith Bool.
From Verif Require Import Lib.Path Caco.Names.
Import ListNotations.
Local Open Scope N_scope.

Definition star : N := 42.
Definition qmark : N := 63.
Definition lbrack : N := 91.
Definition backslash : N := 92.

Definition simple_patb (pat : str) : bool :=
  forallb (fun c => negb (c =? lbrack) && negb (c =? backslash)) pat.

(** [path.Match] / [filepath.Match] on the modelled fragment: '*' any run of
    non-'/' bytes, '?' one non-'/' byte (ASCII names). *)
Fixpoint gmatch (pat s : str) {struct pat} : bool :=
  match pat with
  | [] => is_empty s
  | c :: pat' =>
      if c =? star then
        (fix skip (s : str) : bool :=
           gmatch pat' s ||
           match s with
           | [] => false
           | d :: s' => negb (d =? slash) && skip s'
           end) s
      else
        match s with
        | [] => false
        | d :: s' =>
            if c =? qmark then negb (d =? slash) && gmatch pat' s'
            else (c =? d) && gmatch pat' s'
        end
  end.

(** [strings.HasSuffix] / [strings.TrimSuffix] *)
Definition has_suffix (s sfx : str) : bool := has_prefix (rev s) (rev sfx).
Definition trim_suffix (s sfx : str) : str :=
  if has_suffix s sfx then firstn (length s - length sfx) s else s.

Definition s_rec : str := [42; 42].              (* "**" *)
Definition s_slash_rec : str := [47; 42; 42].    (* "/**" *)

(** An entry of the source tree. *)
Record tentry := { t_path : str; t_dir : bool }.

Definition mem_str (x : str) (l : list str) : bool := existsb (str_eqb x) l.

(** Names [listAllFiles] leaves out (regenerated from the source:
    Gen/CacoConsts.v). *)
Record excl := { skip_dirs : list str; skip_files : list str; skip_suffixes : list str }.

Definition base_name (p : str) : str := last (split_slash p) [].

Definition file_ok (x : excl) (name : str) : bool :=
  negb (mem_str name (skip_files x)) && negb (existsb (has_suffix name) (skip_suffixes x)).

(** [name] lies strictly beneath directory [d] ("" = the root). *)
Definition beneath (name d : str) : bool :=
  is_empty d || has_prefix name (d ++ [slash]).

Definition rest_under (name d : str) : str :=
  if is_empty d then name else skipn (S (length d)) name.

(** Directory elements between the listing root and the file. *)
Definition dirs_between (name d : str) : list str := removelast (split_slash (rest_under name d)).

Definition find_entry (tree : list tentry) (p : str) : option tentry :=
  find (fun e => str_eqb (t_path e) p) tree.

(** [listAllFiles(env.src(R))]; [None] = the walk fails (root missing).
    [src_base] is the base name of the source root directory. *)
Definition list_all (x : excl) (src_base : str) (tree : list tentry) (R : str) : option (list str) :=
  let root_name := if is_empty R then src_base else base_name R in
  let walk_dir :=
    if mem_str root_name (skip_dirs x) then []
    else map t_path (filter (fun e =>
           negb (t_dir e) && beneath (t_path e) R &&
           forallb (fun d => negb (mem_str d (skip_dirs x))) (dirs_between (t_path e) R) &&
           file_ok x (base_name (t_path e))) tree) in
  if is_empty R then Some walk_dir
  else match find_entry tree R with
       | None => None
       | Some e =>
           if t_dir e then Some walk_dir
           else Some (if file_ok x root_name then [R] else [])
       end.

Record rule := { r_name : str; r_files : list str; r_select : list str; r_ignore : list str }.

Definition ends_with_slash (s : str) : bool := has_suffix s [slash].

Definition ignore_dirs (p : str) (r : rule) : list str :=
  map (make_rel_path p) (filter ends_with_slash (r_ignore r)).
Definition ignore_pats (p : str) (r : rule) : list str :=
  map (make_rel_path p) (filter (fun i => negb (ends_with_slash i)) (r_ignore r)).

(** The directory-ignore test of [newFileSet]'s [ignore] closure. *)
Definition under_ignored_dir (name d : str) : bool := beneath name d.

Definition ignored (p : str) (r : rule) (name : str) : bool :=
  existsb (under_ignored_dir name) (ignore_dirs p r) ||
  existsb (fun i => gmatch i name) (ignore_pats p r).

Definition is_recursive (sel : str) : bool :=
  has_suffix sel s_slash_rec || str_eqb sel s_rec.

(** Paths (relative to the source root) one [Select] entry matches. *)
Definition select_matches (x : excl) (src_base : str) (tree : list tentry) (p sel : str)
  : option (list str) :=
  if is_recursive sel then
    let R := if str_eqb sel s_rec then path_join [p]
             else make_rel_path p (trim_suffix sel s_slash_rec) in
    list_all x src_base tree R
  else
    let pat := make_rel_path p sel in
    Some (if is_empty pat then [s_dot]     (* Glob(srcDir) = the root; Rel gives "." *)
          else map t_path (filter (fun e => gmatch pat (t_path e)) tree)).

Fixpoint insert_str (x : str) (l : list str) : list str :=
  match l with
  | [] => [x]
  | y :: r => if str_ltb x y then x :: l
              else if str_eqb x y then l
              else y :: insert_str x r
  end.

(** [strutil.SortedList] of a set. *)
Definition sort_set (l : list str) : list str := fold_right insert_str [] l.

Inductive fs_result :=
| FsOk (name : str) (files : list str)
| FsNoFiles (sel : str)      (* "%q select no files" *)
| FsListErr (sel : str).     (* "list all files %q" *)

Inductive sel_err := SelNoFiles (sel : str) | SelListErr (sel : str).

Fixpoint run_selects (x : excl) (src_base : str) (tree : list tentry) (p : str) (r : rule)
         (sels : list str) (acc : list str) : sel_err + list str :=
  match sels with
  | [] => inr acc
  | sel :: rest =>
      match select_matches x src_base tree p sel with
      | None => inl (SelListErr sel)
      | Some [] => inl (SelNoFiles sel)
      | Some ms =>
          run_selects x src_base tree p r rest
            (acc ++ filter (fun m => negb (ignored p r m)) ms)
      end
  end.

Definition file_set (x : excl) (src_base : str) (tree : list tentry) (p : str) (r : rule) : fs_result :=
  let explicit := map (make_path p) (r_files r) in
  match run_selects x src_base tree p r (r_select r) explicit with
  | inl (SelNoFiles sel) => FsNoFiles sel
  | inl (SelListErr sel) => FsListErr sel
  | inr all => FsOk (make_rel_path p (r_name r)) (sort_set all)
  end.
