(** The objects regenerated from caco3's source that the executable model
    runs with (kept apart from the obligations of Caco/NamesGen.v, so that the
    model can still be evaluated against the implementation when an
    obligation no longer checks). *)
From Coq Require Import List NArith Bool String.
From Verif Require Import Lib.Path Caco.Names Caco.FileSet Gen.CacoConsts.
Import ListNotations.

(** The exclusion lists the model of [listAllFiles] runs with. *)
Definition gen_excl : excl :=
  {| skip_dirs := gen_skip_dirs; skip_files := gen_skip_files; skip_suffixes := gen_skip_suffixes |}.

