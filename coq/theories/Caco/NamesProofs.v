(** Proofs about caco3 name resolution (Caco/Names.v): for all strings, the
    resolved name is the rooted-clean package followed by the rooted-clean
    name — real elements only — and [env.src]/[env.out] keep it beneath the
    source / output directory. *)
From Coq Require Import List NArith Bool Lia.
From Verif Require Import Lib.Path Caco.Names.
Import ListNotations.
Local Open Scope N_scope.

Lemma forallb_goodb l :
  forallb normalb l = true -> forallb noslashb l = true -> forallb goodb l = true.
Proof.
  induction l as [|x l IH]; [reflexivity|]. cbn. intros H1 H2.
  apply andb_true_iff in H1 as [Hx H1]. apply andb_true_iff in H2 as [Hy H2].
  unfold goodb. rewrite Hx, Hy. cbn. now apply IH.
Qed.

Lemma forallb_goodb_inv l :
  forallb goodb l = true -> forallb normalb l = true /\ forallb noslashb l = true.
Proof.
  induction l as [|x l IH]; [now split|]. cbn. intros H.
  apply andb_true_iff in H as [Hx H]. unfold goodb in Hx. apply andb_true_iff in Hx as [H1 H2].
  destruct (IH H) as [A B]. now rewrite H1, H2, A, B.
Qed.

Lemma rsegs_good x : forallb goodb (rsegs x) = true.
Proof.
  unfold rsegs. apply forallb_goodb; [apply norm_rooted_normal|].
  apply norm_noslash, split_slash_noslash.
Qed.

Lemma goodb_nonempty x : goodb x = true -> is_empty x = false.
Proof.
  unfold goodb, normalb. intros H. destruct x; [discriminate|reflexivity].
Qed.

Lemma join_slash_nonempty x l : is_empty x = false -> join_slash (x :: l) <> [].
Proof. destruct x; [discriminate|]. intros _. destruct l; discriminate. Qed.

(** Reading back the elements of a clean relative name. *)
Lemma rel_segs_join l : forallb goodb l = true -> rel_segs (join_slash l) = l.
Proof.
  intros H. destruct l as [|x l]; [reflexivity|].
  destruct (forallb_goodb_inv _ H) as [_ Hn].
  assert (Hx : is_empty x = false).
  { cbn in H. apply andb_true_iff in H as [H _]. now apply goodb_nonempty. }
  pose proof (join_slash_nonempty x l Hx) as Hne.
  unfold rel_segs. destruct (join_slash (x :: l)) eqn:E; [congruence|]. rewrite <- E.
  apply split_join; [discriminate|exact Hn].
Qed.

Lemma clean_relb_join l : forallb goodb l = true -> clean_relb (join_slash l) = true.
Proof. intros H. unfold clean_relb. now rewrite rel_segs_join. Qed.

Lemma join_rel_segs s : join_slash (rel_segs s) = s.
Proof. destruct s; [reflexivity|]. apply join_split. Qed.

(** A clean relative name leads from the root to its own elements. *)
Lemma rsegs_clean_rel s : clean_relb s = true -> rsegs s = rel_segs s.
Proof.
  unfold clean_relb, rsegs, rel_segs. destruct s as [|c s]; [reflexivity|].
  intros H. destruct (forallb_goodb_inv _ H) as [Hn _]. now apply (norm_shaped_id true).
Qed.

(** *** makeRelPath *)

Lemma path_join_root_f f : path_join [s_slash; f] = clean (slash :: slash :: f).
Proof. reflexivity. Qed.

Lemma nsegs_slash_slash f : nsegs (slash :: slash :: f) = rsegs f.
Proof. unfold nsegs. cbn [is_rooted]. now rewrite N.eqb_refl, !split_slash_cons_slash. Qed.

Lemma clean_slash_slash f : clean (slash :: slash :: f) = slash :: join_slash (rsegs f).
Proof.
  destruct (clean_rooted_segments (slash :: slash :: f)) as [E _]; [reflexivity|].
  now rewrite E, nsegs_slash_slash.
Qed.

Lemma path_join_root_p_f p f' :
  path_join [s_slash; p; f'] = clean (slash :: slash :: (p ++ slash :: f')).
Proof.
  unfold path_join, join_buf. cbn [forallb is_empty s_slash andb fold_left negb orb app].
  now rewrite <- !app_assoc.
Qed.

Lemma norm_from_split_rooted_clean st l :
  forallb goodb l = true ->
  norm_from true st (split_slash (slash :: join_slash l)) = rev l ++ st.
Proof.
  intros H. destruct (forallb_goodb_inv _ H) as [Hn Hs].
  rewrite split_slash_cons_slash, norm_from_skip_empty.
  destruct l as [|x l]; [reflexivity|].
  rewrite split_join by (discriminate || exact Hs). now apply norm_from_normal.
Qed.

(** The resolved name, for all strings [p] and [f]. *)
Theorem make_rel_path_spec p f :
  make_rel_path p f = join_slash (rsegs p ++ rsegs f).
Proof.
  unfold make_rel_path. rewrite path_join_root_f, clean_idem, clean_slash_slash.
  rewrite path_join_root_p_f.
  destruct (clean_rooted_segments (slash :: slash :: (p ++ slash :: slash :: join_slash (rsegs f))))
    as [E _]; [reflexivity|].
  rewrite E. cbn [trim_slash]. rewrite N.eqb_refl. f_equal.
  rewrite nsegs_slash_slash. unfold rsegs at 1.
  rewrite split_slash_app_slash. unfold norm.
  rewrite norm_from_app, norm_from_split_rooted_clean by apply rsegs_good.
  now rewrite rev_app_distr, rev_involutive.
Qed.

Lemma app_good a b : forallb goodb a = true -> forallb goodb b = true -> forallb goodb (a ++ b) = true.
Proof. intros Ha Hb. now rewrite forallb_app, Ha, Hb. Qed.

Theorem make_rel_path_segs p f : rel_segs (make_rel_path p f) = rsegs p ++ rsegs f.
Proof. rewrite make_rel_path_spec. apply rel_segs_join, app_good; apply rsegs_good. Qed.

Theorem make_rel_path_clean p f : clean_relb (make_rel_path p f) = true.
Proof. rewrite make_rel_path_spec. apply clean_relb_join, app_good; apply rsegs_good. Qed.

(** Inside the declaring package: the package's own elements come first. *)
Theorem make_rel_path_inside p f :
  clean_relb p = true ->
  exists rest, rel_segs (make_rel_path p f) = rel_segs p ++ rest /\ forallb goodb rest = true.
Proof.
  intros Hp. exists (rsegs f). split; [|apply rsegs_good].
  now rewrite make_rel_path_segs, rsegs_clean_rel.
Qed.

(** *** makePath *)

Theorem make_path_spec p f :
  make_path p f = if is_rooted f then join_slash (rsegs f) else join_slash (rsegs p ++ rsegs f).
Proof.
  unfold make_path. destruct (is_rooted f) eqn:R; [|apply make_rel_path_spec].
  destruct (clean_rooted_segments f R) as [E _]. rewrite E. cbn [trim_slash].
  rewrite N.eqb_refl. unfold nsegs, rsegs. now rewrite R.
Qed.

Theorem make_path_clean p f : clean_relb (make_path p f) = true.
Proof.
  rewrite make_path_spec. destruct (is_rooted f); apply clean_relb_join;
    [apply rsegs_good|apply app_good; apply rsegs_good].
Qed.

Theorem make_path_segs p f :
  rel_segs (make_path p f) = if is_rooted f then rsegs f else rsegs p ++ rsegs f.
Proof.
  rewrite make_path_spec. destruct (is_rooted f); apply rel_segs_join;
    [apply rsegs_good|apply app_good; apply rsegs_good].
Qed.

(** *** env.src / env.out *)

Lemma clean_clean_rel name : clean_relb name = true -> name <> [] -> clean name = name.
Proof.
  intros H Hne. unfold clean_relb, rel_segs in H. destruct name as [|c name]; [congruence|].
  set (s := c :: name) in *.
  destruct (forallb_goodb_inv _ H) as [Hn Hs].
  assert (R : is_rooted s = false).
  { destruct (split_slash s) as [|x l] eqn:E; [now apply split_slash_nonempty in E|].
    rewrite <- (join_split s), E. apply is_rooted_join_unrooted.
    - cbn in Hs. now apply andb_true_iff in Hs as [Hs _].
    - cbn in H. apply andb_true_iff in H as [H _]. now apply goodb_nonempty. }
  rewrite clean_render, R. unfold nsegs. rewrite R.
  rewrite (norm_shaped_id false) by (exists 0%nat, (split_slash s); now split).
  cbn [render]. destruct (split_slash s) eqn:E; [now apply split_slash_nonempty in E|].
  rewrite <- E. apply join_split.
Qed.

Lemma path_join_single name :
  path_join [name] = if is_empty name then [] else clean name.
Proof. destruct name; reflexivity. Qed.

Lemma nsegs_clean_rel name : clean_relb name = true -> name <> [] -> nsegs name = rel_segs name.
Proof.
  intros H Hne. pose proof (clean_clean_rel name H Hne) as E.
  unfold clean_relb, rel_segs in *. destruct name as [|c name]; [congruence|].
  set (s := c :: name) in *.
  destruct (forallb_goodb_inv _ H) as [Hn Hs].
  assert (R : is_rooted s = false).
  { rewrite <- E, clean_is_rooted. destruct (split_slash s) as [|x l] eqn:Es; [now apply split_slash_nonempty in Es|].
    rewrite <- (join_split s), Es. apply is_rooted_join_unrooted.
    - cbn in Hs. now apply andb_true_iff in Hs as [Hs _].
    - cbn in H. apply andb_true_iff in H as [H _]. now apply goodb_nonempty. }
  unfold nsegs. rewrite R. apply (norm_shaped_id false). exists 0%nat, (split_slash s). split; [reflexivity|exact Hn].
Qed.

(** A resolved name joined under a directory: the directory's clean elements,
    then the name's, for every directory string (absolute, relative, "",
    with ".." or repeated slashes). *)
Theorem dir_file_path_under dir name :
  clean_relb name = true ->
  nsegs (dir_file_path dir [name]) = nsegs dir ++ rel_segs name /\
  (dir <> [] -> is_rooted (dir_file_path dir [name]) = is_rooted dir).
Proof.
  intros H. unfold dir_file_path. rewrite path_join_single, filepath_join2.
  destruct name as [|c name]; cbn [is_empty].
  - (* the root of the tree itself *)
    destruct dir as [|d dir]; cbn [is_empty].
    + split; [reflexivity|congruence].
    + rewrite nsegs_clean, clean_is_rooted. split; [|intros _; reflexivity].
      change (d :: dir ++ [slash]) with ((d :: dir) ++ [slash]).
      unfold nsegs. rewrite is_rooted_app by discriminate.
      rewrite split_slash_snoc_slash. unfold norm. rewrite norm_from_snoc_empty.
      cbn [rel_segs]. now rewrite app_nil_r.
  - set (s := c :: name) in *.
    assert (Hne : s <> []) by discriminate.
    rewrite (clean_clean_rel s H Hne).
    assert (Es : is_empty s = false) by reflexivity. rewrite Es.
    destruct dir as [|d dir]; cbn [is_empty].
    + split; [|congruence]. rewrite (clean_clean_rel s H Hne). now apply nsegs_clean_rel.
    + rewrite nsegs_clean, clean_is_rooted.
      change (d :: dir ++ slash :: s) with ((d :: dir) ++ slash :: s).
      split; [|intros _; now apply is_rooted_app].
      unfold nsegs. rewrite is_rooted_app by discriminate.
      rewrite split_slash_app_slash.
      unfold clean_relb, rel_segs in H. fold s in H.
      destruct (forallb_goodb_inv _ H) as [Hn _].
      unfold rel_segs. fold s. now apply norm_app_normal.
Qed.

(** [env.src(makeRelPath(p, f))] for all strings. *)
Theorem src_of_rel_path dir p f :
  nsegs (dir_file_path dir [make_rel_path p f]) = nsegs dir ++ rsegs p ++ rsegs f.
Proof.
  destruct (dir_file_path_under dir (make_rel_path p f) (make_rel_path_clean p f)) as [E _].
  now rewrite E, make_rel_path_segs.
Qed.

Theorem src_of_path dir p f :
  nsegs (dir_file_path dir [make_path p f]) =
  nsegs dir ++ (if is_rooted f then rsegs f else rsegs p ++ rsegs f).
Proof.
  destruct (dir_file_path_under dir (make_path p f) (make_path_clean p f)) as [E _].
  now rewrite E, make_path_segs.
Qed.

(** *** Output suffixes *)

Definition good_suffix (sfx : str) : Prop := noslashb sfx = true /\ (2 < length sfx)%nat.

Lemma split_app_noslash a s :
  noslashb s = true ->
  split_slash (a ++ s) = removelast (split_slash a) ++ [last (split_slash a) [] ++ s].
Proof.
  intros Hs. induction a as [|c a IH]; cbn [app].
  - now rewrite split_noslash.
  - destruct (c =? slash) eqn:E.
    + apply N.eqb_eq in E. subst c. rewrite !split_slash_cons_slash, IH.
      destruct (split_slash a) as [|x l] eqn:Ea; [now apply split_slash_nonempty in Ea|].
      reflexivity.
    + rewrite !split_slash_cons_other by exact E. rewrite IH.
      destruct (split_slash a) as [|x l] eqn:Ea; [now apply split_slash_nonempty in Ea|].
      destruct l as [|y l]; reflexivity.
Qed.

Lemma goodb_app_suffix x sfx : noslashb x = true -> good_suffix sfx -> goodb (x ++ sfx) = true.
Proof.
  intros Hx [Hs Hl]. unfold goodb, normalb, noslashb in *.
  rewrite forallb_app, Hx, Hs.
  assert (L : (2 < length (x ++ sfx))%nat) by (rewrite app_length; lia).
  destruct (x ++ sfx) as [|a [|b [|c r]]]; cbn in L; try lia.
  cbn. destruct (a =? 46); [|reflexivity]. destruct (b =? 46); reflexivity.
Qed.

Lemma forallb_removelast {A} (f : A -> bool) l : forallb f l = true -> forallb f (removelast l) = true.
Proof.
  induction l as [|x l IH]; [reflexivity|]. cbn. intros H. apply andb_true_iff in H as [Hx H].
  destruct l; [reflexivity|]. cbn [forallb]. rewrite Hx. now apply IH.
Qed.

Lemma forallb_last {A} (f : A -> bool) l d : forallb f l = true -> l <> [] -> f (last l d) = true.
Proof.
  induction l as [|x l IH]; [congruence|]. cbn [forallb]. intros H _.
  apply andb_true_iff in H as [Hx H]. destruct l; [exact Hx|]. apply IH; [exact H|discriminate].
Qed.

(** [name + ".fileset"] etc. stay clean names in the same directory. *)
Theorem with_suffix_clean name sfx :
  clean_relb name = true -> good_suffix sfx ->
  clean_relb (with_suffix name sfx) = true /\
  removelast (rel_segs (with_suffix name sfx)) = removelast (rel_segs name).
Proof.
  intros H Hg. pose proof Hg as [Hs Hl]. unfold with_suffix, clean_relb, rel_segs in *.
  destruct name as [|c name]; cbn [app].
  - destruct sfx as [|a sfx]; [cbn in Hl; lia|].
    rewrite split_noslash by exact Hs. split; [|reflexivity].
    cbn [forallb]. rewrite andb_true_r. now apply (goodb_app_suffix [] (a :: sfx)).
  - change (c :: name ++ sfx) with ((c :: name) ++ sfx). set (s := c :: name) in *.
    assert (E : s ++ sfx <> []) by (destruct s; discriminate).
    destruct (s ++ sfx) as [|c0 r] eqn:Ea; [congruence|]. rewrite <- Ea. clear Ea E.
    rewrite split_app_noslash by exact Hs.
    destruct (forallb_goodb_inv _ H) as [_ Hn].
    split.
    + rewrite forallb_app. rewrite forallb_removelast by exact H. cbn [forallb].
      rewrite andb_true_r. apply goodb_app_suffix; [|exact Hg].
      apply forallb_last; [exact Hn|apply split_slash_nonempty].
    + rewrite removelast_app by discriminate. cbn [removelast]. now rewrite app_nil_r.
Qed.
