(** Proofs about the model of [path.Match] (Caco/Match.v): the recursion
    budget always suffices; [ErrBadPattern] depends on the pattern only; the
    greedy chunk loop is sound for the declarative reading; '*' and '?' never
    match a '/', and a '/' of the name can only be matched by a literal '/' or
    by a character class; a pattern without magic characters is equality;
    '?' takes exactly one (multi-byte) rune. *)
From Coq Require Import List NArith ZArith Bool Lia.
From Coq Require Import ZifyN ZifyNat ZifyBool.
From Verif Require Import Lib.Path Lib.Utf8 Caco.Match.
Import ListNotations.
Local Open Scope N_scope.

(** *** The recursion budget *)

Lemma decode_rune_width s : s <> [] -> (1 <= snd (decode_rune s) <= length s)%nat.
Proof.
  intros Hs. destruct s as [|b0 r0]; [congruence|]. cbn [decode_rune].
  destruct (b0 <? 128); [cbn; lia|].
  destruct (lead b0) as [[[sz lo] hi]|]; [|cbn; lia].
  destruct r0 as [|b1 r1]; [cbn; lia|].
  destruct (negb (in_range lo hi b1)); [cbn; lia|].
  destruct (sz =? 2); [cbn; lia|].
  destruct r1 as [|b2 r2]; [cbn; lia|].
  destruct (negb (cont b2)); [cbn; lia|].
  destruct (sz =? 3); [cbn; lia|].
  destruct r2 as [|b3 r3]; [cbn; lia|].
  destruct (negb (cont b3)); cbn; lia.
Qed.

Lemma get_esc_shorter chunk r rest :
  get_esc chunk = Some (r, rest) -> (length rest < length chunk)%nat /\ rest <> [].
Proof.
  unfold get_esc. destruct chunk as [|c tl]; [discriminate|].
  destruct ((c =? c_dash) || (c =? c_rbrack)); [discriminate|].
  set (body := if c =? c_bslash then tl else c :: tl).
  assert (Hb : (length body <= length (c :: tl))%nat) by (unfold body; destruct (c =? c_bslash); cbn; lia).
  destruct (is_empty body) eqn:Eb; [discriminate|].
  assert (Hne : body <> []) by (destruct body; [discriminate|discriminate]).
  pose proof (decode_rune_width body Hne) as Hw.
  destruct (decode_rune body) as [r0 n]. cbn [snd] in Hw.
  destruct ((r0 =? rune_error) && Nat.eqb n 1); [discriminate|].
  destruct (is_empty (skipn n body)) eqn:Es; [discriminate|].
  intros [= <- <-]. split.
  - rewrite skipn_length. lia.
  - destruct (skipn n body); [discriminate|discriminate].
Qed.

Lemma parse_class_spec fuel : forall chunk n acc,
  (length chunk < fuel)%nat ->
  match parse_class fuel chunk n acc with
  | POk (_, rest) => (length rest < length chunk)%nat
  | PBad => True
  | PFuel => False
  end.
Proof.
  induction fuel as [|fuel IH]; intros chunk n acc H; [lia|].
  cbn [parse_class]. destruct chunk as [|c rest]; [exact I|].
  destruct ((c =? c_rbrack) && negb (Nat.eqb n 0)); [cbn; lia|].
  destruct (get_esc (c :: rest)) as [[lo chunk1]|] eqn:E1; [|exact I].
  destruct (get_esc_shorter _ _ _ E1) as [L1 N1].
  destruct chunk1 as [|d rest1]; [exact I|].
  destruct (d =? c_dash).
  - destruct (get_esc rest1) as [[hi chunk2]|] eqn:E2; [|exact I].
    destruct (get_esc_shorter _ _ _ E2) as [L2 _].
    specialize (IH chunk2 (S n) ((lo, hi) :: acc)). cbn [length] in *.
    destruct (parse_class fuel chunk2 (S n) ((lo, hi) :: acc)) as [[rs r2]| |];
      [assert (length chunk2 < fuel)%nat by lia; specialize (IH ltac:(lia)); lia|exact I|apply IH; lia].
  - specialize (IH (d :: rest1) (S n) ((lo, lo) :: acc)). cbn [length] in *.
    destruct (parse_class fuel (d :: rest1) (S n) ((lo, lo) :: acc)) as [[rs r2]| |];
      [specialize (IH ltac:(lia)); cbn [length] in IH; lia|exact I|apply IH; lia].
Qed.

Lemma parse_items_fuel fuel : forall chunk,
  (length chunk < fuel)%nat -> parse_items fuel chunk <> PFuel.
Proof.
  induction fuel as [|fuel IH]; intros chunk H; [lia|].
  cbn [parse_items]. destruct chunk as [|c rest]; [discriminate|]. cbn [length] in H.
  destruct (c =? c_lbrack).
  - set (nb := match rest with
               | d :: rest' => if d =? c_caret then (true, rest') else (false, rest)
               | [] => (false, rest)
               end).
    assert (Hb : (length (snd nb) <= length rest)%nat).
    { unfold nb. destruct rest as [|d rest']; [cbn; lia|]. destruct (d =? c_caret); cbn; lia. }
    destruct nb as [neg body]. cbn [snd] in Hb.
    pose proof (parse_class_spec fuel body 0%nat [] ltac:(lia)) as Hc.
    destruct (parse_class fuel body 0 []) as [[rs rest2]| |]; [|discriminate|contradiction].
    specialize (IH rest2 ltac:(lia)).
    destruct (parse_items fuel rest2); [discriminate|discriminate|congruence].
  - destruct (c =? c_qmark).
    + specialize (IH rest ltac:(lia)). destruct (parse_items fuel rest); [discriminate|discriminate|congruence].
    + destruct (c =? c_bslash).
      * destruct rest as [|d rest']; [discriminate|]. cbn [length] in H.
        specialize (IH rest' ltac:(lia)). destruct (parse_items fuel rest'); [discriminate|discriminate|congruence].
      * specialize (IH rest ltac:(lia)). destruct (parse_items fuel rest); [discriminate|discriminate|congruence].
Qed.

Lemma parse_chunks_no_fuel cs : parse_chunks cs <> PFuel.
Proof.
  induction cs as [|[star chunk] cs IH]; [discriminate|]. cbn [parse_chunks].
  pose proof (parse_items_fuel (S (length chunk)) chunk ltac:(lia)) as H. unfold parse_chunk.
  destruct (parse_items (S (length chunk)) chunk); [|discriminate|congruence].
  destruct (parse_chunks cs); [discriminate|discriminate|congruence].
Qed.

(** The budget is never exhausted: matching is total. *)
Theorem go_match_no_fuel pat name : go_match pat name <> MFuel.
Proof.
  unfold go_match, parse_pattern. pose proof (parse_chunks_no_fuel (chunks_of pat)) as H.
  destruct (parse_chunks (chunks_of pat)); [destruct (greedy a name); discriminate|discriminate|congruence].
Qed.

(** [ErrBadPattern] is a property of the pattern alone. *)
Theorem go_match_bad_iff pat name : go_match pat name = MBad <-> well_formed pat = false.
Proof.
  unfold go_match, well_formed. pose proof (parse_chunks_no_fuel (chunks_of pat)) as H.
  unfold parse_pattern in *. destruct (parse_chunks (chunks_of pat)).
  - destruct (greedy a name); split; discriminate.
  - split; reflexivity.
  - congruence.
Qed.

(** *** Greedy is sound for the declarative reading *)

Lemma dstar_here (f : str -> bool) s : f s = true -> dstar f s = true.
Proof. intros H. destruct s; cbn; now rewrite H. Qed.

Lemma dstar_skip (f : str -> bool) c s : (c =? slash) = false -> dstar f s = true -> dstar f (c :: s) = true.
Proof. intros Hc H. cbn. rewrite Hc, H. cbn. apply orb_true_r. Qed.

Lemma star_scan_sound items last name t :
  star_scan items last name = Some t ->
  forall g : str -> bool,
    (forall s0, match_items items s0 = Some t -> g s0 = true) -> dstar g name = true.
Proof.
  induction name as [|c name IH]; intros H g Hg; [discriminate|].
  cbn [star_scan] in H. destruct (c =? slash) eqn:Ec; [discriminate|].
  apply dstar_skip; [exact Ec|].
  destruct (match_items items name) as [t0|] eqn:Em.
  - destruct (last && negb (is_empty t0)).
    + now apply IH.
    + injection H as <-. apply dstar_here. now apply Hg.
  - now apply IH.
Qed.

(** Chunk lists as [scanChunk] produces them: only the last chunk may be
    empty (a trailing '*'). *)
Fixpoint wf_chunks (l : list (bool * list item)) : bool :=
  match l with
  | [] => true
  | (_, items) :: rest =>
      match rest with
      | [] => true
      | _ => negb (no_items items) && wf_chunks rest
      end
  end.

Lemma noslash_dstar_empty name :
  noslashb name = true -> dstar (fun s0 => is_empty s0) name = true.
Proof.
  induction name as [|c name IH]; [reflexivity|]. cbn [noslashb forallb]. intros H.
  apply andb_true_iff in H as [Hc H]. apply negb_true_iff in Hc.
  apply dstar_skip; [exact Hc|]. now apply IH.
Qed.

Theorem greedy_sound chunks : forall name,
  wf_chunks chunks = true -> greedy chunks name = true -> dmatch chunks name = true.
Proof.
  induction chunks as [|[star items] rest IH]; intros name Hwf H; [exact H|].
  assert (Hwf' : wf_chunks rest = true).
  { cbn [wf_chunks] in Hwf. destruct rest as [|c2 rest2]; [reflexivity|].
    now apply andb_true_iff in Hwf as [_ Hwf]. }
  cbn [greedy dmatch] in *.
  set (f := fun s0 => match match_items items s0 with Some t => dmatch rest t | None => false end).
  destruct (star && no_items items) eqn:Et.
  { (* trailing star: the last chunk *)
    apply andb_true_iff in Et as [-> Ei]. destruct items; [|discriminate].
    destruct rest as [|c2 rest2]; [|cbn in Hwf; discriminate].
    unfold f. cbn [match_items dmatch]. now apply noslash_dstar_empty. }
  assert (Hhere : forall t, match_items items name = Some t -> greedy rest t = true ->
                            (if star then dstar f name else f name) = true).
  { intros t Em Hg. assert (Hf : f name = true) by (unfold f; rewrite Em; now apply IH).
    destruct star; [now apply dstar_here|exact Hf]. }
  assert (Hretry :
    (if star then match star_scan items (no_chunks rest) name with
                  | Some t => greedy rest t | None => false end else false) = true ->
    (if star then dstar f name else f name) = true).
  { destruct star; [|discriminate].
    destruct (star_scan items (no_chunks rest) name) as [t|] eqn:Es; [|discriminate].
    intros Hg. eapply star_scan_sound; [exact Es|].
    intros s0 Em. unfold f. rewrite Em. now apply IH. }
  assert (Hcases :
    (exists t, match_items items name = Some t /\ greedy rest t = true) \/
    (if star then match star_scan items (no_chunks rest) name with
                  | Some t => greedy rest t | None => false end else false) = true).
  { destruct (match_items items name) as [t|];
      [destruct (is_empty t || negb (no_chunks rest)); [left; now exists t|now right]|now right]. }
  change ((if star then dstar f name else f name) = true).
  destruct Hcases as [(t & Em & Hg)|Hr]; [now apply (Hhere t)|now apply Hretry].
Qed.

(** What [chunks_of] produces is of that shape. *)
Fixpoint mid_nonempty (l : list (bool * str)) : bool :=
  match l with
  | [] => true
  | (_, c) :: rest =>
      match rest with
      | [] => true
      | _ => negb (is_empty c) && mid_nonempty rest
      end
  end.

Lemma chunker_mid_n n : forall pat inr star cur,
  (length pat <= n)%nat -> mid_nonempty (chunker pat inr star cur) = true.
Proof.
  induction n as [|n IH]; intros pat inr star cur Hl.
  - destruct pat; [|cbn in Hl; lia]. cbn. destruct (star || negb (is_empty cur)); reflexivity.
  - destruct pat as [|c rest]; [cbn; destruct (star || negb (is_empty cur)); reflexivity|].
    cbn [length] in Hl. cbn [chunker].
    destruct ((c =? c_star) && negb inr).
    + destruct (is_empty cur) eqn:Ec; [apply IH; lia|].
      cbn [mid_nonempty]. pose proof (IH rest false true [] ltac:(lia)) as H.
      destruct (chunker rest false true []) eqn:Ek; [reflexivity|].
      rewrite H, andb_true_r. destruct cur; [discriminate|].
      cbn [rev]. destruct (rev cur); reflexivity.
    + destruct (c =? c_bslash).
      * destruct rest as [|d rest']; [apply IH; cbn; lia|]. cbn [length] in Hl. apply IH. lia.
      * destruct (c =? c_lbrack); [apply IH; lia|]. destruct (c =? c_rbrack); apply IH; lia.
Qed.

Lemma chunks_of_mid pat : mid_nonempty (chunks_of pat) = true.
Proof. apply (chunker_mid_n (length pat)). lia. Qed.

Lemma parse_items_nonempty fuel c rest l :
  parse_items fuel (c :: rest) = POk l -> no_items l = false.
Proof.
  destruct fuel as [|fuel]; [discriminate|]. cbn [parse_items].
  destruct (c =? c_lbrack).
  - destruct (match rest with
              | d :: rest' => if d =? c_caret then (true, rest') else (false, rest)
              | [] => (false, rest)
              end) as [neg body].
    destruct (parse_class fuel body 0 []) as [[rs rest2]| |]; try discriminate.
    destruct (parse_items fuel rest2); try discriminate. now intros [= <-].
  - destruct (c =? c_qmark).
    + destruct (parse_items fuel rest); try discriminate. now intros [= <-].
    + destruct (c =? c_bslash).
      * destruct rest as [|d rest']; [discriminate|].
        destruct (parse_items fuel rest'); try discriminate. now intros [= <-].
      * destruct (parse_items fuel rest); try discriminate. now intros [= <-].
Qed.

Lemma parse_chunks_wf cs l :
  mid_nonempty cs = true -> parse_chunks cs = POk l -> wf_chunks l = true.
Proof.
  revert l; induction cs as [|[star chunk] cs IH]; intros l Hm H.
  - injection H as <-. reflexivity.
  - cbn [parse_chunks] in H. unfold parse_chunk in H.
    destruct (parse_items (S (length chunk)) chunk) as [items| |] eqn:Ei; try discriminate.
    destruct (parse_chunks cs) as [l'| |] eqn:El; try discriminate.
    injection H as <-. cbn [wf_chunks].
    destruct l' as [|c2 l2] eqn:E2; [reflexivity|]. rewrite <- E2 in *.
    destruct cs as [|c3 cs3]; [cbn in El; injection El as <-; discriminate|].
    cbn [mid_nonempty] in Hm. apply andb_true_iff in Hm as [Hc Hm].
    rewrite (IH _ Hm eq_refl), andb_true_r.
    destruct chunk as [|b chunk']; [discriminate|].
    now rewrite (parse_items_nonempty _ _ _ _ Ei).
Qed.

(** What [Match] accepts is matched in the declarative sense. *)
Theorem go_match_sound pat name chunks :
  parse_pattern pat = POk chunks -> go_match pat name = MTrue -> dmatch chunks name = true.
Proof.
  intros Hp H. unfold go_match in H. rewrite Hp in H.
  destruct (greedy chunks name) eqn:Eg; [|discriminate].
  apply greedy_sound; [|exact Eg].
  eapply parse_chunks_wf; [apply chunks_of_mid|exact Hp].
Qed.

(** *** Where a '/' of the name can come from *)

Fixpoint count_slash (s : str) : nat :=
  match s with
  | [] => 0
  | c :: r => (if c =? slash then 1 else 0) + count_slash r
  end.

Definition is_class (it : item) : bool := match it with IClass _ _ => true | _ => false end.
Definition lit_slash (it : item) : nat := match it with ILit b => if b =? slash then 1 else 0 | _ => 0 end.

Fixpoint items_slashes (l : list item) : nat :=
  match l with [] => 0 | it :: r => lit_slash it + items_slashes r end.
Fixpoint items_classes (l : list item) : nat :=
  match l with [] => 0 | it :: r => (if is_class it then 1 else 0) + items_classes r end.

Fixpoint chunks_slashes (l : list (bool * list item)) : nat :=
  match l with [] => 0 | (_, i) :: r => items_slashes i + chunks_slashes r end.
Fixpoint chunks_classes (l : list (bool * list item)) : nat :=
  match l with [] => 0 | (_, i) :: r => items_classes i + chunks_classes r end.

Lemma count_slash_app a b : count_slash (a ++ b) = (count_slash a + count_slash b)%nat.
Proof. induction a as [|c a IH]; [reflexivity|]. cbn. rewrite IH. lia. Qed.

Lemma count_slash_skipn_le n s : (count_slash (skipn n s) <= count_slash s)%nat.
Proof.
  revert s; induction n as [|n IH]; intros s; [cbn; lia|]. destruct s as [|c s]; [cbn; lia|].
  cbn [skipn count_slash]. specialize (IH s). lia.
Qed.

(** The bytes of one decoded rune other than '/' contain no '/'. *)
Lemma decode_rune_skip_slashes c s :
  (c =? slash) = false ->
  count_slash (skipn (snd (decode_rune (c :: s))) (c :: s)) = count_slash (c :: s).
Proof.
  intros Hc. cbn [decode_rune].
  assert (H1 : count_slash (skipn 1 (c :: s)) = count_slash (c :: s)) by (cbn; now rewrite Hc).
  destruct (c <? 128); [exact H1|].
  destruct (lead c) as [[[sz lo] hi]|] eqn:El; [|exact H1].
  assert (Hc128 : 128 <= c \/ c < 128) by lia.
  destruct s as [|b1 r1]; [exact H1|].
  destruct (in_range lo hi b1) eqn:E1; cbn [negb]; [|exact H1].
  assert (Hlo : 128 <= lo).
  { unfold lead in El. repeat match type of El with
      | (if ?c then _ else _) = _ => destruct c
      end; try discriminate; injection El as <- <- <-; lia. }
  assert (Hb1 : (b1 =? slash) = false) by (unfold in_range, slash in *; lia).
  destruct (sz =? 2); [cbn; now rewrite Hc, Hb1|].
  destruct r1 as [|b2 r2]; [exact H1|].
  destruct (cont b2) eqn:E2; cbn [negb]; [|exact H1].
  assert (Hb2 : (b2 =? slash) = false) by (unfold cont, in_range, slash in *; lia).
  destruct (sz =? 3); [cbn; now rewrite Hc, Hb1, Hb2|].
  destruct r2 as [|b3 r3]; [exact H1|].
  destruct (cont b3) eqn:E3; cbn [negb]; [|exact H1].
  assert (Hb3 : (b3 =? slash) = false) by (unfold cont, in_range, slash in *; lia).
  cbn. now rewrite Hc, Hb1, Hb2, Hb3.
Qed.

(** Matching items: every '/' consumed is a literal '/' of the pattern or is
    taken by a class. *)
Lemma match_items_slashes items : forall s t,
  match_items items s = Some t ->
  (items_slashes items + count_slash t <= count_slash s <=
   items_slashes items + items_classes items + count_slash t)%nat.
Proof.
  induction items as [|it items IH]; intros s t H.
  - injection H as <-. cbn. lia.
  - cbn [match_items] in H. destruct s as [|c s']; [discriminate|].
    destruct it as [b| |neg rs].
    + destruct (b =? c) eqn:Eb; [|discriminate]. apply N.eqb_eq in Eb. subst c.
      specialize (IH _ _ H). cbn [items_slashes items_classes lit_slash is_class count_slash]. lia.
    + destruct (c =? slash) eqn:Ec; [discriminate|].
      specialize (IH _ _ H). rewrite (decode_rune_skip_slashes c s' Ec) in IH.
      cbn [items_slashes items_classes lit_slash is_class]. lia.
    + destruct (decode_rune (c :: s')) as [r n] eqn:Ed.
      destruct (Bool.eqb (in_ranges r rs) neg); [discriminate|].
      specialize (IH _ _ H).
      pose proof (count_slash_skipn_le n (c :: s')) as Hle.
      assert (Hge : (count_slash (c :: s') <= 1 + count_slash (skipn n (c :: s')))%nat).
      { pose proof (decode_rune_width (c :: s') ltac:(discriminate)) as Hw. rewrite Ed in Hw. cbn [snd] in Hw.
        destruct (c =? slash) eqn:Ec.
        - (* the class took a '/': one byte *)
          assert (n = 1%nat).
          { cbn [decode_rune] in Ed. unfold slash in Ec. replace (c <? 128) with true in Ed by lia.
            now injection Ed. }
          subst n. cbn. rewrite Ec. lia.
        - pose proof (decode_rune_skip_slashes c s' Ec) as Hs. rewrite Ed in Hs. cbn [snd] in Hs. lia. }
      cbn [items_slashes items_classes lit_slash is_class]. lia.
Qed.

Lemma dstar_split (f : str -> bool) s :
  dstar f s = true -> exists pre t, s = pre ++ t /\ count_slash pre = 0%nat /\ f t = true.
Proof.
  induction s as [|c s IH]; cbn [dstar]; intros H.
  - rewrite orb_false_r in H. exists [], []. now repeat split.
  - apply orb_true_iff in H as [H|H]; [exists [], (c :: s); now repeat split|].
    apply andb_true_iff in H as [Hc H]. apply negb_true_iff in Hc.
    destruct (IH H) as (pre & t & -> & Hp & Hf). exists (c :: pre), t.
    repeat split; [|exact Hf]. cbn. now rewrite Hc, Hp.
Qed.

Theorem dmatch_slashes chunks : forall s,
  dmatch chunks s = true ->
  (chunks_slashes chunks <= count_slash s <= chunks_slashes chunks + chunks_classes chunks)%nat.
Proof.
  induction chunks as [|[star items] rest IH]; intros s H.
  - cbn in H. destruct s; [cbn; lia|discriminate].
  - cbn [dmatch] in H.
    set (f := fun s0 => match match_items items s0 with Some t => dmatch rest t | None => false end) in H.
    assert (Hf : forall s0, f s0 = true ->
      (chunks_slashes ((star, items) :: rest) <= count_slash s0 <=
       chunks_slashes ((star, items) :: rest) + chunks_classes ((star, items) :: rest))%nat).
    { intros s0 H0. unfold f in H0. destruct (match_items items s0) as [t|] eqn:Em; [|discriminate].
      pose proof (match_items_slashes _ _ _ Em) as A. pose proof (IH _ H0) as B.
      cbn [chunks_slashes chunks_classes]. lia. }
    destruct star; [|now apply Hf].
    destruct (dstar_split _ _ H) as (pre & t & -> & Hp & Ht).
    rewrite count_slash_app, Hp. now apply Hf.
Qed.

(** '*' and '?' never match a '/': the name has exactly the literal '/'s of
    the pattern, plus at most one per character class (Go's classes do match
    '/': [[^a]] matches "/"). *)
Theorem go_match_slashes pat name chunks :
  parse_pattern pat = POk chunks -> go_match pat name = MTrue ->
  (chunks_slashes chunks <= count_slash name <= chunks_slashes chunks + chunks_classes chunks)%nat.
Proof. intros Hp H. apply dmatch_slashes. eapply go_match_sound; eassumption. Qed.

Corollary go_match_same_depth pat name chunks :
  parse_pattern pat = POk chunks -> chunks_classes chunks = 0%nat -> go_match pat name = MTrue ->
  count_slash name = chunks_slashes chunks.
Proof. intros Hp Hc H. pose proof (go_match_slashes _ _ _ Hp H). lia. Qed.

(** *** A pattern without magic characters is equality *)

Lemma has_meta_cons c p :
  has_meta (c :: p) = false ->
  (c =? c_star) = false /\ (c =? c_qmark) = false /\ (c =? c_lbrack) = false /\
  (c =? c_bslash) = false /\ has_meta p = false.
Proof.
  unfold has_meta. cbn [existsb]. intros H. apply orb_false_iff in H as [H Hp].
  apply orb_false_iff in H as [H H4]. apply orb_false_iff in H as [H H3].
  apply orb_false_iff in H as [H1 H2]. now repeat split.
Qed.

Lemma chunker_nometa pat : forall cur,
  has_meta pat = false ->
  chunker pat false false cur =
  if is_empty (rev cur ++ pat) then [] else [(false, rev cur ++ pat)].
Proof.
  induction pat as [|c rest IH]; intros cur H.
  - cbn [chunker]. rewrite app_nil_r. cbn [orb].
    destruct cur as [|x cur]; [reflexivity|]. cbn [is_empty negb rev].
    destruct (rev cur ++ [x]) eqn:E; [now apply app_eq_nil in E as [_ E]|reflexivity].
  - destruct (has_meta_cons _ _ H) as (H1 & H2 & H3 & H4 & Hp).
    cbn [chunker]. rewrite H1, H4, H3. cbn [andb].
    assert (E : rev (c :: cur) ++ rest = rev cur ++ c :: rest) by (cbn [rev]; now rewrite <- app_assoc).
    destruct (c =? c_rbrack); rewrite IH by exact Hp; now rewrite E.
Qed.

Lemma parse_items_nometa fuel : forall p,
  (length p < fuel)%nat -> has_meta p = false -> parse_items fuel p = POk (map ILit p).
Proof.
  induction fuel as [|fuel IH]; intros p Hl H; [lia|].
  destruct p as [|c p]; [reflexivity|]. cbn [length] in Hl.
  destruct (has_meta_cons _ _ H) as (H1 & H2 & H3 & H4 & Hp).
  cbn [parse_items]. rewrite H3, H2, H4. now rewrite IH by (lia || exact Hp).
Qed.

Lemma match_items_lits p : forall s,
  match_items (map ILit p) s = if has_prefix s p then Some (skipn (length p) s) else None.
Proof.
  induction p as [|c p IH]; intros s; [reflexivity|].
  cbn [map match_items has_prefix length]. destruct s as [|d s]; [reflexivity|].
  cbn [skipn]. destruct (c =? d); [apply IH|reflexivity].
Qed.

Theorem go_match_literal pat name :
  has_meta pat = false ->
  go_match pat name = if str_eqb pat name then MTrue else MFalse.
Proof.
  intros H. unfold go_match, parse_pattern, chunks_of. rewrite chunker_nometa by exact H.
  cbn [rev app]. destruct pat as [|c p] eqn:Ep.
  - cbn. destruct name; reflexivity.
  - rewrite <- Ep in *. assert (Hne : is_empty pat = false) by (rewrite Ep; reflexivity).
    rewrite Hne. cbn [parse_chunks]. unfold parse_chunk.
    rewrite parse_items_nometa by (lia || exact H).
    cbn [greedy no_chunks andb]. rewrite match_items_lits.
    destruct (has_prefix name pat) eqn:Eh.
    + apply has_prefix_spec in Eh as [r ->].
      rewrite skipn_app, skipn_all, PeanoNat.Nat.sub_diag. cbn [app skipn orb negb].
      destruct r as [|x r].
      * rewrite app_nil_r, str_eqb_refl. reflexivity.
      * cbn [is_empty]. replace (str_eqb pat (pat ++ x :: r)) with false; [reflexivity|].
        symmetry. apply str_eqb_neq. intros E. rewrite <- (app_nil_r pat) in E at 1.
        apply app_inv_head in E. discriminate.
    + replace (str_eqb pat name) with false; [reflexivity|].
      symmetry. apply str_eqb_neq. intros <-.
      assert (X : has_prefix pat pat = true) by (apply has_prefix_spec; exists []; now rewrite app_nil_r).
      congruence.
Qed.

(** *** '?' takes one rune, however many bytes *)

Ltac Zify.zify_post_hook ::= Z.div_mod_to_equations.

Lemma dr2 a c rest : 2 <= a < 32 -> c < 64 ->
  decode_rune (192 + a :: 128 + c :: rest) = (a * 64 + c, 2%nat).
Proof.
  intros Ha Hc. cbn [decode_rune]. replace (192 + a <? 128) with false by lia.
  rewrite (lead_some (192 + a) 2 128 191) by lia.
  replace (in_range 128 191 (128 + c)) with true by (unfold in_range; lia).
  cbn [negb]. change (2 =? 2) with true. cbv iota. f_equal. lia.
Qed.

Lemma dr3 a b c rest : a < 16 -> b < 64 -> c < 64 ->
  (a = 0 -> 32 <= b) -> (a = 13 -> b < 32) ->
  decode_rune (224 + a :: 128 + b :: 128 + c :: rest) = (a * 4096 + b * 64 + c, 3%nat).
Proof.
  intros Ha Hb Hc H0 H13. cbn [decode_rune]. replace (224 + a <? 128) with false by lia.
  rewrite (lead_some (224 + a) 3 (if 224 + a =? 224 then 160 else 128)
             (if 224 + a =? 237 then 159 else 191))
    by (try lia; right; left; repeat split; lia).
  replace (in_range (if 224 + a =? 224 then 160 else 128) (if 224 + a =? 237 then 159 else 191) (128 + b))
    with true by (unfold in_range; destruct (224 + a =? 224) eqn:?, (224 + a =? 237) eqn:?; lia).
  cbn [negb]. change (3 =? 2) with false. cbv iota.
  replace (cont (128 + c)) with true by (unfold cont, in_range; lia).
  cbn [negb]. change (3 =? 3) with true. cbv iota. f_equal. lia.
Qed.

Lemma dr4 a b c d rest : a < 5 -> b < 64 -> c < 64 -> d < 64 ->
  (a = 0 -> 16 <= b) -> (a = 4 -> b < 16) ->
  decode_rune (240 + a :: 128 + b :: 128 + c :: 128 + d :: rest)
  = (a * 262144 + b * 4096 + c * 64 + d, 4%nat).
Proof.
  intros Ha Hb Hc Hd H0 H4. cbn [decode_rune]. replace (240 + a <? 128) with false by lia.
  rewrite (lead_some (240 + a) 4 (if 240 + a =? 240 then 144 else 128)
             (if 240 + a =? 244 then 143 else 191))
    by (try lia; right; right; repeat split; lia).
  replace (in_range (if 240 + a =? 240 then 144 else 128) (if 240 + a =? 244 then 143 else 191) (128 + b))
    with true by (unfold in_range; destruct (240 + a =? 240) eqn:?, (240 + a =? 244) eqn:?; lia).
  cbn [negb]. change (4 =? 2) with false. cbv iota.
  replace (cont (128 + c)) with true by (unfold cont, in_range; lia).
  cbn [negb]. change (4 =? 3) with false. cbv iota.
  replace (cont (128 + d)) with true by (unfold cont, in_range; lia).
  cbn [negb]. f_equal. lia.
Qed.

(** Decoding the UTF-8 encoding of a valid rune gives it back, with the
    width of the encoding. *)
Lemma decode_rune_encode r rest :
  valid_rune r = true ->
  decode_rune (encode_rune r ++ rest) = (r, length (encode_rune r)).
Proof.
  intros Hv. destruct (proj1 (valid_rune_spec r) Hv) as [Hm Hs].
  destruct (N.ltb_spec r 128) as [H1|H1].
  { rewrite enc_1 by lia. cbn [app decode_rune length]. now replace (r <? 128) with true by lia. }
  destruct (N.ltb_spec r 2048) as [H2|H2].
  { rewrite enc_2 by lia. cbn [app length].
    destruct (split64 r) as [E1 B1]. set (d := r mod 64) in *. set (q1 := r / 64) in *. clearbody d q1.
    rewrite dr2 by lia. f_equal. lia. }
  destruct (N.ltb_spec r 65536) as [H3|H3].
  { rewrite enc_3 by (try lia; exact Hv). cbn [app length].
    destruct (split64 r) as [E1 B1]. set (d := r mod 64) in *. set (q1 := r / 64) in *. clearbody d q1.
    destruct (split64 q1) as [E2 B2]. set (c := q1 mod 64) in *. set (q2 := q1 / 64) in *. clearbody c q2.
    rewrite dr3 by lia. f_equal. lia. }
  rewrite enc_4 by (try lia; exact Hv). cbn [app length].
  destruct (split64 r) as [E1 B1]. set (d := r mod 64) in *. set (q1 := r / 64) in *. clearbody d q1.
  destruct (split64 q1) as [E2 B2]. set (c := q1 mod 64) in *. set (q2 := q1 / 64) in *. clearbody c q2.
  destruct (split64 q2) as [E3 B3]. set (b := q2 mod 64) in *. set (q3 := q2 / 64) in *. clearbody b q3.
  rewrite dr4 by lia. f_equal. lia.
Qed.

Lemma encode_rune_nonempty r : encode_rune r <> [].
Proof.
  unfold encode_rune. destruct (r <? 128); [discriminate|]. destruct (r <? 2048); [discriminate|].
  destruct (negb (valid_rune r)); [discriminate|]. destruct (r <? 65536); discriminate.
Qed.

(** '?' consumes exactly the bytes of one rune (other than '/'), and a class
    decides on the rune, not on its first byte. *)
Theorem qmark_takes_one_rune r rest :
  valid_rune r = true -> r <> slash ->
  match_items [IAny] (encode_rune r ++ rest) = Some rest.
Proof.
  intros Hv Hs. cbn [match_items].
  pose proof (encode_rune_nonempty r) as Hne.
  destruct (encode_rune r ++ rest) as [|c s'] eqn:E; [apply app_eq_nil in E as [E _]; congruence|].
  rewrite <- E.
  assert (Hc : (c =? slash) = false).
  { destruct (N.ltb_spec r 128) as [H1|H1].
    { rewrite enc_1 in E by lia. cbn [app] in E. apply (f_equal (hd 0)) in E. cbn [hd] in E. subst c. now apply N.eqb_neq. }
    destruct (N.ltb_spec r 2048) as [H2|H2].
    { rewrite enc_2 in E by lia. cbn [app] in E. apply (f_equal (hd 0)) in E. cbn [hd] in E. subst c. unfold slash. generalize (r / 64). intros x. lia. }
    destruct (N.ltb_spec r 65536) as [H3|H3].
    { rewrite enc_3 in E by (try lia; exact Hv). cbn [app] in E. apply (f_equal (hd 0)) in E. cbn [hd] in E. subst c. unfold slash. generalize (r / 64 / 64). intros x. lia. }
    rewrite enc_4 in E by (try lia; exact Hv). cbn [app] in E. apply (f_equal (hd 0)) in E. cbn [hd] in E. subst c. unfold slash. generalize (r / 64 / 64 / 64). intros x. lia. }
  rewrite Hc, decode_rune_encode by exact Hv. cbn [snd].
  now rewrite skipn_app, skipn_all, PeanoNat.Nat.sub_diag.
Qed.

Theorem class_takes_one_rune neg rs r rest :
  valid_rune r = true ->
  match_items [IClass neg rs] (encode_rune r ++ rest) =
  if Bool.eqb (in_ranges r rs) neg then None else Some rest.
Proof.
  intros Hv. cbn [match_items].
  pose proof (encode_rune_nonempty r) as Hne.
  destruct (encode_rune r ++ rest) as [|c s'] eqn:E; [apply app_eq_nil in E as [E _]; congruence|].
  rewrite <- E, decode_rune_encode by exact Hv.
  destruct (Bool.eqb (in_ranges r rs) neg); [reflexivity|].
  now rewrite skipn_app, skipn_all, PeanoNat.Nat.sub_diag.
Qed.

(** *** filepath.Match: the same matches, fewer error reports *)

Lemma lazy_no_fuel cs : forall name, lazy_greedy cs name <> MFuel.
Proof.
  induction cs as [|[star chunk] rest IH]; intros name; cbn [lazy_greedy].
  - destruct (is_empty name); discriminate.
  - pose proof (parse_items_fuel (S (length chunk)) chunk ltac:(lia)) as Hf. unfold parse_chunk.
    destruct (parse_items (S (length chunk)) chunk) as [items| |]; [|discriminate|congruence].
    destruct (star && no_items items); [destruct (noslashb name); discriminate|].
    assert (Hr : (if star then match star_scan items match rest with [] => true | _ => false end name with
                              | Some t => lazy_greedy rest t | None => MFalse end else MFalse) <> MFuel).
    { destruct star; [|discriminate]. destruct (star_scan _ _ _); [apply IH|discriminate]. }
    destruct (match_items items name) as [t|]; [|exact Hr].
    destruct (is_empty t || negb match rest with [] => true | _ => false end); [apply IH|exact Hr].
Qed.

Lemma parse_chunks_nil_iff cs l : parse_chunks cs = POk l -> (no_chunks l = match cs with [] => true | _ => false end).
Proof.
  destruct cs as [|[star chunk] rest]; cbn [parse_chunks].
  - now intros [= <-].
  - destruct (parse_chunk chunk); try discriminate. destruct (parse_chunks rest); try discriminate.
    now intros [= <-].
Qed.

(** A successful [filepath.Match] got through every chunk: the pattern is
    well-formed and [path.Match] succeeds in the same way. *)
Lemma lazy_true cs : forall name,
  mid_nonempty cs = true -> lazy_greedy cs name = MTrue ->
  exists chunks, parse_chunks cs = POk chunks /\ greedy chunks name = true.
Proof.
  induction cs as [|[star chunk] rest IH]; intros name Hm H; cbn [lazy_greedy] in H.
  - exists []. split; [reflexivity|]. cbn. destruct (is_empty name); [reflexivity|discriminate].
  - assert (Hm' : mid_nonempty rest = true).
    { cbn [mid_nonempty] in Hm. destruct rest; [reflexivity|]. now apply andb_true_iff in Hm as [_ Hm]. }
    cbn [parse_chunks]. destruct (parse_chunk chunk) as [items| |] eqn:Ep; try discriminate.
    destruct (star && no_items items) eqn:Et.
    { apply andb_true_iff in Et as [-> Ei]. destruct items; [|discriminate].
      assert (chunk = []).
      { destruct chunk as [|b ch]; [reflexivity|]. unfold parse_chunk in Ep.
        now rewrite (parse_items_nonempty _ _ _ _ Ep) in Ei. }
      subst chunk. destruct rest as [|c2 r2]; [|cbn in Hm; discriminate].
      exists [(true, [])]. split; [reflexivity|]. cbn. destruct (noslashb name); [reflexivity|discriminate]. }
    assert (Hrec : forall t, lazy_greedy rest t = MTrue ->
              exists l, parse_chunks rest = POk l /\ greedy l t = true) by (intros t Ht; now apply IH).
    assert (Hfin : forall t, lazy_greedy rest t = MTrue ->
       (match_items items name = Some t /\
          (is_empty t || negb match rest with [] => true | _ => false end) = true) \/
       (star = true /\ star_scan items match rest with [] => true | _ => false end name = Some t /\
          (match_items items name = None \/
           exists t0, match_items items name = Some t0 /\
              (is_empty t0 || negb match rest with [] => true | _ => false end) = false)) ->
       exists chunks,
         match parse_chunks rest with
         | POk l => POk ((star, items) :: l) | PBad => PBad | PFuel => PFuel end = POk chunks /\
         greedy chunks name = true).
    { intros t Ht Hc. destruct (Hrec t Ht) as (l & El & Hg). rewrite El.
      exists ((star, items) :: l). split; [reflexivity|].
      cbn [greedy]. rewrite Et, (parse_chunks_nil_iff _ _ El).
      destruct Hc as [[Em Hc]|(-> & Es & [Em|(t0 & Em & Hc)])]; rewrite Em.
      - now rewrite Hc.
      - now rewrite Es.
      - now rewrite Hc, Es. }
    destruct (match_items items name) as [t|] eqn:Em.
    + destruct (is_empty t || negb match rest with [] => true | _ => false end) eqn:Ec.
      * apply (Hfin t H). left. now split.
      * destruct star; [|discriminate].
        destruct (star_scan items match rest with [] => true | _ => false end name) as [t'|] eqn:Es; [|discriminate].
        apply (Hfin t' H). right. split; [reflexivity|]. split; [reflexivity|]. right. now exists t.
    + destruct star; [|discriminate].
      destruct (star_scan items match rest with [] => true | _ => false end name) as [t'|] eqn:Es; [|discriminate].
      apply (Hfin t' H). right. split; [reflexivity|]. split; [reflexivity|]. now left.
Qed.

Theorem fp_match_true_go pat name : fp_match pat name = MTrue -> go_match pat name = MTrue.
Proof.
  intros H. destruct (lazy_true _ _ (chunks_of_mid pat) H) as (chunks & Ep & Hg).
  unfold go_match, parse_pattern. now rewrite Ep, Hg.
Qed.

Theorem fp_match_no_fuel pat name : fp_match pat name <> MFuel.
Proof. apply lazy_no_fuel. Qed.

(** A well-formed pattern is never an error for [filepath.Match] either,
    and then both functions agree. *)
Lemma lazy_wf cs : forall l name,
  parse_chunks cs = POk l ->
  lazy_greedy cs name = if greedy l name then MTrue else MFalse.
Proof.
  induction cs as [|[star chunk] rest IH]; intros l name Hp; cbn [parse_chunks] in Hp.
  - injection Hp as <-. reflexivity.
  - destruct (parse_chunk chunk) as [items| |] eqn:Ec; try discriminate.
    destruct (parse_chunks rest) as [l'| |] eqn:El; try discriminate. injection Hp as <-.
    cbn [lazy_greedy greedy]. rewrite Ec, (parse_chunks_nil_iff _ _ El).
    destruct (star && no_items items); [reflexivity|].
    destruct (match_items items name) as [t|].
    + destruct (is_empty t || negb match rest with [] => true | _ => false end); [now apply IH|].
      destruct star; [|reflexivity]. destruct (star_scan _ _ _); [now apply IH|reflexivity].
    + destruct star; [|reflexivity]. destruct (star_scan _ _ _); [now apply IH|reflexivity].
Qed.

Theorem fp_match_well_formed pat name :
  well_formed pat = true -> fp_match pat name = go_match pat name.
Proof.
  unfold well_formed, fp_match, go_match, parse_pattern. intros H.
  destruct (parse_chunks (chunks_of pat)) as [l| |] eqn:E; try discriminate.
  now apply lazy_wf.
Qed.

Lemma has_meta_well_formed pat : has_meta pat = false -> well_formed pat = true.
Proof.
  intros H. pose proof (go_match_literal pat pat H) as G. unfold well_formed.
  unfold go_match in G. destruct (parse_pattern pat); [reflexivity| |];
    rewrite str_eqb_refl in G; discriminate.
Qed.

Theorem fp_match_literal pat name :
  has_meta pat = false -> fp_match pat name = if str_eqb pat name then MTrue else MFalse.
Proof.
  intros H. rewrite fp_match_well_formed by (now apply has_meta_well_formed). now apply go_match_literal.
Qed.
