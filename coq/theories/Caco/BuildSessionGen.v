(** Where the per-Build state is created in the CURRENT source, decided on
    what the translator extracts from it (Gen/CacoBuild.v, [emitLifetimes] in
    gen/caco_build.go), and the session theorems of
    Caco/BuildSessionProofs.v for the policy the source has.

    [memo_sites]: every composite literal of type [buildContext] in package
    caco3, with the function it is in, the control statements enclosing it,
    how it is bound and the text of its [built] field.  The memo is per Build
    call exactly when
    - there is one such literal, in [Builder.Build], as a statement of the
      function body itself (under no [if]/loop/closure: made at every call),
      bound by [:=] to a local variable, with [built: make(map[string]string)];
    - that local variable is not assigned again, and is the context handed
      to the one [buildNodes] call;
    - no statement anywhere replaces the [built] field of an existing context;
    - what outlives a call holds no context and no map: the fields of
      [Builder], [env], [buildOpts], [dockerOpts] are the frozen ones, and
      the package has no variable besides the frozen list. *)
From Coq Require Import List String Bool Arith NArith.
From Verif Require Import Caco.Load Caco.LoadGen Caco.LoadSessionGen Caco.Build Caco.BuildProofs Caco.BuildGen
     Caco.BuildSession Caco.BuildSessionProofs Caco.BuildParse Gen.CacoBuild.
Import ListNotations.
Local Open Scope string_scope.

Definition memo_site_per_buildb : bool :=
  match memo_sites with
  | [(fn, path, bind, built)] =>
      String.eqb fn "Builder.Build" && String.eqb path "" &&
      String.eqb bind "local:ctx" && String.eqb built "make(map[string]string)"
  | _ => false
  end &&
  match built_stores with [] => true | _ => false end &&
  match build_ctx_rebinds with [] => true | _ => false end &&
  match build_nodes_calls with
  | [(path, arg)] => String.eqb path "" && String.eqb arg "ctx"
  | _ => false
  end.

(** state that outlives a Build call *)
Definition frozen_layout_Builder : list (string * string * string) :=
  [ ("env", "*env", ""); ("opts", "*buildOpts", "") ].

Definition frozen_layout_buildOpts : list (string * string * string) :=
  [ ("log", "io.Writer", ""); ("docker", "*dockerOpts", ""); ("alwaysRebuild", "bool", "") ].

Definition frozen_layout_dockerOpts : list (string * string * string) :=
  [ ("useBuildCache", "bool", "") ].

(** state of one Build call / one load, shared by its nodes *)
Definition frozen_layout_buildContext : list (string * string * string) :=
  [ ("nodes", "map[string]*buildNode", "");
    ("built", "map[string]string", "");
    ("cache", "*buildCache", "") ].

Definition frozen_layout_loadTracer : list (string * string * string) :=
  [ ("trace", "[]string", ""); ("m", "map[string]bool", "") ].

Definition frozen_layout_buildCache : list (string * string * string) :=
  [ ("tables", "*pisces.Tables", "");
    ("cache", "*pisces.KV", "");
    ("expire", "time.Duration", "");
    ("clock", "func() time.Time", "") ].

Definition frozen_pkg_vars : list (string * string * string) :=
  [ ("errNotFoundInCache", "", "errcode.NotFoundf(""not found in cache"")") ].

Definition long_lived_state_frozenb : bool :=
  lay_eqb layout_Builder frozen_layout_Builder &&
  lay_eqb layout_env frozen_layout_env &&
  lay_eqb layout_buildOpts frozen_layout_buildOpts &&
  lay_eqb layout_dockerOpts frozen_layout_dockerOpts &&
  lay_eqb layout_buildContext frozen_layout_buildContext &&
  lay_eqb layout_loader frozen_layout_loader &&
  lay_eqb layout_loadTracer frozen_layout_loadTracer &&
  lay_eqb layout_buildCache frozen_layout_buildCache &&
  lay_eqb pkg_vars frozen_pkg_vars.

(** The memo policy of the current source.  Anything the decision procedure
    does not recognise counts as a kept memo (no theorem then). *)
Definition memo_policy_of_source : memo_policy :=
  if memo_site_per_buildb && long_lived_state_frozenb then MemoPerBuild else MemoKept.

Lemma gen_memo_site_per_build : memo_site_per_buildb = true.
Proof. vm_compute. reflexivity. Qed.

Lemma gen_long_lived_state_frozen : long_lived_state_frozenb = true.
Proof. vm_compute. reflexivity. Qed.

Lemma gen_memo_policy_per_build : memo_policy_of_source = MemoPerBuild.
Proof. vm_compute. reflexivity. Qed.

(** [buildNodes] points [env.nodeType] / [env.ruleType] at the context of THIS
    call before any node is visited (these two fields are the only way the
    rules' build functions see the node table). *)
Definition env_hooks_per_buildb : bool :=
  match sk_builder_buildNodes with
  | ("assign", "b.env.nodeType = ctx.nodeType") :: ("assign", "b.env.ruleType = ctx.ruleType") :: _ => true
  | _ => false
  end.

Lemma gen_env_hooks_per_build : env_hooks_per_buildb = true.
Proof. vm_compute. reflexivity. Qed.

Lemma gen_memo_made_per_build :
  memo_policy_of_source = MemoPerBuild /\ memo_site_per_buildb = true /\
  long_lived_state_frozenb = true /\ loader_per_loadb = true /\ env_hooks_per_buildb = true /\
  env_writes_frozenb = true.
Proof. repeat split; vm_compute; reflexivity. Qed.

(** ** The parse of the BUILD files (Caco/BuildParse.v)

    Every Build call reads the BUILD files anew - and with them expands the
    Select patterns against the current source tree - exactly when the loader
    (with its [read] table) is made per call, [readBuildFile] has the frozen
    text (it consults nothing but the file), and no field of the Builder's
    [env] other than the workspace memo and the per-call hooks is ever written
    or exists. *)
Definition parse_policy_of_source : parse_policy :=
  if loader_per_loadb && env_writes_frozenb && env_layout_frozenb &&
     sk_eqb sk_readBuildFile frozen_readBuildFile && sk_eqb sk_loader_readBuildFile frozen_loader_readBuildFile
  then ParsePerBuild else ParseKept.

Lemma gen_parse_policy_per_build : parse_policy_of_source = ParsePerBuild.
Proof. vm_compute. reflexivity. Qed.

Theorem source_prun_per_build : forall h s,
  p_world (fst (prun parse_policy_of_source h s)) = run h (p_world s) /\
  snd (prun parse_policy_of_source h s) = btrace h (p_world s).
Proof. rewrite gen_parse_policy_per_build. exact prun_per_build. Qed.

(** ** The session theorems for the policy of the current source *)

Theorem source_session_eq_wrun : forall h s,
  s_world (fst (srun memo_policy_of_source h s)) = wrun h (s_world s) /\
  snd (srun memo_policy_of_source h s) = wtrace h (s_world s).
Proof. rewrite gen_memo_policy_per_build. exact session_per_build_eq_wrun. Qed.

Theorem source_session_eq_run : forall h s,
  no_wipeb h = true ->
  s_world (fst (srun memo_policy_of_source h s)) = run (plain h) (s_world s).
Proof. rewrite gen_memo_policy_per_build. exact session_per_build_eq_run. Qed.

Theorem source_session_incremental_eq_clean : forall h rs src always always' ts s1 e1 L,
  shist_in_scope h (empty_world rs src) ->
  let s := fst (srun memo_policy_of_source h (new_session rs src)) in
  build_in_scope ts (s_world s) -> load_world (s_world s) ts = LOk L ->
  sbuild memo_policy_of_source always ts s = (s1, e1, BOk) ->
  exists w2 e2, build_with always' ts (clean (s_world s)) = (w2, e2, BOk) /\
    forall r rl fs ss gs is',
      reach_rule L ts r -> find_rule r (w_rules (s_world s)) = Some rl ->
      r_kind rl = KFileSet fs ss gs is' ->
      exists l, content_at (w_out (s_world s1)) (fileset_out r) = Some (CList l) /\
                content_at (w_out w2) (fileset_out r) = Some (CList l).
Proof. rewrite gen_memo_policy_per_build. exact session_incremental_eq_clean. Qed.

Theorem source_session_noop_rebuild : forall h rs src always ts s1 e1,
  shist_in_scope h (empty_world rs src) ->
  let s := fst (srun memo_policy_of_source h (new_session rs src)) in
  build_in_scope ts (s_world s) ->
  sbuild memo_policy_of_source always ts s = (s1, e1, BOk) ->
  exists s2, sbuild memo_policy_of_source false ts s1 = (s2, [], BOk) /\ s_world s2 = s_world s1.
Proof. rewrite gen_memo_policy_per_build. exact session_noop_rebuild. Qed.

Theorem source_session_failed_not_remembered : forall h rs src always ts s1 ex e L,
  shist_in_scope h (empty_world rs src) ->
  let s := fst (srun memo_policy_of_source h (new_session rs src)) in
  build_in_scope ts (s_world s) -> load_world (s_world s) ts = LOk L ->
  sbuild memo_policy_of_source always ts s = (s1, ex, BFail e) ->
  (exists ex0 x F d,
     ex = (ex0 ++ [x])%list /\ reach_rule L ts x /\
     sdig L (w_rules (s_world s)) (w_src (s_world s)) F x = Some d /\
     cache_get d (w_cache (s_world s1)) = None) /\
  forall always2 ts2,
    (let '(s2, ex2, r2) := sbuild memo_policy_of_source always2 ts2 s1 in (s_world s2, ex2, r2)) =
    (let '(s2, ex2, r2) := sbuild memo_policy_of_source always2 ts2 (mkS (s_world s1) []) in
     (s_world s2, ex2, r2)).
Proof. rewrite gen_memo_policy_per_build. exact session_failed_not_remembered. Qed.

(** ** Which stat call feeds the digest and which the file-set entries

    [call_edges]: the call graph of package caco3 as the translator reads it
    (caller, its base name, callee's base name; a method call is an edge to
    every function of that name; [os.Stat], [os.Lstat], [os.Readlink] are the
    leaves).  From [buildNodeDigest] - what the action and source digests are
    made of - and from [fileSet.build] - what the .fileset entries are made of -
    the same stat calls are reached, [os.Lstat] (with [os.Readlink] for the
    target text) and never [os.Stat]: the output records of a link what the
    digest covers, the link's own lstat (Caco/BuildLinks.v). *)
Definition edge_callee (e : string * string * string) : string := snd e.
Definition edge_caller (e : string * string * string) : string := fst (fst e).
Definition edge_base (e : string * string * string) : string := snd (fst e).

Definition smem (x : string) (l : list string) : bool := existsb (String.eqb x) l.

Definition add_new (xs acc : list string) : list string :=
  fold_left (fun a x => if smem x a then a else (a ++ [x])%list) xs acc.

Definition callees_of_bases (bases : list string) : list string :=
  map edge_callee (filter (fun e => smem (edge_base e) bases) call_edges).

Fixpoint close_calls (fuel : nat) (set : list string) : list string :=
  match fuel with
  | O => set
  | S f => close_calls f (add_new (callees_of_bases set) set)
  end.

(** everything reachable from the function with the full name [start] *)
Definition reach_from (start : string) : list string :=
  close_calls 16 (add_new (map edge_callee (filter (fun e => String.eqb (edge_caller e) start) call_edges)) []).

Definition is_os_stat (s : string) : bool :=
  String.eqb s "os.Stat" || String.eqb s "os.Lstat" || String.eqb s "os.Readlink".

Definition stat_calls_from (start : string) : list string := sort_dedup (filter is_os_stat (reach_from start)).

Definition stat_kind_consistentb : bool :=
  list_eqb String.eqb (stat_calls_from "buildNodeDigest") ["os.Lstat"; "os.Readlink"] &&
  list_eqb String.eqb (stat_calls_from "fileSet.build") ["os.Lstat"; "os.Readlink"] &&
  list_eqb String.eqb (stat_calls_from "fileSet.fileNodes") ["os.Lstat"; "os.Readlink"] &&
  list_eqb String.eqb (stat_calls_from "checkSameBuilt") ["os.Lstat"; "os.Readlink"].

Lemma gen_stat_kind_consistent : stat_kind_consistentb = true.
Proof. vm_compute. reflexivity. Qed.

(** ** The hashed maps are keyed by the exact names (Caco/BuildDepKey.v)

    [digest_map_keys]: the key expression of every assignment [deps[..] = ..]
    in [buildNode] (the [Deps] of the action digest) and [m[..] = ..] in
    [fileSet.fileNodes] ([FileNodes]).  Each is the loop variable that ranges
    over the names themselves ([dep] over [n.deps], [f] over [fs.files]): no
    function of the name, so no two names share an entry. *)
Definition triple_eqb (a b : string * string * string) : bool :=
  String.eqb (fst (fst a)) (fst (fst b)) && String.eqb (snd (fst a)) (snd (fst b)) && String.eqb (snd a) (snd b).

Definition dep_key_is_nameb : bool :=
  list_eqb triple_eqb digest_map_keys
    [ ("Builder.buildNode", "deps", "dep"); ("fileSet.fileNodes", "m", "f"); ("fileSet.fileNodes", "m", "f") ] &&
  existsb (fun t => String.eqb (fst t) "range" && String.eqb (snd t) "_, dep := range n.deps") sk_builder_buildNode &&
  existsb (fun t => String.eqb (fst t) "range" && String.eqb (snd t) "_, f := range fs.files") sk_fileSet_fileNodes.

Lemma gen_dep_key_is_name : dep_key_is_nameb = true.
Proof. vm_compute. reflexivity. Qed.
