(** Proofs about Caco/BuildSession.v: what a fresh memo per [Build] call
    gives (every history of Build calls on one long-lived Builder is the
    history of Caco/Build.v that the theorems of Caco/BuildProofs.v are
    about), and what a memo kept across calls loses. *)
From Coq Require Import List String Bool Arith NArith Lia Relations.
From Verif Require Import Caco.Load Caco.LoadProofs Caco.Build Caco.BuildProofs Caco.BuildSession.
Import ListNotations.
Local Open Scope string_scope.

(** ** [visit_defer] differs from [visit] only in the memo of a failing state *)

Definition same_but_memo (a b : bstate) : Prop :=
  b_out a = b_out b /\ b_cache a = b_cache b /\ b_clock a = b_clock b /\
  b_exec a = b_exec b /\ b_times a = b_times b.

Lemma same_but_memo_refl a : same_but_memo a a.
Proof. repeat split. Qed.

Lemma same_but_memo_remember nm d a : same_but_memo a (remember nm d a).
Proof. repeat split. Qed.

Definition res_rel (a b : (list name * bstate) + (bstate * failure)) : Prop :=
  match a, b with
  | inl x, inl y => x = y
  | inr (s, e), inr (s', e') => same_but_memo s s' /\ e = e'
  | _, _ => False
  end.

Lemma visit_defer_rel L rules src always now n st :
  match visit L rules src always now n st,
        visit_defer L rules src always now n st with
  | inl a, inl b => a = b
  | inr (s, e), inr (s', e') => same_but_memo s s' /\ e = e'
  | _, _ => False
  end.
Proof.
  unfold visit_defer. destruct (visit L rules src always now n st) as [a|[s e]]; [reflexivity|].
  split; [|reflexivity].
  destruct (rule_digest_at L rules src n st); [apply same_but_memo_remember|apply same_but_memo_refl].
Qed.

Lemma run_defer_rel L rules src always now new : forall bs,
  res_rel (LoadProofs.run bstate (bstate * failure) (visit L rules src always now) new bs)
          (LoadProofs.run bstate (bstate * failure) (visit_defer L rules src always now) new bs).
Proof.
  induction new as [|x r IH]; intros bs; simpl; [reflexivity|].
  pose proof (visit_defer_rel L rules src always now x (snd bs)) as H.
  destruct (visit L rules src always now x (snd bs)) as [a|[s e]];
    destruct (visit_defer L rules src always now x (snd bs)) as [b|[s' e']]; try contradiction.
  - subst b. apply IH.
  - exact H.
Qed.

Lemma with_state_same w a b : same_but_memo a b -> with_state w a = with_state w b.
Proof. intros (Ho & Hc & Hk & _ & Ht). unfold with_state. now rewrite Ho, Hc, Hk, Ht. Qed.

(** ** A [Build] call entered with the empty memo is [build_with] *)
Theorem build_from_nil always ts w : fst (build_from [] always ts w) = build_with always ts w.
Proof.
  unfold build_from, build_with.
  destruct (load_world w ts) as [|es|L] eqn:Hl; try reflexivity.
  destruct (load_world_inv w ts L Hl) as (st & _ & _ & Htopo & _).
  pose proof (topo_wf _ _ _ Htopo) as Hwf.
  destruct (post_targets_total L Hwf ts []) as [new Hn].
  simpl map.
  rewrite (dfs_targets_post L bstate (bstate * failure) _ _ ts [] _ new Hn).
  rewrite (dfs_targets_post L bstate (bstate * failure) _ _ ts [] _ new Hn).
  pose proof (run_defer_rel L (w_rules w) (w_src w) always (w_now w) new
                ([], mkB (w_out w) (w_cache w) (w_clock w) [] [] (w_times w))) as H.
  destruct (LoadProofs.run bstate (bstate * failure) (visit L (w_rules w) (w_src w) always (w_now w)) new _)
    as [[b s]|[s e]];
    destruct (LoadProofs.run bstate (bstate * failure)
                (visit_defer L (w_rules w) (w_src w) always (w_now w)) new _)
    as [[b' s']|[s' e']]; simpl in H; try contradiction.
  - inversion H; subst. reflexivity.
  - destruct H as [Hs ->]. simpl. rewrite (with_state_same w s s' Hs).
    destruct Hs as (_ & _ & _ & He & _). now rewrite He.
Qed.

(** ** Fresh memo per [Build]: a session is the plain history *)

Lemma sbuild_per_build always ts s :
  let '(s', ex, r) := sbuild MemoPerBuild always ts s in
  (s_world s', ex, r) = build_with always ts (s_world s).
Proof.
  unfold sbuild. simpl start_memo.
  pose proof (build_from_nil always ts (s_world s)) as H.
  destruct (build_from [] always ts (s_world s)) as [[[w' ex] r] m']. simpl in *. exact H.
Qed.

(** every build of a session history stays inside the theorems' scope *)
Fixpoint shist_in_scope (h : list sop) (w : world) : Prop :=
  match h with
  | [] => True
  | o :: r => match o with SOp o' => op_in_scope o' w | _ => True end /\ shist_in_scope r (wstep w o)
  end.

Lemma shist_in_scopeb_ok h : forall w, shist_in_scopeb h w = true -> shist_in_scope h w.
Proof.
  induction h as [|o h IH]; intros w H; simpl in *; [exact I|].
  apply andb_true_iff in H. destruct H as [H1 H2]. split; [|now apply IH].
  destruct o as [o| |]; try exact I. destruct o; simpl; try exact I; now apply build_in_scopeb_ok.
Qed.

(** removing out/ wholesale (the cache file included) re-establishes the invariant trivially *)
Lemma winv_clean w : winv (clean w).
Proof.
  split.
  - intros d b H. discriminate.
  - split; [intros o c s H; discriminate|split; [intros d b o s H; discriminate|intros d d' b b' o s H; discriminate]].
Qed.

Theorem wrun_inv h : forall w, winv w -> shist_in_scope h w -> winv (wrun h w).
Proof.
  induction h as [|o h IH]; intros w Hw Hs; simpl; [assumption|].
  destruct Hs as [Ho Hr]. apply IH; [|assumption].
  destruct o as [o| |]; simpl; [now apply step_inv|assumption|apply winv_clean].
Qed.

Lemma wrun_plain h : forall w, no_wipeb h = true -> wrun h w = run (plain h) w.
Proof.
  induction h as [|o h IH]; intros w H; simpl in *; [reflexivity|].
  apply andb_true_iff in H. destruct H as [H1 H2].
  destruct o as [o| |]; simpl; try discriminate; now apply IH.
Qed.

Lemma shist_plain h : forall w, no_wipeb h = true -> hist_in_scope (plain h) w -> shist_in_scope h w.
Proof.
  induction h as [|o h IH]; intros w H Hs; simpl in *; [exact I|].
  apply andb_true_iff in H. destruct H as [H1 H2].
  destruct o as [o| |]; simpl in *; try discriminate.
  - destruct Hs as [Ho Hr]. split; [assumption|now apply IH].
  - split; [exact I|now apply IH].
Qed.

(** With the memo made inside [Build] at every call, a history of operations
    and Build calls on ONE long-lived Builder - or on Builders replaced at
    any points of the history, with out/ removed wholesale at any points -
    goes through the same worlds and executes the same rules with the same
    results as the same history with a new Builder for every build, whatever
    the Builder held when the history began. *)
Theorem session_per_build_eq_wrun : forall h s,
  s_world (fst (srun MemoPerBuild h s)) = wrun h (s_world s) /\
  snd (srun MemoPerBuild h s) = wtrace h (s_world s).
Proof.
  induction h as [|o h IH]; intros s; [split; reflexivity|].
  destruct o as [o| |].
  - assert (Hplain : forall o', (forall ts, o' <> OBuild ts) -> (forall ts, o' <> OBuildAlways ts) ->
              s_world (fst (srun MemoPerBuild (SOp o' :: h) s)) = wrun (SOp o' :: h) (s_world s) /\
              snd (srun MemoPerBuild (SOp o' :: h) s) = wtrace (SOp o' :: h) (s_world s)).
    { intros o' H1 H2.
      assert (E : sstep MemoPerBuild s (SOp o') = (mkS (step (s_world s) o') (s_held s), None)).
      { destruct o'; try reflexivity; [now elim (H1 ts)|now elim (H2 ts)]. }
      assert (Et : wtrace (SOp o' :: h) (s_world s) = wtrace h (step (s_world s) o')).
      { destruct o'; try reflexivity; [now elim (H1 ts)|now elim (H2 ts)]. }
      rewrite Et. cbn [srun wrun fold_left wstep]. rewrite E.
      specialize (IH (mkS (step (s_world s) o') (s_held s))).
      destruct (srun MemoPerBuild h _) as [s'' tr]. simpl in *. exact IH. }
    destruct o as [nm st|rs|o c|o|dt|ts|ts]; try (apply Hplain; intros; discriminate).
    + (* OBuild *)
      simpl. pose proof (sbuild_per_build false ts s) as Hb.
      destruct (sbuild MemoPerBuild false ts s) as [[s' ex] r].
      specialize (IH s'). destruct (srun MemoPerBuild h s') as [s'' tr]. simpl in *.
      unfold build. rewrite <- Hb. simpl. destruct IH as [IH1 IH2]. split; [exact IH1|now rewrite IH2].
    + simpl. pose proof (sbuild_per_build true ts s) as Hb.
      destruct (sbuild MemoPerBuild true ts s) as [[s' ex] r].
      specialize (IH s'). destruct (srun MemoPerBuild h s') as [s'' tr]. simpl in *.
      rewrite <- Hb. simpl. destruct IH as [IH1 IH2]. split; [exact IH1|now rewrite IH2].
  - simpl. specialize (IH (mkS (s_world s) [])).
    destruct (srun MemoPerBuild h _) as [s'' tr]. simpl in *. exact IH.
  - simpl. specialize (IH (mkS (clean (s_world s)) (s_held s))).
    destruct (srun MemoPerBuild h _) as [s'' tr]. simpl in *. exact IH.
Qed.

(** ... which, without [SWipeOut], is the history [run] of Caco/Build.v *)
Corollary session_per_build_eq_run h s :
  no_wipeb h = true ->
  s_world (fst (srun MemoPerBuild h s)) = run (plain h) (s_world s).
Proof.
  intros H. destruct (session_per_build_eq_wrun h s) as [-> _]. now apply wrun_plain.
Qed.

Lemma session_winv h rs src :
  shist_in_scope h (empty_world rs src) ->
  winv (s_world (fst (srun MemoPerBuild h (new_session rs src)))).
Proof.
  intros Hh. destruct (session_per_build_eq_wrun h (new_session rs src)) as [-> _].
  apply wrun_inv; [apply winv_empty|exact Hh].
Qed.

(** ** The theorems of Caco/BuildProofs.v for Build calls on one Builder *)

(** incremental = clean after every history of Build calls on one Builder:
    a successful Build call, after any history on the same (or a replaced)
    Builder, leaves for every reachable file set what a build from an empty
    out/ leaves, and that clean build succeeds. *)
Theorem session_incremental_eq_clean h rs src always always' ts s1 e1 L :
  shist_in_scope h (empty_world rs src) ->
  let s := fst (srun MemoPerBuild h (new_session rs src)) in
  build_in_scope ts (s_world s) -> load_world (s_world s) ts = LOk L ->
  sbuild MemoPerBuild always ts s = (s1, e1, BOk) ->
  exists w2 e2, build_with always' ts (clean (s_world s)) = (w2, e2, BOk) /\
    forall r rl fs ss gs is',
      reach_rule L ts r -> find_rule r (w_rules (s_world s)) = Some rl ->
      r_kind rl = KFileSet fs ss gs is' ->
      exists l, content_at (w_out (s_world s1)) (fileset_out r) = Some (CList l) /\
                content_at (w_out w2) (fileset_out r) = Some (CList l).
Proof.
  intros Hh s Hs Hl Hb.
  pose proof (session_winv h rs src Hh) as Hw. fold s in Hw.
  pose proof (sbuild_per_build always ts s) as Hb'. rewrite Hb in Hb'. symmetry in Hb'.
  exact (incremental_eq_clean always always' ts (s_world s) (s_world s1) e1 L Hw Hs Hl Hb').
Qed.

(** a second Build call on the same Builder with nothing changed executes nothing *)
Theorem session_noop_rebuild h rs src always ts s1 e1 :
  shist_in_scope h (empty_world rs src) ->
  let s := fst (srun MemoPerBuild h (new_session rs src)) in
  build_in_scope ts (s_world s) ->
  sbuild MemoPerBuild always ts s = (s1, e1, BOk) ->
  exists s2, sbuild MemoPerBuild false ts s1 = (s2, [], BOk) /\ s_world s2 = s_world s1.
Proof.
  intros Hh s Hs Hb.
  pose proof (session_winv h rs src Hh) as Hw. fold s in Hw.
  pose proof (sbuild_per_build always ts s) as Hb'. rewrite Hb in Hb'. symmetry in Hb'.
  pose proof (noop_rebuild always ts (s_world s) (s_world s1) e1 Hw Hs Hb') as Hn.
  pose proof (sbuild_per_build false ts s1) as H2.
  destruct (sbuild MemoPerBuild false ts s1) as [[s2 ex] r]. unfold build in Hn. rewrite Hn in H2.
  inversion H2; subst. exists s2. split; reflexivity.
Qed.

(** a rule whose execution failed in a Build call is not treated as built by
    the next call on the same Builder: the failed call leaves no cache entry
    for it, and the next call starts from an empty memo, so it takes the
    very same steps as a call on a new Builder *)
Theorem session_failed_not_remembered h rs src always ts s1 ex e L :
  shist_in_scope h (empty_world rs src) ->
  let s := fst (srun MemoPerBuild h (new_session rs src)) in
  build_in_scope ts (s_world s) -> load_world (s_world s) ts = LOk L ->
  sbuild MemoPerBuild always ts s = (s1, ex, BFail e) ->
  (exists ex0 x F d,
     ex = (ex0 ++ [x])%list /\ reach_rule L ts x /\
     sdig L (w_rules (s_world s)) (w_src (s_world s)) F x = Some d /\
     cache_get d (w_cache (s_world s1)) = None) /\
  forall always2 ts2,
    (let '(s2, ex2, r2) := sbuild MemoPerBuild always2 ts2 s1 in (s_world s2, ex2, r2)) =
    (let '(s2, ex2, r2) := sbuild MemoPerBuild always2 ts2 (mkS (s_world s1) []) in (s_world s2, ex2, r2)).
Proof.
  intros Hh s Hs Hl Hb.
  pose proof (session_winv h rs src Hh) as Hw. fold s in Hw.
  pose proof (sbuild_per_build always ts s) as Hb'. rewrite Hb in Hb'. symmetry in Hb'.
  split.
  - exact (failed_not_cached always ts (s_world s) (s_world s1) ex e L Hw Hs Hl Hb').
  - intros always2 ts2. reflexivity.
Qed.

(** ** A memo kept across Build calls: refuted *)
Local Open Scope N_scope.

(** subset, edit of a shared dependency, the other subset *)
Definition kx_rules : list rule :=
  [ mkRule "pkg/base" (KFileSet ["pkg/a.txt"] [] [] []);
    mkRule "pkg/left" (KFileSet ["pkg/l.txt"] [] [] ["pkg/base"]);
    mkRule "pkg/right" (KFileSet ["pkg/r.txt"] [] [] ["pkg/base"]) ].

Definition kx_src : list (name * stat) :=
  [ ("pkg/a.txt", mkStat 2 1001 420 ""); ("pkg/l.txt", mkStat 5 1002 420 "");
    ("pkg/r.txt", mkStat 6 1003 420 "") ].

Definition kx_hist : list sop :=
  [ SOp (OBuild ["pkg/left"]); SOp (OSetSrc "pkg/a.txt" (Some (mkStat 10 1010 420 ""))) ].

(** The third Build call succeeds, executes only pkg/right, and both
    pkg/base.fileset and pkg/right.fileset still hold the old stat of a.txt;
    the clean build lists the new one. *)
Theorem kept_memo_stale_output_refuted :
  let s := fst (srun MemoKept kx_hist (new_session kx_rules kx_src)) in
  let '(s1, e1, r1) := sbuild MemoKept false ["pkg/right"] s in
  let '(w2, e2, r2) := build_with false ["pkg/right"] (clean (s_world s)) in
  r1 = BOk /\ r2 = BOk /\ e1 = ["pkg/right"] /\ e2 = ["pkg/base"; "pkg/right"] /\
  content_at (w_out (s_world s1)) "pkg/right.fileset" =
    Some (CList [ESrc "pkg/a.txt" (mkStat 2 1001 420 ""); ESrc "pkg/r.txt" (mkStat 6 1003 420 "")]) /\
  content_at (w_out w2) "pkg/right.fileset" =
    Some (CList [ESrc "pkg/a.txt" (mkStat 10 1010 420 ""); ESrc "pkg/r.txt" (mkStat 6 1003 420 "")]).
Proof. vm_compute. repeat split. Qed.

(** ... while the memo made per Build gives the clean build's output *)
Example per_build_memo_same_history :
  let s := fst (srun MemoPerBuild kx_hist (new_session kx_rules kx_src)) in
  let '(s1, e1, r1) := sbuild MemoPerBuild false ["pkg/right"] s in
  r1 = BOk /\ e1 = ["pkg/base"; "pkg/right"] /\
  content_at (w_out (s_world s1)) "pkg/right.fileset" =
    Some (CList [ESrc "pkg/a.txt" (mkStat 10 1010 420 ""); ESrc "pkg/r.txt" (mkStat 6 1003 420 "")]).
Proof. vm_compute. repeat split. Qed.

(** a failing rule (a file set including a bundle), built again *)
Definition kf_rules : list rule :=
  [ mkRule "pkg/base" (KFileSet ["pkg/a.txt"] [] [] []);
    mkRule "pkg/bun" (KBundle ["pkg/base"]);
    mkRule "pkg/top" (KFileSet ["pkg/l.txt"] [] [] ["pkg/bun"]) ].

(** With the memo kept, the second call "succeeds", executes nothing and
    leaves no pkg/top.fileset; a clean build fails. *)
Theorem kept_memo_failed_treated_as_built_refuted :
  let s0 := new_session kf_rules kx_src in
  let '(s1, e1, r1) := sbuild MemoKept false ["pkg/top"] s0 in
  let '(s2, e2, r2) := sbuild MemoKept false ["pkg/top"] s1 in
  let '(w3, e3, r3) := build_with false ["pkg/top"] (clean (s_world s1)) in
  r1 = BFail (FInclude "pkg/bun") /\ e1 = ["pkg/base"; "pkg/bun"; "pkg/top"] /\
  r2 = BOk /\ e2 = [] /\ content_at (w_out (s_world s2)) "pkg/top.fileset" = None /\
  r3 = BFail (FInclude "pkg/bun").
Proof. vm_compute. repeat split. Qed.

Example per_build_memo_fails_again :
  let s0 := new_session kf_rules kx_src in
  let '(s1, e1, r1) := sbuild MemoPerBuild false ["pkg/top"] s0 in
  let '(s2, e2, r2) := sbuild MemoPerBuild false ["pkg/top"] s1 in
  r1 = BFail (FInclude "pkg/bun") /\ r2 = BFail (FInclude "pkg/bun") /\ e2 = ["pkg/top"].
Proof. vm_compute. repeat split. Qed.

(** The statement of [session_incremental_eq_clean] is false for [MemoKept]. *)
Theorem session_kept_memo_refuted :
  ~ (forall h rs src always always' ts s1 e1 L,
       shist_in_scope h (empty_world rs src) ->
       let s := fst (srun MemoKept h (new_session rs src)) in
       build_in_scope ts (s_world s) -> load_world (s_world s) ts = LOk L ->
       sbuild MemoKept always ts s = (s1, e1, BOk) ->
       exists w2 e2, build_with always' ts (clean (s_world s)) = (w2, e2, BOk) /\
         forall r rl fs ss gs is',
           reach_rule L ts r -> find_rule r (w_rules (s_world s)) = Some rl ->
           r_kind rl = KFileSet fs ss gs is' ->
           exists l, content_at (w_out (s_world s1)) (fileset_out r) = Some (CList l) /\
                     content_at (w_out w2) (fileset_out r) = Some (CList l)).
Proof.
  intros H.
  set (s := fst (srun MemoKept kx_hist (new_session kx_rules kx_src))).
  destruct (sbuild MemoKept false ["pkg/right"] s) as [[s1 e1] r1] eqn:Hb.
  assert (HL : exists L, load_world (s_world s) ["pkg/right"] = LOk L /\
                         reach_rule L ["pkg/right"] "pkg/right").
  { eexists. split; [vm_compute; reflexivity|].
    exists "pkg/right". eexists. split; [left; reflexivity|]. split; [apply rt_refl|].
    split; vm_compute; reflexivity. }
  destruct HL as (L & Hl & Hreach).
  assert (Hr1 : r1 = BOk) by (vm_compute in Hb; inversion Hb; reflexivity). subst r1.
  destruct (H kx_hist kx_rules kx_src false false ["pkg/right"] s1 e1 L) as (w2 & e2 & Hc & Hout).
  - apply shist_in_scopeb_ok. vm_compute. reflexivity.
  - apply build_in_scopeb_ok. vm_compute. reflexivity.
  - exact Hl.
  - exact Hb.
  - destruct (Hout "pkg/right" (mkRule "pkg/right" (KFileSet ["pkg/r.txt"] [] [] ["pkg/base"]))
                   ["pkg/r.txt"] [] [] ["pkg/base"] Hreach) as (l & H1 & H2).
    + reflexivity.
    + reflexivity.
    + vm_compute in Hb. inversion Hb; subst s1 e1. vm_compute in Hc. inversion Hc; subst w2 e2.
      vm_compute in H1, H2. congruence.
Qed.
