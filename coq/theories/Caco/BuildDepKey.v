(** caco3: the dependency digests of an action are keyed by the exact name
    (C10, round 3).

    [buildNode] collects [deps[dep] = d] for every dependency and the action
    digest hashes that map ([canon_deps]: the map as encoding/json writes it,
    keys sorted, one entry per key).  The key is the dependency's NAME itself,
    an injective key: every dependency - two names that differ only in letter
    case are two dependencies - has its digest in the action digest
    ([digest_covers_every_dependency]), which is what
    [digest_determines_output] rests on.  With a key that folds names
    ([canon_deps_keyed]: lower-casing, say) two dependencies collide, the later
    overwrites the earlier, and a change reaching the rule only through the
    earlier one leaves the action digest as it was
    ([folding_key_drops_dependency_refuted]). *)
From Coq Require Import List String Ascii Bool Arith NArith.
From Verif Require Import Caco.Load Caco.Build Caco.BuildProofs.
Import ListNotations.
Local Open Scope string_scope.

Lemma lookup_last_absent n (r : list (name * digest)) : forall v,
  ~ In n (map fst r) -> lookup_last n r v = v.
Proof.
  unfold lookup_last. induction r as [|[a b] r IH]; intros v Hn; [reflexivity|]. cbn [fold_left fst snd].
  destruct (String.eqb_spec n a) as [->|Hne]; [exfalso; apply Hn; now left|].
  apply IH. intros Hin0. apply Hn. now right.
Qed.

(** Every dependency's digest is in the hashed map, under its own name (for
    a name listed once; listed twice, the later assignment of the same value
    source wins, as in a Go map). *)
Theorem digest_covers_every_dependency (l : list (name * digest)) n d :
  NoDup (map fst l) -> In (n, d) l -> dl_lookup n (canon_deps l) = Some d.
Proof.
  intros Hnd Hin. rewrite canon_deps_lookup. generalize (@None digest) as init.
  revert Hnd Hin. induction l as [|[n' d'] r IH]; intros Hnd Hin init; [destruct Hin|].
  inversion Hnd as [|? ? Hni Hnd']; subst. unfold lookup_last. cbn [fold_left fst snd].
  destruct Hin as [E|Hin].
  - injection E as -> ->. rewrite String.eqb_refl. now apply (lookup_last_absent n r).
  - apply (IH Hnd' Hin).
Qed.

(** two names, two entries: changing the digest of either changes the map *)
Corollary distinct_names_both_covered a b da db da' :
  a <> b -> da <> da' ->
  canon_deps [(a, da); (b, db)] <> canon_deps [(a, da'); (b, db)].
Proof.
  intros Hab Hd E.
  assert (H1 : dl_lookup a (canon_deps [(a, da); (b, db)]) = Some da).
  { apply digest_covers_every_dependency; [|now left].
    constructor; [intros [H|[]]; now apply Hab|constructor; [intros []|constructor]]. }
  assert (H2 : dl_lookup a (canon_deps [(a, da'); (b, db)]) = Some da').
  { apply digest_covers_every_dependency; [|now left].
    constructor; [intros [H|[]]; now apply Hab|constructor; [intros []|constructor]]. }
  rewrite E in H1. congruence.
Qed.

(** ** A key that folds names: refuted *)

Definition lower_ascii (c : ascii) : ascii :=
  let n := nat_of_ascii c in if (65 <=? n)%nat && (n <=? 90)%nat then ascii_of_nat (n + 32) else c.

Fixpoint lower (s : string) : string :=
  match s with EmptyString => EmptyString | String c r => String (lower_ascii c) (lower r) end.

Definition canon_deps_keyed (key : name -> name) (l : list (name * digest)) : dlist :=
  canon_deps (map (fun p => (key (fst p), snd p)) l).

Local Open Scope N_scope.

(** pkg/README.txt and pkg/Readme.txt, both listed by one file set: under
    the folding key the map has ONE entry, README.txt's digest is not in it,
    and an edit of README.txt leaves the map - hence the action digest - as it
    was; under the exact name it changes. *)
Theorem folding_key_drops_dependency_refuted :
  let up := DSrc "pkg/README.txt" (mkStat 6 1001 420 "") in
  let up' := DSrc "pkg/README.txt" (mkStat 14 1010 420 "") in
  let lo := DSrc "pkg/Readme.txt" (mkStat 6 1002 420 "") in
  canon_deps_keyed lower [("pkg/README.txt", up); ("pkg/Readme.txt", lo)] =
  canon_deps_keyed lower [("pkg/README.txt", up'); ("pkg/Readme.txt", lo)] /\
  canon_deps_keyed lower [("pkg/README.txt", up); ("pkg/Readme.txt", lo)] = DCons "pkg/readme.txt" lo DNil /\
  canon_deps [("pkg/README.txt", up); ("pkg/Readme.txt", lo)] <>
  canon_deps [("pkg/README.txt", up'); ("pkg/Readme.txt", lo)].
Proof.
  split; [vm_compute; reflexivity|]. split; [vm_compute; reflexivity|].
  apply distinct_names_both_covered; [discriminate|intros E; discriminate E].
Qed.
