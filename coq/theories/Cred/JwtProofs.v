(** Proofs about Cred/Jwt.v. *)
From Coq Require Import List NArith ZArith Bool Lia.
From Verif Require Import Lib.Bytes Lib.Codec Cred.Jwt.
Import ListNotations.
Local Open Scope Z_scope.

(** * Splitting and joining on a separator *)

Fixpoint join (sep : N) (ps : list bytes) : bytes :=
  match ps with
  | [] => []
  | [p] => p
  | p :: r => p ++ sep :: join sep r
  end.

Definition nosep (sep : N) (p : bytes) : Prop := Forall (fun c => c <> sep) p.

Lemma split_on_nonempty sep s : split_on sep s <> [].
Proof.
  destruct s as [|c r]; cbn [split_on]; [discriminate|].
  destruct (c =? sep)%N; [discriminate|]. destruct (split_on sep r); discriminate.
Qed.

Lemma join_split sep s : join sep (split_on sep s) = s.
Proof.
  induction s as [|c r IH]; [reflexivity|]. cbn [split_on].
  destruct (N.eqb_spec c sep) as [->|N].
  - pose proof (split_on_nonempty sep r) as NE.
    destruct (split_on sep r) as [|h t] eqn:E; [contradiction|].
    cbn [join app]. cbn [join] in IH. now rewrite IH.
  - pose proof (split_on_nonempty sep r) as NE.
    destruct (split_on sep r) as [|h t] eqn:E; [contradiction|].
    destruct t as [|h' t']; cbn [join] in *; cbn [app]; now rewrite IH.
Qed.

Lemma split_nosep sep s : Forall (nosep sep) (split_on sep s).
Proof.
  induction s as [|c r IH]; cbn [split_on]; [repeat constructor|].
  destruct (N.eqb_spec c sep) as [->|N].
  - constructor; [constructor|exact IH].
  - destruct (split_on sep r) as [|h t]; [repeat constructor; exact N|].
    inversion IH as [|? ? Hh Ht]; subst. constructor; [constructor; assumption|exact Ht].
Qed.

Lemma split_nosep_single sep p : nosep sep p -> split_on sep p = [p].
Proof.
  induction 1 as [|c r Hc Hr IH]; [reflexivity|]. cbn [split_on].
  destruct (N.eqb_spec c sep); [contradiction|]. now rewrite IH.
Qed.

Lemma split_app_sep sep p r : nosep sep p -> split_on sep (p ++ sep :: r) = p :: split_on sep r.
Proof.
  induction 1 as [|c q Hc Hq IH]; cbn [app split_on].
  - now rewrite N.eqb_refl.
  - destruct (N.eqb_spec c sep); [contradiction|]. now rewrite IH.
Qed.

Lemma split_join sep ps : ps <> [] -> Forall (nosep sep) ps -> split_on sep (join sep ps) = ps.
Proof.
  induction ps as [|p r IH]; [contradiction|]. intros _ F.
  inversion F as [|? ? Hp Hr]; subst.
  destruct r as [|q r'].
  - cbn [join]. now apply split_nosep_single.
  - change (join sep (p :: q :: r')) with (p ++ sep :: join sep (q :: r')).
    rewrite split_app_sep by exact Hp. f_equal. apply IH; [discriminate|exact Hr].
Qed.

Lemma split3 tok h c s :
  split_on dot tok = [h; c; s] <->
  tok = h ++ dot :: c ++ dot :: s /\ nosep dot h /\ nosep dot c /\ nosep dot s.
Proof.
  split.
  - intros E. pose proof (join_split dot tok) as J. pose proof (split_nosep dot tok) as F.
    rewrite E in J, F. cbn [join] in J.
    inversion F as [|? ? Hh F']; subst. inversion F' as [|? ? Hc F'']; subst.
    inversion F'' as [|? ? Hs _]; subst. auto.
  - intros (-> & Hh & Hc & Hs).
    change (h ++ dot :: c ++ dot :: s) with (join dot [h; c; s]).
    apply split_join; [discriminate|repeat constructor; assumption].
Qed.

Lemma cut_first_sep sep (a b c d : bytes) :
  nosep sep a -> nosep sep c -> a ++ sep :: b = c ++ sep :: d -> a = c /\ b = d.
Proof.
  revert b c d. induction a as [|z a IH]; intros b c d Na Nc E.
  - destruct c as [|z' c]; cbn [app] in E; [split; congruence|].
    inversion Nc; subst. injection E as E1 _. congruence.
  - destruct c as [|z' c]; cbn [app] in E.
    + inversion Na; subst. injection E as E1 _. congruence.
    + inversion Na as [|? ? Hz Ha]; inversion Nc as [|? ? Hz' Hc]; subst. injection E as E1 E2.
      destruct (IH _ _ _ Ha Hc E2) as [-> ->]. subst. auto.
Qed.

Lemma nosep_rev sep y : nosep sep y -> nosep sep (rev y).
Proof. unfold nosep. rewrite !Forall_forall. intros H c I. apply H. now apply in_rev. Qed.

(** Cutting at the last separator. *)
Lemma cut_last_sep sep (x y u v : bytes) :
  nosep sep y -> nosep sep v -> x ++ sep :: y = u ++ sep :: v -> x = u /\ y = v.
Proof.
  intros Ny Nv E.
  assert (rev (x ++ sep :: y) = rev (u ++ sep :: v)) as R by now rewrite E.
  rewrite !rev_app_distr in R. cbn [rev] in R. rewrite <- !app_assoc in R. cbn [app] in R.
  destruct (cut_first_sep sep _ _ _ _ (nosep_rev _ _ Ny) (nosep_rev _ _ Nv) R) as [Q1 Q2].
  apply (f_equal (@rev N)) in Q1, Q2. rewrite !rev_involutive in Q1, Q2. auto.
Qed.

Lemma b64_nosep bs : is_bytes bs -> nosep dot (b64_encode bs).
Proof.
  intros H. unfold nosep. eapply Forall_impl; [|apply b64_encode_plain; exact H].
  cbn beta. intros a (X & _). exact X.
Qed.

Lemma last_In {A} (l : list A) d : l <> [] -> In (last l d) l.
Proof.
  induction l as [|x l IH]; [contradiction|]. intros _.
  destruct l as [|y l']; [now left|]. right. apply IH. discriminate.
Qed.

(** * Time and claims *)

Ltac Zify.zify_post_hook ::= Z.div_mod_to_equations.

Lemma ext_of_unix_in_range s : unix_in_range s -> ext_of_unix s = s + unix_to_internal.
Proof. unfold unix_in_range, ext_of_unix, wrap64, two63, unix_to_internal. intros H. lia. Qed.

Lemma add_sec_sat_small e d :
  - 4611686018427387904 - unix_to_internal <= e <= 4611686018427387904 + unix_to_internal ->
  - 1000000 <= d <= 1000000 -> d <> 0 -> add_sec_sat e d = e + d.
Proof.
  unfold add_sec_sat, wrap64, two63, unix_to_internal. intros H D N.
  assert ((e + d + 9223372036854775808) mod (2 * 9223372036854775808) - 9223372036854775808 = e + d) as -> by lia.
  destruct (Z.ltb_spec e (e + d)); destruct (Z.ltb_spec 0 d); cbn [Bool.eqb]; try reflexivity; lia.
Qed.

(** Comparing whole seconds [a] (internal) with the verification instant. *)
Lemma before_now a now :
  time_before a 0 (now_ext now) (now_nsec now) = true <-> (a - unix_to_internal) * sec_ns < now.
Proof.
  unfold time_before, now_ext, now_nsec, sec_ns, unix_to_internal.
  rewrite orb_true_iff, andb_true_iff, !Z.ltb_lt, Z.eqb_eq. lia.
Qed.

Lemma now_before a now :
  time_before (now_ext now) (now_nsec now) a 0 = true <-> now < (a - unix_to_internal) * sec_ns.
Proof.
  unfold time_before, now_ext, now_nsec, sec_ns, unix_to_internal.
  rewrite orb_true_iff, andb_true_iff, !Z.ltb_lt, Z.eqb_eq. lia.
Qed.

Lemma bool_iff_false (b : bool) (P : Prop) : (b = true <-> P) -> (b = false <-> ~ P).
Proof.
  intros H. destruct b; split.
  - discriminate.
  - intros N. exfalso. apply N. now apply H.
  - intros _ Q. apply H in Q. discriminate.
  - reflexivity.
Qed.

(** For claim times clear of the int64 wrap, [CheckTime] is the linear condition. *)
Theorem check_time_iff c now :
  unix_in_range (c_iat c) -> unix_in_range (c_exp c) ->
  check_time c now = None <-> c_iat c * sec_ns - grace_ns < now <= c_exp c * sec_ns.
Proof.
  intros Ri Re. unfold check_time.
  rewrite (ext_of_unix_in_range _ Ri), (ext_of_unix_in_range _ Re).
  rewrite add_sec_sat_small;
    [|unfold unix_in_range, unix_to_internal in *; lia|unfold grace_sec; lia|unfold grace_sec; lia].
  destruct (time_before (c_iat c + unix_to_internal + - grace_sec) 0 _ _) eqn:A; cbn [negb].
  - apply before_now in A.
    destruct (time_before (c_exp c + unix_to_internal) 0 _ _) eqn:B.
    + apply before_now in B. unfold grace_sec, grace_ns, sec_ns in *. split; [discriminate|lia].
    + apply (bool_iff_false _ _ (before_now _ _)) in B.
      unfold grace_sec, grace_ns, sec_ns in *. split; [lia|reflexivity].
  - apply (bool_iff_false _ _ (before_now _ _)) in A.
    unfold grace_sec, grace_ns, sec_ns in *. split; [discriminate|lia].
Qed.

Lemma check_time_future c now :
  unix_in_range (c_iat c) -> unix_in_range (c_exp c) ->
  now <= c_iat c * sec_ns - grace_ns -> check_time c now = Some EFuture.
Proof.
  intros Ri Re H. destruct (check_time c now) as [e|] eqn:E.
  - unfold check_time in E.
    destruct (negb _) eqn:A in E; [congruence|]. exfalso.
    rewrite (ext_of_unix_in_range _ Ri) in A.
    rewrite add_sec_sat_small in A;
      [|unfold unix_in_range, unix_to_internal in *; lia|unfold grace_sec; lia|unfold grace_sec; lia].
    apply negb_false_iff, before_now in A. unfold grace_sec, grace_ns, sec_ns in *. lia.
  - apply check_time_iff in E; [lia|assumption|assumption].
Qed.

(** Outside that range the stored seconds wrap; what then happens is fixed by
    the model too.  An expiry at the top of the range reads as long past; an
    issue time there reads as long ago (not as the future). *)
Example check_time_wraps :
  check_time (mkC [] [] [] (two63 - 1) 0 [] []) 1700000000000000000 = Some EExpired /\
  check_time (mkC [] [] [] 1800000000 (two63 - 1) [] []) 1700000000000000000 = None /\
  check_time (mkC [] [] [] (two63 - 1 - unix_to_internal) 0 [] []) 1700000000000000000 = None /\
  check_time (mkC [] [] [] (two63 - unix_to_internal) 0 [] []) 1700000000000000000 = Some EExpired /\
  check_time (mkC [] [] [] 1800000000 (- two63) [] []) 1700000000000000000 = None /\
  check_time (mkC [] [] [] (- two63) (- two63) [] []) 0 = Some EExpired.
Proof. vm_compute. repeat split. Qed.

Lemma is_empty_spec b : is_empty b = true <-> b = [].
Proof. destruct b; cbn; split; congruence. Qed.

Lemma mem_bytes_spec x l : mem_bytes x l = true <-> In x l.
Proof.
  unfold mem_bytes. rewrite existsb_exists. split.
  - intros (y & I & E). apply beq_bytes_spec in E. now subst.
  - intros I. exists x. split; [exact I|apply beq_bytes_refl].
Qed.

Definition field_ok (want got : bytes) : Prop := want = [] \/ got = want.

Lemma field_guard want got :
  negb (is_empty want) && negb (beq_bytes got want) = false <-> field_ok want got.
Proof.
  unfold field_ok. destruct want as [|w ws]; cbn [is_empty negb andb].
  - split; auto.
  - destruct (beq_bytes got (w :: ws)) eqn:E; cbn [negb].
    + apply beq_bytes_spec in E. split; auto.
    + apply beq_bytes_neq in E. split; [discriminate|]. intros [H|H]; [discriminate|contradiction].
Qed.

Definition scope_ok (want got : bytes) : Prop :=
  want = [] \/ forall s, In s (fields want) -> In s (fields got).

Lemma scope_guard want got :
  negb (is_empty want) && negb (forallb (fun s => mem_bytes s (fields got)) (fields want)) = false
  <-> scope_ok want got.
Proof.
  unfold scope_ok. destruct want as [|w ws]; cbn [is_empty negb andb].
  - split; auto.
  - destruct (forallb _ _) eqn:E; cbn [negb].
    + rewrite forallb_forall in E. split; auto. intros _. right. intros s I. now apply mem_bytes_spec, E.
    + split; [discriminate|]. intros [H|H]; [discriminate|].
      assert (forallb (fun s => mem_bytes s (fields got)) (fields (w :: ws)) = true) as T.
      { apply forallb_forall. intros s I. now apply mem_bytes_spec, H. }
      congruence.
Qed.

(** [CheckClaimSet] accepts exactly when every non-empty template field is
    matched and every template scope is among the claimed scopes. *)
Theorem check_claims_iff c t :
  check_claims c t = None <->
  field_ok (c_iss t) (c_iss c) /\ field_ok (c_aud t) (c_aud c) /\ field_ok (c_typ t) (c_typ c) /\
  field_ok (c_sub t) (c_sub c) /\ scope_ok (c_scope t) (c_scope c).
Proof.
  unfold check_claims.
  rewrite <- !field_guard, <- scope_guard.
  destruct (negb (is_empty (c_iss t)) && _); [split; [discriminate|intros (A & _); discriminate]|].
  destruct (negb (is_empty (c_aud t)) && _); [split; [discriminate|intros (_ & A & _); discriminate]|].
  destruct (negb (is_empty (c_typ t)) && _); [split; [discriminate|intros (_ & _ & A & _); discriminate]|].
  destruct (negb (is_empty (c_sub t)) && _); [split; [discriminate|intros (_ & _ & _ & A & _); discriminate]|].
  destruct (negb (is_empty (c_scope t)) && _); [split; [discriminate|intros (_ & _ & _ & _ & A); discriminate]|].
  tauto.
Qed.

Lemma check_header_iff got want :
  check_header got want = None <->
  h_kid got = h_kid want /\ h_alg got = h_alg want /\ h_typ got = h_typ want.
Proof.
  unfold check_header.
  destruct (beq_bytes (h_kid got) (h_kid want)) eqn:A; cbn [negb].
  2:{ apply beq_bytes_neq in A. split; [discriminate|tauto]. }
  destruct (beq_bytes (h_alg got) (h_alg want)) eqn:B; cbn [negb].
  2:{ apply beq_bytes_neq in B. split; [discriminate|tauto]. }
  destruct (beq_bytes (h_typ got) (h_typ want)) eqn:C; cbn [negb].
  2:{ apply beq_bytes_neq in C. split; [discriminate|tauto]. }
  apply beq_bytes_spec in A, B, C. tauto.
Qed.

(** * Decoding and verification *)

Section JwtProofs.
  Context {K : Type}.
  Variable mac : K -> bytes -> bytes.
  Variable parse_header : bytes -> option header.
  Variable parse_claims : bytes -> option claims.

  Notation decode := (decode parse_header parse_claims b64_decode_canon).
  Notation hs_verify := (hs_verify mac parse_header parse_claims b64_decode_canon).
  Notation jwt_sign := (jwt_sign mac).

  (** What [Decode] accepts: three canonical base64url segments around two dots. *)
  Theorem decode_ok_iff tok t :
    decode tok = JOk t <->
    exists hb cb,
      is_bytes hb /\ is_bytes cb /\ is_bytes (t_sig t) /\
      tok = jwt_text hb cb ++ dot :: b64_encode (t_sig t) /\
      parse_header hb = Some (t_header t) /\ parse_claims cb = Some (t_claims t) /\
      t_payload t = jwt_text hb cb.
  Proof.
    unfold Jwt.decode, jwt_text. split.
    - destruct (split_on dot tok) as [|h [|c [|s [|x r]]]] eqn:S; try discriminate.
      apply split3 in S. destruct S as (-> & _ & _ & _).
      destruct (b64_decode_canon h) as [hb|] eqn:Dh; [|discriminate].
      destruct (parse_header hb) as [hd|] eqn:Ph; [|discriminate].
      destruct (b64_decode_canon s) as [sg|] eqn:Ds; [|discriminate].
      destruct (b64_decode_canon c) as [cb|] eqn:Dc; [|discriminate].
      destruct (parse_claims cb) as [cl|] eqn:Pc; [|discriminate].
      intros [= <-]. cbn [t_sig t_header t_claims t_payload].
      apply b64_canon_iff in Dh, Ds, Dc.
      destruct Dh as [Hh ->], Ds as [Hs ->], Dc as [Hc ->].
      exists hb, cb. rewrite <- app_assoc. cbn [app]. auto 10.
    - intros (hb & cb & Hh & Hc & Hs & -> & Ph & Pc & Pp).
      rewrite <- app_assoc. cbn [app].
      assert (split_on dot (b64_encode hb ++ dot :: b64_encode cb ++ dot :: b64_encode (t_sig t))
              = [b64_encode hb; b64_encode cb; b64_encode (t_sig t)]) as ->.
      { apply split3. split; [reflexivity|].
        repeat split; now apply b64_nosep. }
      assert (forall b, is_bytes b -> b64_decode_canon (b64_encode b) = Some b) as RT.
      { intros b Hb. apply b64_canon_iff. auto. }
      rewrite !RT by assumption. rewrite Ph, Pc.
      destruct t as [hd cl pl sg]. cbn [t_sig t_header t_claims t_payload] in *. subst pl. reflexivity.
  Qed.

  (** The decoded payload text and signature bytes determine the token text:
      no two texts decode to the same signed text and signature (whatever the
      verifier, so for RS256 as well). *)
  Theorem decode_text_determined tok t :
    decode tok = JOk t -> tok = t_payload t ++ dot :: b64_encode (t_sig t).
  Proof.
    intros D. apply decode_ok_iff in D. destruct D as (hb & cb & _ & _ & _ & -> & _ & _ & ->). reflexivity.
  Qed.

  Corollary decode_injective tok tok' t t' :
    decode tok = JOk t -> decode tok' = JOk t' ->
    t_payload t = t_payload t' -> t_sig t = t_sig t' -> tok = tok'.
  Proof.
    intros A B P S. apply decode_text_determined in A, B. rewrite A, B, P, S. reflexivity.
  Qed.

  Hypothesis mac_bytes : forall k d, is_bytes (mac k d).

  (** An HS256 token verifies iff its text is exactly what [EncodeAndSign]
      writes for header and claims JSON texts that parse to the pinned header
      and to claims inside their time window. *)
  Theorem hs_verify_iff k pin now tok t :
    hs_verify k pin now tok = JOk t <->
    exists hb cb,
      is_bytes hb /\ is_bytes cb /\
      tok = jwt_sign k hb cb /\
      parse_header hb = Some (t_header t) /\ check_header (t_header t) pin = None /\
      parse_claims cb = Some (t_claims t) /\ check_time (t_claims t) now = None /\
      t_payload t = jwt_text hb cb /\ t_sig t = mac k (jwt_text hb cb).
  Proof.
    unfold Jwt.hs_verify, decode_and_verify, hs_verifier, Jwt.jwt_sign. split.
    - destruct (decode tok) as [t'|e] eqn:D; [|discriminate].
      destruct (check_header (t_header t') pin) eqn:CH; [discriminate|].
      destruct (beq_bytes (mac k (t_payload t')) (t_sig t')) eqn:M; [|discriminate].
      destruct (check_time (t_claims t') now) eqn:CT; [discriminate|].
      intros [= <-]. apply beq_bytes_spec in M.
      apply decode_ok_iff in D. destruct D as (hb & cb & Hh & Hc & Hs & -> & Ph & Pc & Pp).
      exists hb, cb. rewrite <- M, Pp. auto 12.
    - intros (hb & cb & Hh & Hc & -> & Ph & CH & Pc & CT & Pp & Ps).
      assert (decode (jwt_text hb cb ++ dot :: b64_encode (mac k (jwt_text hb cb))) = JOk t) as ->.
      { apply decode_ok_iff. exists hb, cb. rewrite Ps. auto 10. }
      rewrite CH, Pp, Ps, beq_bytes_refl, CT. reflexivity.
  Qed.

  (** What is guaranteed whatever JSON the segments hold (duplicate keys,
      folded key names, unknown fields, ... are between [encoding/json] and the
      parsers): the MAC that was checked is over exactly the presented first two
      segments, the third segment is its canonical encoding, and the header pin
      and the time check were applied to what the parsers return for the
      canonical decoding of those very segments. *)
  Theorem hs_signed_bytes_and_parsed_semantics k pin now tok t :
    hs_verify k pin now tok = JOk t ->
    exists hs cs hb cb,
      tok = hs ++ dot :: cs ++ dot :: b64_encode (mac k (hs ++ dot :: cs)) /\
      t_payload t = hs ++ dot :: cs /\ t_sig t = mac k (hs ++ dot :: cs) /\
      nosep dot hs /\ nosep dot cs /\
      b64_decode_canon hs = Some hb /\ parse_header hb = Some (t_header t) /\
      b64_decode_canon cs = Some cb /\ parse_claims cb = Some (t_claims t) /\
      check_header (t_header t) pin = None /\ check_time (t_claims t) now = None.
  Proof.
    intros A. apply hs_verify_iff in A.
    destruct A as (hb & cb & Hh & Hc & -> & Ph & CH & Pc & CT & Pp & Ps).
    exists (b64_encode hb), (b64_encode cb), hb, cb.
    unfold Jwt.jwt_sign, jwt_text in *. rewrite <- app_assoc. cbn [app].
    repeat split; auto; try (now apply b64_nosep); apply b64_canon_iff; auto.
  Qed.

  (** The signed text determines the token: two accepted tokens with the same
      payload text are the same text (no second spelling of the signature). *)
  Theorem hs_token_unique k pin now now' tok tok' t t' :
    hs_verify k pin now tok = JOk t -> hs_verify k pin now' tok' = JOk t' ->
    t_payload t = t_payload t' -> tok = tok'.
  Proof.
    intros A B E. apply hs_verify_iff in A, B.
    destruct A as (hb & cb & _ & _ & -> & _ & _ & _ & _ & Pa & _).
    destruct B as (hb' & cb' & _ & _ & -> & _ & _ & _ & _ & Pb & _).
    unfold Jwt.jwt_sign. rewrite <- Pa, <- Pb, E. reflexivity.
  Qed.

  Definition is_err {A} (r : jres A) : Prop := match r with JErr _ => True | JOk _ => False end.

  (** Same first two segments, any other third segment: rejected. *)
  Corollary hs_other_signature_text_rejected k pin now now' p s s' t :
    nosep dot s -> nosep dot s' -> s' <> s ->
    hs_verify k pin now (p ++ dot :: s) = JOk t -> is_err (hs_verify k pin now' (p ++ dot :: s')).
  Proof.
    intros Ns Ns' N A.
    destruct (hs_verify k pin now' (p ++ dot :: s')) as [t'|] eqn:B; [|exact I]. exfalso.
    assert (t_payload t = p /\ t_payload t' = p) as [Pa Pb].
    { apply hs_verify_iff in A, B.
      destruct A as (hb & cb & Hh & Hc & Ea & _ & _ & _ & _ & Pa & _).
      destruct B as (hb' & cb' & Hh' & Hc' & Eb & _ & _ & _ & _ & Pb & _).
      unfold Jwt.jwt_sign in Ea, Eb.
      split.
      - rewrite Pa. symmetry. exact (proj1 (cut_last_sep _ _ _ _ _ Ns (b64_nosep _ (mac_bytes _ _)) Ea)).
      - rewrite Pb. symmetry. exact (proj1 (cut_last_sep _ _ _ _ _ Ns' (b64_nosep _ (mac_bytes _ _)) Eb)). }
    assert (p ++ dot :: s = p ++ dot :: s') as E.
    { eapply hs_token_unique; eauto. congruence. }
    apply app_inv_head in E. congruence.
  Qed.

  (** The premise a MAC is used for, for token texts: the presented text does
      not carry a valid MAC over first segments that were never signed. *)
  Definition jwt_no_forgery (k : K) (issued : list bytes) (tok : bytes) : Prop :=
    forall hb cb, tok = jwt_sign k hb cb -> In (jwt_text hb cb) issued.

  (** Every text other than the issued token (any flip, truncation, extension,
      re-encoding, header rewrite): rejected, unless it carries a forged MAC. *)
  Theorem hs_mutant_rejected k pin now p0 tok :
    jwt_no_forgery k [p0] tok -> tok <> p0 ++ dot :: b64_encode (mac k p0) ->
    is_err (hs_verify k pin now tok).
  Proof.
    intros F N. destruct (hs_verify k pin now tok) as [t|] eqn:A; [|exact I]. exfalso.
    apply hs_verify_iff in A. destruct A as (hb & cb & _ & _ & E & _).
    destruct (F hb cb E) as [Q|[]]. apply N. rewrite E. unfold Jwt.jwt_sign. now rewrite <- Q.
  Qed.

  (** Under the second-preimage idealisation for the signed text of the issued
      token: the issued signature segment under any other first two segments is
      rejected. *)
  Definition second_preimage_free (k : K) (d : bytes) : Prop :=
    forall d', d' <> d -> mac k d' <> mac k d.

  Theorem hs_other_payload_text_rejected k pin now now' tok tok' t t' :
    second_preimage_free k (t_payload t) ->
    hs_verify k pin now tok = JOk t -> hs_verify k pin now' tok' = JOk t' ->
    t_sig t' = t_sig t -> tok' = tok.
  Proof.
    intros B A A' E.
    apply (hs_token_unique k pin now' now tok' tok t' t A' A).
    apply hs_verify_iff in A, A'.
    destruct A as (hb & cb & _ & _ & _ & _ & _ & _ & _ & Pa & Sa).
    destruct A' as (hb' & cb' & _ & _ & _ & _ & _ & _ & _ & Pb & Sb).
    rewrite Sa, Sb, <- Pa, <- Pb in E.
    destruct (list_eq_dec N.eq_dec (t_payload t') (t_payload t)) as [Q|D]; [exact Q|].
    now apply B in D.
  Qed.

  (** Under another key the token verifies only if that key gives the signed
      text the same MAC. *)
  Theorem hs_other_key_rejected k k' pin now now' tok t :
    mac k' (t_payload t) <> mac k (t_payload t) ->
    hs_verify k pin now tok = JOk t -> is_err (hs_verify k' pin now' tok).
  Proof.
    intros N A.
    destruct (hs_verify k' pin now' tok) as [t'|] eqn:A'; [|exact I]. exfalso.
    apply hs_verify_iff in A, A'.
    destruct A as (hb & cb & Hh & Hc & E & _ & _ & _ & _ & Pa & _).
    destruct A' as (hb' & cb' & Hh' & Hc' & E' & _).
    unfold Jwt.jwt_sign in E, E'. rewrite E in E'.
    destruct (cut_last_sep _ _ _ _ _ (b64_nosep _ (mac_bytes _ _)) (b64_nosep _ (mac_bytes _ _)) E') as [T S].
    apply b64_encode_inj in S; [|apply mac_bytes|apply mac_bytes].
    rewrite <- T, <- Pa in S. now symmetry in S.
  Qed.

  (** ** RS256 with an identity card *)
  Context {M RK : Type}.
  Variable parse_key : M -> option RK.
  Variable rsa_verify : RK -> bytes -> bytes -> bool.

  Notation rs_verify := (rs_verify parse_header parse_claims b64_decode_canon parse_key rsa_verify).
  Notation self_verify := (self_verify parse_header parse_claims b64_decode_canon parse_key rsa_verify).

  Lemma find_key_first (card : list (@pubkey M)) kid k :
    find_key card kid = Some k ->
    pk_id k = kid /\ exists pre post, card = pre ++ k :: post /\ Forall (fun k' => pk_id k' <> kid) pre.
  Proof.
    unfold find_key. induction card as [|x r IH]; cbn [find]; [discriminate|].
    destruct (beq_bytes (pk_id x) kid) eqn:E.
    - intros [= <-]. apply beq_bytes_spec in E. split; [exact E|]. exists [], r. split; [reflexivity|constructor].
    - intros F. destruct (IH F) as (I & pre & post & -> & P). split; [exact I|].
      exists (x :: pre), post. split; [reflexivity|]. constructor; [now apply beq_bytes_neq|exact P].
  Qed.

  Lemma find_key_none (card : list (@pubkey M)) kid :
    find_key card kid = None <-> Forall (fun k' => pk_id k' <> kid) card.
  Proof.
    unfold find_key. induction card as [|x r IH]; cbn [find]; [split; auto|].
    destruct (beq_bytes (pk_id x) kid) eqn:E.
    - apply beq_bytes_spec in E. split; [discriminate|]. intros F. inversion F; subst. contradiction.
    - apply beq_bytes_neq in E. rewrite IH. split; [intros F; constructor; assumption|intros F; now inversion F].
  Qed.

  Lemma key_valid_iff (k : @pubkey M) now :
    unix_in_range (pk_nvb k) -> unix_in_range (pk_nva k) ->
    key_valid k now = None <->
    (pk_nvb k <= 0 \/ pk_nvb k * sec_ns <= now) /\ now <= pk_nva k * sec_ns.
  Proof.
    intros Rb Ra. unfold key_valid.
    rewrite (ext_of_unix_in_range _ Rb), (ext_of_unix_in_range _ Ra).
    destruct (Z.ltb_spec 0 (pk_nvb k)) as [P|P]; cbn [andb].
    - destruct (time_before (now_ext now) _ _ _) eqn:A.
      + apply now_before in A. unfold sec_ns in *. split; [discriminate|lia].
      + apply (bool_iff_false _ _ (now_before _ _)) in A.
        destruct (time_before (pk_nva k + unix_to_internal) 0 _ _) eqn:B.
        * apply before_now in B. unfold sec_ns in *. split; [discriminate|lia].
        * apply (bool_iff_false _ _ (before_now _ _)) in B. unfold sec_ns in *. split; [lia|reflexivity].
    - destruct (time_before (pk_nva k + unix_to_internal) 0 _ _) eqn:B.
      + apply before_now in B. unfold sec_ns in *. split; [discriminate|lia].
      + apply (bool_iff_false _ _ (before_now _ _)) in B. unfold sec_ns in *. split; [lia|reflexivity].
  Qed.

  (** An RS256 token is accepted only under a key of the card that is the
      first with the header's key id, is an RSA key, is inside its validity
      window at the verification instant, parses, and verifies the signature
      over the text of the first two segments; and only inside the claims' time
      window. *)
  Theorem rs256_key_checked card now tok t :
    rs_verify card now tok = JOk t ->
    exists k rk pre post,
      decode tok = JOk t /\
      h_alg (t_header t) = alg_rs256 /\
      card = pre ++ k :: post /\ Forall (fun k' => pk_id k' <> h_kid (t_header t)) pre /\
      pk_id k = h_kid (t_header t) /\ pk_type k = key_type_rsa /\
      key_valid k now = None /\
      parse_key (pk_mat k) = Some rk /\ rsa_verify rk (t_payload t) (t_sig t) = true /\
      check_time (t_claims t) now = None.
  Proof.
    unfold Jwt.rs_verify, decode_and_verify, rs_verifier.
    destruct (decode tok) as [t'|] eqn:D; [|discriminate].
    destruct (beq_bytes (h_alg (t_header t')) alg_rs256) eqn:A; cbn [negb]; [|discriminate].
    destruct (find_key card (h_kid (t_header t'))) as [k|] eqn:F; [|discriminate].
    destruct (beq_bytes (pk_type k) key_type_rsa) eqn:T; cbn [negb]; [|discriminate].
    destruct (key_valid k now) eqn:V; [discriminate|].
    destruct (parse_key (pk_mat k)) as [rk|] eqn:P; [|discriminate].
    destruct (rsa_verify rk (t_payload t') (t_sig t')) eqn:R; [|discriminate].
    destruct (check_time (t_claims t') now) eqn:CT; [discriminate|].
    intros [= <-].
    apply beq_bytes_spec in A, T.
    apply find_key_first in F. destruct F as (I & pre & post & -> & Fp).
    exists k, rk, pre, post. tauto.
  Qed.

  Corollary rs256_unknown_key_rejected card now tok t :
    decode tok = JOk t -> Forall (fun k' => pk_id k' <> h_kid (t_header t)) card ->
    is_err (rs_verify card now tok).
  Proof.
    intros D F. destruct (rs_verify card now tok) as [t'|] eqn:E; [|exact I].
    apply rs256_key_checked in E. destruct E as (k & rk & pre & post & D' & _ & -> & _ & Ik & _).
    rewrite D in D'. injection D' as <-.
    rewrite Forall_forall in F. apply (F k); [apply in_or_app; right; left; reflexivity|exact Ik].
  Qed.

  (** A header without key id (absent or empty: both parse to the empty id)
      names no key unless some key is registered under the empty id; there is no
      fallback to any other key. *)
  Corollary rs256_empty_kid_rejected card now tok t :
    decode tok = JOk t -> h_kid (t_header t) = [] ->
    Forall (fun k' => pk_id k' <> []) card ->
    is_err (rs_verify card now tok).
  Proof.
    intros D E F. apply (rs256_unknown_key_rejected card now tok t D). now rewrite E.
  Qed.

  Corollary rs256_expired_key_rejected card now tok t k :
    decode tok = JOk t -> find_key card (h_kid (t_header t)) = Some k ->
    unix_in_range (pk_nvb k) -> unix_in_range (pk_nva k) ->
    pk_nva k * sec_ns < now -> is_err (rs_verify card now tok).
  Proof.
    intros D F Rb Ra X. unfold Jwt.rs_verify, decode_and_verify, rs_verifier. rewrite D.
    destruct (negb (beq_bytes (h_alg (t_header t)) alg_rs256)); [exact I|]. rewrite F.
    destruct (negb (beq_bytes (pk_type k) key_type_rsa)); [exact I|].
    destruct (key_valid k now) eqn:V; [exact I|]. apply key_valid_iff in V; [lia|assumption|assumption].
  Qed.

  (** A self token is accepted only for the issuer ".", the named user and host. *)
  Theorem self_verify_sound card user host now tok t :
    self_verify card user host now tok = JOk t ->
    rs_verify card now tok = JOk t /\
    c_iss (t_claims t) = self_iss /\ field_ok user (c_sub (t_claims t)) /\ field_ok host (c_aud (t_claims t)).
  Proof.
    unfold Jwt.self_verify. fold rs_verify.
    destruct (rs_verify card now tok) as [t'|] eqn:E; [|discriminate].
    destruct (check_claims _ _) eqn:C; [discriminate|]. intros [= <-].
    apply check_claims_iff in C. cbn [c_iss c_aud c_typ c_sub c_scope] in C.
    destruct C as ([X|X] & A & _ & S & _); [discriminate|]. auto.
  Qed.
  (** ** Signing side *)
  Context {PM SK : Type}.
  Variable parse_priv : PM -> option SK.

  Notation core_pick := (core_pick parse_priv).

  (** [simpleCore.Sign] signs only with a stored private key whose public half
      is on the card under the same id, is an RSA key and is inside its
      validity window at the signing instant; with no id asked for it is the
      last stored key, otherwise the first stored key of that id. *)
  Theorem core_pick_sound (privs : list (bytes * PM)) (card : list (@pubkey M)) req now id sk :
    core_pick privs card req now = COk (id, sk) ->
    exists pm pub,
      In (id, pm) privs /\ parse_priv pm = Some sk /\
      (req = [] -> exists p0, (id, pm) = last privs p0) /\ (req <> [] -> id = req) /\
      find_key card id = Some pub /\ pk_type pub = key_type_rsa /\ key_valid pub now = None.
  Proof.
    unfold Jwt.core_pick. destruct privs as [|p0 r]; [discriminate|].
    set (pick := if is_empty req then Some (last (p0 :: r) p0) else find _ (p0 :: r)).
    destruct pick as [[id' pm]|] eqn:P; [|discriminate].
    destruct (find_key card id') as [pub|] eqn:F; [|discriminate].
    destruct (beq_bytes (pk_type pub) key_type_rsa) eqn:T; cbn [negb]; [|discriminate].
    destruct (key_valid pub now) as [e|] eqn:V; [destruct e; discriminate|].
    destruct (parse_priv pm) as [sk'|] eqn:Q; [|discriminate].
    intros [= <- <-]. apply beq_bytes_spec in T.
    exists pm, pub. unfold pick in P.
    destruct req as [|c req']; cbn [is_empty] in P.
    - injection P as P. split.
      + rewrite <- P. exact (last_In (p0 :: r) p0 ltac:(discriminate)).
      + repeat split; auto; [intros _; eexists; symmetry; exact P|intros N; now elim N].
    - apply find_some in P. destruct P as [I E]. cbn [fst] in E. apply beq_bytes_spec in E.
      repeat split; auto. discriminate.
  Qed.

  (** The key chosen for signing at [now] passes every key check of the
      verifier at the same instant for the same card; what is left is the
      signature itself. *)
  Theorem core_pick_then_verifier (privs : list (bytes * PM)) (card : list (@pubkey M)) req now id sk t :
    core_pick privs card req now = COk (id, sk) ->
    h_kid (t_header t) = id -> h_alg (t_header t) = alg_rs256 ->
    exists pub, find_key card id = Some pub /\
      rs_verifier parse_key rsa_verify card t now =
      match parse_key (pk_mat pub) with
      | None => Some EKeyParse
      | Some rk => if rsa_verify rk (t_payload t) (t_sig t) then None else Some EWrongSig
      end.
  Proof.
    intros P Kid A. apply core_pick_sound in P.
    destruct P as (pm & pub & _ & _ & _ & _ & F & T & V). exists pub. split; [exact F|].
    unfold rs_verifier. rewrite A, beq_bytes_refl, Kid, F, T, beq_bytes_refl, V. reflexivity.
  Qed.

  (** ** [authgate.Exchange] *)

  (** A session is handed out only for an access token that verifies under
      the card at that instant, whose claims match issuer, audience and (when
      one is named) the user, and for a positive lifetime; the session is
      exactly what [Sessions.New] makes for that user and lifetime. *)
  Theorem exchange_sound {S : Type} (sess : Z -> bytes -> S) card issuer audience now tok user ttl s :
    exchange parse_header parse_claims b64_decode_canon parse_key rsa_verify sess
             card issuer audience now tok user ttl = inl s ->
    exists t,
      rs_verify card now tok = JOk t /\
      field_ok issuer (c_iss (t_claims t)) /\ field_ok audience (c_aud (t_claims t)) /\
      field_ok user (c_sub (t_claims t)) /\ 0 < ttl /\ s = sess ttl user.
  Proof.
    unfold exchange. destruct (is_empty tok); [discriminate|].
    destruct (rs_verify card now tok) as [t|] eqn:V; [|discriminate].
    destruct (check_claims _ _) eqn:C; [discriminate|].
    destruct (Z.leb_spec ttl 0); [discriminate|]. intros [= <-].
    apply check_claims_iff in C. cbn [c_iss c_aud c_typ c_sub c_scope] in C.
    exists t. tauto.
  Qed.
End JwtProofs.
