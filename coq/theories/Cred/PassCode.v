(** Model of roles/{pass_code,roles}.go: the stored role record and the
    operations NewPassCode / SetupWithCode / Disable / Enable as a state
    machine.  Each operation is one [pisces.KV.Mutate]: the function's changes
    are stored iff it returns nil (C05).  Passcode texts are abstract: the
    [n]-th successfully issued code is the number [n]; claim [0] is the empty
    string; every other number is some other text.  Instants are [Z]
    nanoseconds and are whatever the caller passes (no monotonicity).

    Definitions only; proofs are in PassCodeProofs.v. *)
From Coq Require Import List NArith ZArith Bool.
Import ListNotations.
Local Open Scope Z_scope.

Definition max_tries : Z := 10.                  (* passCodeMaxTries *)
Definition valid_buffer : Z := 60000000000.      (* 1 * time.Minute in NewPassCode *)

(** [p_has_valid] / [p_has_expire]: a stored record may lack its window
    (written by other means than NewPassCode; the fields are pointers in the
    code).  [p_tried] is a Go [int]: 64-bit, wrapping. *)
Record pcode := mkPC {
  p_code : N; p_has_valid : bool; p_valid : Z; p_has_expire : bool; p_expire : Z;
  p_consumed : bool; p_tried : Z }.

Definition two63 : Z := 9223372036854775808.
Definition wrap_int (z : Z) : Z := (z + two63) mod (2 * two63) - two63.

Record rstate := mkR {
  r_disabled : bool;
  r_pc : option pcode;
  r_id : option N;         (* identity tag stored by a successful setup *)
  r_issued : N }.          (* how many codes have been issued (names the next one) *)

Definition init_state : rstate := mkR false None None 0.

Inductive pop :=
| PNew (t : Z)
| PTry (claim : N) (id : N) (t : Z)
| PDisable
| PEnable.

(** Results: 0 accepted / done; 1 role disabled; 2 empty claim; 3 no code set;
    4 too many wrong codes; 5 already consumed; 6 not valid yet; 7 expired;
    8 incorrect; 9 internal (record without its window). *)
Definition checkPassCode (claim : N) (pc : option pcode) (now : Z) : N :=
  if (claim =? 0)%N then 2%N
  else match pc with
       | None => 3%N
       | Some c =>
           if negb (p_has_valid c) then 9%N
           else if negb (p_has_expire c) then 9%N
           else if max_tries <? p_tried c then 4%N
           else if p_consumed c then 5%N
           else if now <? p_valid c then 6%N
           else if p_expire c <? now then 7%N
           else if negb (p_code c =? claim)%N then 8%N
           else 0%N
       end.

Definition bump (pc : option pcode) : option pcode :=
  match pc with
  | Some c => Some (mkPC (p_code c) (p_has_valid c) (p_valid c) (p_has_expire c) (p_expire c)
                         (p_consumed c) (wrap_int (p_tried c + 1)))
  | None => None
  end.

Definition consume (pc : option pcode) : option pcode :=
  match pc with
  | Some c => Some (mkPC (p_code c) (p_has_valid c) (p_valid c) (p_has_expire c) (p_expire c)
                         true (p_tried c))
  | None => None
  end.

(** [persist]: whether a refused attempt still stores the incremented
    counter.  The repaired code does ([persist = true]); before the repair the
    refusal was returned from inside the Mutate function, so the increment was
    discarded. *)
Definition step_with (persist : bool) (expiry : Z) (s : rstate) (o : pop) : rstate * N :=
  match o with
  | PNew t =>
      if r_disabled s then (s, 1%N)
      else
        let n := (r_issued s + 1)%N in
        (mkR false (Some (mkPC n true (t - valid_buffer) true (t + Z.max 0 expiry) false 0)) (r_id s) n, 0%N)
  | PTry claim id t =>
      if r_disabled s then (s, 1%N)
      else
        let pc' := bump (r_pc s) in
        match checkPassCode claim pc' t with
        | 0%N => (mkR false (consume pc') (Some id) (r_issued s), 0%N)
        | e => (if persist then mkR false pc' (r_id s) (r_issued s) else s, e)
        end
  | PDisable => (mkR true (r_pc s) (r_id s) (r_issued s), 0%N)
  | PEnable => (mkR false (r_pc s) (r_id s) (r_issued s), 0%N)
  end.

Definition step := step_with true.
Definition step_legacy := step_with false.

(** Running a history, keeping what was observed (most recent first). *)
Definition event := (pop * N)%type.

Fixpoint run_with (persist : bool) (expiry : Z) (s : rstate) (ops : list pop) : list (N * rstate) :=
  match ops with
  | [] => []
  | o :: r =>
      let '(s', res) := step_with persist expiry s o in
      (res, s') :: run_with persist expiry s' r
  end.

Definition run := run_with true.
