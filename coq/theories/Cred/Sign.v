(** Model of signer/{signer,sessions,time_signer,time,rsa_time_signer}.go.

    HMAC-SHA256, SHA-256 and RSA verification are functions given as Section
    variables; nothing is assumed about them here.  Time is [Z] nanoseconds
    since the Unix epoch (what [time.Unix(0, ns)] denotes); [time.Time]
    comparisons and [Add] are exact on the instants that occur (an [int64]
    nanosecond count plus or minus an [int64] duration is far inside the range
    of [time.Time]).

    Definitions only; proofs are in SignProofs.v. *)
From Coq Require Import List NArith ZArith Bool.
From Verif Require Import Lib.Bytes Lib.Codec.
Import ListNotations.
Local Open Scope Z_scope.

Definition mac_size : nat := 32.      (* sha256.Size *)
Definition ts_len : nat := 8.         (* timestampLen *)

Definition min_dur : Z := - 9223372036854775808.
Definition max_dur : Z := 9223372036854775807.

(** [time.Time.Sub] saturates. *)
Definition clamp_dur (d : Z) : Z :=
  if d <? min_dur then min_dur else if max_dur <? d then max_dur else d.

Section Signer.
  Context {K : Type}.
  Variable mac : K -> bytes -> bytes.

  (** [Signer.Sign]: the data followed by its MAC. *)
  Definition sign (k : K) (d : bytes) : bytes := d ++ mac k d.

  (** [Signer.Check]: split off the last 32 bytes, compare with [hmac.Equal]
      (equal length and equal content). *)
  Definition check (k : K) (bs : bytes) : option bytes :=
    let n := length bs in
    if (n <? mac_size)%nat then None
    else
      let d := firstn (n - mac_size) bs in
      if beq_bytes (skipn (n - mac_size) bs) (mac k d) then Some d else None.

  Definition sign_hex (k : K) (d : bytes) : list N := hex_encode (sign k d).

  (** [Signer.CheckHex] with the decoder as a parameter: the repaired code
      requires the canonical (lower-case) text, the code before the repair
      accepted whatever [hex.DecodeString] accepts. *)
  Definition check_hex_with (dec : list N -> option bytes) (k : K) (s : list N) : option bytes :=
    match dec s with
    | Some bs => check k bs
    | None => None
    end.

  Definition check_hex := check_hex_with hex_decode_canon.
  Definition check_hex_legacy := check_hex_with hex_decode.

  (** ** Sessions (sessions.go) *)

  (** The lifetime actually granted: the configured maximum unless a smaller
      positive one is asked for. *)
  Definition eff_ttl (maxttl ttl : Z) : Z :=
    if (ttl <=? 0) || (maxttl <? ttl) then maxttl else ttl.

  (** [Sessions.New] at instant [t0]: token text and expiry instant. *)
  Definition sess_new (k : K) (maxttl t0 ttl : Z) (data : bytes) : list N * Z :=
    let e := t0 + eff_ttl maxttl ttl in
    (sign_hex k (le64 (u64_of_int e) ++ data), e).

  (** [Sessions.Check] at instant [now]: payload and remaining lifetime. *)
  Definition sess_check_with (chk : K -> list N -> option bytes) (k : K) (now : Z) (s : list N)
    : option (bytes * Z) :=
    match chk k s with
    | None => None
    | Some bs =>
        if (length bs <? ts_len)%nat then None
        else
          let e := int_of_u64 (de64 bs) in
          if now <? e then Some (skipn ts_len bs, clamp_dur (e - now)) else None
    end.

  Definition sess_check := sess_check_with check_hex.

  (** [Sessions.CheckState]: a live session whose payload is empty;
      [Sessions.CheckJSON]: a live session whose payload [encoding/json] reads
      ([json_ok] stands for [json.Unmarshal] succeeding into the caller's value). *)
  Definition sess_check_state (k : K) (now : Z) (s : list N) : bool :=
    match sess_check k now s with
    | Some ([], _) => true
    | _ => false
    end.

  Definition sess_check_json (json_ok : bytes -> bool) (k : K) (now : Z) (s : list N) : bool :=
    match sess_check k now s with
    | Some (d, _) => json_ok d
    | None => false
    end.

  (** [Sessions.NewState]: a session without payload for the configured lifetime. *)
  Definition sess_new_state (k : K) (maxttl t0 : Z) : list N := fst (sess_new k maxttl t0 0 []).

  (** [refreshTTL] / [Sessions.NeedRefresh]: a fifth of the configured
      lifetime (Go's integer division; zero when the lifetime is not positive). *)
  Definition refresh_ttl (maxttl : Z) : Z := if maxttl <=? 0 then 0 else maxttl / 5.
  Definition need_refresh (maxttl left : Z) : bool := left <? refresh_ttl maxttl.

  (** ** [authgate.Gate.CheckToken]: the session, then the caller's check
      callback about the user named in it.  [cb u = None]: the callback
      returned an error (the gate returns it and no information); [Some lvl]:
      the level it granted (negative: the user is refused). *)
  Record gate_info := mkGI { gi_valid : bool; gi_user : bytes; gi_level : Z; gi_refresh : bool }.

  Definition gate_check_token (cb : bytes -> option Z) (k : K) (maxttl now : Z) (s : list N)
    : option gate_info :=
    match sess_check k now s with
    | None => Some (mkGI false [] 0 false)
    | Some (u, lft) =>
        match cb u with
        | None => None
        | Some lvl => Some (mkGI (0 <=? lvl) u lvl (need_refresh maxttl lft))
        end
    end.

  (** ** Signed challenges (signer.go NewSignedChallenge / CheckChallenge)

      The challenge is the JSON of a nonce and a timestamp, signed as a blob.
      [chal_time] stands for [json.Unmarshal] into [timeutil.Challenge] followed
      by [timeutil.Time]: the instant in the data, or [None] when there is none
      (then the code reads the zero [time.Time], year 1). *)
  Variable chal_time : bytes -> option Z.

  Inductive ch_err := ChInvalid | ChFuture | ChExpired.

  Definition zero_time_ns : Z := - 62135596800 * 1000000000.

  Definition challenge_check (k : K) (w now : Z) (bs : bytes) : option ch_err :=
    match check k bs with
    | None => Some ChInvalid
    | Some d =>
        let t := match chal_time d with Some t => t | None => zero_time_ns end in
        if now <? t then Some ChFuture
        else if t + w <? now then Some ChExpired
        else None
    end.

  (** ** Time tokens (time_signer.go, time.go) *)

  Definition abs_window (w : Z) : Z := if w <? 0 then - w else w.

  (** [inWindow]: strictly inside [(now - w, now + w)]. *)
  Definition in_window (t now w : Z) : bool := (now - w <? t) && (t <? now + w).

  Definition ts_token (k : K) (t0 : Z) : list N := sign_hex k (le64 (u64_of_int t0)).

  Definition ts_check_with (chk : K -> list N -> option bytes) (k : K) (w now : Z) (s : list N) : bool :=
    match chk k s with
    | None => false
    | Some bs =>
        if (length bs =? ts_len)%nat
        then in_window (int_of_u64 (de64 bs)) now (abs_window w)
        else false
    end.

  Definition ts_check := ts_check_with check_hex.
End Signer.

(** ** RSA-signed time blocks (rsa_time_signer.go) *)

Inductive rt_err := RtShort | RtWindow | RtHash | RtSig.

Section RsaTime.
  Context {PK : Type}.
  Variable H : bytes -> bytes.                        (* sha256.Sum256 *)
  Variable rsa_verify : PK -> bytes -> bytes -> bool. (* VerifyPKCS1v15 pk SHA256 hash sig *)

  Definition rsa_time_check (pk : PK) (w now : Z) (data hash sig : bytes) : option rt_err :=
    if (length data <? ts_len)%nat then Some RtShort
    else if negb (in_window (int_of_u64 (de64 data)) now (abs_window w)) then Some RtWindow
    else if negb (beq_bytes (H data) hash) then Some RtHash
    else if rsa_verify pk hash sig then None else Some RtSig.
End RsaTime.
