(** Ownership theorems for Cred/Own.v: with [Sign]'s result in an array of its
    own, every token issued stays, byte for byte, the token that was issued,
    and [Check] returns the payload that was signed for it, over every history
    of sign / check calls interleaved with the caller's writes to its own
    arrays; and no call writes into the caller's arrays.  With Go's [append]
    to the argument the same history refutes it. *)
From Coq Require Import List NArith Bool Arith Lia.
From Verif Require Import Lib.Bytes Lib.Codec Cred.Sign Cred.SignProofs Cred.Own.
Import ListNotations.

Lemma hget_app_l (h x : heap) b : b < length h -> hget (h ++ x) b = hget h b.
Proof. intros L. unfold hget. now apply app_nth1. Qed.

Lemma hget_app_new (h : heap) v : hget (h ++ [v]) (length h) = v.
Proof. unfold hget. rewrite app_nth2 by lia. now rewrite Nat.sub_diag. Qed.

Lemma hset_length h b v : length (hset h b v) = length h.
Proof. revert b. induction h as [|x t IH]; intros [|b]; cbn; auto. Qed.

Lemma hget_hset_other h b b' v : b <> b' -> hget (hset h b v) b' = hget h b'.
Proof.
  unfold hget. revert b b'. induction h as [|x t IH]; intros b b' N.
  - destruct b; reflexivity.
  - destruct b as [|b], b' as [|b']; cbn; try reflexivity; [congruence|].
    apply IH. congruence.
Qed.

Lemma memb_In b l : memb b l = true <-> In b l.
Proof.
  unfold memb. rewrite existsb_exists. split.
  - intros (x & I & E). apply Nat.eqb_eq in E. now subst.
  - intros I. exists b. split; [exact I|apply Nat.eqb_refl].
Qed.

Section OwnProofs.
  Context {K : Type}.
  Variable mac : K -> bytes -> bytes.
  Variable k : K.
  Hypothesis mac_len : forall k d, length (mac k d) = mac_size.

  Notation step := (own_step mac k true).
  Notation run := (own_run mac k true).
  Notation sign := (sign mac k).

  (** A token issued lives in an array that is not one of the caller's, and
      that array holds exactly the signed text. *)
  Definition tok_ok (s : ostate) (tp : slice * bytes) : Prop :=
    let '(ts, p) := tp in
    s_arr ts < length (o_heap s) /\ ~ In (s_arr ts) (o_mine s) /\
    s_off ts = 0 /\ s_len ts = length (sign p) /\ hget (o_heap s) (s_arr ts) = sign p.

  Definition inv (s : ostate) : Prop :=
    Forall (fun m => m < length (o_heap s)) (o_mine s) /\ Forall (tok_ok s) (o_toks s).

  Lemma inv_init : inv init_ostate.
  Proof. split; constructor. Qed.

  Lemma tok_read s ts p : tok_ok s (ts, p) -> read (o_heap s) ts = sign p.
  Proof.
    intros (_ & _ & O & L & E). unfold read. rewrite E, O, L. cbn [skipn]. apply firstn_all.
  Qed.

  Lemma sign_fresh h a :
    sign_step mac k true h a =
    (h ++ [sign (read h a)], mkS (length h) 0 (length (read h a) + mac_size)).
  Proof. reflexivity. Qed.

  Lemma step_inv s o : inv s -> op_ok s o = true -> inv (fst (step s o)).
  Proof.
    intros [Im It] Ok. destruct o as [v|a off v|a|t]; cbn [own_step].
    - (* OAlloc *) cbn [fst]. split; cbn [o_heap o_mine o_toks].
      + constructor; [rewrite app_length; cbn [length]; lia|].
        eapply Forall_impl; [|exact Im]. intros m L. cbv beta in L. rewrite app_length. lia.
      + eapply Forall_impl; [|exact It]. intros [ts p] (L & N & O & Ln & E).
        cbn [tok_ok o_heap o_mine]. rewrite app_length, hget_app_l by exact L.
        repeat split; auto; try lia. intros [X|X]; [lia|contradiction].
    - (* OWrite *) cbn [fst]. cbn [op_ok] in Ok. apply andb_prop in Ok. destruct Ok as [Ma _].
      apply memb_In in Ma. split; cbn [o_heap o_mine o_toks].
      + eapply Forall_impl; [|exact Im]. intros m L. cbv beta in L. now rewrite hset_length.
      + eapply Forall_impl; [|exact It]. intros [ts p] (L & N & O & Ln & E).
        cbn [tok_ok o_heap o_mine]. rewrite hset_length.
        rewrite hget_hset_other by (intros ->; contradiction). auto.
    - (* OSign *) rewrite sign_fresh. cbn [fst]. split; cbn [o_heap o_mine o_toks].
      + eapply Forall_impl; [|exact Im]. intros m L. cbv beta in L. rewrite app_length. lia.
      + apply Forall_app. split.
        * eapply Forall_impl; [|exact It]. intros [ts p] (L & N & O & Ln & E).
          cbn [tok_ok o_heap o_mine]. rewrite app_length, hget_app_l by exact L. repeat split; auto; lia.
        * constructor; [|constructor]. cbn [tok_ok o_heap o_mine s_arr s_off s_len].
          rewrite app_length, hget_app_new. cbn [length].
          split; [lia|]. split.
          { intros I. rewrite Forall_forall in Im. apply Im in I. lia. }
          split; [reflexivity|]. split; [|reflexivity].
          unfold Sign.sign. now rewrite app_length, mac_len.
    - (* OCheck *) destruct (nth_error (o_toks s) t) as [[ts p]|]; cbn [fst]; split; assumption.
  Qed.

  (** [Check] of a token issued earlier returns the payload that was signed for it. *)
  Theorem check_returns_signed_payload s t ts p :
    inv s -> nth_error (o_toks s) t = Some (ts, p) ->
    snd (step s (OCheck t)) = Some (Some p) /\ read (o_heap s) ts = sign p.
  Proof.
    intros [_ It] E. cbn [own_step]. rewrite E. cbn [snd].
    assert (tok_ok s (ts, p)) as T.
    { rewrite Forall_forall in It. apply It. eapply nth_error_In; eauto. }
    rewrite (tok_read _ _ _ T). split; [|reflexivity]. f_equal. now apply check_sign.
  Qed.

  (** No call writes into an array that exists: the caller's memory is the caller's. *)
  Theorem calls_leave_arrays s o a :
    (forall x off v, o <> OWrite x off v) -> a < length (o_heap s) ->
    hget (o_heap (fst (step s o))) a = hget (o_heap s) a.
  Proof.
    intros N L. destruct o as [v|x off v|x|t]; cbn [own_step].
    - cbn [fst o_heap]. now apply hget_app_l.
    - exfalso. now apply (N x off v).
    - rewrite sign_fresh. cbn [fst o_heap]. now apply hget_app_l.
    - destruct (nth_error (o_toks s) t) as [[ts p]|]; reflexivity.
  Qed.

  Lemma run_inv s ops : inv s -> ops_ok mac k true s ops = true -> inv (fst (run s ops)).
  Proof.
    revert s. induction ops as [|o r IH]; intros s I Ok; [exact I|].
    cbn [ops_ok] in Ok. apply andb_prop in Ok. destruct Ok as [O1 O2].
    cbn [own_run]. destruct (step s o) as [s1 x] eqn:E1.
    assert (inv s1) as I1 by (pose proof (step_inv s o I O1) as Q; now rewrite E1 in Q).
    try rewrite E1 in O2. cbn [fst] in O2.
    specialize (IH s1 I1 O2). destruct (run s1 r) as [s2 xs]. exact IH.
  Qed.

  (** Over every history from the empty state: after it, every token issued
      reads back as the signed text of the payload it was issued for, and
      verifies to that payload. *)
  Theorem tokens_stay_what_was_issued ops :
    ops_ok mac k true init_ostate ops = true ->
    let s := fst (run init_ostate ops) in
    Forall (fun tp => read (o_heap s) (fst tp) = sign (snd tp) /\
                      check mac k (read (o_heap s) (fst tp)) = Some (snd tp)) (o_toks s).
  Proof.
    intros Ok. cbv zeta. pose proof (run_inv init_ostate ops inv_init Ok) as [_ It].
    eapply Forall_impl; [|exact It]. intros [ts p] T. cbn [fst snd].
    rewrite (tok_read _ _ _ T). split; [reflexivity|]. now apply check_sign.
  Qed.
End OwnProofs.

(** ** The signer uses the whole key *)
Section KeyUsedProofs.
  Variable mac : bytes -> bytes -> bytes.
  Hypothesis mac_len : forall k d, length (mac k d) = mac_size.

  (** With the whole key stored, the object's key is the key it was given, so a
      blob issued under [key] is refused under [key'] exactly when the MACs under
      the two GIVEN keys differ (no pair of keys is confused by the object). *)
  Theorem key_used_is_key key : keep_all key = key.
  Proof. reflexivity. Qed.

  Theorem whole_key_other_key_rejected key key' d :
    obj_check mac keep_all key' (obj_sign mac keep_all key d) = None <-> mac key' d <> mac key d.
  Proof. unfold obj_check, obj_sign, keep_all. now apply other_key_iff. Qed.

  (** A constructor that keeps only the first [n] bytes: two keys that agree on
      those bytes verify each other's blobs, whatever the MAC. *)
  Theorem truncating_constructor_refuted n key key' d :
    firstn n key = firstn n key' ->
    obj_check mac (keep_first n) key' (obj_sign mac (keep_first n) key d) = Some d.
  Proof.
    intros E. unfold obj_check, obj_sign, keep_first. rewrite E. now apply check_sign.
  Qed.
End KeyUsedProofs.
