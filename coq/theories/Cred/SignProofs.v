(** Proofs about Cred/Sign.v.  The MAC is any function with 32-byte outputs
    ([mac_len], [mac_bytes]); nothing cryptographic is assumed except where a
    statement names [second_preimage_free] or [no_forgery]. *)
From Coq Require Import List NArith ZArith Bool Lia.
From Verif Require Import Lib.Bytes Lib.Codec Cred.Sign.
Import ListNotations.

(** Replace element [i]. *)
Definition upd {A} (i : nat) (x : A) (l : list A) : list A := firstn i l ++ x :: skipn (S i) l.

Lemma upd_length {A} i (x : A) l : (i < length l)%nat -> length (upd i x l) = length l.
Proof.
  intros H. unfold upd. rewrite app_length, firstn_length. cbn [length]. rewrite skipn_length. lia.
Qed.

Lemma upd_app_l {A} i (x : A) l r : (i < length l)%nat -> upd i x (l ++ r) = upd i x l ++ r.
Proof.
  intros H. unfold upd.
  rewrite firstn_app, skipn_app.
  replace (i - length l)%nat with 0%nat by lia.
  replace (S i - length l)%nat with 0%nat by lia.
  cbn [firstn skipn]. rewrite app_nil_r, <- app_assoc. reflexivity.
Qed.

Lemma upd_app_r {A} i (x : A) l r : (length l <= i)%nat -> upd i x (l ++ r) = l ++ upd (i - length l) x r.
Proof.
  intros H. unfold upd.
  rewrite firstn_app, skipn_app.
  rewrite firstn_all2 by lia. rewrite skipn_all2 by lia.
  replace (S i - length l)%nat with (S (i - length l)) by lia.
  cbn [app]. now rewrite <- app_assoc.
Qed.

Lemma upd_neq {A} i (x d : A) l : (i < length l)%nat -> nth i l d <> x -> upd i x l <> l.
Proof.
  intros H N E. apply N. rewrite <- E at 1. unfold upd.
  rewrite app_nth2; rewrite firstn_length; [|lia].
  replace (i - Nat.min i (length l))%nat with 0%nat by lia. reflexivity.
Qed.

Lemma upd_same {A} (d : A) l : forall i, (i < length l)%nat -> upd i (nth i l d) l = l.
Proof.
  unfold upd. induction l as [|x l IH]; intros i H; [cbn in H; lia|].
  destruct i as [|i]; [reflexivity|]. cbn [length] in H.
  cbn [nth firstn skipn app]. f_equal. apply IH. lia.
Qed.

Lemma skipn_skipn' {A} n m (l : list A) : skipn n (skipn m l) = skipn (m + n) l.
Proof.
  revert l. induction m as [|m IH]; intros l; [reflexivity|].
  destruct l as [|x l]; [now rewrite !skipn_nil|]. cbn [skipn plus]. apply IH.
Qed.

Lemma firstn_upd {A} n i (x : A) l : (n <= i)%nat -> (i < length l)%nat -> firstn n (upd i x l) = firstn n l.
Proof.
  intros H L. unfold upd. rewrite firstn_app, firstn_firstn, firstn_length.
  replace (Nat.min n i) with n by lia.
  replace (n - Nat.min i (length l))%nat with 0%nat by lia.
  cbn [firstn]. now rewrite app_nil_r.
Qed.

Lemma skipn_upd {A} n i (x : A) l : (i < n)%nat -> (i < length l)%nat -> skipn n (upd i x l) = skipn n l.
Proof.
  intros H L. unfold upd. rewrite skipn_app, firstn_length.
  replace (Nat.min i (length l)) with i by lia.
  rewrite skipn_all2 by (rewrite firstn_length; lia).
  replace (n - i)%nat with (S (n - S i)) by lia. cbn [app].
  rewrite skipn_cons, skipn_skipn'. f_equal. lia.
Qed.

Lemma split_at {A} j (d : A) l : (j < length l)%nat -> l = firstn j l ++ nth j l d :: skipn (S j) l.
Proof. intros H. symmetry. apply (upd_same d l j H). Qed.

(** If two hex texts differ in one character, the byte strings differ in one byte. *)
Lemma hex_char_change_bytes a b i c :
  is_bytes a -> is_bytes b -> (i < length (hex_encode b))%nat ->
  hex_encode a = upd i c (hex_encode b) ->
  (i / 2 < length b)%nat /\ a = upd (i / 2) (nth (i / 2) a 0%N) b.
Proof.
  intros Ha Hb Hi E. rewrite hex_encode_length in Hi.
  assert (length a = length b) as L.
  { apply (f_equal (@length N)) in E. rewrite upd_length in E by (rewrite hex_encode_length; lia).
    rewrite !hex_encode_length in E. lia. }
  set (j := (i / 2)%nat).
  assert (2 * j <= i /\ i < 2 * j + 2)%nat as [J1 J2].
  { unfold j. pose proof (Nat.div_mod i 2 ltac:(lia)) as D.
    pose proof (Nat.mod_upper_bound i 2 ltac:(lia)). lia. }
  assert (j < length b)%nat as Jb by lia.
  split; [exact Jb|].
  assert (firstn j a = firstn j b) as F.
  { apply hex_encode_inj; [now apply is_bytes_firstn|now apply is_bytes_firstn|].
    rewrite !hex_encode_firstn, E. apply firstn_upd; [lia|rewrite hex_encode_length; lia]. }
  assert (skipn (S j) a = skipn (S j) b) as S.
  { apply hex_encode_inj; [now apply is_bytes_skipn|now apply is_bytes_skipn|].
    rewrite !hex_encode_skipn, E. apply skipn_upd; [lia|rewrite hex_encode_length; lia]. }
  rewrite (split_at j 0%N a) at 1 by lia. unfold upd. now rewrite F, S.
Qed.

Section SignProofs.
  Context {K : Type}.
  Variable mac : K -> bytes -> bytes.
  Hypothesis mac_len : forall k d, length (mac k d) = mac_size.

  Notation sign := (sign mac).
  Notation check := (check mac).

  Lemma check_app k d m :
    length m = mac_size -> check k (d ++ m) = if beq_bytes m (mac k d) then Some d else None.
  Proof.
    intros L. unfold Sign.check. rewrite app_length, L.
    destruct (Nat.ltb_spec (length d + mac_size) mac_size) as [H|_]; [lia|].
    replace (length d + mac_size - mac_size)%nat with (length d) by lia.
    rewrite firstn_app, Nat.sub_diag, firstn_O, app_nil_r, firstn_all.
    rewrite skipn_app, Nat.sub_diag, skipn_all, skipn_O. reflexivity.
  Qed.

  Lemma check_sign k d : check k (sign k d) = Some d.
  Proof. unfold Sign.sign. rewrite check_app by apply mac_len. now rewrite beq_bytes_refl. Qed.

  Lemma check_sound k bs d : check k bs = Some d -> bs = sign k d.
  Proof.
    unfold Sign.check, Sign.sign. destruct (length bs <? mac_size)%nat; [discriminate|].
    destruct (beq_bytes _ _) eqn:E; [|discriminate].
    intros [= <-]. apply beq_bytes_spec in E. rewrite <- E. now rewrite firstn_skipn.
  Qed.

  (** A blob verifies, and yields [d], exactly when it is the signer's output for [d]. *)
  Theorem check_iff k bs d : check k bs = Some d <-> bs = sign k d.
  Proof. split; [apply check_sound|intros ->; apply check_sign]. Qed.

  Lemma check_short k bs : (length bs < mac_size)%nat -> check k bs = None.
  Proof. intros H. unfold Sign.check. destruct (Nat.ltb_spec (length bs) mac_size); [reflexivity|lia]. Qed.

  (** The issued payload is returned for the issued blob only. *)
  Corollary payload_only_from_issued k d bs : bs <> sign k d -> check k bs <> Some d.
  Proof. intros N E. apply check_sound in E. contradiction. Qed.

  (** Whatever is accepted carries the MAC of what is returned: acceptance of
      a blob that was not issued is a MAC forgery for its payload. *)
  Corollary accepted_is_forgery k d bs d' :
    bs <> sign k d -> check k bs = Some d' -> d' <> d /\ bs = d' ++ mac k d'.
  Proof.
    intros N E. apply check_sound in E. split; [|exact E]. intros ->. contradiction.
  Qed.

  (** ** Under a second-preimage idealisation

      [second_preimage_free k d]: no other data has the MAC that [d] has under
      [k].  It is an idealisation of HMAC (for data longer than the MAC some
      collision exists by counting, though none can be found), stated for the
      one issued token a theorem is about; it is satisfiable together with
      [mac_len] (see [Props/C16.v]), so the theorems below are not vacuous. *)

  Definition second_preimage_free (k : K) (d : bytes) : Prop :=
    forall d', d' <> d -> mac k d' <> mac k d.

  Lemma skipn_sign k d : skipn (length (sign k d) - mac_size) (sign k d) = mac k d.
  Proof.
    unfold Sign.sign. rewrite app_length, mac_len.
    replace (length d + mac_size - mac_size)%nat with (length d) by lia.
    rewrite skipn_app, Nat.sub_diag, skipn_all. reflexivity.
  Qed.

  (** A blob that still ends with the issued MAC but is not the issued blob. *)
  Lemma kept_mac_rejected k d bs :
    second_preimage_free k d ->
    bs <> sign k d -> skipn (length bs - mac_size) bs = mac k d -> check k bs = None.
  Proof.
    intros B N T. destruct (check k bs) as [d'|] eqn:E; [|reflexivity].
    apply check_sound in E. subst bs. rewrite skipn_sign in T.
    destruct (list_eq_dec N.eq_dec d' d) as [->|D]; [contradiction|].
    now apply B in D.
  Qed.

  (** A blob that keeps the issued data but carries another MAC. *)
  Lemma kept_data_rejected k d m : length m = mac_size -> m <> mac k d -> check k (d ++ m) = None.
  Proof.
    intros L N. rewrite check_app by exact L.
    destruct (beq_bytes m (mac k d)) eqn:E; [|reflexivity]. apply beq_bytes_spec in E. contradiction.
  Qed.

  (** Changing any one byte of an issued blob (so: flipping any bit). *)
  Theorem byte_change_rejected k d i b :
    second_preimage_free k d ->
    (i < length (sign k d))%nat -> nth i (sign k d) 0%N <> b -> check k (upd i b (sign k d)) = None.
  Proof.
    intros B Hi Hb. unfold Sign.sign in *.
    destruct (Nat.lt_ge_cases i (length d)) as [L|L].
    - rewrite upd_app_l by exact L.
      apply (kept_mac_rejected k d); [exact B| |].
      + unfold Sign.sign. intros E. apply app_inv_tail in E.
        rewrite app_nth1 in Hb by exact L. exact (upd_neq i b 0%N d L Hb E).
      + rewrite app_length, mac_len, upd_length by exact L.
        replace (length d + mac_size - mac_size)%nat with (length (upd i b d)) by (rewrite upd_length; lia).
        rewrite skipn_app, Nat.sub_diag, skipn_all. reflexivity.
    - rewrite upd_app_r by exact L. rewrite app_length, mac_len in Hi.
      rewrite app_nth2 in Hb by lia.
      apply kept_data_rejected.
      + rewrite upd_length; [apply mac_len|rewrite mac_len; lia].
      + apply (upd_neq (i - length d) b 0%N (mac k d)); [rewrite mac_len; lia|exact Hb].
  Qed.

  (** A token verifies under another key exactly when both keys give its data the same MAC. *)
  Theorem other_key_iff k k' d : check k' (sign k d) = None <-> mac k' d <> mac k d.
  Proof.
    unfold Sign.sign. rewrite check_app by apply mac_len.
    destruct (beq_bytes (mac k d) (mac k' d)) eqn:E.
    - apply beq_bytes_spec in E. split; [discriminate|]. intros N. now symmetry in E.
    - apply beq_bytes_neq in E. split; [intros _ Q; now symmetry in Q|reflexivity].
  Qed.

  (** ** Relative to what was issued *)

  (** The premise a MAC is used for: the presented blob does not carry a valid
      MAC for a payload that was never signed under [k]. *)
  Definition no_forgery (k : K) (issued : list bytes) (bs : bytes) : Prop :=
    forall d, bs = d ++ mac k d -> In d issued.

  Theorem only_issued_verify k issued bs d :
    no_forgery k issued bs -> check k bs = Some d -> In d issued /\ In bs (map (sign k) issued).
  Proof.
    intros F E. apply check_sound in E. pose proof (F d E) as I. split; [exact I|].
    subst bs. now apply in_map.
  Qed.

  (** Every blob other than the issued one (any flip, truncation, extension,
      splice): rejected, unless it carries a forged MAC. *)
  Theorem mutant_rejected k d bs : no_forgery k [d] bs -> bs <> sign k d -> check k bs = None.
  Proof.
    intros F N. destruct (check k bs) as [d'|] eqn:E; [|reflexivity]. exfalso.
    destruct (only_issued_verify k [d] bs d' F E) as [[<-|[]] _].
    apply check_sound in E. contradiction.
  Qed.

  (** ** Hex tokens *)
  Hypothesis mac_bytes : forall k d, is_bytes (mac k d).

  Notation sign_hex := (sign_hex mac).
  Notation check_hex := (check_hex mac).

  Lemma sign_is_bytes k d : is_bytes d -> is_bytes (sign k d).
  Proof. intros H. apply is_bytes_app. split; [exact H|apply mac_bytes]. Qed.

  Theorem check_hex_iff k s d : check_hex k s = Some d <-> is_bytes d /\ s = sign_hex k d.
  Proof.
    unfold Sign.check_hex, check_hex_with, Sign.sign_hex. split.
    - destruct (hex_decode_canon s) as [bs|] eqn:E; [|discriminate].
      apply hex_canon_iff in E. destruct E as [Hb ->].
      intros C. apply check_sound in C. subst bs. split; [|reflexivity].
      apply is_bytes_app in Hb. tauto.
    - intros [Hd ->].
      assert (hex_decode_canon (hex_encode (sign k d)) = Some (sign k d)) as ->.
      { apply hex_canon_iff. split; [now apply sign_is_bytes|reflexivity]. }
      apply check_sign.
  Qed.

  Lemma check_hex_sign k d : is_bytes d -> check_hex k (sign_hex k d) = Some d.
  Proof. intros H. apply check_hex_iff. auto. Qed.

  (** One payload, one text: no second spelling of an issued token verifies. *)
  Theorem hex_token_unique k s s' d : check_hex k s = Some d -> check_hex k s' = Some d -> s' = s.
  Proof. intros A B. apply check_hex_iff in A, B. destruct A as [_ ->], B as [_ ->]. reflexivity. Qed.

  Theorem hex_only_issued_verify k issued s d :
    (forall bs, hex_decode s = Some bs -> no_forgery k issued bs) ->
    check_hex k s = Some d -> In d issued /\ In s (map (sign_hex k) issued).
  Proof.
    intros F C. pose proof C as C'. apply check_hex_iff in C'. destruct C' as [Hd ->].
    assert (hex_decode (sign_hex k d) = Some (sign k d)) as D.
    { apply hex_decode_encode. now apply sign_is_bytes. }
    assert (In d issued) as I by (apply (F _ D); reflexivity).
    split; [exact I|]. now apply in_map.
  Qed.

  Theorem hex_mutant_rejected k d s :
    (forall bs, hex_decode s = Some bs -> no_forgery k [d] bs) ->
    s <> sign_hex k d -> check_hex k s = None.
  Proof.
    intros F N. destruct (check_hex k s) as [d'|] eqn:E; [|reflexivity]. exfalso.
    destruct (hex_only_issued_verify k [d] s d' F E) as [[<-|[]] _].
    apply check_hex_iff in E. destruct E as [_ E]. contradiction.
  Qed.

  (** Changing any one character of an issued hex token (so: flipping any
      bit of its text) is rejected; this is what failed for letter case before
      the repair. *)
  Theorem hex_char_change_rejected k d i c :
    second_preimage_free k d ->
    is_bytes d -> (i < length (sign_hex k d))%nat -> nth i (sign_hex k d) 0%N <> c ->
    check_hex k (upd i c (sign_hex k d)) = None.
  Proof.
    intros B Hd Hi Hc.
    destruct (check_hex k (upd i c (sign_hex k d))) as [d'|] eqn:E; [|reflexivity]. exfalso.
    apply check_hex_iff in E. destruct E as [Hd' E]. unfold Sign.sign_hex in *.
    symmetry in E.
    destruct (hex_char_change_bytes _ _ i c (sign_is_bytes k d' Hd') (sign_is_bytes k d Hd) Hi E) as [J Q].
    set (j := (i / 2)%nat) in *. set (x := nth j (sign k d') 0%N) in *.
    destruct (N.eq_dec (nth j (sign k d) 0%N) x) as [Same|Diff].
    - rewrite <- Same, upd_same in Q by exact J. rewrite Q in E.
      symmetry in E. revert E. now apply upd_neq with (d := 0%N).
    - pose proof (byte_change_rejected k d j x B J Diff) as R.
      rewrite <- Q, check_sign in R. discriminate.
  Qed.

  (** ** Sessions *)

  Notation sess_new := (sess_new mac).
  Notation sess_check := (sess_check mac).

  Lemma eff_ttl_capped maxttl ttl : (eff_ttl maxttl ttl <= maxttl)%Z.
  Proof. unfold eff_ttl. destruct (Z.leb_spec ttl 0); destruct (Z.ltb_spec maxttl ttl); cbn [orb]; lia. Qed.

  Lemma eff_ttl_positive maxttl ttl : (0 < maxttl)%Z -> (0 < eff_ttl maxttl ttl)%Z.
  Proof. unfold eff_ttl. destruct (Z.leb_spec ttl 0); destruct (Z.ltb_spec maxttl ttl); cbn [orb]; lia. Qed.

  Lemma eff_ttl_honoured maxttl ttl : (0 < ttl <= maxttl)%Z -> eff_ttl maxttl ttl = ttl.
  Proof. unfold eff_ttl. destruct (Z.leb_spec ttl 0); destruct (Z.ltb_spec maxttl ttl); cbn [orb]; lia. Qed.

  Lemma stamp_read e d : is_int64 e -> int_of_u64 (de64 (le64 (u64_of_int e) ++ d)) = e.
  Proof.
    intros H. rewrite de64_le64_app by apply u64_of_int_bound. now apply int_of_u64_of_int.
  Qed.

  Lemma stamp_is_bytes e d : is_bytes d -> is_bytes (le64 (u64_of_int e) ++ d).
  Proof. intros H. apply is_bytes_app. split; [apply le64_is_bytes|exact H]. Qed.

  Lemma sess_check_stamped k now e d :
    is_int64 e -> is_bytes d ->
    sess_check k now (sign_hex k (le64 (u64_of_int e) ++ d))
    = if (now <? e)%Z then Some (d, clamp_dur (e - now)) else None.
  Proof.
    intros He Hd. unfold Sign.sess_check, sess_check_with.
    fold (Sign.check_hex mac). rewrite check_hex_sign by now apply stamp_is_bytes.
    rewrite app_length, le64_length.
    destruct (Nat.ltb_spec (8 + length d) ts_len) as [H|_]; [unfold ts_len in H; lia|].
    rewrite stamp_read by exact He.
    unfold ts_len. rewrite skipn_app, le64_length, Nat.sub_diag.
    rewrite skipn_all2 by (rewrite le64_length; lia). reflexivity.
  Qed.

  (** A session issued at [t0] verifies at [now] iff [now] is before the
      expiry instant, and then returns the data that was signed. *)
  Theorem session_window k maxttl t0 ttl d now :
    is_bytes d -> is_int64 (t0 + eff_ttl maxttl ttl) ->
    let '(tok, e) := sess_new k maxttl t0 ttl d in
    e = (t0 + eff_ttl maxttl ttl)%Z /\
    sess_check k now tok = if (now <? e)%Z then Some (d, clamp_dur (e - now)) else None.
  Proof.
    intros Hd He. unfold Sign.sess_new. split; [reflexivity|]. now apply sess_check_stamped.
  Qed.

  Corollary session_rejected_from_expiry k maxttl t0 ttl d now :
    is_bytes d -> is_int64 (t0 + eff_ttl maxttl ttl) ->
    (t0 + eff_ttl maxttl ttl <= now)%Z ->
    sess_check k now (fst (sess_new k maxttl t0 ttl d)) = None.
  Proof.
    intros Hd He L. pose proof (session_window k maxttl t0 ttl d now Hd He) as W.
    unfold Sign.sess_new in *. cbn [fst]. destruct W as [_ ->].
    destruct (Z.ltb_spec now (t0 + eff_ttl maxttl ttl)); [lia|reflexivity].
  Qed.

  (** Every text a session check accepts is an issued-looking session: the hex
      of a signed [expiry ++ data] with the expiry still ahead. *)
  Theorem sess_check_iff k now s d left :
    sess_check k now s = Some (d, left) <->
    exists e, is_int64 e /\ is_bytes d /\ s = sign_hex k (le64 (u64_of_int e) ++ d)
              /\ (now < e)%Z /\ left = clamp_dur (e - now).
  Proof.
    split.
    - unfold Sign.sess_check, sess_check_with. fold (Sign.check_hex mac).
      destruct (check_hex k s) as [bs|] eqn:C; [|discriminate].
      apply check_hex_iff in C. destruct C as [Hb ->].
      destruct (Nat.ltb_spec (length bs) ts_len) as [|L]; [discriminate|].
      destruct (Z.ltb_spec now (int_of_u64 (de64 bs))) as [T|]; [|discriminate].
      remember (skipn ts_len bs) as rest eqn:R.
      intros [= <- <-]. exists (int_of_u64 (de64 bs)).
      pose proof (de64_bound bs Hb) as Bd.
      split; [now apply int_of_u64_range|].
      split; [subst rest; now apply is_bytes_skipn|].
      split; [|split; [exact T|reflexivity]].
      f_equal. rewrite u64_of_int_of_u64 by exact Bd.
      unfold le64, de64.
      assert (length (firstn 8 bs) = 8%nat) as L8 by (rewrite firstn_length; unfold ts_len in L; lia).
      rewrite <- L8 at 1. rewrite le_de_bytes by now apply is_bytes_firstn.
      subst rest. unfold ts_len. now rewrite firstn_skipn.
    - intros (e & He & Hd & -> & T & ->). rewrite sess_check_stamped by assumption.
      destruct (Z.ltb_spec now e); [reflexivity|lia].
  Qed.

  (** ** Refresh advice and signed challenges *)

  Lemma need_refresh_spec maxttl left :
    (0 < maxttl)%Z -> need_refresh maxttl left = true <-> (left < maxttl / 5)%Z.
  Proof.
    intros H. unfold need_refresh, refresh_ttl.
    destruct (Z.leb_spec maxttl 0); [lia|]. apply Z.ltb_lt.
  Qed.

  Lemma need_refresh_never maxttl left : (maxttl <= 0)%Z -> (0 <= left)%Z -> need_refresh maxttl left = false.
  Proof.
    intros H L. unfold need_refresh, refresh_ttl. destruct (Z.leb_spec maxttl 0); [|lia].
    destruct (Z.ltb_spec left 0); [lia|reflexivity].
  Qed.

  (** A session checked [now] is advised to refresh iff less than a fifth of
      the configured lifetime remains. *)
  Theorem session_refresh_advice k maxttl t0 ttl d now :
    is_bytes d -> is_int64 (t0 + eff_ttl maxttl ttl) -> (0 < maxttl <= max_dur)%Z ->
    (t0 <= now < t0 + eff_ttl maxttl ttl)%Z ->
    exists left,
      sess_check k now (fst (sess_new k maxttl t0 ttl d)) = Some (d, left) /\
      left = (t0 + eff_ttl maxttl ttl - now)%Z /\
      (need_refresh maxttl left = true <-> (t0 + eff_ttl maxttl ttl - now < maxttl / 5)%Z).
  Proof.
    intros Hd He Hm Hn. pose proof (session_window k maxttl t0 ttl d now Hd He) as W.
    unfold Sign.sess_new in *. cbn [fst]. destruct W as [_ W].
    destruct (Z.ltb_spec now (t0 + eff_ttl maxttl ttl)) as [_|]; [|lia].
    pose proof (eff_ttl_capped maxttl ttl) as C.
    assert (clamp_dur (t0 + eff_ttl maxttl ttl - now) = t0 + eff_ttl maxttl ttl - now)%Z as CL.
    { unfold clamp_dur, min_dur, max_dur. unfold is_int64, two63 in He.
      destruct (Z.ltb_spec (t0 + eff_ttl maxttl ttl - now) (-9223372036854775808)); [lia|].
      destruct (Z.ltb_spec 9223372036854775807 (t0 + eff_ttl maxttl ttl - now)); [|reflexivity].
      exfalso. assert (is_int64 (t0 + eff_ttl maxttl ttl)) as X by exact He. unfold is_int64, two63 in X.
      unfold max_dur in Hm. lia. }
    eexists. split; [exact W|]. split; [exact CL|]. rewrite CL. apply need_refresh_spec. lia.
  Qed.

  Section Challenge.
    Variable chal_time : bytes -> option Z.

    Definition chal_instant (d : bytes) : Z :=
      match chal_time d with Some t => t | None => zero_time_ns end.

    (** A challenge verifies iff it is the signed blob of its data and the
        instant in the data is at most [w] in the past (closed window). *)
    Theorem challenge_check_iff k w now bs :
      challenge_check mac chal_time k w now bs = None <->
      exists d, bs = sign k d /\ (chal_instant d <= now <= chal_instant d + w)%Z.
    Proof.
      unfold challenge_check, chal_instant. split.
      - destruct (check k bs) as [d|] eqn:C; [|discriminate].
        apply check_sound in C. intros H. exists d. split; [exact C|].
        set (t := match chal_time d with Some t => t | None => zero_time_ns end) in *.
        destruct (Z.ltb_spec now t); [discriminate|]. destruct (Z.ltb_spec (t + w) now); [discriminate|]. lia.
      - intros (d & -> & H). rewrite check_sign.
        set (t := match chal_time d with Some t => t | None => zero_time_ns end) in *.
        destruct (Z.ltb_spec now t); [lia|]. destruct (Z.ltb_spec (t + w) now); [lia|reflexivity].
    Qed.

    Corollary challenge_only_issued k w now issued bs :
      no_forgery k issued bs -> challenge_check mac chal_time k w now bs = None ->
      exists d, In d issued /\ bs = sign k d /\ (chal_instant d <= now <= chal_instant d + w)%Z.
    Proof.
      intros F C. apply challenge_check_iff in C. destruct C as (d & -> & W).
      exists d. split; [apply (F d); reflexivity|auto].
    Qed.

    (** Data without a timestamp reads as year 1: never accepted at an [int64]
        nanosecond instant with an [int64] window. *)
    Corollary challenge_without_time_rejected k w now d :
      chal_time d = None -> is_int64 now -> is_int64 w ->
      challenge_check mac chal_time k w now (sign k d) <> None.
    Proof.
      intros T Hn Hw C. apply challenge_check_iff in C. destruct C as (d' & E & W).
      apply (f_equal (check k)) in E. rewrite !check_sign in E. injection E as <-.
      unfold chal_instant in W. rewrite T in W. unfold zero_time_ns, is_int64, two63 in *. lia.
    Qed.
  End Challenge.

  (** ** Time tokens *)

  Notation ts_token := (ts_token mac).
  Notation ts_check := (ts_check mac).

  Lemma in_window_spec t now w : in_window t now w = true <-> (now - w < t < now + w)%Z.
  Proof. unfold in_window. rewrite andb_true_iff, !Z.ltb_lt. tauto. Qed.

  Lemma abs_window_spec w : abs_window w = Z.abs w.
  Proof. unfold abs_window. destruct (Z.ltb_spec w 0); lia. Qed.

  Lemma ts_check_token k w now t0 :
    is_int64 t0 -> ts_check k w now (ts_token k t0) = in_window t0 now (abs_window w).
  Proof.
    intros H. unfold Sign.ts_check, ts_check_with, Sign.ts_token. fold (Sign.check_hex mac).
    rewrite check_hex_sign by apply le64_is_bytes.
    rewrite le64_length. cbn [Nat.eqb ts_len].
    rewrite <- (app_nil_r (le64 (u64_of_int t0))). now rewrite stamp_read.
  Qed.

  (** A time token issued at [t0] verifies at [now] iff [t0] is strictly
      inside the window around [now]. *)
  Theorem time_token_open_window k w now t0 :
    is_int64 t0 ->
    ts_check k w now (ts_token k t0) = true <-> (now - Z.abs w < t0 < now + Z.abs w)%Z.
  Proof. intros H. rewrite ts_check_token by exact H. now rewrite in_window_spec, abs_window_spec. Qed.

  Theorem ts_check_iff k w now s :
    ts_check k w now s = true <->
    exists t, is_int64 t /\ s = ts_token k t /\ (now - Z.abs w < t < now + Z.abs w)%Z.
  Proof.
    split.
    - unfold Sign.ts_check, ts_check_with. fold (Sign.check_hex mac).
      destruct (check_hex k s) as [bs|] eqn:C; [|discriminate].
      apply check_hex_iff in C. destruct C as [Hb ->].
      destruct (Nat.eqb_spec (length bs) ts_len) as [L|]; [|discriminate].
      intros W. apply in_window_spec in W. rewrite abs_window_spec in W.
      exists (int_of_u64 (de64 bs)). pose proof (de64_bound bs Hb) as Bd.
      split; [now apply int_of_u64_range|]. split; [|exact W].
      unfold Sign.ts_token. f_equal. rewrite u64_of_int_of_u64 by exact Bd.
      unfold le64, de64. unfold ts_len in L.
      rewrite firstn_all2 by lia. rewrite <- L. symmetry. now apply le_de_bytes.
    - intros (t & Ht & -> & W). now apply time_token_open_window.
  Qed.
End SignProofs.

(** ** RSA time blocks *)
Section RsaTimeProofs.
  Context {PK : Type}.
  Variable H : bytes -> bytes.
  Variable rsa_verify : PK -> bytes -> bytes -> bool.

  Theorem rsa_time_accept_iff pk w now data hash sig :
    rsa_time_check H rsa_verify pk w now data hash sig = None <->
    (ts_len <= length data)%nat /\
    (now - Z.abs w < int_of_u64 (de64 data) < now + Z.abs w)%Z /\
    H data = hash /\ rsa_verify pk hash sig = true.
  Proof.
    unfold rsa_time_check.
    destruct (Nat.ltb_spec (length data) ts_len) as [L|L].
    { split; [discriminate|]. intros (A & _). lia. }
    destruct (in_window _ now (abs_window w)) eqn:W; cbn [negb].
    2:{ split; [discriminate|]. intros (_ & A & _).
        assert (in_window (int_of_u64 (de64 data)) now (abs_window w) = true) as W'.
        { unfold in_window. rewrite andb_true_iff, !Z.ltb_lt.
          unfold abs_window. destruct (Z.ltb_spec w 0); lia. }
        congruence. }
    destruct (beq_bytes (H data) hash) eqn:E; cbn [negb].
    2:{ split; [discriminate|]. intros (_ & _ & A & _). apply beq_bytes_neq in E. contradiction. }
    apply beq_bytes_spec in E.
    assert ((now - Z.abs w < int_of_u64 (de64 data) < now + Z.abs w)%Z) as W'.
    { unfold in_window in W. rewrite andb_true_iff, !Z.ltb_lt in W.
      unfold abs_window in W. destruct (Z.ltb_spec w 0); lia. }
    destruct (rsa_verify pk hash sig); split; try discriminate; try tauto.
    intros (_ & _ & _ & A). discriminate.
  Qed.
End RsaTimeProofs.
