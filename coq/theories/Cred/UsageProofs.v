(** Round 3: theorems for the wrappers, second entry points and caller-supplied
    parts of the credential code (Sessions.CheckState / CheckJSON, a caller's
    jwt.Verifier or none at all, a card whose identity cannot be fetched), the
    "only what was issued" statements for sessions, time tokens, RS256 tokens
    and RSA time blocks, and what a long-lived object adds: nothing, because the
    objects are stateless (CredGen.v proves that of the extracted receivers). *)
From Coq Require Import List NArith ZArith Bool Lia.
From Verif Require Import Lib.Bytes Lib.Codec Cred.Sign Cred.Jwt Cred.SignProofs Cred.JwtProofs.
Import ListNotations.
Local Open Scope Z_scope.

Section SessionWrappers.
  Context {K : Type}.
  Variable mac : K -> bytes -> bytes.
  Hypothesis mac_len : forall k d, length (mac k d) = mac_size.
  Hypothesis mac_bytes : forall k d, is_bytes (mac k d).

  Notation sign_hex := (sign_hex mac).
  Notation check_hex := (check_hex mac).
  Notation sess_check := (sess_check mac).
  Notation sess_new := (sess_new mac).
  Notation ts_check := (ts_check mac).
  Notation ts_token := (ts_token mac).
  Notation no_forgery := (no_forgery mac).

  (** [CheckState] accepts exactly the live sessions without payload. *)
  Theorem sess_check_state_iff k now s :
    sess_check_state mac k now s = true <->
    exists e, is_int64 e /\ s = sign_hex k (le64 (u64_of_int e)) /\ now < e.
  Proof.
    unfold sess_check_state. split.
    - destruct (sess_check k now s) as [[d left]|] eqn:E; [|discriminate].
      destruct d; [|discriminate]. intros _.
      apply (sess_check_iff mac mac_len mac_bytes) in E.
      destruct E as (e & He & _ & -> & T & _). exists e. rewrite app_nil_r. auto.
    - intros (e & He & -> & T). rewrite <- (app_nil_r (le64 (u64_of_int e))).
      assert (sess_check k now (sign_hex k (le64 (u64_of_int e) ++ [])) = Some ([], clamp_dur (e - now))) as ->.
      { apply (sess_check_iff mac mac_len mac_bytes). exists e.
        split; [exact He|]. split; [apply Forall_nil|]. split; [reflexivity|]. split; [exact T|reflexivity]. }
      reflexivity.
  Qed.

  (** [NewState] then [CheckState]: accepted until the configured lifetime has passed. *)
  Theorem sess_state_window k maxttl t0 now :
    is_int64 (t0 + maxttl) ->
    sess_check_state mac k now (sess_new_state mac k maxttl t0) = (now <? t0 + maxttl).
  Proof.
    intros Hi. unfold sess_new_state.
    pose proof (session_window mac mac_len mac_bytes k maxttl t0 0 [] now) as W.
    assert (eff_ttl maxttl 0 = maxttl) as Et by reflexivity.
    rewrite Et in W. specialize (W (Forall_nil _) Hi).
    destruct (sess_new k maxttl t0 0 []) as [tok e] eqn:N. destruct W as [-> W].
    cbn [fst]. unfold sess_check_state. rewrite W.
    destruct (now <? t0 + maxttl); reflexivity.
  Qed.

  (** [CheckJSON] accepts exactly the live sessions whose payload the JSON reader takes. *)
  Theorem sess_check_json_iff json_ok k now s :
    sess_check_json mac json_ok k now s = true <->
    exists e d, is_int64 e /\ is_bytes d /\ s = sign_hex k (le64 (u64_of_int e) ++ d) /\ now < e /\ json_ok d = true.
  Proof.
    unfold sess_check_json. split.
    - destruct (sess_check k now s) as [[d left]|] eqn:E; [|discriminate]. intros J.
      apply (sess_check_iff mac mac_len mac_bytes) in E.
      destruct E as (e & He & Hd & -> & T & _). exists e, d. auto.
    - intros (e & d & He & Hd & -> & T & J).
      assert (sess_check k now (sign_hex k (le64 (u64_of_int e) ++ d)) = Some (d, clamp_dur (e - now))) as ->.
      { apply (sess_check_iff mac mac_len mac_bytes). exists e. auto. }
      exact J.
  Qed.

  (** Both wrappers accept nothing [Sessions.Check] refuses. *)
  Corollary sess_wrappers_below_check json_ok k now s :
    sess_check k now s = None ->
    sess_check_state mac k now s = false /\ sess_check_json mac json_ok k now s = false.
  Proof. unfold sess_check_state, sess_check_json. intros ->. auto. Qed.

  (** The gate reports a valid user only for a live genuine session whose user
      the caller's callback granted a non-negative level; for a refused session
      the callback is not consulted and no user is reported; the callback's
      error is the gate's error. *)
  Theorem gate_valid_sound cb k maxttl now s i :
    gate_check_token mac cb k maxttl now s = Some i -> gi_valid i = true ->
    exists e lvl, is_int64 e /\ is_bytes (gi_user i) /\
      s = sign_hex k (le64 (u64_of_int e) ++ gi_user i) /\ now < e /\
      cb (gi_user i) = Some lvl /\ 0 <= lvl /\ gi_level i = lvl.
  Proof.
    unfold gate_check_token.
    destruct (sess_check k now s) as [[u left]|] eqn:E; [|intros [= <-]; discriminate].
    destruct (cb u) as [lvl|] eqn:C; [|discriminate]. intros [= <-]. cbn [gi_valid gi_user gi_level]. intros V.
    apply (sess_check_iff mac mac_len mac_bytes) in E. destruct E as (e & He & Hu & -> & T & _).
    exists e, lvl. apply Z.leb_le in V. auto 10.
  Qed.

  Theorem gate_refused_session k cb maxttl now s :
    sess_check k now s = None -> gate_check_token mac cb k maxttl now s = Some (mkGI false [] 0 false).
  Proof. unfold gate_check_token. now intros ->. Qed.

  Theorem gate_callback_error cb k maxttl now s u left :
    sess_check k now s = Some (u, left) -> cb u = None -> gate_check_token mac cb k maxttl now s = None.
  Proof. unfold gate_check_token. now intros -> ->. Qed.

  Lemma sess_check_needs_hex k now s : check_hex k s = None -> sess_check k now s = None.
  Proof. unfold Sign.sess_check, sess_check_with. fold (Sign.check_hex mac). now intros ->. Qed.

  Lemma ts_check_needs_hex k w now s : check_hex k s = None -> ts_check k w now s = false.
  Proof. unfold Sign.ts_check, ts_check_with. fold (Sign.check_hex mac). now intros ->. Qed.

  (** ** Only what was issued *)

  (** A session that verifies carries a payload [expiry ++ data] that was signed
      (unless its MAC is forged), is spelled exactly as issued, and is unexpired. *)
  Theorem session_only_issued k issued now s d left :
    (forall bs, hex_decode s = Some bs -> no_forgery k issued bs) ->
    sess_check k now s = Some (d, left) ->
    exists e, is_int64 e /\ In (le64 (u64_of_int e) ++ d) issued /\
              s = sign_hex k (le64 (u64_of_int e) ++ d) /\ now < e.
  Proof.
    intros F C. apply (sess_check_iff mac mac_len mac_bytes) in C.
    destruct C as (e & He & Hd & -> & T & _). exists e.
    split; [exact He|]. split; [|split; [reflexivity|exact T]].
    assert (check_hex k (sign_hex k (le64 (u64_of_int e) ++ d)) = Some (le64 (u64_of_int e) ++ d)) as C.
    { apply (check_hex_sign mac mac_len mac_bytes). now apply stamp_is_bytes. }
    exact (proj1 (hex_only_issued_verify mac mac_len mac_bytes k issued _ _ F C)).
  Qed.

  (** Every text other than the one issued session (any bit flip, truncation,
      extension, re-encoding, splice) is refused at every instant, and so by both wrappers. *)
  Theorem session_mutant_rejected json_ok k maxttl t0 ttl d now s :
    let tok := fst (sess_new k maxttl t0 ttl d) in
    (forall bs, hex_decode s = Some bs ->
                no_forgery k [le64 (u64_of_int (t0 + eff_ttl maxttl ttl)) ++ d] bs) ->
    s <> tok ->
    sess_check k now s = None /\ sess_check_state mac k now s = false /\ sess_check_json mac json_ok k now s = false.
  Proof.
    cbv zeta. intros F N.
    assert (sess_check k now s = None) as E.
    { apply sess_check_needs_hex.
      apply (hex_mutant_rejected mac mac_len mac_bytes k _ s F). exact N. }
    split; [exact E|]. now apply sess_wrappers_below_check.
  Qed.

  Theorem time_token_only_issued k issued w now s :
    (forall bs, hex_decode s = Some bs -> no_forgery k issued bs) ->
    ts_check k w now s = true ->
    exists t, is_int64 t /\ In (le64 (u64_of_int t)) issued /\ s = ts_token k t /\ now - Z.abs w < t < now + Z.abs w.
  Proof.
    intros F C. apply (ts_check_iff mac mac_len mac_bytes) in C.
    destruct C as (t & Ht & -> & W). exists t.
    split; [exact Ht|]. split; [|split; [reflexivity|exact W]].
    unfold Sign.ts_token in *.
    assert (check_hex k (sign_hex k (le64 (u64_of_int t))) = Some (le64 (u64_of_int t))) as C.
    { apply (check_hex_sign mac mac_len mac_bytes). apply le64_is_bytes. }
    exact (proj1 (hex_only_issued_verify mac mac_len mac_bytes k issued _ _ F C)).
  Qed.

  Theorem time_token_mutant_rejected k t0 w now s :
    (forall bs, hex_decode s = Some bs -> no_forgery k [le64 (u64_of_int t0)] bs) ->
    s <> ts_token k t0 -> ts_check k w now s = false.
  Proof.
    intros F N. apply ts_check_needs_hex.
    apply (hex_mutant_rejected mac mac_len mac_bytes k _ s F). exact N.
  Qed.
End SessionWrappers.

(** ** A long-lived object adds nothing

    The Go objects (Signer, Sessions, TimeSigner, RSATimeSigner, HS256,
    jwtVerifier, Gate) hold only their configuration: no method writes a field
    of its receiver (obligation [gen_objects_stateless] on the extracted
    receiver writes, Cred/CredGen.v).  A history of calls on one object is
    therefore the list of the calls' individual results, whatever came before:
    a refusal does not poison the object, an acceptance does not prime it. *)
Section Histories.
  Context {Cfg Call Res : Type}.
  Variable do_call : Cfg -> Call -> Res.

  Definition run_history (cfg : Cfg) (calls : list Call) : list Res := map (do_call cfg) calls.

  Theorem history_pointwise cfg calls i c r0 :
    nth_error calls i = Some c -> nth i (run_history cfg calls) r0 = do_call cfg c.
  Proof.
    unfold run_history. revert i. induction calls as [|x xs IH]; intros [|i]; cbn; try discriminate.
    - now intros [= ->].
    - apply IH.
  Qed.

  (** Any two histories agree on a call they share, wherever it stands. *)
  Corollary history_independent cfg h1 h2 i j c r0 :
    nth_error h1 i = Some c -> nth_error h2 j = Some c ->
    nth i (run_history cfg h1) r0 = nth j (run_history cfg h2) r0.
  Proof. intros A B. now rewrite (history_pointwise _ _ _ _ _ A), (history_pointwise _ _ _ _ _ B). Qed.

  (** So a property of single calls holds at every position of every history. *)
  Corollary history_all (P : Call -> Res -> Prop) cfg calls :
    (forall c, P c (do_call cfg c)) -> Forall2 P calls (run_history cfg calls).
  Proof. intros H. unfold run_history. induction calls; constructor; auto. Qed.
End Histories.

Section JwtUsage.
  Variable parse_header : bytes -> option header.
  Variable parse_claims : bytes -> option claims.

  Notation decode := (decode parse_header parse_claims b64_decode_canon).
  Notation any_verify := (any_verify parse_header parse_claims b64_decode_canon).

  (** [DecodeAndVerify] with a caller's verifier answering [vres] (or with none):
      the strict decoding and the time check are applied whatever the verifier
      says, and its objection is final. *)
  Theorem any_verify_iff vres now tok t :
    any_verify vres now tok = JOk t <->
    decode tok = JOk t /\ vres = None /\ check_time (t_claims t) now = None.
  Proof.
    unfold Jwt.any_verify, decode_and_verify. split.
    - destruct (decode tok) as [t'|] eqn:D; [|discriminate].
      destruct vres; [discriminate|].
      destruct (check_time (t_claims t') now) eqn:C; [discriminate|]. intros [= <-]. auto.
    - intros (-> & -> & ->). reflexivity.
  Qed.

  Context {M RK : Type}.
  Variable parse_key : M -> option RK.
  Variable rsa_verify : RK -> bytes -> bytes -> bool.

  Notation rs_verify := (rs_verify parse_header parse_claims b64_decode_canon parse_key rsa_verify).
  Notation self_verify := (self_verify parse_header parse_claims b64_decode_canon parse_key rsa_verify).
  Notation self_verify_fetch := (self_verify_fetch parse_header parse_claims b64_decode_canon parse_key rsa_verify).

  Definition jerr_of {A} (r : jres A) : Prop := match r with JErr _ => True | JOk _ => False end.

  (** When the identity cannot be fetched nothing verifies; when it can, the
      check is the one against the fetched card. *)
  Theorem fetch_failure_rejected user host now tok : jerr_of (self_verify_fetch None user host now tok).
  Proof.
    unfold Jwt.self_verify_fetch, decode_and_verify, rs_verifier_fetch.
    destruct (decode tok) as [t|]; [|exact I].
    destruct (negb (beq_bytes (h_alg (t_header t)) alg_rs256)); exact I.
  Qed.

  Theorem fetch_success_is_card_check (card : list (@pubkey M)) user host now tok :
    self_verify_fetch (Some card) user host now tok = self_verify card user host now tok.
  Proof. reflexivity. Qed.

  (** RSA signatures: the premise a signature is used for.  [issued] lists the
      (signed text, signature) pairs made with the private half of [rk]. *)
  Definition rsa_unforgeable (rk : RK) (issued : list (bytes * bytes)) : Prop :=
    forall p s, rsa_verify rk p s = true -> In (p, s) issued.

  Definition token_text (ps : bytes * bytes) : bytes := fst ps ++ dot :: b64_encode (snd ps).

  (** An RS256 token that verifies is, character for character, one of the
      tokens issued with the key its header names. *)
  Theorem rs256_only_issued (card : list (@pubkey M)) issued now tok t :
    (forall k rk, In k card -> parse_key (pk_mat k) = Some rk -> rsa_unforgeable rk issued) ->
    rs_verify card now tok = JOk t -> In tok (map token_text issued).
  Proof.
    intros U V. apply (rs256_key_checked parse_header parse_claims parse_key rsa_verify) in V.
    destruct V as (k & rk & pre & post & D & _ & -> & _ & _ & _ & _ & P & R & _).
    assert (In (t_payload t, t_sig t) issued) as I.
    { apply (U k rk); [apply in_or_app; right; left; reflexivity|exact P|exact R]. }
    apply (decode_text_determined parse_header parse_claims) in D. rewrite D.
    change (t_payload t ++ dot :: b64_encode (t_sig t)) with (token_text (t_payload t, t_sig t)).
    now apply in_map.
  Qed.

  (** Every text other than the one issued token (bit flip, truncation, extension,
      re-encoding, header rewrite, other algorithm) is refused. *)
  Theorem rs256_mutant_rejected (card : list (@pubkey M)) p0 s0 now tok :
    (forall k rk, In k card -> parse_key (pk_mat k) = Some rk -> rsa_unforgeable rk [(p0, s0)]) ->
    tok <> p0 ++ dot :: b64_encode s0 -> jerr_of (rs_verify card now tok).
  Proof.
    intros U N. destruct (rs_verify card now tok) as [t|] eqn:V; [|exact I]. exfalso.
    destruct (rs256_only_issued card _ now tok t U V) as [E|[]]. apply N. now rewrite <- E.
  Qed.
End JwtUsage.

(** ** One verifier, many tokens, a card that changes

    [identity.NewJWTVerifier(card)] is held for a long time (by
    [authgate.Exchange]); the card behind it is an interface whose answer may
    change between calls: keys are added, removed, expire, or are replaced under
    the same id.  A history is a list of card changes and verifications; the
    verifier consults the card at every verification, so each result is a
    function of the token, the card in force at that moment, and the clock. *)
Section VerifierHistories.
  Variable parse_header : bytes -> option header.
  Variable parse_claims : bytes -> option claims.
  Context {M RK : Type}.
  Variable parse_key : M -> option RK.
  Variable rsa_verify : RK -> bytes -> bytes -> bool.

  Notation rs_verify := (rs_verify parse_header parse_claims b64_decode_canon parse_key rsa_verify).

  Inductive vev :=
  | VSetCard (card : list (@pubkey M))     (* the card now publishes these keys *)
  | VVerify (now : Z) (tok : bytes).

  Fixpoint verifier_run (card : list (@pubkey M)) (h : list vev) : list (jres token) :=
    match h with
    | [] => []
    | VSetCard c :: r => verifier_run c r
    | VVerify now tok :: r => rs_verify card now tok :: verifier_run card r
    end.

  (** The verifications of a history, each with the card in force when it is made. *)
  Fixpoint verifications (card : list (@pubkey M)) (h : list vev) : list (list (@pubkey M) * Z * bytes) :=
    match h with
    | [] => []
    | VSetCard c :: r => verifications c r
    | VVerify now tok :: r => (card, now, tok) :: verifications card r
    end.

  Theorem verify_depends_only_on_current_card card h :
    verifier_run card h = map (fun v => rs_verify (fst (fst v)) (snd (fst v)) (snd v)) (verifications card h).
  Proof.
    revert card. induction h as [|[c|now tok] r IH]; intros card; cbn; [reflexivity|apply IH|].
    now rewrite IH.
  Qed.

  (** So whatever came before (other tokens, other keys under the same id), a
      token accepted at some point of a history is signed by the key the card
      publishes under the header's id at that point, valid at that instant. *)
  Corollary history_accept_key_published_now card h c now tok t :
    In ((c, now, tok), JOk t) (combine (verifications card h) (verifier_run card h)) ->
    exists k rk pre post,
      c = pre ++ k :: post /\ Forall (fun k' => pk_id k' <> h_kid (t_header t)) pre /\
      pk_id k = h_kid (t_header t) /\ pk_type k = key_type_rsa /\ key_valid k now = None /\
      parse_key (pk_mat k) = Some rk /\ rsa_verify rk (t_payload t) (t_sig t) = true.
  Proof.
    rewrite verify_depends_only_on_current_card.
    generalize (verifications card h). intros l I.
    induction l as [|v l IH]; [destruct I|]. cbn in I. destruct I as [E|I]; [|now apply IH].
    injection E as -> E. cbn [fst snd] in E.
    apply (rs256_key_checked parse_header parse_claims parse_key rsa_verify) in E.
    destruct E as (k & rk & pre & post & _ & _ & -> & Fp & Ik & Tk & Vk & Pk & Rk & _).
    exists k, rk, pre, post. auto 10.
  Qed.

  (** A verifier that remembers the parsed key of an id (what a "harmless" parse
      cache does): the model of the defect, for the refutation below. *)
  Fixpoint assoc_key (kid : bytes) (cache : list (bytes * RK)) : option RK :=
    match cache with
    | [] => None
    | (i, rk) :: r => if beq_bytes i kid then Some rk else assoc_key kid r
    end.

  Definition rs_verifier_cached (cache : list (bytes * RK)) (card : list (@pubkey M)) (t : token) (now : Z)
    : option jerr * list (bytes * RK) :=
    if negb (beq_bytes (h_alg (t_header t)) alg_rs256) then (Some EAlg, cache)
    else match find_key card (h_kid (t_header t)) with
         | None => (Some ENoKey, cache)
         | Some k =>
             if negb (beq_bytes (pk_type k) key_type_rsa) then (Some EKeyType, cache)
             else match key_valid k now with
                  | Some e => (Some e, cache)
                  | None =>
                      let found := match assoc_key (pk_id k) cache with
                                   | Some rk => Some (rk, cache)
                                   | None => match parse_key (pk_mat k) with
                                             | Some rk => Some (rk, (pk_id k, rk) :: cache)
                                             | None => None
                                             end
                                   end in
                      match found with
                      | None => (Some EKeyParse, cache)
                      | Some (rk, cache') =>
                          (if rsa_verify rk (t_payload t) (t_sig t) then None else Some EWrongSig, cache')
                      end
                  end
         end.

  Fixpoint cached_run (cache : list (bytes * RK)) (card : list (@pubkey M)) (h : list vev) : list (jres token) :=
    match h with
    | [] => []
    | VSetCard c :: r => cached_run cache c r
    | VVerify now tok :: r =>
        match decode parse_header parse_claims b64_decode_canon tok with
        | JErr e => JErr e :: cached_run cache card r
        | JOk t =>
            let '(res, cache') := rs_verifier_cached cache card t now in
            match res with
            | Some e => JErr e :: cached_run cache' card r
            | None =>
                match check_time (t_claims t) now with
                | Some e => JErr e :: cached_run cache' card r
                | None => JOk t :: cached_run cache' card r
                end
            end
        end
    end.
End VerifierHistories.

Section RsaTimeUsage.
  Context {PK : Type}.
  Variable H : bytes -> bytes.
  Variable rsa_verify : PK -> bytes -> bytes -> bool.

  (** An accepted block carries a signed (hash, signature) pair, and its data
      is data with that hash; with a hash that binds the issued data, the block
      is field for field the issued one: no field can be exchanged or edited. *)
  Theorem rsa_time_only_issued pk issued w now data hash sig :
    (forall h s, rsa_verify pk h s = true -> In (h, s) issued) ->
    rsa_time_check H rsa_verify pk w now data hash sig = None ->
    In (hash, sig) issued /\ H data = hash /\
    now - Z.abs w < int_of_u64 (de64 data) < now + Z.abs w.
  Proof.
    intros U C. apply rsa_time_accept_iff in C. destruct C as (_ & W & E & R). auto.
  Qed.

  Theorem rsa_time_block_is_the_issued_one pk d0 s0 w now data hash sig :
    (forall h s, rsa_verify pk h s = true -> In (h, s) [(H d0, s0)]) ->
    (forall d, H d = H d0 -> d = d0) ->
    rsa_time_check H rsa_verify pk w now data hash sig = None ->
    data = d0 /\ hash = H d0 /\ sig = s0.
  Proof.
    intros U B C. destruct (rsa_time_only_issued pk _ w now data hash sig U C) as ([E|[]] & Hh & _).
    injection E as <- <-. split; [|auto]. now apply B.
  Qed.
End RsaTimeUsage.
