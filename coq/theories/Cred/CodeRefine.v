(** The credential code as it is written NOW (Gen/CodeCred.v, translated by
    gen/gotrans.go on every run) computes the hand-written models of
    Cred/Sign.v, Cred/Jwt.v and Cred/PassCode.v.  HMAC-SHA256 is a Section
    variable of the generated file: any function.  Candidates for the
    counterexample search and the result adapters: CodeCands.v. *)
From Coq Require Import String.
From Coq Require Import List NArith ZArith Bool Lia.
From Coq Require Import ZifyN ZifyNat ZifyBool.
From Verif Require Import Lib.Bytes Lib.Codec Lib.Path Lib.GoLib Cred.Sign Cred.SignProofs Cred.Jwt Cred.JwtProofs
  Cred.PassCode Cred.PassCodeProofs Gen.CodeCred Cred.CodeCands.
Import ListNotations.
Local Open Scope Z_scope.
Ltac Zify.zify_post_hook ::= Z.div_mod_to_equations.

Ltac go_time := unfold time_Add, time_Sub, time_Before, time_After, time_Equal, time_Unix, time_UnixNano,
  time_ns_per_sec, time_min_dur, time_max_dur in *.

(** ** time.go, sessions.go: window, refresh, lifetime cap *)

(** [inWindow]: for every [int64] half-width, also the most negative one
    (whose negation wraps onto itself: the window is empty on both sides). *)
Lemma gen_inWindow_is_model : forall t now w, is_i64 w ->
  gen_signer_inWindow t now w = in_window t now w.
Proof.
  intros t now w Hw. unfold gen_signer_inWindow, in_window, is_i64, wrap_i64, two63z, two64z in *.
  go_time. lia.
Qed.

Lemma gen_refreshTTL_is_model : forall ttl, is_i64 ttl -> gen_signer_refreshTTL ttl = refresh_ttl ttl.
Proof.
  intros ttl H. unfold gen_signer_refreshTTL, refresh_ttl.
  go_cases; go_arith; try (exfalso; lia); try reflexivity.
  all: rewrite go_quot_nonneg by lia; apply wrap_i64_small; unfold is_i64, two63z in *; lia.
Qed.

Lemma gen_NeedRefresh_is_model : forall maxttl left, is_i64 maxttl ->
  gen_signer_Sessions_NeedRefresh (gen_signer_refreshTTL maxttl) left = need_refresh maxttl left.
Proof.
  intros. unfold gen_signer_Sessions_NeedRefresh, need_refresh.
  now rewrite gen_refreshTTL_is_model.
Qed.

(** The expiry [Sessions.New] returns: now plus the capped lifetime. *)
Lemma gen_New_expires_is_model : forall maxttl t0 ttl,
  gen_signer_Sessions_New_expires maxttl t0 ttl = t0 + eff_ttl maxttl ttl.
Proof.
  intros. unfold gen_signer_Sessions_New_expires, eff_ttl. go_time.
  cbv zeta. go_solve.
Qed.

(** ** signer.go: Check, CheckHex *)

Lemma str_eqb_beq a b : str_eqb a b = beq_bytes a b.
Proof. revert b; induction a as [|x a IH]; intros [|y b]; cbn [str_eqb beq_bytes]; try reflexivity. Qed.

Section WithMac.
  Context {K : Type}.
  Variable mac : K -> bytes -> bytes.

  Lemma gen_Signer_Check_is_model : forall k bs, go_sized bs ->
    gen_signer_Signer_Check (mac k) bs = ck_res (check mac k bs).
  Proof.
    intros k bs Hsz. unfold go_sized in Hsz. unfold gen_signer_Signer_Check, check, ck_res, mac_size, hmac_Equal.
    cbv zeta.
    assert (Hw : 32 <= go_len bs -> wrap_i64 (go_len bs - 32) = go_len bs - 32)
      by (intros; apply wrap_i64_small; unfold is_i64, two63z in *; lia).
    destruct (Nat.ltb_spec (length bs) 32) as [Hn|Hn].
    - go_cases; go_arith; unfold go_len in *; try (exfalso; lia); reflexivity.
    - rewrite ?Hw by (unfold go_len; lia).
      rewrite ?go_slice_to, ?go_slice_from by (unfold go_len; lia).
      replace (Z.to_nat (go_len bs - 32)) with (length bs - 32)%nat by (unfold go_len; lia).
      go_cases; go_arith; unfold go_len in *; try (exfalso; lia); try congruence; reflexivity.
  Qed.

  Lemma gen_Signer_CheckHex_is_model : forall k s, go_sized s ->
    gen_signer_Signer_CheckHex (mac k) s = ck_res (check_hex mac k s).
  Proof.
    intros k s Hsz. unfold gen_signer_Signer_CheckHex, check_hex, check_hex_with, hex_decode_canon,
      hex_DecodeString, hex_EncodeToString, go_str_eqb.
    rewrite ?str_eqb_beq.
    destruct (hex_decode s) as [bs|] eqn:E; cbn [go_isnil negb]; [|reflexivity].
    rewrite gen_Signer_Check_is_model, str_eqb_beq.
    - go_solve.
    - apply hex_decode_length in E. unfold go_sized, go_len in *. lia.
  Qed.

  (** ** sessions.go: Check; time_signer.go: Check *)

  Lemma le_u64_int64 bs : is_bytes bs ->
    wrap_i64 (Z.of_N (de64 bs)) = int_of_u64 (de64 bs).
  Proof.
    intros H. pose proof (de64_bound bs H) as B.
    unfold wrap_i64, int_of_u64, two63z, two64z, Bytes.two64, Bytes.two63 in *.
    destruct (N.ltb_spec (de64 bs) 9223372036854775808); lia.
  Qed.

  Lemma de64_firstn8 bs : de64 (firstn 8 bs) = de64 bs.
  Proof. unfold de64. now rewrite firstn_firstn. Qed.

  Lemma check_is_bytes k bs d : is_bytes bs -> check mac k bs = Some d -> is_bytes d.
  Proof.
    unfold check. intros Hb.
    destruct (length bs <? mac_size)%nat; [discriminate|].
    destruct (beq_bytes _ _); [|discriminate]. intros [= <-]. now apply is_bytes_firstn.
  Qed.

  Lemma check_hex_is_bytes k s d : check_hex mac k s = Some d -> is_bytes d.
  Proof.
    unfold check_hex, check_hex_with, hex_decode_canon.
    destruct (hex_decode s) as [bs|] eqn:E; [|discriminate].
    destruct (beq_bytes _ _); [|discriminate].
    apply check_is_bytes. eapply hex_decode_is_bytes; eassumption.
  Qed.

  Lemma gen_Sessions_Check_is_model : forall k now s, go_sized s ->
    gen_signer_Sessions_Check (mac k) now s = sess_res (sess_check mac k now s).
  Proof.
    intros k now s Hsz. unfold gen_signer_Sessions_Check, sess_check, sess_check_with, sess_res,
      gen_signer_timestampLen, ts_len.
    rewrite gen_Signer_CheckHex_is_model by exact Hsz.
    destruct (check_hex mac k s) as [bs|] eqn:E; cbn [ck_res negb]; [|reflexivity].
    pose proof (check_hex_is_bytes _ _ _ E) as Hb.
    destruct (Z.ltb_spec (go_len bs) 8) as [Hl|Hl]; unfold go_len in Hl.
    - destruct (Nat.ltb_spec (length bs) 8); [reflexivity|lia].
    - destruct (Nat.ltb_spec (length bs) 8); [lia|].
      rewrite go_slice_to, go_slice_from by (unfold go_len; lia).
      unfold binary_LE_Uint64.
      destruct (Z.leb_spec 8 (go_len (firstn (Z.to_nat 8) bs))) as [_|Hc];
        [|unfold go_len in Hc; rewrite firstn_length in Hc; lia].
      change (Z.to_nat 8) with 8%nat.
      rewrite de64_firstn8, le_u64_int64 by exact Hb.
      go_time. unfold clamp_dur, min_dur, max_dur, two63z.
      cbv zeta. rewrite ?Z.mul_0_l, ?Z.add_0_l. cbn [Z.opp Z.sub Z.add Z.pos_sub Pos.pred_double].
      go_solve.
  Qed.

  (** [s.window] is [NewTimeSigner]'s [|w|]; for [w] = the most negative
      [int64] Go's negation wraps (the signer then accepts nothing) while the
      model's [abs_window] does not: that single value is excluded. *)
  Lemma gen_TimeSigner_Check_is_model : forall k w now s, - two63z < w < two63z -> go_sized s ->
    gen_signer_TimeSigner_Check (mac k) (abs_window w) now s = ts_check mac k w now s.
  Proof.
    intros k w now s Hw Hsz. unfold gen_signer_TimeSigner_Check, ts_check, ts_check_with,
      gen_signer_timestampLen, ts_len.
    rewrite gen_Signer_CheckHex_is_model by exact Hsz.
    destruct (check_hex mac k s) as [bs|] eqn:E; cbn [ck_res negb]; [|reflexivity].
    pose proof (check_hex_is_bytes _ _ _ E) as Hb.
    destruct (Z.eqb_spec (go_len bs) 8) as [Hl|Hl]; unfold go_len in Hl; cbn [negb].
    - destruct (Nat.eqb_spec (length bs) 8); [|lia].
      unfold binary_LE_Uint64.
      destruct (Z.leb_spec 8 (go_len bs)) as [_|Hc]; [|unfold go_len in Hc; lia].
      rewrite le_u64_int64 by exact Hb. cbv zeta.
      rewrite gen_inWindow_is_model.
      + go_time. now rewrite Z.mul_0_l, Z.add_0_l.
      + unfold abs_window, is_i64, two63z in *. destruct (w <? 0) eqn:?; lia.
    - destruct (Nat.eqb_spec (length bs) 8); [lia|reflexivity].
  Qed.
End WithMac.

(** ** jwt/time.go: CheckTime

    The translator reads [time.Time] as exact nanoseconds; the model follows
    the [int64] wrap of [time.Unix] and the saturation of [Add].  For claim
    times clear of the wrap ([unix_in_range], |sec| <= 2^62: every real
    token) they give the same verdict at every instant. *)
Lemma before_now_b a now :
  time_before a 0 (now_ext now) (now_nsec now) = ((a - unix_to_internal) * sec_ns <? now).
Proof.
  apply eq_true_iff_eq. rewrite before_now, Z.ltb_lt. reflexivity.
Qed.

Lemma gen_CheckTime_is_model : forall c now,
  unix_in_range (c_iat c) -> unix_in_range (c_exp c) ->
  jwt_time_err (snd (gen_jwt_CheckTime (c_iat c) (c_exp c) now)) = check_time c now.
Proof.
  intros c now Ri Re. unfold check_time.
  rewrite (ext_of_unix_in_range _ Ri), (ext_of_unix_in_range _ Re).
  rewrite add_sec_sat_small;
    [|unfold unix_in_range, unix_to_internal in *; lia|unfold grace_sec; lia|unfold grace_sec; lia].
  rewrite !before_now_b.
  unfold gen_jwt_CheckTime. go_time. unfold grace_sec, sec_ns, unix_to_internal. cbv zeta.
  go_cases; cbn [snd jwt_time_err String.eqb Ascii.eqb Bool.eqb]; go_leaf.
Qed.

(** On success the duration returned is the remaining lifetime. *)
Lemma code_CheckTime_left : forall iat exp now,
  snd (gen_jwt_CheckTime iat exp now) = None ->
  fst (gen_jwt_CheckTime iat exp now) = time_Sub (exp * 1000000000) now.
Proof.
  intros iat exp now. unfold gen_jwt_CheckTime, time_Add, time_Before, time_After, time_Unix, time_ns_per_sec.
  cbv zeta. rewrite !Z.add_0_r.
  go_cases; cbn [fst snd]; try discriminate; reflexivity.
Qed.

(** ** roles/pass_code.go: checkPassCode

    The model names passcode texts by numbers (0 = the empty string); [text]
    is any injective naming with [text 0 = ""].  The Go function reads the
    record through a pointer; [run_checkPassCode] passes what it reads. *)
Lemma gen_checkPassCode_is_model : forall (text : N -> list N) claim pc now,
  text 0%N = [] -> (forall a b, text a = text b -> a = b) ->
  pc_err_code (run_checkPassCode text claim pc now) = checkPassCode claim pc now.
Proof.
  intros text claim pc now T0 Tinj.
  unfold run_checkPassCode, gen_roles_checkPassCode, gen_roles_subtleStringEq, gen_roles_passCodeMaxTries,
    subtle_ConstantTimeCompare, checkPassCode, max_tries, go_str_eqb.
  go_time. cbv zeta.
  assert (E0 : str_eqb (text claim) [] = (claim =? 0)%N).
  { apply eq_true_iff_eq. rewrite str_eqb_eq, N.eqb_eq. split; [intros H; apply Tinj; congruence|intros ->; exact T0]. }
  rewrite E0.
  destruct pc as [c|]; cbn [pc_args].
  - assert (E1 : beq_bytes (text (p_code c)) (text claim) = (p_code c =? claim)%N).
    { apply eq_true_iff_eq. rewrite beq_bytes_spec, N.eqb_eq. split; [apply Tinj|congruence]. }
    rewrite E1, Z.gtb_ltb.
    go_cases; cbn [pc_err_code String.eqb Ascii.eqb Bool.eqb]; go_leaf.
  - go_cases; cbn [pc_err_code String.eqb Ascii.eqb Bool.eqb]; go_leaf.
Qed.

(** ** jwt/header.go, jwt/claim_set.go: checkHeader, CheckClaimSet

    [strutil.MakeSet] followed by lookups only is a list with membership;
    [strings.Fields] is the model's [fields]. *)
Lemma fields_go s : strings_Fields s = fields s.
Proof. reflexivity. Qed.

Lemma gen_checkHeader_is_model : forall got want : header,
  jwt_header_err (gen_jwt_checkHeader (h_kid got) (h_alg got) (h_typ got) (h_kid want) (h_alg want) (h_typ want))
  = check_header got want.
Proof.
  intros. unfold gen_jwt_checkHeader, check_header, go_str_eqb. change str_eqb with beq_bytes.
  go_cases; cbn [jwt_header_err String.eqb Ascii.eqb Bool.eqb]; go_leaf.
Qed.

Lemma gen_CheckClaimSet_is_model : forall c tmpl : claims,
  jwt_claims_err (gen_jwt_CheckClaimSet false false (c_iss c) (c_aud c) (c_typ c) (c_sub c) (c_scope c)
                    (c_iss tmpl) (c_aud tmpl) (c_typ tmpl) (c_sub tmpl) (c_scope tmpl))
  = check_claims c tmpl.
Proof.
  intros c tmpl. unfold gen_jwt_CheckClaimSet, check_claims, go_str_eqb, strutil_MakeSet. cbv zeta.
  change strings_Fields with fields. change str_eqb with beq_bytes.
  match goal with |- context [?f (fields (c_scope tmpl))] => is_fix f; set (F := f) end.
  assert (L : forall l, F l = if forallb (fun s => mem_bytes s (fields (c_scope c))) l then None
                             else Some (GoErr "Unauthorized" "scope %q missing")).
  { induction l as [|x l IH]; [reflexivity|]. cbn [forallb]. unfold F at 1. fold F. rewrite IH.
    unfold go_set_mem, mem_bytes. go_cases; reflexivity. }
  rewrite !L. clear L.
  assert (E : forall b, is_empty b = beq_bytes b []) by (intros [|? ?]; reflexivity).
  rewrite !E.
  go_cases; cbn [jwt_claims_err String.eqb Ascii.eqb Bool.eqb]; go_leaf.
Qed.

(** ** The constructors normalise the window: |w| (for the most negative
    [int64] Go's negation wraps and the stored window stays negative). *)
Lemma gen_NewTimeSigner_window_is_model : forall w, - two63z < w < two63z ->
  gen_signer_NewTimeSigner_window w = abs_window w.
Proof.
  intros w H. unfold gen_signer_NewTimeSigner_window, abs_window, wrap_i64, two63z, two64z in *.
  cbv zeta. go_cases; go_arith; lia.
Qed.

Lemma gen_NewRSATimeSigner_window_is_model : forall w, - two63z < w < two63z ->
  gen_signer_NewRSATimeSigner_window w = abs_window w.
Proof.
  intros w H. unfold gen_signer_NewRSATimeSigner_window, abs_window, wrap_i64, two63z, two64z in *.
  cbv zeta. go_cases; go_arith; lia.
Qed.

(** ** Property theorems read over the code *)

(** The lifetime [Sessions.New] grants is capped by the configured one,
    positive when that is, and the requested one when it is admissible. *)
Lemma code_session_ttl_capped : forall maxttl t0 ttl,
  gen_signer_Sessions_New_expires maxttl t0 ttl <= t0 + maxttl /\
  (0 < maxttl -> t0 < gen_signer_Sessions_New_expires maxttl t0 ttl) /\
  (0 < ttl <= maxttl -> gen_signer_Sessions_New_expires maxttl t0 ttl = t0 + ttl).
Proof.
  intros. rewrite gen_New_expires_is_model.
  pose proof (eff_ttl_capped maxttl ttl). split; [lia|]. split.
  - intros H0. pose proof (eff_ttl_positive maxttl ttl H0). lia.
  - intros H0. now rewrite (eff_ttl_honoured maxttl ttl H0).
Qed.

(** [Sessions.Check] accepts exactly the signed, unexpired sessions. *)
Lemma code_session_check_iff : forall K (mac : K -> bytes -> bytes),
  (forall k d, List.length (mac k d) = mac_size) -> (forall k d, is_bytes (mac k d)) ->
  forall k now s d left, go_sized s ->
  gen_signer_Sessions_Check (mac k) now s = (d, left, true) <->
  exists e, is_int64 e /\ is_bytes d /\ s = sign_hex mac k (le64 (u64_of_int e) ++ d)
            /\ now < e /\ left = clamp_dur (e - now).
Proof.
  intros K mac Hl Hb k now s d left Hsz.
  rewrite gen_Sessions_Check_is_model by exact Hsz.
  rewrite <- (sess_check_iff mac Hl Hb k now s d left).
  destruct (sess_check mac k now s) as [[d' l']|]; cbn [sess_res]; split; intros E;
    try discriminate; injection E as -> ->; reflexivity.
Qed.

(** [TimeSigner.Check] accepts exactly the signed instants strictly inside the window. *)
Lemma code_time_token_check_iff : forall K (mac : K -> bytes -> bytes),
  (forall k d, List.length (mac k d) = mac_size) -> (forall k d, is_bytes (mac k d)) ->
  forall k w now s, - two63z < w < two63z -> go_sized s ->
  gen_signer_TimeSigner_Check (mac k) (abs_window w) now s = true <->
  exists t, is_int64 t /\ s = ts_token mac k t /\ now - Z.abs w < t < now + Z.abs w.
Proof.
  intros K mac Hl Hb k w now s Hw Hsz.
  rewrite gen_TimeSigner_Check_is_model by assumption.
  apply (ts_check_iff mac Hl Hb).
Qed.

(** [jwt.CheckTime] lets a token through exactly inside its time bounds (with
    the five-minute grace on the issue time). *)
Lemma code_jwt_time : forall iat exp now,
  unix_in_range iat -> unix_in_range exp ->
  snd (gen_jwt_CheckTime iat exp now) = None <-> iat * sec_ns - grace_ns < now <= exp * sec_ns.
Proof.
  intros iat exp now Ri Re.
  rewrite <- (check_time_iff (mkC [] [] [] exp iat [] []) now Ri Re).
  rewrite <- (gen_CheckTime_is_model (mkC [] [] [] exp iat [] []) now Ri Re). cbn [c_iat c_exp].
  destruct (snd (gen_jwt_CheckTime iat exp now)) as [[k m]|]; cbn [jwt_time_err]; split; try congruence.
  go_cases; discriminate.
Qed.

(** A stored passcode record that lacks its window never lets an attempt through. *)
Lemma code_passcode_missing_window : forall (text : N -> list N) claim c t,
  text 0%N = [] -> (forall a b, text a = text b -> a = b) ->
  p_has_valid c = false \/ p_has_expire c = false ->
  run_checkPassCode text claim (Some c) t <> None.
Proof.
  intros text claim c t T0 Ti H E.
  apply (missing_window_never_accepted claim c t H).
  rewrite <- (gen_checkPassCode_is_model text claim (Some c) t T0 Ti), E. reflexivity.
Qed.

Lemma cex_cred_none :
  cex_inWindow = [] /\ cex_refreshTTL = [] /\ cex_NeedRefresh = [] /\ cex_New_expires = [] /\
  cex_Signer_Check = [] /\ cex_Signer_CheckHex = [] /\ cex_CheckTime = [] /\ cex_checkPassCode = [].
Proof. vm_compute. repeat split. Qed.
