(** Who owns the bytes: [Signer.Sign] / [Signer.Check] over a heap of buffers.

    Cred/Sign.v treats payloads and tokens as mathematical byte strings.  In
    Go a []byte is a reference into an array the caller goes on using: a
    scratch buffer it recycles for the next payload, a record it signs
    field by field.  "Verification returns exactly the payload that was
    signed" is a statement about a token that stays what it was when it was
    issued; it only holds if [Sign] puts the token into memory of its own.

    The model: arrays (the heap), slices as (array, offset, length) views,
    the caller's writes to its own arrays between any two calls, and [Sign]
    parameterised by where its result lives ([fresh]: a new array, which is
    what the code does with its bytes.Buffer; otherwise Go's [append] to the
    argument: in place when the argument's array has room for a MAC behind the
    data).  The translator reads the origin of [Sign]'s result off the source
    (Gen/CredConsts.v [gen_result_origins], obligation [gen_sign_result_fresh]
    in CredGen.v). *)
From Coq Require Import List NArith Bool Arith Lia.
From Verif Require Import Lib.Bytes Lib.Codec Cred.Sign Cred.SignProofs.
Import ListNotations.

Definition heap := list bytes.                       (* array id = position *)

Definition hget (h : heap) (b : nat) : bytes := nth b h [].

Fixpoint hset (h : heap) (b : nat) (v : bytes) : heap :=
  match b, h with
  | O, _ :: t => v :: t
  | S b', x :: t => x :: hset t b' v
  | _, [] => []
  end.

Record slice := mkS { s_arr : nat; s_off : nat; s_len : nat }.

Definition read (h : heap) (s : slice) : bytes :=
  firstn (s_len s) (skipn (s_off s) (hget h (s_arr s))).

(** Overwrite [v] into [l] at [off] (a write inside the array). *)
Definition write_at (l : bytes) (off : nat) (v : bytes) : bytes :=
  firstn off l ++ v ++ skipn (off + length v) l.

Inductive oop :=
| OAlloc (v : bytes)                       (* the caller makes an array holding [v] *)
| OWrite (a off : nat) (v : bytes)         (* the caller writes into one of ITS arrays *)
| OSign (arg : slice)                      (* tok := Sign(arg) *)
| OCheck (t : nat).                        (* Check(the t-th token issued) *)

(** arrays; the caller's own arrays; the tokens issued (slice, payload signed) *)
Record ostate := mkO { o_heap : heap; o_mine : list nat; o_toks : list (slice * bytes) }.

Section Own.
  Context {K : Type}.
  Variable mac : K -> bytes -> bytes.
  Variable k : K.
  Variable fresh : bool.

  Definition sign_step (h : heap) (a : slice) : heap * slice :=
    let d := read h a in
    let arr := hget h (s_arr a) in
    if fresh || negb (s_off a + s_len a + mac_size <=? length arr)
    then (h ++ [d ++ mac k d], mkS (length h) 0 (length d + mac_size))
    else (hset h (s_arr a) (write_at arr (s_off a + s_len a) (mac k d)),
          mkS (s_arr a) (s_off a) (s_len a + mac_size)).

  Definition memb (b : nat) (l : list nat) : bool := existsb (Nat.eqb b) l.

  (** the caller writes only into arrays it made, inside them *)
  Definition op_ok (s : ostate) (o : oop) : bool :=
    match o with
    | OWrite a off v => memb a (o_mine s) && (off + length v <=? length (hget (o_heap s) a))
    | OSign a => memb (s_arr a) (o_mine s) && (s_off a + s_len a <=? length (hget (o_heap s) (s_arr a)))
    | _ => true
    end.

  (** result: what [Check] returned ([None] for the other operations) *)
  Definition own_step (s : ostate) (o : oop) : ostate * option (option bytes) :=
    match o with
    | OAlloc v => (mkO (o_heap s ++ [v]) (length (o_heap s) :: o_mine s) (o_toks s), None)
    | OWrite a off v => (mkO (hset (o_heap s) a (write_at (hget (o_heap s) a) off v)) (o_mine s) (o_toks s), None)
    | OSign a =>
        let '(h1, t) := sign_step (o_heap s) a in
        (mkO h1 (o_mine s) (o_toks s ++ [(t, read (o_heap s) a)]), None)
    | OCheck t =>
        match nth_error (o_toks s) t with
        | None => (s, Some None)
        | Some (ts, _) => (s, Some (check mac k (read (o_heap s) ts)))
        end
    end.

  Fixpoint own_run (s : ostate) (ops : list oop) : ostate * list (option (option bytes)) :=
    match ops with
    | [] => (s, [])
    | o :: r => let '(s1, x) := own_step s o in
                let '(s2, xs) := own_run s1 r in (s2, x :: xs)
    end.

  Fixpoint ops_ok (s : ostate) (ops : list oop) : bool :=
    match ops with
    | [] => true
    | o :: r => op_ok s o && ops_ok (fst (own_step s o)) r
    end.
End Own.

Definition init_ostate : ostate := mkO [] [] [].

(** ** The key a signer uses

    [signer.New(key)] builds the object all token kinds sign and check with.
    [keep] is what the constructor stores of the key it is given: the code
    stores the parameter itself ([keep_all]; a full copy would be the same
    function); a constructor copying into a fixed 32-byte buffer is
    [keep_first 32].  The MAC of the object is the MAC under the stored key. *)
Definition keep_all (key : bytes) : bytes := key.
Definition keep_first (n : nat) (key : bytes) : bytes := firstn n key.

Section KeyUsed.
  Variable mac : bytes -> bytes -> bytes.
  Variable keep : bytes -> bytes.
  Definition obj_sign (key d : bytes) : bytes := sign mac (keep key) d.
  Definition obj_check (key bs : bytes) : option bytes := check mac (keep key) bs.
End KeyUsed.
