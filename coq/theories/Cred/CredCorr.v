(** Correspondence evaluators for C16: run the models on the inputs the
    harness fed to the implementation and compare with what it observed.
    The abstract functions are instantiated by tables of values computed by Go
    for exactly the arguments queried: [mac] by a table of HMAC-SHA256 values,
    the JSON parsers by the parse of the decoded segment, RSA verification by
    its outcome for each key of the card. *)
From Coq Require Import List NArith ZArith Bool.
From Verif Require Import Lib.Bytes Lib.Codec Cred.Sign Cred.Jwt Cred.PassCode.
Import ListNotations.
Local Open Scope N_scope.

Definition mtab := list (N * bytes * bytes).
Definition zeros32 : bytes := repeat 0 32.

Fixpoint mac_of (t : mtab) (k : N) (d : bytes) : bytes :=
  match t with
  | [] => zeros32
  | (k', d', m) :: r => if (k =? k') && beq_bytes d d' then m else mac_of r k d
  end.

Definition opt_bytes_eqb (a b : option bytes) : bool :=
  match a, b with
  | None, None => true
  | Some x, Some y => beq_bytes x y
  | _, _ => false
  end.

Definition header_eqb (a b : header) : bool :=
  beq_bytes (h_alg a) (h_alg b) && beq_bytes (h_typ a) (h_typ b) && beq_bytes (h_kid a) (h_kid b).

Definition claims_eqb (a b : claims) : bool :=
  beq_bytes (c_iss a) (c_iss b) && beq_bytes (c_scope a) (c_scope b) && beq_bytes (c_aud a) (c_aud b)
  && (c_exp a =? c_exp b)%Z && (c_iat a =? c_iat b)%Z
  && beq_bytes (c_typ a) (c_typ b) && beq_bytes (c_sub a) (c_sub b).

Definition jerr_code (e : jerr) : N :=
  match e with
  | EParts => 1 | EHeader => 2 | ESig => 3 | EClaims => 4
  | EKid => 5 | EAlg => 6 | ETyp => 7 | EWrongSig => 8
  | EFuture => 9 | EExpired => 10
  | ENoKey => 11 | EKeyType => 12 | EKeyNotYet => 13 | EKeyExpired => 14 | EKeyParse => 15
  | EIss => 20 | EAud => 21 | ECTyp => 22 | ESub => 23 | EScope => 24
  end.

Definition opt_code (e : option jerr) : N := match e with None => 0 | Some e => jerr_code e end.

Definition rt_code (e : option rt_err) : N :=
  match e with None => 0 | Some RtShort => 1 | Some RtWindow => 2 | Some RtHash => 3 | Some RtSig => 4 end.

(** Card keys carry (does the key text parse, does the signature verify under it). *)
Definition ckey := @pubkey (bool * bool).
Definition parse_key_i (m : bool * bool) : option bool := if fst m then Some (snd m) else None.
Definition rsa_verify_i (rk : bool) (_ _ : bytes) : bool := rk.

Definition pcode_eqb (a b : pcode) : bool :=
  (p_code a =? p_code b)
  && Bool.eqb (p_has_valid a) (p_has_valid b) && Bool.eqb (p_has_expire a) (p_has_expire b)
  && (negb (p_has_valid a) || (p_valid a =? p_valid b)%Z)
  && (negb (p_has_expire a) || (p_expire a =? p_expire b)%Z)
  && Bool.eqb (p_consumed a) (p_consumed b) && (p_tried a =? p_tried b)%Z.

Definition opt_eqb {A} (f : A -> A -> bool) (a b : option A) : bool :=
  match a, b with
  | None, None => true
  | Some x, Some y => f x y
  | _, _ => false
  end.

(** The issue counter is a device of the model (it names the codes); the
    implementation has no such field, so it is not compared. *)
Definition rstate_eqb (a b : rstate) : bool :=
  Bool.eqb (r_disabled a) (r_disabled b) && opt_eqb pcode_eqb (r_pc a) (r_pc b)
  && opt_eqb N.eqb (r_id a) (r_id b).

Fixpoint results_eqb (a b : list (N * rstate)) : bool :=
  match a, b with
  | [], [] => true
  | (r1, s1) :: a', (r2, s2) :: b' => (r1 =? r2) && rstate_eqb s1 s2 && results_eqb a' b'
  | _, _ => false
  end.

Inductive ccase :=
| CHexEnc (input exp : bytes)
| CHexDec (input : bytes) (exp : option bytes)
| CB64Enc (input exp : bytes)
| CB64Dec (input : bytes) (exp_lenient exp_strict : option bytes)
| CSign (mt : mtab) (k : N) (hexmode : bool) (data exp : bytes)
| CCheck (mt : mtab) (k : N) (hexmode : bool) (tok : bytes) (exp : option bytes)
| CSessNew (mt : mtab) (k : N) (maxttl ttl t0 : Z) (data exp_tok : bytes) (exp_expires : Z)
| CSessCheck (mt : mtab) (k : N) (now : Z) (tok : bytes) (exp : option (bytes * Z))
| CSessState (mt : mtab) (k : N) (now : Z) (tok : bytes) (exp : bool)
| CSessJson (mt : mtab) (k : N) (now : Z) (tok : bytes) (jsonok : bool) (exp : bool)
| CGate (mt : mtab) (k : N) (maxttl now : Z) (tok : bytes) (exp : option (bytes * bool))
| CGateCb (mt : mtab) (k : N) (maxttl now : Z) (tok : bytes) (cb : option Z)
          (exp : option (bool * bytes * Z * bool))
| CChal (mt : mtab) (k : N) (w now : Z) (tok : bytes) (ct : option Z) (exp : N)
| CCoreSign (privs : list (bytes * bool)) (card : list ckey) (req : bytes) (now : Z)
            (exp_err : N) (exp_id : bytes)
| CExchange (card : list ckey) (issuer audience user : bytes) (now : Z) (tok : bytes)
            (hp : option header) (cp : option claims) (ttl : Z)
            (mt : mtab) (k : N) (maxttl : Z) (exp_err : N) (exp_tok : bytes) (exp_expires : Z)
| CTsNew (mt : mtab) (k : N) (t0 : Z) (exp : bytes)
| CTsCheck (mt : mtab) (k : N) (w now : Z) (tok : bytes) (exp : bool)
| CRsaTime (w now : Z) (data hash hashd : bytes) (sigok : bool) (exp : N)
| CJwtSign (mt : mtab) (k : N) (hj cj exp : bytes)
| CJwtHs (mt : mtab) (k : N) (pin : header) (now : Z) (tok : bytes)
         (hp : option header) (cp : option claims) (exp_err : N) (exp_claims : option claims)
| CJwtRs (self : bool) (card : list ckey) (user host : bytes) (now : Z) (tok : bytes)
         (hp : option header) (cp : option claims) (exp_err : N) (exp_claims : option claims)
| CJwtAny (vrej : bool) (now : Z) (tok : bytes)
          (hp : option header) (cp : option claims) (exp_err : N) (exp_claims : option claims)
| CJwtRsFetch (nocard : bool) (card : list ckey) (user host : bytes) (now : Z) (tok : bytes)
              (hp : option header) (cp : option claims) (exp_err : N) (exp_claims : option claims)
| CClaims (c tmpl : claims) (exp : N)
| CJwtTime (c : claims) (now : Z) (exp : N)
| CPass (expiry : Z) (start : rstate) (ops : list pop) (exp : list (N * rstate)).

Definition jres_agrees (r : jres token) (exp_err : N) (exp_claims : option claims) : bool :=
  match r with
  | JErr e => jerr_code e =? exp_err
  | JOk t => (exp_err =? 0) && opt_eqb claims_eqb (Some (t_claims t)) exp_claims
  end.

Definition check_case (c : ccase) : bool :=
  match c with
  | CHexEnc input exp => beq_bytes (hex_encode input) exp
  | CHexDec input exp => opt_bytes_eqb (hex_decode input) exp
  | CB64Enc input exp => beq_bytes (b64_encode input) exp
  | CB64Dec input el es =>
      opt_bytes_eqb (b64_decode input) el && opt_bytes_eqb (b64_decode_strict input) es
  | CSign mt k hexmode data exp =>
      beq_bytes (if hexmode then sign_hex (mac_of mt) k data else sign (mac_of mt) k data) exp
  | CCheck mt k hexmode tok exp =>
      opt_bytes_eqb (if hexmode then check_hex (mac_of mt) k tok else check (mac_of mt) k tok) exp
  | CSessNew mt k maxttl ttl t0 data exp_tok exp_expires =>
      let '(tok, e) := sess_new (mac_of mt) k maxttl t0 ttl data in
      beq_bytes tok exp_tok && (e =? exp_expires)%Z
  | CSessCheck mt k now tok exp =>
      match sess_check (mac_of mt) k now tok, exp with
      | None, None => true
      | Some (d, l), Some (d', l') => beq_bytes d d' && (l =? l')%Z
      | _, _ => false
      end
  | CSessState mt k now tok exp => Bool.eqb (sess_check_state (mac_of mt) k now tok) exp
  | CSessJson mt k now tok jsonok exp =>
      Bool.eqb (sess_check_json (mac_of mt) (fun _ => jsonok) k now tok) exp
  | CGate mt k maxttl now tok exp =>
      match sess_check (mac_of mt) k now tok, exp with
      | None, None => true
      | Some (d, lf), Some (d', nr) => beq_bytes d d' && Bool.eqb (need_refresh maxttl lf) nr
      | _, _ => false
      end
  | CGateCb mt k maxttl now tok cb exp =>
      match gate_check_token (mac_of mt) (fun _ => cb) k maxttl now tok, exp with
      | None, None => true
      | Some i, Some (v, u, l, r) =>
          Bool.eqb (gi_valid i) v && beq_bytes (gi_user i) u && (gi_level i =? l)%Z && Bool.eqb (gi_refresh i) r
      | _, _ => false
      end
  | CChal mt k w now tok ct exp =>
      match challenge_check (mac_of mt) (fun _ => ct) k w now tok with
      | None => 0 | Some ChInvalid => 1 | Some ChFuture => 2 | Some ChExpired => 3
      end =? exp
  | CCoreSign privs card req now exp_err exp_id =>
      match core_pick (fun b : bool => if b then Some tt else None) privs card req now with
      | COk (id, _) => (exp_err =? 0) && beq_bytes id exp_id
      | CErr e =>
          match e with
          | CsKeyNotFound => 1 | CsPubNotFound => 2 | CsType => 3 | CsNotYet => 4
          | CsExpired => 5 | CsParse => 6 | CsNoKey => 7
          end =? exp_err
      end
  | CExchange card issuer audience user now tok hp cp ttl mt k maxttl exp_err exp_tok exp_expires =>
      match exchange (fun _ => hp) (fun _ => cp) b64_decode_canon parse_key_i rsa_verify_i
                     (fun ttl' u => sess_new (mac_of mt) k maxttl now ttl' u)
                     card issuer audience now tok user ttl with
      | inl (t, e) => (exp_err =? 0) && beq_bytes t exp_tok && (e =? exp_expires)%Z
      | inr XNoToken => exp_err =? 30
      | inr (XToken e) => jerr_code e =? exp_err
      | inr (XClaims e) => jerr_code e =? exp_err
      | inr XTtl => exp_err =? 31
      end
  | CTsNew mt k t0 exp => beq_bytes (ts_token (mac_of mt) k t0) exp
  | CTsCheck mt k w now tok exp => Bool.eqb (ts_check (mac_of mt) k w now tok) exp
  | CRsaTime w now data hash hashd sigok exp =>
      rt_code (rsa_time_check (fun _ => hashd) (fun (_ : unit) _ _ => sigok) tt w now data hash [])
      =? exp
  | CJwtSign mt k hj cj exp => beq_bytes (jwt_sign (mac_of mt) k hj cj) exp
  | CJwtHs mt k pin now tok hp cp exp_err exp_claims =>
      jres_agrees (hs_verify (mac_of mt) (fun _ => hp) (fun _ => cp) b64_decode_canon k pin now tok)
                  exp_err exp_claims
  | CJwtRs self card user host now tok hp cp exp_err exp_claims =>
      jres_agrees
        (if self
         then self_verify (fun _ => hp) (fun _ => cp) b64_decode_canon parse_key_i rsa_verify_i
                          card user host now tok
         else rs_verify (fun _ => hp) (fun _ => cp) b64_decode_canon parse_key_i rsa_verify_i
                        card now tok)
        exp_err exp_claims
  | CJwtAny vrej now tok hp cp exp_err exp_claims =>
      jres_agrees (any_verify (fun _ => hp) (fun _ => cp) b64_decode_canon
                              (if vrej then Some EWrongSig else None) now tok)
                  exp_err exp_claims
  | CJwtRsFetch nocard card user host now tok hp cp exp_err exp_claims =>
      jres_agrees (self_verify_fetch (fun _ => hp) (fun _ => cp) b64_decode_canon parse_key_i rsa_verify_i
                                     (if nocard then None else Some card) user host now tok)
                  exp_err exp_claims
  | CClaims c tmpl exp => opt_code (check_claims c tmpl) =? exp
  | CJwtTime c now exp => opt_code (check_time c now) =? exp
  | CPass expiry start ops exp => results_eqb (run expiry start ops) exp
  end.

Fixpoint mismatches_from (i : nat) (cs : list ccase) : list nat :=
  match cs with
  | [] => []
  | c :: r => if check_case c then mismatches_from (S i) r
              else i :: mismatches_from (S i) r
  end.

Definition mismatches (cs : list ccase) : list nat := mismatches_from 0 cs.

(** Byte strings are written in the case files as one hexadecimal numeral:
    a leading 1 (so that leading zero bytes survive) followed by the bytes in
    reverse order, i.e. the first byte is the least significant one.  That is
    far cheaper for Coq to read than a list of numerals. *)
Fixpoint pos_bytes (p : positive) (cur w : N) : bytes :=
  match p with
  | xH => []
  | xO p' => if w =? 128 then cur :: pos_bytes p' 0 1 else pos_bytes p' cur (2 * w)
  | xI p' => if w =? 128 then (cur + w) :: pos_bytes p' 0 1 else pos_bytes p' (cur + w) (2 * w)
  end.

Definition hx (n : N) : bytes :=
  match n with
  | N0 => []
  | Npos p => pos_bytes p 0 1
  end.

(** [sp b p s mid]: the first [p] and the last [s] elements of [b] around
    [mid] (how the case files spell a mutant of an already defined string). *)
Definition sp (b : bytes) (p s : nat) (mid : bytes) : bytes :=
  firstn p b ++ mid ++ skipn (length b - s) b.

Example hx_example : hx 0x1ff0001 = [1; 0; 255].
Proof. vm_compute. reflexivity. Qed.
