(** Model of jwt/{verify,hs256,time,claim_set,header,coding,sign}.go and
    identity/{jwt,time,sign_token}.go.

    [encoding/json] is not modelled: [parse_header] / [parse_claims] stand for
    [json.Unmarshal] into [Header] / [ClaimSet] (plus the map pass of
    [decodeClaimSet]) applied to a decoded segment, and the JSON texts a signer
    produces are inputs of [jwt_sign].  The signature covers the *text* of the
    first two segments, so nothing about JSON is needed to state who may change
    what.  HMAC and RSA are functions ([mac], [rsa_verify]; [rsa_verify rk data
    sig] stands for SHA-256 followed by PKCS#1 v1.5 verification).

    Time is [Z] nanoseconds; claim and key times are seconds as in the code.
    Strings are byte lists; [strings.Fields] is modelled for ASCII.

    Definitions only; proofs are in JwtProofs.v. *)
From Coq Require Import List NArith ZArith Bool.
From Verif Require Import Lib.Bytes Lib.Codec.
Import ListNotations.
Local Open Scope Z_scope.

Record header := mkH { h_alg : bytes; h_typ : bytes; h_kid : bytes }.

Record claims := mkC {
  c_iss : bytes; c_scope : bytes; c_aud : bytes;
  c_exp : Z; c_iat : Z;
  c_typ : bytes; c_sub : bytes }.

Record token := mkT { t_header : header; t_claims : claims; t_payload : bytes; t_sig : bytes }.

Inductive jerr :=
| EParts | EHeader | ESig | EClaims            (* Decode *)
| EKid | EAlg | ETyp | EWrongSig               (* Verifier *)
| EFuture | EExpired                           (* CheckTime *)
| ENoKey | EKeyType | EKeyNotYet | EKeyExpired | EKeyParse   (* identity card *)
| EIss | EAud | ECTyp | ESub | EScope.         (* CheckClaimSet *)

Inductive jres (A : Type) := JOk (a : A) | JErr (e : jerr).
Arguments JOk {A} a.
Arguments JErr {A} e.

Definition dot : N := 46.
Definition sec_ns : Z := 1000000000.
Definition grace_ns : Z := 300 * sec_ns.     (* 5 * time.Minute *)

Definition alg_hs256 : bytes := [72; 83; 50; 53; 54]%N.   (* "HS256" *)
Definition alg_rs256 : bytes := [82; 83; 50; 53; 54]%N.   (* "RS256" *)
Definition typ_jwt : bytes := [74; 87; 84]%N.             (* "JWT" *)
Definition key_type_rsa : bytes := [115; 115; 104; 45; 114; 115; 97]%N.   (* "ssh-rsa" *)
Definition self_iss : bytes := [46]%N.                    (* identity.Self = "." *)

(** [strings.Split(s, ".")]. *)
Fixpoint split_on (sep : N) (s : bytes) : list bytes :=
  match s with
  | [] => [[]]
  | c :: r =>
      if (c =? sep)%N then [] :: split_on sep r
      else match split_on sep r with
           | h :: t => (c :: h) :: t
           | [] => [[c]]
           end
  end.

(** [strings.Fields] on ASCII text. *)
Definition is_space (c : N) : bool :=
  ((c =? 9) || (c =? 10) || (c =? 11) || (c =? 12) || (c =? 13) || (c =? 32))%N.

Fixpoint fields_aux (cur : bytes) (s : bytes) : list bytes :=
  match s with
  | [] => match cur with [] => [] | _ => [rev cur] end
  | c :: r =>
      if is_space c
      then match cur with [] => fields_aux [] r | _ => rev cur :: fields_aux [] r end
      else fields_aux (c :: cur) r
  end.

Definition fields (s : bytes) : list bytes := fields_aux [] s.

Definition mem_bytes (x : bytes) (l : list bytes) : bool := existsb (beq_bytes x) l.

Definition is_empty (b : bytes) : bool := match b with [] => true | _ => false end.

(** ** [time.Time] as the code uses it

    [time.Unix(sec, 0)] stores [sec + 62135596800] in an [int64], which wraps for
    [sec] within 62135596800 of 2^63; [Add] then moves the seconds with
    saturation; [Before]/[After] compare (seconds, nanoseconds).  The
    verification instant [now] is [time.Unix(0, now)] with [now] an [int64]
    nanosecond count, whose seconds never come near the wrap. *)
Definition unix_to_internal : Z := 62135596800.
Definition two63 : Z := 9223372036854775808.
Definition wrap64 (z : Z) : Z := (z + two63) mod (2 * two63) - two63.

Definition ext_of_unix (sec : Z) : Z := wrap64 (sec + unix_to_internal).

(** [Time.addSec]. *)
Definition add_sec_sat (ext d : Z) : Z :=
  let sum := wrap64 (ext + d) in
  if Bool.eqb (ext <? sum) (0 <? d) then sum
  else if 0 <? d then two63 - 1 else - (two63 - 1).

Definition time_before (e1 n1 e2 n2 : Z) : bool := (e1 <? e2) || ((e1 =? e2) && (n1 <? n2)).

Definition now_ext (now : Z) : Z := now / sec_ns + unix_to_internal.
Definition now_nsec (now : Z) : Z := now mod sec_ns.

Definition grace_sec : Z := 300.

(** [CheckTime]: issued = Unix(iat, 0).Add(-5 min) must be before now;
    now must not be after Unix(exp, 0). *)
Definition check_time (c : claims) (now : Z) : option jerr :=
  if negb (time_before (add_sec_sat (ext_of_unix (c_iat c)) (- grace_sec)) 0 (now_ext now) (now_nsec now))
  then Some EFuture
  else if time_before (ext_of_unix (c_exp c)) 0 (now_ext now) (now_nsec now) then Some EExpired
  else None.

(** Seconds that stay clear of the wrap (any real claim or key time does). *)
Definition unix_in_range (sec : Z) : Prop := - 4611686018427387904 <= sec <= 4611686018427387904.
Definition unix_in_rangeb (sec : Z) : bool :=
  (- 4611686018427387904 <=? sec) && (sec <=? 4611686018427387904).

(** [checkHeader]. *)
Definition check_header (got want : header) : option jerr :=
  if negb (beq_bytes (h_kid got) (h_kid want)) then Some EKid
  else if negb (beq_bytes (h_alg got) (h_alg want)) then Some EAlg
  else if negb (beq_bytes (h_typ got) (h_typ want)) then Some ETyp
  else None.

(** [CheckClaimSet] (both arguments present). *)
Definition check_claims (c tmpl : claims) : option jerr :=
  if negb (is_empty (c_iss tmpl)) && negb (beq_bytes (c_iss c) (c_iss tmpl)) then Some EIss
  else if negb (is_empty (c_aud tmpl)) && negb (beq_bytes (c_aud c) (c_aud tmpl)) then Some EAud
  else if negb (is_empty (c_typ tmpl)) && negb (beq_bytes (c_typ c) (c_typ tmpl)) then Some ECTyp
  else if negb (is_empty (c_sub tmpl)) && negb (beq_bytes (c_sub c) (c_sub tmpl)) then Some ESub
  else if negb (is_empty (c_scope tmpl))
          && negb (forallb (fun s => mem_bytes s (fields (c_scope c))) (fields (c_scope tmpl)))
       then Some EScope
  else None.

Section Jwt.
  Context {K : Type}.
  Variable mac : K -> bytes -> bytes.
  Variable parse_header : bytes -> option header.
  Variable parse_claims : bytes -> option claims.
  (** [decodeSegmentBytes]: canonical in the repaired code, Go's lenient
      [RawURLEncoding.DecodeString] before. *)
  Variable seg_decode : list N -> option bytes.

  (** [Decode]; the order of the failure checks is the code's. *)
  Definition decode (tok : bytes) : jres token :=
    match split_on dot tok with
    | [h; c; s] =>
        match seg_decode h with
        | None => JErr EHeader
        | Some hb =>
            match parse_header hb with
            | None => JErr EHeader
            | Some hd =>
                match seg_decode s with
                | None => JErr ESig
                | Some sg =>
                    match seg_decode c with
                    | None => JErr EClaims
                    | Some cb =>
                        match parse_claims cb with
                        | None => JErr EClaims
                        | Some cl => JOk (mkT hd cl (h ++ dot :: c) sg)
                        end
                    end
                end
            end
        end
    | _ => JErr EParts
    end.

  (** [DecodeAndVerify] with a verifier [v] (header, payload, signature, instant). *)
  Definition decode_and_verify (v : token -> Z -> option jerr) (now : Z) (tok : bytes) : jres token :=
    match decode tok with
    | JErr e => JErr e
    | JOk t =>
        match v t now with
        | Some e => JErr e
        | None =>
            match check_time (t_claims t) now with
            | Some e => JErr e
            | None => JOk t
            end
        end
    end.

  (** [HS256.Verify]. *)
  Definition hs_verifier (k : K) (pin : header) (t : token) (_ : Z) : option jerr :=
    match check_header (t_header t) pin with
    | Some e => Some e
    | None => if beq_bytes (mac k (t_payload t)) (t_sig t) then None else Some EWrongSig
    end.

  Definition hs_verify (k : K) (pin : header) : Z -> bytes -> jres token :=
    decode_and_verify (hs_verifier k pin).

  (** [EncodeAndSign] given the JSON texts of the header and of the claims. *)
  Definition jwt_text (hj cj : bytes) : bytes := b64_encode hj ++ dot :: b64_encode cj.
  Definition jwt_sign (k : K) (hj cj : bytes) : bytes :=
    jwt_text hj cj ++ dot :: b64_encode (mac k (jwt_text hj cj)).

  (** ** RS256 with an identity card (identity/jwt.go, identity/time.go) *)
  Context {M RK : Type}.
  Variable parse_key : M -> option RK.                    (* rsautil.ParsePublicKey *)
  Variable rsa_verify : RK -> bytes -> bytes -> bool.     (* sha256 + VerifyPKCS1v15 *)

  Record pubkey := mkPK {
    pk_id : bytes; pk_type : bytes; pk_alg : bytes;
    pk_nva : Z; pk_nvb : Z; pk_mat : M }.

  (** [FindPublicKey]: the first key with that id. *)
  Definition find_key (card : list pubkey) (kid : bytes) : option pubkey :=
    find (fun k => beq_bytes (pk_id k) kid) card.

  (** [publicKeyValid]. *)
  Definition key_valid (k : pubkey) (now : Z) : option jerr :=
    if (0 <? pk_nvb k) && time_before (now_ext now) (now_nsec now) (ext_of_unix (pk_nvb k)) 0
    then Some EKeyNotYet
    else if time_before (ext_of_unix (pk_nva k)) 0 (now_ext now) (now_nsec now) then Some EKeyExpired
    else None.

  (** [jwtVerifier.Verify]. *)
  Definition rs_verifier (card : list pubkey) (t : token) (now : Z) : option jerr :=
    if negb (beq_bytes (h_alg (t_header t)) alg_rs256) then Some EAlg
    else match find_key card (h_kid (t_header t)) with
         | None => Some ENoKey
         | Some k =>
             if negb (beq_bytes (pk_type k) key_type_rsa) then Some EKeyType
             else match key_valid k now with
                  | Some e => Some e
                  | None =>
                      match parse_key (pk_mat k) with
                      | None => Some EKeyParse
                      | Some rk =>
                          if rsa_verify rk (t_payload t) (t_sig t) then None else Some EWrongSig
                      end
                  end
         end.

  Definition rs_verify (card : list pubkey) : Z -> bytes -> jres token :=
    decode_and_verify (rs_verifier card).

  (** [DecodeAndVerify] with a verifier supplied by the caller that answers
      [vres] whatever it is shown ([None]: no error; a nil verifier behaves
      like one that never objects). *)
  Definition any_verify (vres : option jerr) : Z -> bytes -> jres token :=
    decode_and_verify (fun _ _ => vres).

  (** The card is an interface: fetching the identity can fail
      ([publicKeyFromCard] returns the error, and no key is found). *)
  Definition rs_verifier_fetch (ocard : option (list pubkey)) (t : token) (now : Z) : option jerr :=
    match ocard with
    | Some card => rs_verifier card t now
    | None => if negb (beq_bytes (h_alg (t_header t)) alg_rs256) then Some EAlg else Some ENoKey
    end.

  (** [VerifySelfToken]. *)
  Definition self_verify (card : list pubkey) (user host : bytes) (now : Z) (tok : bytes) : jres token :=
    match rs_verify card now tok with
    | JErr e => JErr e
    | JOk t =>
        match check_claims (t_claims t) (mkC self_iss [] host 0 0 [] user) with
        | Some e => JErr e
        | None => JOk t
        end
    end.

  Definition self_verify_fetch (ocard : option (list pubkey)) (user host : bytes) (now : Z) (tok : bytes)
    : jres token :=
    match decode_and_verify (rs_verifier_fetch ocard) now tok with
    | JErr e => JErr e
    | JOk t =>
        match check_claims (t_claims t) (mkC self_iss [] host 0 0 [] user) with
        | Some e => JErr e
        | None => JOk t
        end
    end.

  (** ** Signing side: [simpleCore.Sign]'s choice of key (identity/simple_core.go)

      [privs]: the stored private keys (id, material) in order; [req]: the key id
      asked for ([jwtSigner] asks for the id of the card's last public key; an
      empty id means "the last private key"). *)
  Context {PM SK : Type}.
  Variable parse_priv : PM -> option SK.          (* rsautil.ParsePrivateKey *)

  Inductive cs_err := CsNoKey | CsKeyNotFound | CsPubNotFound | CsType | CsNotYet | CsExpired | CsParse.

  Inductive cres (A : Type) := COk (a : A) | CErr (e : cs_err).
  Arguments COk {A} a.
  Arguments CErr {A} e.

  Definition core_pick (privs : list (bytes * PM)) (card : list pubkey) (req : bytes) (now : Z)
    : cres (bytes * SK) :=
    match privs with
    | [] => CErr CsNoKey
    | p0 :: _ =>
        let pick := if is_empty req then Some (last privs p0)
                    else find (fun p => beq_bytes (fst p) req) privs in
        match pick with
        | None => CErr CsKeyNotFound
        | Some (id, pm) =>
            match find_key card id with
            | None => CErr CsPubNotFound
            | Some pub =>
                if negb (beq_bytes (pk_type pub) key_type_rsa) then CErr CsType
                else match key_valid pub now with
                     | Some EKeyNotYet => CErr CsNotYet
                     | Some _ => CErr CsExpired
                     | None =>
                         match parse_priv pm with
                         | None => CErr CsParse
                         | Some sk => COk (id, sk)
                         end
                     end
            end
        end
    end.

  (** ** [authgate.Exchange]: an access token for a session token

      The tokener is a [Gate] over sessions with key [sk] and maximum lifetime
      [maxttl]; [sess] is [Sessions.New] (Cred/Sign.v) at the same instant. *)
  Inductive x_err := XNoToken | XToken (e : jerr) | XClaims (e : jerr) | XTtl.

  Definition exchange {S : Type} (sess : Z -> bytes -> S)
             (card : list pubkey) (issuer audience : bytes) (now : Z)
             (tok user : bytes) (ttl : Z) : S + x_err :=
    if is_empty tok then inr XNoToken
    else match rs_verify card now tok with
         | JErr e => inr (XToken e)
         | JOk t =>
             match check_claims (t_claims t) (mkC issuer [] audience 0 0 [] user) with
             | Some e => inr (XClaims e)
             | None => if ttl <=? 0 then inr XTtl else inl (sess ttl user)
             end
         end.
End Jwt.

Arguments COk {A} a.
Arguments CErr {A} e.
