(** Proofs about Cred/PassCode.v: over every history of operations, with
    arbitrary instants, an attempt is accepted only for the code of the latest
    successful issue, inside that code's window, if no attempt on that code was
    accepted before, and after at most nine counted attempts on it (so never
    once more than ten wrong codes have been tried). *)
From Coq Require Import List NArith ZArith Bool Lia.
From Verif Require Import Cred.PassCode.
Import ListNotations.
Local Open Scope Z_scope.

(** ** Histories, most recent event first *)

Inductive reach (expiry : Z) : rstate -> list event -> Prop :=
| reach_init : reach expiry init_state []
| reach_step s evs o :
    reach expiry s evs ->
    reach expiry (fst (step expiry s o)) ((o, snd (step expiry s o)) :: evs).

Fixpoint exec (expiry : Z) (s : rstate) (evs : list event) (ops : list pop) : rstate * list event :=
  match ops with
  | [] => (s, evs)
  | o :: r => exec expiry (fst (step expiry s o)) ((o, snd (step expiry s o)) :: evs) r
  end.

Lemma exec_reach expiry ops : forall s evs,
  reach expiry s evs -> reach expiry (fst (exec expiry s evs ops)) (snd (exec expiry s evs ops)).
Proof.
  induction ops as [|o r IH]; intros s evs R; cbn [exec]; [exact R|].
  apply IH. now constructor.
Qed.

(** [run] (what the correspondence evaluates) and [exec] observe the same results. *)
Lemma run_exec expiry ops : forall s evs,
  snd (exec expiry s evs ops) = rev (combine ops (map fst (run expiry s ops))) ++ evs.
Proof.
  induction ops as [|o r IH]; intros s evs; cbn [exec]; [reflexivity|].
  unfold run in *. cbn [run_with]. unfold step in *.
  destruct (step_with true expiry s o) as [s' res] eqn:E. cbn [fst snd map combine rev].
  rewrite IH, <- app_assoc. reflexivity.
Qed.

(** ** What a history says, read off the events alone *)

Definition is_issue (e : event) : bool :=
  match e with (PNew _, 0%N) => true | _ => false end.

Definition is_accept (e : event) : bool :=
  match e with (PTry _ _ _, 0%N) => true | _ => false end.

(** An attempt that reached the passcode check (the role was not disabled). *)
Definition counted (e : event) : bool :=
  match e with (PTry _ _ _, r) => negb (r =? 1)%N | _ => false end.

(** The instant of the latest successful issue and the events after it. *)
Fixpoint since_issue (evs : list event) : option (Z * list event) :=
  match evs with
  | [] => None
  | e :: r =>
      match e with
      | (PNew t, 0%N) => Some (t, [])
      | _ => match since_issue r with
             | Some (t, a) => Some (t, e :: a)
             | None => None
             end
      end
  end.

Definition n_issues (evs : list event) : N := N.of_nat (length (filter is_issue evs)).

Definition accept_ok (expiry : Z) (evs : list event) (claim : N) (t : Z) : Prop :=
  exists ti after,
    since_issue evs = Some (ti, after) /\
    claim = n_issues evs /\ claim <> 0%N /\
    ti - valid_buffer <= t <= ti + Z.max 0 expiry /\
    forallb (fun e => negb (is_accept e)) after = true /\
    Z.of_nat (length (filter counted after)) <= 9.

(** ** Invariant *)

Definition inv (expiry : Z) (s : rstate) (evs : list event) : Prop :=
  r_issued s = n_issues evs /\
  match since_issue evs with
  | None => r_pc s = None
  | Some (ti, after) =>
      exists pc, r_pc s = Some pc /\
        p_code pc = n_issues evs /\ n_issues evs <> 0%N /\
        p_valid pc = ti - valid_buffer /\ p_expire pc = ti + Z.max 0 expiry /\
        p_consumed pc = existsb is_accept after /\
        p_tried pc = Z.of_nat (length (filter counted after))
  end.

Lemma since_issue_other e evs :
  is_issue e = false ->
  since_issue (e :: evs) =
  match since_issue evs with Some (t, a) => Some (t, e :: a) | None => None end.
Proof.
  destruct e as [o r]. cbn [since_issue is_issue].
  destruct o; try reflexivity. destruct r; [discriminate|reflexivity].
Qed.

Lemma n_issues_other e evs : is_issue e = false -> n_issues (e :: evs) = n_issues evs.
Proof. intros H. unfold n_issues. cbn [filter]. now rewrite H. Qed.

(** An event that is neither an issue, nor an accepted or counted attempt,
    leaves everything the invariant speaks about unchanged. *)
Lemma inv_neutral expiry s s' e evs :
  is_issue e = false -> is_accept e = false -> counted e = false ->
  r_pc s' = r_pc s -> r_issued s' = r_issued s ->
  inv expiry s evs -> inv expiry s' (e :: evs).
Proof.
  intros I A C Ep Ei [H1 H2]. unfold inv. rewrite n_issues_other, since_issue_other by assumption.
  split; [congruence|].
  destruct (since_issue evs) as [[ti after]|]; [|congruence].
  destruct H2 as (pc & P & H). exists pc. split; [congruence|].
  cbn [existsb filter]. rewrite A, C. cbn [orb]. exact H.
Qed.

Lemma checkPassCode_not_1 claim pc t : checkPassCode claim pc t <> 1%N.
Proof.
  unfold checkPassCode. destruct (claim =? 0)%N; [discriminate|].
  destruct pc as [c|]; [|discriminate].
  destruct (max_tries <? p_tried c); [discriminate|].
  destruct (p_consumed c); [discriminate|].
  destruct (t <? p_valid c); [discriminate|].
  destruct (p_expire c <? t); [discriminate|].
  destruct (negb (p_code c =? claim)%N); discriminate.
Qed.

Lemma checkPassCode_0 claim pc t :
  checkPassCode claim pc t = 0%N ->
  claim <> 0%N /\ exists c, pc = Some c /\ p_tried c <= max_tries /\ p_consumed c = false /\
    p_valid c <= t <= p_expire c /\ p_code c = claim.
Proof.
  unfold checkPassCode. destruct (N.eqb_spec claim 0); [discriminate|].
  destruct pc as [c|]; [|discriminate].
  destruct (Z.ltb_spec max_tries (p_tried c)); [discriminate|].
  destruct (p_consumed c) eqn:C; [discriminate|].
  destruct (Z.ltb_spec t (p_valid c)); [discriminate|].
  destruct (Z.ltb_spec (p_expire c) t); [discriminate|].
  destruct (N.eqb_spec (p_code c) claim); cbn [negb]; [|discriminate].
  intros _. split; [assumption|]. exists c. repeat split; auto; lia.
Qed.

Lemma inv_step expiry s evs o :
  inv expiry s evs -> inv expiry (fst (step expiry s o)) ((o, snd (step expiry s o)) :: evs).
Proof.
  intros I. unfold step, step_with.
  destruct o as [t|claim id t| |].
  - (* issue *)
    destruct (r_disabled s) eqn:D; cbn [fst snd].
    + apply (inv_neutral expiry s s); auto.
    + destruct I as [H1 H2]. unfold inv. cbn [since_issue r_issued r_pc].
      assert (n_issues ((PNew t, 0%N) :: evs) = (n_issues evs + 1)%N) as NI.
      { unfold n_issues. cbn [filter is_issue length]. lia. }
      rewrite NI. split; [congruence|].
      eexists. split; [reflexivity|]. cbn [p_code p_valid p_expire p_consumed p_tried existsb filter length].
      repeat split; try congruence; lia.
  - (* attempt *)
    destruct (r_disabled s) eqn:D; cbn [fst snd].
    + apply (inv_neutral expiry s s); auto.
    + pose proof (checkPassCode_not_1 claim (bump (r_pc s)) t) as N1.
      destruct (checkPassCode claim (bump (r_pc s)) t) as [|p] eqn:R; cbn [fst snd].
      * (* accepted *)
        apply checkPassCode_0 in R. destruct R as (_ & c & B & _).
        destruct I as [H1 H2]. unfold inv.
        rewrite n_issues_other, since_issue_other by reflexivity. cbn [r_issued r_pc].
        split; [exact H1|].
        destruct (r_pc s) as [pc|] eqn:P; [|discriminate]. cbn [bump] in B. injection B as <-.
        destruct (since_issue evs) as [[ti after]|]; [|discriminate].
        destruct H2 as (pc' & [= <-] & Hc & Hn & Hv & He & Hk & Ht).
        eexists. split; [reflexivity|].
        cbn [consume p_code p_valid p_expire p_consumed p_tried existsb filter counted is_accept length].
        cbn [N.eqb negb orb length]. repeat split; auto. lia.
      * (* refused: the attempt is recorded *)
        destruct I as [H1 H2]. unfold inv.
        rewrite n_issues_other, since_issue_other by reflexivity. cbn [r_issued r_pc].
        split; [exact H1|].
        destruct (since_issue evs) as [[ti after]|].
        -- destruct H2 as (pc & P & Hc & Hn & Hv & He & Hk & Ht). rewrite P. cbn [bump].
           eexists. split; [reflexivity|].
           cbn [p_code p_valid p_expire p_consumed p_tried existsb filter counted is_accept].
           assert (negb (N.pos p =? 1)%N = true) as ->.
           { destruct (N.eqb_spec (N.pos p) 1); [contradiction|reflexivity]. }
           cbn [orb length]. repeat split; auto. lia.
        -- rewrite H2. reflexivity.
  - apply (inv_neutral expiry s); auto.
  - apply (inv_neutral expiry s); auto.
Qed.

Lemma reach_inv expiry s evs : reach expiry s evs -> inv expiry s evs.
Proof.
  induction 1 as [|s evs o R IH].
  - split; reflexivity.
  - now apply inv_step.
Qed.

(** ** The property *)

Theorem accepted_only_when_ok expiry s evs claim id t :
  reach expiry s evs -> snd (step expiry s (PTry claim id t)) = 0%N -> accept_ok expiry evs claim t.
Proof.
  intros R. apply reach_inv in R. destruct R as [H1 H2].
  unfold step, step_with. destruct (r_disabled s); [discriminate|].
  destruct (checkPassCode claim (bump (r_pc s)) t) eqn:C; [|discriminate]. intros _.
  apply checkPassCode_0 in C. destruct C as (Nz & c & B & Tr & Cs & W & Cd).
  destruct (r_pc s) as [pc|] eqn:P; [|discriminate]. cbn [bump] in B. injection B as <-.
  cbn [p_tried p_consumed p_valid p_expire p_code] in *. unfold accept_ok.
  destruct (since_issue evs) as [[ti after]|]; [|discriminate].
  destruct H2 as (pc' & [= <-] & Hc & Hn & Hv & He & Hk & Ht).
  exists ti, after. split; [reflexivity|].
  split; [congruence|]. split; [exact Nz|]. split; [lia|].
  split.
  - rewrite Cs in Hk. symmetry in Hk. clear - Hk.
    induction after as [|e a IH]; [reflexivity|]. cbn [existsb forallb] in *.
    apply orb_false_iff in Hk. destruct Hk as [-> Hk]. cbn [negb andb]. auto.
  - unfold max_tries in Tr. lia.
Qed.

(** For every history of operations and every attempt after it. *)
Theorem passcode_once_window_limit expiry ops claim id t :
  let '(s, evs) := exec expiry init_state [] ops in
  snd (step expiry s (PTry claim id t)) = 0%N -> accept_ok expiry evs claim t.
Proof.
  pose proof (exec_reach expiry ops init_state [] (reach_init expiry)) as R.
  destruct (exec expiry init_state [] ops) as [s evs]. cbn [fst snd] in R.
  now apply accepted_only_when_ok.
Qed.

(** In the property's words: never again once more than ten wrong codes were tried. *)
Corollary rejected_after_ten_wrong expiry s evs claim id t ti after :
  reach expiry s evs -> since_issue evs = Some (ti, after) ->
  10 < Z.of_nat (length (filter counted after)) ->
  snd (step expiry s (PTry claim id t)) <> 0%N.
Proof.
  intros R S L A. apply (accepted_only_when_ok expiry s evs claim id t R) in A.
  destruct A as (ti' & after' & S' & _ & _ & _ & _ & B). rewrite S in S'. injection S' as <- <-. lia.
Qed.

(** The state the repaired code keeps is needed: with the counter discarded on
    refusal (the code before the repair) fifteen wrong codes do not stop the
    sixteenth, right one. *)
Definition fifteen_wrong_then_right : list pop :=
  PNew 1000 :: map (fun i => PTry (100 + N.of_nat i) 1 (1000 + Z.of_nat i)) (seq 0 15) ++ [PTry 1 2 1015].

Example legacy_model_refuted :
  last (map fst (run_with false 600000000000 init_state fifteen_wrong_then_right)) 9%N = 0%N /\
  last (map fst (run 600000000000 init_state fifteen_wrong_then_right)) 9%N = 4%N.
Proof. vm_compute. split; reflexivity. Qed.

(** Non-vacuity: a history in which the right code is accepted, with all the
    clauses of [accept_ok] met non-trivially (an earlier code, refused
    attempts, a disabled interval). *)
Definition witness_ops : list pop :=
  [PNew 0; PTry 7 1 5; PDisable; PTry 1 1 6; PEnable; PNew 100; PTry 1 1 101; PTry 9 1 102].

Definition witness_run : rstate * list event :=
  Eval vm_compute in exec 1000 init_state [] witness_ops.

Example witness_run_ok : exec 1000 init_state [] witness_ops = witness_run.
Proof. vm_compute. reflexivity. Qed.

Example accept_ok_witness :
  snd (step 1000 (fst witness_run) (PTry 2 5 1100)) = 0%N /\
  accept_ok 1000 (snd witness_run) 2 1100 /\
  snd (step 1000 (fst witness_run) (PTry 2 5 1101)) = 7%N /\
  snd (step 1000 (fst (step 1000 (fst witness_run) (PTry 2 5 1100))) (PTry 2 6 1100)) = 5%N.
Proof.
  split; [vm_compute; reflexivity|]. split; [|split; vm_compute; reflexivity].
  exists 100, [(PTry 9 1 102, 8%N); (PTry 1 1 101, 8%N)].
  split; [vm_compute; reflexivity|]. vm_compute. repeat split; discriminate.
Qed.
