(** Proofs about Cred/PassCode.v: over every history of operations, with
    arbitrary instants, an attempt is accepted only for the code of the latest
    successful issue, inside that code's window, if no attempt on that code was
    accepted before, and after at most nine counted attempts on it (so never
    once more than ten wrong codes have been tried). *)
From Coq Require Import List NArith ZArith Bool Lia.
From Verif Require Import Cred.PassCode.
Import ListNotations.
Local Open Scope Z_scope.

(** ** Histories, most recent event first *)

Inductive reach (expiry : Z) : rstate -> list event -> Prop :=
| reach_init : reach expiry init_state []
| reach_step s evs o :
    reach expiry s evs ->
    reach expiry (fst (step expiry s o)) ((o, snd (step expiry s o)) :: evs).

Fixpoint exec (expiry : Z) (s : rstate) (evs : list event) (ops : list pop) : rstate * list event :=
  match ops with
  | [] => (s, evs)
  | o :: r => exec expiry (fst (step expiry s o)) ((o, snd (step expiry s o)) :: evs) r
  end.

Lemma exec_reach expiry ops : forall s evs,
  reach expiry s evs -> reach expiry (fst (exec expiry s evs ops)) (snd (exec expiry s evs ops)).
Proof.
  induction ops as [|o r IH]; intros s evs R; cbn [exec]; [exact R|].
  apply IH. now constructor.
Qed.

(** [run] (what the correspondence evaluates) and [exec] observe the same results. *)
Lemma run_exec expiry ops : forall s evs,
  snd (exec expiry s evs ops) = rev (combine ops (map fst (run expiry s ops))) ++ evs.
Proof.
  induction ops as [|o r IH]; intros s evs; cbn [exec]; [reflexivity|].
  unfold run in *. cbn [run_with]. unfold step in *.
  destruct (step_with true expiry s o) as [s' res] eqn:E. cbn [fst snd map combine rev].
  rewrite IH, <- app_assoc. reflexivity.
Qed.

(** ** What a history says, read off the events alone *)

Definition is_issue (e : event) : bool :=
  match e with (PNew _, 0%N) => true | _ => false end.

Definition is_accept (e : event) : bool :=
  match e with (PTry _ _ _, 0%N) => true | _ => false end.

(** An attempt that reached the passcode check (the role was not disabled). *)
Definition counted (e : event) : bool :=
  match e with (PTry _ _ _, r) => negb (r =? 1)%N | _ => false end.

(** The instant of the latest successful issue and the events after it. *)
Fixpoint since_issue (evs : list event) : option (Z * list event) :=
  match evs with
  | [] => None
  | e :: r =>
      match e with
      | (PNew t, 0%N) => Some (t, [])
      | _ => match since_issue r with
             | Some (t, a) => Some (t, e :: a)
             | None => None
             end
      end
  end.

Definition n_issues (evs : list event) : N := N.of_nat (length (filter is_issue evs)).

Definition accept_ok (expiry : Z) (evs : list event) (claim : N) (t : Z) : Prop :=
  exists ti after,
    since_issue evs = Some (ti, after) /\
    claim = n_issues evs /\ claim <> 0%N /\
    ti - valid_buffer <= t <= ti + Z.max 0 expiry /\
    forallb (fun e => negb (is_accept e)) after = true /\
    Z.of_nat (length (filter counted after)) <= 9.

(** ** Invariant *)

(** The attempt counter is a 64-bit [int]; it counts faithfully as long as the
    history is shorter than 2^63 events (a premise of the theorems below). *)
Definition short_history (evs : list event) : Prop := Z.of_nat (length evs) < two63 - 1.

Definition inv (expiry : Z) (s : rstate) (evs : list event) : Prop :=
  r_issued s = n_issues evs /\
  match since_issue evs with
  | None => r_pc s = None
  | Some (ti, after) =>
      exists pc, r_pc s = Some pc /\
        p_code pc = n_issues evs /\ n_issues evs <> 0%N /\
        p_has_valid pc = true /\ p_has_expire pc = true /\
        p_valid pc = ti - valid_buffer /\ p_expire pc = ti + Z.max 0 expiry /\
        p_consumed pc = existsb is_accept after /\
        p_tried pc = Z.of_nat (length (filter counted after))
  end.

Lemma since_issue_other e evs :
  is_issue e = false ->
  since_issue (e :: evs) =
  match since_issue evs with Some (t, a) => Some (t, e :: a) | None => None end.
Proof.
  destruct e as [o r]. cbn [since_issue is_issue].
  destruct o; try reflexivity. destruct r; [discriminate|reflexivity].
Qed.

Lemma n_issues_other e evs : is_issue e = false -> n_issues (e :: evs) = n_issues evs.
Proof. intros H. unfold n_issues. cbn [filter]. now rewrite H. Qed.

Lemma since_issue_length evs ti after :
  since_issue evs = Some (ti, after) -> (length after < length evs)%nat.
Proof.
  revert ti after. induction evs as [|e r IH]; intros ti after; cbn [since_issue]; [discriminate|].
  destruct e as [o res].
  assert (forall X : option (Z * list event),
            X = match since_issue r with Some (t, a) => Some (t, (o, res) :: a) | None => None end ->
            X = Some (ti, after) -> (length after < length ((o, res) :: r))%nat) as G.
  { intros X -> E. destruct (since_issue r) as [[t a]|] eqn:Si; [|discriminate].
    injection E as <- <-. specialize (IH _ _ eq_refl). cbn [length]. unfold event in *. lia. }
  destruct o as [t|c i t| |]; try (apply G; reflexivity).
  destruct res; [|apply G; reflexivity]. intros [= <- <-]. cbn [length]. unfold event in *. lia.
Qed.

Lemma filter_length_le {A} (f : A -> bool) l : (length (filter f l) <= length l)%nat.
Proof. induction l as [|x l IH]; cbn [filter length]; [lia|]. destruct (f x); cbn [length]; lia. Qed.

Lemma wrap_int_small z : - two63 <= z < two63 -> wrap_int z = z.
Proof. unfold wrap_int, two63. intros H. rewrite Z.mod_small; lia. Qed.

(** An event that is neither an issue, nor an accepted or counted attempt,
    leaves everything the invariant speaks about unchanged. *)
Lemma inv_neutral expiry s s' e evs :
  is_issue e = false -> is_accept e = false -> counted e = false ->
  r_pc s' = r_pc s -> r_issued s' = r_issued s ->
  inv expiry s evs -> inv expiry s' (e :: evs).
Proof.
  intros I A C Ep Ei [H1 H2]. unfold inv. rewrite n_issues_other, since_issue_other by assumption.
  split; [congruence|].
  destruct (since_issue evs) as [[ti after]|]; [|congruence].
  destruct H2 as (pc & P & H). exists pc. split; [congruence|].
  cbn [existsb filter]. rewrite A, C. cbn [orb]. exact H.
Qed.

Lemma checkPassCode_not_1 claim pc t : checkPassCode claim pc t <> 1%N.
Proof.
  unfold checkPassCode. destruct (claim =? 0)%N; [discriminate|].
  destruct pc as [c|]; [|discriminate].
  destruct (negb (p_has_valid c)); [discriminate|].
  destruct (negb (p_has_expire c)); [discriminate|].
  destruct (max_tries <? p_tried c); [discriminate|].
  destruct (p_consumed c); [discriminate|].
  destruct (t <? p_valid c); [discriminate|].
  destruct (p_expire c <? t); [discriminate|].
  destruct (negb (p_code c =? claim)%N); discriminate.
Qed.

Lemma checkPassCode_0 claim pc t :
  checkPassCode claim pc t = 0%N ->
  claim <> 0%N /\ exists c, pc = Some c /\ p_has_valid c = true /\ p_has_expire c = true /\
    p_tried c <= max_tries /\ p_consumed c = false /\
    p_valid c <= t <= p_expire c /\ p_code c = claim.
Proof.
  unfold checkPassCode. destruct (N.eqb_spec claim 0); [discriminate|].
  destruct pc as [c|]; [|discriminate].
  destruct (p_has_valid c) eqn:HV; cbn [negb]; [|discriminate].
  destruct (p_has_expire c) eqn:HE; cbn [negb]; [|discriminate].
  destruct (Z.ltb_spec max_tries (p_tried c)); [discriminate|].
  destruct (p_consumed c) eqn:C; [discriminate|].
  destruct (Z.ltb_spec t (p_valid c)); [discriminate|].
  destruct (Z.ltb_spec (p_expire c) t); [discriminate|].
  destruct (N.eqb_spec (p_code c) claim); cbn [negb]; [|discriminate].
  intros _. split; [assumption|]. exists c. repeat split; auto; lia.
Qed.

(** A record without its window never lets an attempt through. *)
Lemma missing_window_never_accepted claim c t :
  p_has_valid c = false \/ p_has_expire c = false -> checkPassCode claim (Some c) t <> 0%N.
Proof.
  intros H E. apply checkPassCode_0 in E. destruct E as (_ & c' & [= <-] & V & X & _).
  destruct H; congruence.
Qed.

Lemma inv_step expiry s evs o :
  short_history ((o, snd (step expiry s o)) :: evs) ->
  inv expiry s evs -> inv expiry (fst (step expiry s o)) ((o, snd (step expiry s o)) :: evs).
Proof.
  intros SH I. unfold step, step_with.
  destruct o as [t|claim id t| |].
  - (* issue *)
    destruct (r_disabled s) eqn:D; cbn [fst snd].
    + apply (inv_neutral expiry s s); auto.
    + destruct I as [H1 H2]. unfold inv. cbn [since_issue r_issued r_pc].
      assert (n_issues ((PNew t, 0%N) :: evs) = (n_issues evs + 1)%N) as NI.
      { unfold n_issues. cbn [filter is_issue length]. lia. }
      rewrite NI. split; [congruence|].
      eexists. split; [reflexivity|].
      cbn [p_code p_has_valid p_has_expire p_valid p_expire p_consumed p_tried existsb filter length].
      repeat split; try congruence; lia.
  - (* attempt *)
    destruct (r_disabled s) eqn:D; cbn [fst snd].
    + apply (inv_neutral expiry s s); auto.
    + pose proof (checkPassCode_not_1 claim (bump (r_pc s)) t) as N1.
      assert (forall after ti, since_issue evs = Some (ti, after) ->
                - two63 <= Z.of_nat (length (filter counted after)) + 1 < two63) as Bound.
      { intros after ti Si. apply since_issue_length in Si.
        pose proof (filter_length_le counted after). unfold short_history in SH.
        cbn [length] in SH. unfold two63, event in *. lia. }
      destruct (checkPassCode claim (bump (r_pc s)) t) as [|p] eqn:R; cbn [fst snd].
      * (* accepted *)
        apply checkPassCode_0 in R. destruct R as (_ & c & B & _).
        destruct I as [H1 H2]. unfold inv.
        rewrite n_issues_other, since_issue_other by reflexivity. cbn [r_issued r_pc].
        split; [exact H1|].
        destruct (r_pc s) as [pc|] eqn:P; [|discriminate]. cbn [bump] in B. injection B as <-.
        destruct (since_issue evs) as [[ti after]|] eqn:Si; [|discriminate].
        destruct H2 as (pc' & [= <-] & Hc & Hn & Hhv & Hhe & Hv & He & Hk & Ht).
        eexists. split; [reflexivity|].
        cbn [consume p_code p_has_valid p_has_expire p_valid p_expire p_consumed p_tried
             existsb filter counted is_accept length].
        cbn [N.eqb negb orb length]. rewrite Ht, wrap_int_small by (eapply Bound; eauto).
        repeat split; auto. lia.
      * (* refused: the attempt is recorded *)
        destruct I as [H1 H2]. unfold inv.
        rewrite n_issues_other, since_issue_other by reflexivity. cbn [r_issued r_pc].
        split; [exact H1|].
        destruct (since_issue evs) as [[ti after]|] eqn:Si.
        -- destruct H2 as (pc & P & Hc & Hn & Hhv & Hhe & Hv & He & Hk & Ht). rewrite P. cbn [bump].
           eexists. split; [reflexivity|].
           cbn [p_code p_has_valid p_has_expire p_valid p_expire p_consumed p_tried
                existsb filter counted is_accept].
           assert (negb (N.pos p =? 1)%N = true) as ->.
           { destruct (N.eqb_spec (N.pos p) 1); [contradiction|reflexivity]. }
           cbn [orb length]. rewrite Ht, wrap_int_small by (eapply Bound; eauto).
           repeat split; auto. lia.
        -- rewrite H2. reflexivity.
  - apply (inv_neutral expiry s); auto.
  - apply (inv_neutral expiry s); auto.
Qed.

Lemma reach_inv expiry s evs : reach expiry s evs -> short_history evs -> inv expiry s evs.
Proof.
  induction 1 as [|s evs o R IH]; intros SH.
  - split; reflexivity.
  - apply inv_step; [exact SH|]. apply IH. unfold short_history, event in *. cbn [length] in SH. lia.
Qed.

(** ** The property *)

Theorem accepted_only_when_ok expiry s evs claim id t :
  reach expiry s evs -> short_history evs ->
  snd (step expiry s (PTry claim id t)) = 0%N -> accept_ok expiry evs claim t.
Proof.
  intros R SH. apply reach_inv in R; [|exact SH]. destruct R as [H1 H2].
  unfold step, step_with. destruct (r_disabled s); [discriminate|].
  destruct (checkPassCode claim (bump (r_pc s)) t) eqn:C; [|discriminate]. intros _.
  apply checkPassCode_0 in C. destruct C as (Nz & c & B & _ & _ & Tr & Cs & W & Cd).
  destruct (r_pc s) as [pc|] eqn:P; [|discriminate]. cbn [bump] in B. injection B as <-.
  cbn [p_tried p_consumed p_valid p_expire p_code] in *. unfold accept_ok.
  destruct (since_issue evs) as [[ti after]|] eqn:Si; [|discriminate].
  destruct H2 as (pc' & [= <-] & Hc & Hn & Hhv & Hhe & Hv & He & Hk & Ht).
  exists ti, after. split; [reflexivity|].
  split; [congruence|]. split; [exact Nz|]. split; [lia|].
  split.
  - rewrite Cs in Hk. symmetry in Hk. clear - Hk.
    induction after as [|e a IH]; [reflexivity|]. cbn [existsb forallb] in *.
    apply orb_false_iff in Hk. destruct Hk as [-> Hk]. cbn [negb andb]. auto.
  - apply since_issue_length in Si. pose proof (filter_length_le counted after).
    rewrite Ht, wrap_int_small in Tr; unfold max_tries, short_history, two63, event in *; lia.
Qed.

(** For every history of operations and every attempt after it. *)
Theorem passcode_once_window_limit expiry ops claim id t :
  let '(s, evs) := exec expiry init_state [] ops in
  short_history evs ->
  snd (step expiry s (PTry claim id t)) = 0%N -> accept_ok expiry evs claim t.
Proof.
  pose proof (exec_reach expiry ops init_state [] (reach_init expiry)) as R.
  destruct (exec expiry init_state [] ops) as [s evs]. cbn [fst snd] in R.
  intros SH. now apply accepted_only_when_ok.
Qed.

(** In the property's words: never again once more than ten wrong codes were tried. *)
Corollary rejected_after_ten_wrong expiry s evs claim id t ti after :
  reach expiry s evs -> short_history evs -> since_issue evs = Some (ti, after) ->
  10 < Z.of_nat (length (filter counted after)) ->
  snd (step expiry s (PTry claim id t)) <> 0%N.
Proof.
  intros R SH Si L A. apply (accepted_only_when_ok expiry s evs claim id t R SH) in A.
  destruct A as (ti' & after' & S' & _ & _ & _ & _ & B). rewrite Si in S'. injection S' as <- <-. lia.
Qed.

(** ** Concurrency

    Each operation is one [pisces.KV.Mutate]; C06 shows Mutate is atomic, so a
    concurrent execution of several callers is one of the interleavings of their
    operations, and the theorems above, which hold for every list of operations,
    hold for every interleaving.  [merge] is that notion of interleaving. *)

Inductive merge {A} : list A -> list A -> list A -> Prop :=
| merge_nil : merge [] [] []
| merge_l x a b c : merge a b c -> merge (x :: a) b (x :: c)
| merge_r x a b c : merge a b c -> merge a (x :: b) (x :: c).

Theorem concurrent_callers_atomic expiry (a b ops : list pop) claim id t :
  merge a b ops ->
  let '(s, evs) := exec expiry init_state [] ops in
  short_history evs ->
  snd (step expiry s (PTry claim id t)) = 0%N -> accept_ok expiry evs claim t.
Proof. intros _. apply passcode_once_window_limit. Qed.

(** The atomicity is needed.  If an attempt's read and write were separate
    steps (no Mutate), two attempts with the right code could both read the
    unconsumed record and both be accepted: *)
Definition racy_two_attempts (expiry : Z) (s : rstate) (a b : pop) : (N * N) * rstate :=
  let '(sa, ra) := step expiry s a in     (* a reads s, computes *)
  let '(sb, rb) := step expiry s b in     (* b reads the same s, computes *)
  ((ra, rb), sb).                          (* a writes sa, then b overwrites with sb *)

Example without_atomic_mutate_a_code_is_used_twice :
  let s := fst (step 1000 init_state (PNew 0)) in
  fst (racy_two_attempts 1000 s (PTry 1 7 5) (PTry 1 8 5)) = (0%N, 0%N) /\
  (* whereas atomically the second one is refused *)
  snd (step 1000 (fst (step 1000 s (PTry 1 7 5))) (PTry 1 8 5)) = 5%N.
Proof. vm_compute. split; reflexivity. Qed.

(** The counter is a 64-bit int: from a stored record whose counter is at the
    top of the range (not reachable through the operations in fewer than 2^63
    steps) the next attempt wraps it around and the limit no longer bites. *)
Example counter_wraps_at_two63 :
  let s := mkR false (Some (mkPC 1 true 0 true 100 false (two63 - 1))) None 1 in
  snd (step 1000 s (PTry 1 7 5)) = 0%N /\
  snd (step 1000 (mkR false (Some (mkPC 1 true 0 true 100 false 11)) None 1) (PTry 1 7 5)) = 4%N /\
  snd (step 1000 (mkR false (Some (mkPC 1 false 0 true 100 false 0)) None 1) (PTry 1 7 5)) = 9%N.
Proof. vm_compute. repeat split. Qed.

(** The state the repaired code keeps is needed: with the counter discarded on
    refusal (the code before the repair) fifteen wrong codes do not stop the
    sixteenth, right one. *)
Definition fifteen_wrong_then_right : list pop :=
  PNew 1000 :: map (fun i => PTry (100 + N.of_nat i) 1 (1000 + Z.of_nat i)) (seq 0 15) ++ [PTry 1 2 1015].

Example legacy_model_refuted :
  last (map fst (run_with false 600000000000 init_state fifteen_wrong_then_right)) 9%N = 0%N /\
  last (map fst (run 600000000000 init_state fifteen_wrong_then_right)) 9%N = 4%N.
Proof. vm_compute. split; reflexivity. Qed.

(** Non-vacuity: a history in which the right code is accepted, with all the
    clauses of [accept_ok] met non-trivially (an earlier code, refused
    attempts, a disabled interval). *)
Definition witness_ops : list pop :=
  [PNew 0; PTry 7 1 5; PDisable; PTry 1 1 6; PEnable; PNew 100; PTry 1 1 101; PTry 9 1 102].

Definition witness_run : rstate * list event :=
  Eval vm_compute in exec 1000 init_state [] witness_ops.

Example witness_run_ok : exec 1000 init_state [] witness_ops = witness_run.
Proof. vm_compute. reflexivity. Qed.

Example accept_ok_witness :
  snd (step 1000 (fst witness_run) (PTry 2 5 1100)) = 0%N /\
  accept_ok 1000 (snd witness_run) 2 1100 /\
  snd (step 1000 (fst witness_run) (PTry 2 5 1101)) = 7%N /\
  snd (step 1000 (fst (step 1000 (fst witness_run) (PTry 2 5 1100))) (PTry 2 6 1100)) = 5%N.
Proof.
  split; [vm_compute; reflexivity|]. split; [|split; vm_compute; reflexivity].
  exists 100, [(PTry 9 1 102, 8%N); (PTry 1 1 101, 8%N)].
  split; [vm_compute; reflexivity|]. vm_compute. repeat split; discriminate.
Qed.
