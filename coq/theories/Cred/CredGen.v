(** Obligations on the objects regenerated from /repo's source
    (Gen/CredConsts.v): the constants the models of C16 were written with are
    the ones in the current source. *)
From Coq Require Import List NArith ZArith Bool String.
From Verif Require Import Lib.Bytes Lib.Codec Cred.Sign Cred.Jwt Cred.PassCode Gen.CredConsts.
Import ListNotations.
Local Open Scope Z_scope.

Lemma gen_timestamp_len_ok : gen_timestamp_len = Z.of_nat ts_len.
Proof. vm_compute. reflexivity. Qed.

Lemma gen_pass_max_tries_ok : gen_pass_max_tries = max_tries.
Proof. vm_compute. reflexivity. Qed.

Lemma gen_pass_valid_buffer_ok : gen_pass_valid_buffer = valid_buffer.
Proof. vm_compute. reflexivity. Qed.

Lemma gen_jwt_grace_ok : gen_jwt_issue_shift = - grace_ns.
Proof. vm_compute. reflexivity. Qed.
