(** Obligations on the objects regenerated from /repo's source
    (Gen/CredConsts.v).  Each is decided by computation; when the source
    changes shape, the corresponding [Lemma] stops checking.

    [expected_guards] is the statement-level skeleton (conditions, returns,
    assignments and calls, in source order) of every function the models of
    C16 transcribe, as it stands in the repaired code.  The models in
    Cred/{Sign,Jwt,PassCode}.v were written against exactly these skeletons. *)
From Coq Require Import List NArith ZArith Bool String Ascii.
From Verif Require Import Lib.Bytes Lib.Codec Cred.Sign Cred.Jwt Cred.PassCode Gen.CredConsts.
Import ListNotations.
Local Open Scope Z_scope.

(** ** Constants *)

Lemma gen_timestamp_len_ok : gen_timestamp_len = Z.of_nat ts_len.
Proof. vm_compute. reflexivity. Qed.

Lemma gen_pass_max_tries_ok : gen_pass_max_tries = max_tries.
Proof. vm_compute. reflexivity. Qed.

Lemma gen_pass_valid_buffer_ok : gen_pass_valid_buffer = valid_buffer.
Proof. vm_compute. reflexivity. Qed.

(** the default lifetime of a passcode is positive (10 minutes) *)
Lemma gen_pass_default_expiry_ok : gen_pass_default_expiry = 600 * sec_ns.
Proof. vm_compute. reflexivity. Qed.

Lemma gen_jwt_grace_ok : gen_jwt_issue_shift = - grace_ns.
Proof. vm_compute. reflexivity. Qed.

Fixpoint bytes_of_string (s : string) : bytes :=
  match s with
  | EmptyString => []
  | String a r => N_of_ascii a :: bytes_of_string r
  end.

Lemma gen_names_ok :
  bytes_of_string gen_alg_hs256 = alg_hs256 /\
  bytes_of_string gen_alg_rs256 = alg_rs256 /\
  bytes_of_string gen_default_type = typ_jwt /\
  bytes_of_string gen_rsa_key_type = key_type_rsa /\
  bytes_of_string gen_identity_self = self_iss.
Proof. vm_compute. repeat split. Qed.

(** ** Guard skeletons *)

Local Open Scope string_scope.

Definition expected_guards : list (string * list string) :=
  [ ("signer.Signer.Sign",
     [ "buf := new(bytes.Buffer)";
       "buf.Write(dat)";
       "h := s.hash(buf.Bytes())";
       "buf.Write(h)";
       "return buf.Bytes()" ]);
    ("signer.Signer.Check",
     [ "n := len(bs)";
       "if n < sha256.Size";
       "return false, nil";
       "dat := bs[:n-sha256.Size]";
       "hashGot := bs[n-sha256.Size:]";
       "hashWant := s.hash(dat)";
       "if !hmac.Equal(hashGot, hashWant)";
       "return false, nil";
       "return true, dat" ]);
    ("signer.Signer.SignHex",
     [ "return hex.EncodeToString(s.Sign(dat))" ]);
    ("signer.Signer.CheckHex",
     [ "bs, err := hex.DecodeString(str)";
       "if err != nil";
       "return false, nil";
       "if hex.EncodeToString(bs) != str";
       "return false, nil";
       "return s.Check(bs)" ]);
    ("signer.Sessions.New",
     [ "buf := new(bytes.Buffer)";
       "if ttl <= 0 || ttl > s.ttl";
       "ttl = s.ttl";
       "expires := now(s.TimeFunc).Add(ttl)";
       "ts := make([]byte, timestampLen)";
       "binary.LittleEndian.PutUint64(ts, uint64(expires.UnixNano()))";
       "buf.Write(ts)";
       "if data != nil";
       "buf.Write(data)";
       "return s.s.SignHex(buf.Bytes()), expires" ]);
    ("signer.Sessions.Check",
     [ "ok, bs := s.s.CheckHex(session)";
       "if !ok";
       "return nil, 0, false";
       "if len(bs) < timestampLen";
       "return nil, 0, false";
       "ts := int64(binary.LittleEndian.Uint64(bs[:timestampLen]))";
       "expire := time.Unix(0, ts)";
       "timeNow := now(s.TimeFunc)";
       "if !timeNow.Before(expire)";
       "return nil, 0, false";
       "return bs[timestampLen:], expire.Sub(timeNow), true" ]);
    ("signer.signTime",
     [ "buf := make([]byte, timestampLen)";
       "binary.LittleEndian.PutUint64(buf, uint64(t.UnixNano()))";
       "return s.SignHex(buf)" ]);
    ("signer.NewTimeSigner",
     [ "if window < 0";
       "window = -window";
       "return &TimeSigner{ s: New(key), window: window, }" ]);
    ("signer.TimeSigner.Check",
     [ "ok, bs := s.s.CheckHex(token)";
       "if !ok";
       "return false";
       "if len(bs) != timestampLen";
       "return false";
       "t := time.Unix(0, int64(binary.LittleEndian.Uint64(bs)))";
       "timeNow := now(s.TimeFunc)";
       "return inWindow(t, timeNow, s.window)" ]);
    ("signer.inWindow",
     [ "tstart := tnow.Add(-w)";
       "tend := tnow.Add(w)";
       "return t.After(tstart) && t.Before(tend)" ]);
    ("signer.NewRSATimeSigner",
     [ "if w < 0";
       "w = -w";
       "return &RSATimeSigner{ k: k, window: w, }" ]);
    ("signer.RSATimeSigner.Check",
     [ "if len(b.Data) < 8";
       "return fmt.Errorf(""data too short to have a timestamp"")";
       "t := time.Unix(0, int64(binary.LittleEndian.Uint64(b.Data)))";
       "timeNow := now(s.TimeFunc)";
       "if !inWindow(t, timeNow, s.window)";
       "return fmt.Errorf(""time out of window"")";
       "hash := sha256.Sum256(b.Data)";
       "if !bytes.Equal(hash[:], b.Hash)";
       "return fmt.Errorf(""hash incorrect"")";
       "return rsa.VerifyPKCS1v15(s.k, crypto.SHA256, b.Hash, b.Sig)" ]);
    ("jwt.decodeSegmentBytes",
     [ "bs, err := base64.RawURLEncoding.DecodeString(s)";
       "if err != nil";
       "return nil, err";
       "if encodeSegmentBytes(bs) != s";
       "return nil, errcode.InvalidArgf(""not canonical base64url"")";
       "return bs, nil" ]);
    ("jwt.encodeSegmentBytes",
     [ "return base64.RawURLEncoding.EncodeToString(bs)" ]);
    ("jwt.Decode",
     [ "parts := strings.Split(token, ""."")";
       "if len(parts) != 3";
       "return nil, errcode.InvalidArgf( ""invalid token: %d parts"", len(parts), )";
       "h, c, sig := parts[0], parts[1], parts[2]";
       "header := new(Header)";
       "if err != nil";
       "err := decodeSegment(h, header)";
       "return nil, errcode.InvalidArgf(""decode header: %s"", err)";
       "payload := []byte(token[:len(h)+1+len(c)])";
       "sigBytes, err := decodeSegmentBytes(sig)";
       "if err != nil";
       "return nil, errcode.InvalidArgf(""decode signature: %s"", err)";
       "claims, err := decodeClaimSet(c)";
       "if err != nil";
       "return nil, errcode.InvalidArgf(""decode claims: %s"", err)";
       "return &Token{ Header: header, ClaimSet: claims, Payload: payload, Signature: sigBytes, }, nil" ]);
    ("jwt.DecodeAndVerify",
     [ "decoded, err := Decode(token)";
       "if err != nil";
       "return nil, errcode.Annotate(err, ""decode token"")";
       "if err != nil";
       "err := Verify(ctx, decoded, v, t)";
       "return nil, err";
       "return decoded, nil" ]);
    ("jwt.Verify",
     [ "if v != nil";
       "if err != nil";
       "err := v.Verify( ctx, tok.Header, tok.Payload, tok.Signature, t, )";
       "return errcode.Annotate(err, ""verify signature"")";
       "_, err := CheckTime(tok.ClaimSet, t)";
       "return err" ]);
    ("jwt.HS256.Verify",
     [ "if err != nil";
       "err := checkHeader(hdr, h.header)";
       "return err";
       "want := h.mac(data)";
       "if !hmac.Equal(want, sig)";
       "return errcode.InvalidArgf(""wrong signature"")";
       "return nil" ]);
    ("jwt.checkHeader",
     [ "if got.KeyID != want.KeyID";
       "return errcode.InvalidArgf(""kid=%q, want %q"", got.KeyID, want.KeyID)";
       "if got.Alg != want.Alg";
       "return errcode.InvalidArgf(""alg=%q, want %q"", got.Alg, want.Alg)";
       "if got.Typ != want.Typ";
       "return errcode.InvalidArgf(""typ=%q, want %q"", got.Typ, want.Typ)";
       "return nil" ]);
    ("jwt.CheckTime",
     [ "issued := time.Unix(claims.Iat, 0).Add(-5 * time.Minute)";
       "if !issued.Before(now)";
       "return 0, errcode.Unauthorizedf(""token issued in the future"")";
       "expires := time.Unix(claims.Exp, 0)";
       "if now.After(expires)";
       "return 0, errcode.Unauthorizedf(""token expired"")";
       "return expires.Sub(now), nil" ]);
    ("jwt.CheckClaimSet",
     [ "if claims == nil";
       "return errcode.Unauthorizedf(""claims missing"")";
       "if tmpl == nil";
       "return nil";
       "if tmpl.Iss != """"";
       "if claims.Iss != tmpl.Iss";
       "return errcode.Unauthorizedf(""wrong issuer"")";
       "if tmpl.Aud != """"";
       "if claims.Aud != tmpl.Aud";
       "return errcode.Unauthorizedf(""wrong audiance"")";
       "if tmpl.Typ != """"";
       "if claims.Typ != tmpl.Typ";
       "return errcode.Unauthorizedf(""wrong type"")";
       "if tmpl.Sub != """"";
       "if claims.Sub != tmpl.Sub";
       "return errcode.Unauthorizedf(""wrong subject"")";
       "if tmpl.Scope != """"";
       "tmplScopes := strings.Fields(tmpl.Scope)";
       "claimScopesSet := strutil.MakeSet(strings.Fields(claims.Scope))";
       "range tmplScopes";
       "if !ok";
       "_, ok := claimScopesSet[s]";
       "return errcode.Unauthorizedf(""scope %q missing"", s)";
       "return nil" ]);
    ("identity.jwtVerifier.Verify",
     [ "if h.Alg != jwt.AlgRS256";
       "return errcode.InvalidArgf(""alg %q not supported"", h.Alg)";
       "k, err := publicKeyFromCard(ctx, v.card, h.KeyID)";
       "if err != nil";
       "return errcode.Annotate(err, ""find public key"")";
       "if k.Type != rsaKeyType";
       "return errcode.NotFoundf(""key type not supported"")";
       "if err != nil";
       "err := publicKeyValid(k, t)";
       "return errcode.Annotate(err, ""invalid key"")";
       "pub, err := rsautil.ParsePublicKey([]byte(k.Key))";
       "if err != nil";
       "return err";
       "hash := sha256.Sum256(data)";
       "return rsa.VerifyPKCS1v15(pub, crypto.SHA256, hash[:], sig)" ]);
    ("identity.publicKeyValid",
     [ "if k.NotValidBefore > 0";
       "if now.Before(time.Unix(k.NotValidBefore, 0))";
       "return errcode.InvalidArgf(""key not valid yet"")";
       "if now.After(time.Unix(k.NotValidAfter, 0))";
       "return errcode.InvalidArgf(""key expired"")";
       "return nil" ]);
    ("identity.FindPublicKey",
     [ "range id.PublicKeys";
       "if k.ID == keyID";
       "pub = k";
       "return pub" ]);
    ("identity.VerifySelfToken",
     [ "v := NewJWTVerifier(card)";
       "decoded, err := jwt.DecodeAndVerify(ctx, token, v, t)";
       "if err != nil";
       "return nil, err";
       "claims := decoded.ClaimSet";
       "if claims == nil";
       "return nil, errcode.Unauthorizedf(""claims missing"")";
       "wantClaims := &jwt.ClaimSet{ Iss: Self, Sub: user, Aud: host, }";
       "if err != nil";
       "err := jwt.CheckClaimSet(claims, wantClaims)";
       "return nil, errcode.Annotate(err, ""check claims"")";
       "return decoded, nil" ]);
    ("roles.checkPassCode",
     [ "if claim == """"";
       "return errcode.Unauthorizedf(""empty passcode"")";
       "if code == nil";
       "return errcode.Unauthorizedf(""no passcode set"")";
       "if code.Valid == nil";
       "return errcode.Internalf(""passcode valid time missing"")";
       "if code.Expire == nil";
       "return errcode.Internalf(""passcode expire time missing"")";
       "if code.Tried > passCodeMaxTries";
       "return errcode.Unauthorizedf(""passcode wrong too many times"")";
       "if code.Consumed";
       "return errcode.Unauthorizedf(""passcode already consumed"")";
       "valid := code.Valid.Time()";
       "if now.Before(valid)";
       "return errcode.Unauthorizedf(""passcode not valid yet"")";
       "expire := code.Expire.Time()";
       "if now.After(expire)";
       "return errcode.Unauthorizedf(""passcode expired"")";
       "if !subtleStringEq(code.Code, claim)";
       "return errcode.Unauthorizedf(""passcode incorrect"")";
       "return nil" ]);
    ("roles.Roles.SetupWithCode",
     [ "if err != nil";
       "<stmt with func>";
       "checkErr = nil";
       "if r.Role.Disabled";
       "return errcode.InvalidArgf(""role is disabled"")";
       "if r.PassCode != nil";
       "r.PassCode.Tried++";
       "if err != nil";
       "err := checkPassCode(code, r.PassCode, t)";
       "if r.PassCode == nil";
       "return err";
       "checkErr = err";
       "return nil";
       "r.Identity = id";
       "r.PassCode.Consumed = true";
       "return nil";
       "return err";
       "return checkErr" ]);
    ("roles.Roles.NewPassCode",
     [ "code := &passCode{ Code: rand.Digits(8), Valid: timeutil.NewTimestamp(now.Add(-buffer)), Expire: timeutil.NewTimestamp(now.Add(b.passCodeExpiry)), }";
       "if err != nil";
       "<stmt with func>";
       "if r.Role.Disabled";
       "return errcode.InvalidArgf(""role is disabled"")";
       "r.PassCode = code";
       "return nil";
       "return nil, err";
       "return code.public(), nil" ]);
    ("roles.Roles.SetPassCodeExpiry",
     [ "if d < zero";
       "d = zero";
       "b.passCodeExpiry = d" ]) ].

Fixpoint strings_eqb (a b : list string) : bool :=
  match a, b with
  | [], [] => true
  | x :: a', y :: b' => String.eqb x y && strings_eqb a' b'
  | _, _ => false
  end.

Fixpoint guards_eqb (a b : list (string * list string)) : bool :=
  match a, b with
  | [], [] => true
  | (n, g) :: a', (m, h) :: b' => String.eqb n m && strings_eqb g h && guards_eqb a' b'
  | _, _ => false
  end.

(** The functions whose skeleton differs from the expected one. *)
Fixpoint guards_diff (a b : list (string * list string)) {struct a} : list string :=
  match a with
  | [] => map fst b
  | (n, g) :: a' =>
      match b with
      | [] => n :: map fst a'
      | (m, h) :: b' =>
          if String.eqb n m && strings_eqb g h then guards_diff a' b' else n :: guards_diff a' b'
      end
  end.

Lemma gen_guards_frozen : guards_diff gen_guards expected_guards = [].
Proof. vm_compute. reflexivity. Qed.

(** ** Long-lived objects hold configuration only

    The credential objects are used for many calls (and from many goroutines).
    The models are functions of the configuration and the call's arguments; that
    is sound only if no call leaves anything behind in the object.  Decided on
    what the translator extracts: every field of every such type has one of the
    configuration types below (a key, a duration, a clock or callback, a card /
    signer / verifier / store / table handle: nothing a method could
    accumulate results in, such as a hash state, a map or a cache), and no
    method assigns through its receiver, the two setters of [Roles] apart.
    Cred/UsageProofs.v ([history_pointwise]) is the consequence: the result of a
    call in any history is the result of that call alone. *)
Definition config_types : list string :=
  [ "[]byte"; "string"; "time.Duration"; "func() time.Time";
    "*Signer"; "*signer.Signer"; "*signer.Sessions"; "*rsa.PublicKey"; "*Header";
    "Card"; "identity.Card"; "Signer"; "SimpleStore"; "jwt.Verifier"; "signin.Tokener";
    "func(user string) (interface{}, int, error)"; "io.Reader"; "*pisces.KV" ].

Definition config_setters : list string :=
  [ "roles.Roles.SetPassCodeExpiry"; "roles.Roles.SetHostDomain" ].

Definition expected_objects : list string :=
  [ "signer.Signer"; "signer.Sessions"; "signer.TimeSigner"; "signer.RSATimeSigner"; "jwt.HS256";
    "identity.jwtVerifier"; "identity.jwtSigner"; "identity.simpleCore";
    "signin/authgate.Gate"; "signin/authgate.Exchange"; "signin/authgate.Challenger"; "roles.Roles" ].

Definition mem_string (x : string) (l : list string) : bool := existsb (String.eqb x) l.

(** Fields whose type is not a configuration type, and methods that write through their receiver. *)
Definition stateful_fields (fs : list (string * list (string * string))) : list (string * string) :=
  flat_map (fun o => map (fun f => (fst o, fst f))
                         (filter (fun f => negb (mem_string (snd f) config_types)) (snd o))) fs.

Definition writing_methods (ws : list (string * list string)) : list string :=
  map fst (filter (fun m => match snd m with [] => false | _ => negb (mem_string (fst m) config_setters) end) ws).

Definition objects_stateless (fs : list (string * list (string * string))) (ws : list (string * list string)) : Prop :=
  map fst fs = expected_objects /\ stateful_fields fs = [] /\ writing_methods ws = [] /\
  (List.length expected_objects <= List.length ws)%nat.

Lemma gen_objects_stateless : objects_stateless gen_object_fields gen_receiver_writes.
Proof. unfold objects_stateless. vm_compute. repeat split. repeat constructor. Qed.

(** The predicate does notice a cache: a hash state kept in the Signer, or a
    verifier remembering keys, is reported. *)
Example objects_stateless_notices_a_cache :
  stateful_fields [("signer.Signer", [("key", "[]byte"); ("m", "hash.Hash")])] = [("signer.Signer", "m")] /\
  writing_methods [("identity.jwtVerifier.Verify", ["v.cache[h.KeyID] = k"])] = ["identity.jwtVerifier.Verify"].
Proof. vm_compute. split; reflexivity. Qed.

(** ** Where the bytes of a result live

    Cred/Own.v models [Signer.Sign] with its result in an array of its own
    ([fresh = true]); that is what the ownership theorems of Cred/OwnProofs.v
    need.  Decided on the origins the translator reads off the source: every
    return of [Sign] (and of [hash]) hands out memory made inside the function,
    never [append] to the parameter; [Check] returns nothing or a view of its
    argument (the caller's own memory). *)
Fixpoint origins_of (name : string) (l : list (string * list string)) : list string :=
  match l with
  | [] => []
  | (n, o) :: r => if String.eqb n name then o else origins_of name r
  end.

Definition all_fresh (o : list string) : bool :=
  match o with [] => false | _ => forallb (String.eqb "fresh") o end.

Definition sign_result_fresh (l : list (string * list string)) : bool :=
  all_fresh (origins_of "signer.Signer.Sign" l) && all_fresh (origins_of "signer.Signer.hash" l)
  && forallb (fun o => String.eqb o "nil" || String.eqb o "view-of-param bs") (origins_of "signer.Signer.Check" l)
  && negb (match origins_of "signer.Signer.Check" l with [] => true | _ => false end).

Lemma gen_sign_result_fresh : sign_result_fresh gen_result_origins = true.
Proof. vm_compute. reflexivity. Qed.

Example sign_result_fresh_notices_append :
  sign_result_fresh [("signer.Signer.Sign", ["append-to-param dat"]); ("signer.Signer.hash", ["fresh"]);
                     ("signer.Signer.Check", ["nil"; "view-of-param bs"])] = false.
Proof. vm_compute. reflexivity. Qed.

(** ** The signer's key is the whole key it was given

    Decided on what signer.New stores in every Signer it builds: the parameter
    itself, a copy of all of it, or (for a nil key) fresh random bytes; never a
    buffer of a fixed length. *)
Definition whole_key_forms : list string :=
  [ "param key"; "copy-of-param key"; "make(len(key))+copy"; "random" ].

Definition signer_key_whole (l : list string) : bool :=
  match l with [] => false | _ => forallb (fun o => mem_string o whole_key_forms) l end
  && existsb (fun o => negb (String.eqb o "random")) l.

Lemma gen_signer_key_whole : signer_key_whole gen_signer_stored_key = true.
Proof. vm_compute. reflexivity. Qed.

Example signer_key_whole_notices_truncation :
  signer_key_whole ["random"; "make(keySize)+copy"] = false.
Proof. vm_compute. reflexivity. Qed.
