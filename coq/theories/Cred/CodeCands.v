(** Candidate inputs for the counterexample search of the credential code
    refinement (Cred/CodeRefine.v), and the adapters between Go's result
    tuples and the models' option types.  Requires only the generated file
    and the models. *)
From Coq Require Import String.
From Coq Require Import List NArith ZArith Bool.
From Verif Require Import Lib.Bytes Lib.Codec Lib.Path Lib.GoLib Cred.Sign Gen.CodeCred.
Import ListNotations.
Local Open Scope Z_scope.

(** ** Adapters *)

(** [(bool, []byte)] of Signer.Check / CheckHex. *)
Definition ck_res (o : option bytes) : bool * list N :=
  match o with Some d => (true, d) | None => (false, []) end.

(** [([]byte, time.Duration, bool)] of Sessions.Check. *)
Definition sess_res (o : option (bytes * Z)) : list N * Z * bool :=
  match o with Some (d, lft) => (d, lft, true) | None => ([], 0, false) end.

Definition triple_eqb (a b : list N * Z * bool) : bool :=
  str_eqb (fst (fst a)) (fst (fst b)) && (snd (fst a) =? snd (fst b)) && Bool.eqb (snd a) (snd b).

(** ** Stand-in for HMAC-SHA256 in the search: 32 bytes that depend on the
    length and the first and last byte of the data. *)
Definition cand_mac (_ : unit) (d : bytes) : bytes :=
  map (fun i => (N.of_nat (length d) + 3 * N.of_nat i + hd 0%N d + 5 * last d 0%N) mod 256)%N (seq 0 32).

Definition cand_i64 : list Z :=
  [0; 1; -1; 2; 5; 1000; -1000; 9223372036854775807; -9223372036854775808; -9223372036854775807;
   4611686018427387904; 300000000000].

(** ** inWindow, refreshTTL, NeedRefresh, the lifetime cap *)
Definition cands_inWindow : list (Z * (Z * Z)) :=
  pairs [0; 1; 2; 3; 999; 1000; 1001; -5] (pairs [0; 1; 2; 1000] [0; 1; 2; -1; 1000; -9223372036854775808; 9223372036854775807]).

Definition cex_inWindow :=
  cex_search Bool.eqb (fun x => gen_signer_inWindow (fst x) (fst (snd x)) (snd (snd x)))
             (fun x => in_window (fst x) (fst (snd x)) (snd (snd x))) cands_inWindow.

Definition cands_refreshTTL : list Z := cand_i64 ++ [4; 6; 9; 10; 11; -4; -5; -6].
Definition cex_refreshTTL := cex_search Z.eqb gen_signer_refreshTTL refresh_ttl cands_refreshTTL.

Definition cands_NeedRefresh : list (Z * Z) := pairs [0; 5; 10; 11; -5; 1000] [0; 1; 2; 3; -1; 199; 200; 201].
Definition cex_NeedRefresh :=
  cex_search Bool.eqb (fun x => gen_signer_Sessions_NeedRefresh (gen_signer_refreshTTL (fst x)) (snd x))
             (fun x => need_refresh (fst x) (snd x)) cands_NeedRefresh.

Definition cands_New_expires : list (Z * (Z * Z)) :=
  pairs [0; 10; 100; -3] (pairs [0; 1000] [0; 1; -1; 9; 10; 11; 99; 100; 101; 1000]).
Definition cex_New_expires :=
  cex_search Z.eqb (fun x => gen_signer_Sessions_New_expires (fst x) (fst (snd x)) (snd (snd x)))
             (fun x => fst (snd x) + eff_ttl (fst x) (snd (snd x))) cands_New_expires.

(** ** Signer.Check / CheckHex: well-signed blobs, each with a byte changed,
    a byte dropped at either end, and short ones. *)
Definition cand_datas : list bytes :=
  [[]; [1]; [1; 2; 3]; le64 1000; le64 1000 ++ [7; 8]; le64 999; le64 1001 ++ [1]; le64 18446744073709551615;
   le64 18446744073709550616; repeat 0 7; repeat 255 40]%N.

Definition cand_blobs : list bytes :=
  flat_map (fun d => let b := d ++ cand_mac tt d in
                     [b; removelast b; tl b; b ++ [0%N]; removelast b ++ [(last b 0 + 1) mod 256]%N;
                      firstn 31 b; firstn 32 b]) cand_datas.

Definition cex_Signer_Check :=
  cex_search (pair_eqb Bool.eqb str_eqb) (gen_signer_Signer_Check (cand_mac tt))
             (fun b => ck_res (check cand_mac tt b)) cand_blobs.

(** Hex texts: the canonical text, an upper-case spelling, an odd length, a
    non-hex character. *)
Definition upper (c : N) : N := if ((97 <=? c) && (c <=? 102))%N then (c - 32)%N else c.
Definition cand_texts : list (list N) :=
  flat_map (fun b => let t := hex_encode b in [t; map upper t; tl t; t ++ [103%N]]) cand_blobs.

Definition cex_Signer_CheckHex :=
  cex_search (pair_eqb Bool.eqb str_eqb) (gen_signer_Signer_CheckHex (cand_mac tt))
             (fun t => ck_res (check_hex cand_mac tt t)) cand_texts.

(** ** Sessions.Check / TimeSigner.Check at instants around the stamps used above. *)
Definition cands_Sessions_Check : list (Z * list N) := pairs [999; 1000; 1001; 0; -5] cand_texts.
Definition cex_Sessions_Check :=
  cex_search triple_eqb (fun x => gen_signer_Sessions_Check (cand_mac tt) (fst x) (snd x))
             (fun x => sess_res (sess_check cand_mac tt (fst x) (snd x))) cands_Sessions_Check.

Definition cands_TimeSigner_Check : list (Z * (Z * list N)) :=
  pairs [0; 1; 2; -1; -2] (pairs [999; 1000; 1001; 998] cand_texts).
Definition cex_TimeSigner_Check :=
  cex_search Bool.eqb (fun x => gen_signer_TimeSigner_Check (cand_mac tt) (abs_window (fst x)) (fst (snd x)) (snd (snd x)))
             (fun x => ts_check cand_mac tt (fst x) (fst (snd x)) (snd (snd x))) cands_TimeSigner_Check.
