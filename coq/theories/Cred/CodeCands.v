(** Candidate inputs for the counterexample search of the credential code
    refinement (Cred/CodeRefine.v), and the adapters between Go's result
    tuples and the models' option types.  Requires only the generated file
    and the models. *)
From Coq Require Import String.
From Coq Require Import List NArith ZArith Bool.
From Verif Require Import Lib.Bytes Lib.Codec Lib.Path Lib.GoLib Cred.Sign Cred.Jwt Cred.PassCode Gen.CodeCred.
Import ListNotations.
Local Open Scope Z_scope.

(** ** Adapters *)

(** [(bool, []byte)] of Signer.Check / CheckHex. *)
Definition ck_res (o : option bytes) : bool * list N :=
  match o with Some d => (true, d) | None => (false, []) end.

(** [([]byte, time.Duration, bool)] of Sessions.Check. *)
Definition sess_res (o : option (bytes * Z)) : list N * Z * bool :=
  match o with Some (d, lft) => (d, lft, true) | None => ([], 0, false) end.

Definition triple_eqb (a b : list N * Z * bool) : bool :=
  str_eqb (fst (fst a)) (fst (fst b)) && (snd (fst a) =? snd (fst b)) && Bool.eqb (snd a) (snd b).

(** ** Stand-in for HMAC-SHA256 in the search: 32 bytes that depend on the
    length and the first and last byte of the data. *)
Definition cand_mac (_ : unit) (d : bytes) : bytes :=
  map (fun i => (N.of_nat (length d) + 3 * N.of_nat i + hd 0%N d + 5 * last d 0%N) mod 256)%N (seq 0 32).

Definition cand_i64 : list Z :=
  [0; 1; -1; 2; 5; 1000; -1000; 9223372036854775807; -9223372036854775808; -9223372036854775807;
   4611686018427387904; 300000000000].

(** ** inWindow, refreshTTL, NeedRefresh, the lifetime cap *)
Definition cands_inWindow : list (Z * (Z * Z)) :=
  pairs [0; 1; 2; 3; 999; 1000; 1001; -5] (pairs [0; 1; 2; 1000] [0; 1; 2; -1; 1000; -9223372036854775808; 9223372036854775807]).

Definition cex_inWindow :=
  cex_search Bool.eqb (fun x => gen_signer_inWindow (fst x) (fst (snd x)) (snd (snd x)))
             (fun x => in_window (fst x) (fst (snd x)) (snd (snd x))) cands_inWindow.

Definition cands_refreshTTL : list Z := cand_i64 ++ [4; 6; 9; 10; 11; -4; -5; -6].
Definition cex_refreshTTL := cex_search Z.eqb gen_signer_refreshTTL refresh_ttl cands_refreshTTL.

Definition cands_NeedRefresh : list (Z * Z) := pairs [0; 5; 10; 11; -5; 1000] [0; 1; 2; 3; -1; 199; 200; 201].
Definition cex_NeedRefresh :=
  cex_search Bool.eqb (fun x => gen_signer_Sessions_NeedRefresh (gen_signer_refreshTTL (fst x)) (snd x))
             (fun x => need_refresh (fst x) (snd x)) cands_NeedRefresh.

Definition cands_New_expires : list (Z * (Z * Z)) :=
  pairs [0; 10; 100; -3] (pairs [0; 1000] [0; 1; -1; 9; 10; 11; 99; 100; 101; 1000]).
Definition cex_New_expires :=
  cex_search Z.eqb (fun x => gen_signer_Sessions_New_expires (fst x) (fst (snd x)) (snd (snd x)))
             (fun x => fst (snd x) + eff_ttl (fst x) (snd (snd x))) cands_New_expires.

(** ** Signer.Check / CheckHex: well-signed blobs, each with a byte changed,
    a byte dropped at either end, and short ones. *)
Definition cand_datas : list bytes :=
  [[]; [1]; [1; 2; 3]; le64 1000; le64 1000 ++ [7; 8]; le64 999; le64 1001 ++ [1]; le64 18446744073709551615;
   le64 18446744073709550616; repeat 0 7; repeat 255 40]%N.

Definition cand_blobs : list bytes :=
  flat_map (fun d => let b := d ++ cand_mac tt d in
                     [b; removelast b; tl b; b ++ [0%N]; removelast b ++ [(last b 0 + 1) mod 256]%N;
                      firstn 31 b; firstn 32 b]) cand_datas.

Definition cex_Signer_Check :=
  cex_search (pair_eqb Bool.eqb str_eqb) (gen_signer_Signer_Check (cand_mac tt))
             (fun b => ck_res (check cand_mac tt b)) cand_blobs.

(** Hex texts: the canonical text, an upper-case spelling, an odd length, a
    non-hex character. *)
Definition upper (c : N) : N := if ((97 <=? c) && (c <=? 102))%N then (c - 32)%N else c.
Definition cand_texts : list (list N) :=
  flat_map (fun b => let t := hex_encode b in [t; map upper t; tl t; t ++ [103%N]]) cand_blobs.

Definition cex_Signer_CheckHex :=
  cex_search (pair_eqb Bool.eqb str_eqb) (gen_signer_Signer_CheckHex (cand_mac tt))
             (fun t => ck_res (check_hex cand_mac tt t)) cand_texts.

(** ** Sessions.Check / TimeSigner.Check at instants around the stamps used above. *)
Definition cands_Sessions_Check : list (Z * list N) := pairs [999; 1000; 1001; 0; -5] cand_texts.
Definition cex_Sessions_Check :=
  cex_search triple_eqb (fun x => gen_signer_Sessions_Check (cand_mac tt) (fst x) (snd x))
             (fun x => sess_res (sess_check cand_mac tt (fst x) (snd x))) cands_Sessions_Check.

Definition cands_TimeSigner_Check : list (Z * (Z * list N)) :=
  pairs [0; 1; 2; -1; -2] (pairs [999; 1000; 1001; 998] cand_texts).
Definition cex_TimeSigner_Check :=
  cex_search Bool.eqb (fun x => gen_signer_TimeSigner_Check (cand_mac tt) (abs_window (fst x)) (fst (snd x)) (snd (snd x)))
             (fun x => ts_check cand_mac tt (fst x) (fst (snd x)) (snd (snd x))) cands_TimeSigner_Check.

(** ** jwt.CheckTime: the two refusals are told apart by their message. *)
Definition jwt_time_err (e : go_error) : option jerr :=
  match e with
  | None => None
  | Some (GoErr _ m) =>
      if String.eqb m "token issued in the future" then Some EFuture
      else if String.eqb m "token expired" then Some EExpired
      else Some EClaims   (* not an answer of the model's check_time *)
  end.

Definition jerr_tag' (e : option jerr) : N :=
  match e with
  | None => 0 | Some EKid => 1 | Some EAlg => 2 | Some ETyp => 3 | Some EIss => 4 | Some EAud => 5
  | Some ECTyp => 6 | Some ESub => 7 | Some EScope => 8 | Some _ => 99
  end%N.

Definition jerr_tag (e : option jerr) : N :=
  match e with None => 0 | Some EFuture => 1 | Some EExpired => 2 | Some _ => 3 end%N.

(** Claim times (seconds) against instants (nanoseconds) around them, the
    grace period included. *)
Definition cands_CheckTime : list (Z * (Z * Z)) :=
  pairs [0; 1000; 1700000000; -5] (pairs [0; 1000; 1001; 1700003600; -5]
    [0; 1; 999999999999; 1000000000000; 1000000000001; 700000000000; 699999999999; 700000000001;
     1001000000000; 1001000000001; 1700000000000000000; 1700003600000000000; 1700003600000000001;
     1699999700000000000; 1699999700000000001; -5000000000; -4999999999]).

Definition cex_CheckTime :=
  cex_search N.eqb
    (fun x => jerr_tag (jwt_time_err (snd (gen_jwt_CheckTime (fst x) (fst (snd x)) (snd (snd x))))))
    (fun x => jerr_tag (check_time (mkC [] [] [] (fst (snd x)) (fst x) [] []) (snd (snd x))))
    cands_CheckTime.

(** ** roles.checkPassCode: the model's result numbers, by error class and
    message. *)
Definition pc_err_code (e : go_error) : N :=
  match e with
  | None => 0
  | Some (GoErr k m) =>
      if String.eqb k "Internal" then 9
      else if String.eqb m "empty passcode" then 2
      else if String.eqb m "no passcode set" then 3
      else if String.eqb m "passcode wrong too many times" then 4
      else if String.eqb m "passcode already consumed" then 5
      else if String.eqb m "passcode not valid yet" then 6
      else if String.eqb m "passcode expired" then 7
      else if String.eqb m "passcode incorrect" then 8
      else 99
  end%N.

(** Passcode texts: the model names them by numbers, 0 = the empty string. *)
Definition cand_text (n : N) : list N := match n with 0%N => [] | _ => [48 + n; 65]%N end.

(** The arguments the Go function reads off [code *passCode]. *)
Definition pc_args (pc : option pcode) : pcode :=
  match pc with Some c => c | None => mkPC 0 false 0 false 0 false 0 end.

Definition run_checkPassCode (text : N -> list N) (claim : N) (pc : option pcode) (now : Z) : go_error :=
  let c := pc_args pc in
  gen_roles_checkPassCode (text claim) (match pc with None => true | Some _ => false end)
    (negb (p_has_valid c)) (negb (p_has_expire c)) (p_tried c) (p_consumed c)
    (p_valid c) (p_expire c) (text (p_code c)) now.

Definition cand_pcodes : list (option pcode) :=
  None ::
  map Some
    (flat_map (fun tried =>
       flat_map (fun consumed =>
         [mkPC 1 true 100 true 200 consumed tried; mkPC 2 true 100 true 200 consumed tried;
          mkPC 1 false 100 true 200 consumed tried; mkPC 1 true 100 false 200 consumed tried;
          mkPC 0 true 100 true 200 consumed tried])
         [false; true]) [0; 9; 10; 11; 12; -1]).

Definition cands_checkPassCode : list (N * (option pcode * Z)) :=
  pairs [0; 1; 2; 3]%N (pairs cand_pcodes [99; 100; 101; 199; 200; 201; 0]).

Definition cex_checkPassCode :=
  cex_search N.eqb
    (fun x => pc_err_code (run_checkPassCode cand_text (fst x) (fst (snd x)) (snd (snd x))))
    (fun x => checkPassCode (fst x) (fst (snd x)) (snd (snd x))) cands_checkPassCode.

(** ** jwt.checkHeader, jwt.CheckClaimSet: the refusals by their message. *)
Definition jwt_claims_err (e : go_error) : option jerr :=
  match e with
  | None => None
  | Some (GoErr _ m) =>
      if String.eqb m "wrong issuer" then Some EIss
      else if String.eqb m "wrong audiance" then Some EAud
      else if String.eqb m "wrong type" then Some ECTyp
      else if String.eqb m "wrong subject" then Some ESub
      else if String.eqb m "scope %q missing" then Some EScope
      else Some EClaims
  end.

Definition jwt_header_err (e : go_error) : option jerr :=
  match e with
  | None => None
  | Some (GoErr _ m) =>
      if String.eqb m "kid=%q, want %q" then Some EKid
      else if String.eqb m "alg=%q, want %q" then Some EAlg
      else if String.eqb m "typ=%q, want %q" then Some ETyp
      else Some EClaims
  end.


Definition cand_strs3 : list (list N) := [[]; [97]; [98]; [97; 32; 98]; [98; 32; 32; 97]; [97; 98]; [32]; [99; 9; 97]]%N.

Definition cands_checkHeader : list (header * header) :=
  let hs := flat_map (fun k => flat_map (fun a => map (fun t => mkH a t k) [[]; [74]]%N) [[72]; [82]]%N) [[]; [49]]%N in
  pairs hs hs.
Definition cex_checkHeader :=
  cex_search N.eqb
    (fun x => jerr_tag' (jwt_header_err (gen_jwt_checkHeader (h_kid (fst x)) (h_alg (fst x)) (h_typ (fst x))
                                           (h_kid (snd x)) (h_alg (snd x)) (h_typ (snd x)))))
    (fun x => jerr_tag' (check_header (fst x) (snd x))) cands_checkHeader.

Definition cands_CheckClaimSet : list (claims * claims) :=
  let cs := flat_map (fun sc => flat_map (fun iss => map (fun sub => mkC iss sc [97]%N 0 0 [] sub) [[]; [97]]%N) [[]; [97]; [98]]%N) cand_strs3 in
  pairs cs cs.
Definition cex_CheckClaimSet :=
  cex_search N.eqb
    (fun x => let c := fst x in let t := snd x in
              jerr_tag' (jwt_claims_err (gen_jwt_CheckClaimSet false false (c_iss c) (c_aud c) (c_typ c) (c_sub c) (c_scope c)
                                           (c_iss t) (c_aud t) (c_typ t) (c_sub t) (c_scope t))))
    (fun x => jerr_tag' (check_claims (fst x) (snd x))) cands_CheckClaimSet.

(** ** The window the constructors store. *)
Definition cex_NewTimeSigner_window :=
  cex_search Z.eqb gen_signer_NewTimeSigner_window abs_window
    [0; 1; -1; 5; -5; 9223372036854775807; -9223372036854775807].
Definition cex_NewRSATimeSigner_window :=
  cex_search Z.eqb gen_signer_NewRSATimeSigner_window abs_window
    [0; 1; -1; 5; -5; 9223372036854775807; -9223372036854775807].
