(** [ziputil.ZipDir]: the entry list of a directory tree in [filepath.Walk]
    order, and [ziputil.ZipFile].  A tree is a finite map from relative
    positions ([[]] = the root directory) to files and directories.
    Definitions only. *)
From Coq Require Import List NArith Bool.
From Verif Require Import Lib.Path Arch.Extract.
Import ListNotations.
Local Open Scope N_scope.

Definition tree := fs.

(** Walk order: directories before their content, names in byte order within
    a directory — the lexicographic order on lists of path elements (not the
    byte order of the joined strings: "a-b" sorts after "a/b"). *)
Fixpoint key_ltb (a b : key) : bool :=
  match a, b with
  | _, [] => false
  | [], _ :: _ => true
  | x :: a', y :: b' => str_ltb x y || (str_eqb x y && key_ltb a' b')
  end.

Fixpoint insert_key (e : key * node) (l : tree) : tree :=
  match l with
  | [] => [e]
  | y :: r => if key_ltb (fst e) (fst y) then e :: l else y :: insert_key e r
  end.

Definition sort_tree (t : tree) : tree := fold_right insert_key [] t.

(** [rel, _ := filepath.Rel(dir, p)]: "." for the root. *)
Definition rel_name (k : key) : str :=
  match k with [] => s_dot | _ => join_slash k end.

(** Directory: [Name: rel + "/"]; file: [Name: rel]; mode via [SetMode]. *)
Definition entry_of (e : key * node) : entry :=
  match snd e with
  | NDir pm => {| e_name := rel_name (fst e) ++ [slash]; e_kind := KDir; e_perm := pm; e_data := [] |}
  | NFile pm d => {| e_name := rel_name (fst e); e_kind := KFile; e_perm := pm; e_data := d |}
  end.

Definition zip_dir (t : tree) : list entry := map entry_of (sort_tree t).

(** [ZipFile]: one entry named by the file's base name. *)
Definition zip_file (name : str) (pm : N) (d : str) : list entry :=
  [ {| e_name := name; e_kind := KFile; e_perm := pm; e_data := d |} ].

(** What extraction under [umask] makes of a tree node: directories are
    created by [mkdir] (permission and sticky bits, subject to the umask),
    files are [chmod]ed exactly (all of 07777). *)
Definition under_umask (um : N) (n : node) : node :=
  match n with
  | NDir pm => NDir (N.ldiff (N.land pm perm_dir_mask) um)
  | NFile pm d => NFile (N.land pm perm_mask) d
  end.

(** ** Well-formed trees and ready destinations (decidable) *)

Fixpoint nodup_keys (t : tree) : bool :=
  match t with
  | [] => true
  | e :: r => negb (existsb (fun e' => key_eqb (fst e') (fst e)) r) && nodup_keys r
  end.

(** Names are real path elements; the root and every parent is a directory
    of the tree. *)
Definition valid_entry (t : tree) (e : key * node) : bool :=
  forallb goodb (fst e) &&
  match fst e with
  | [] => is_dir_node (Some (snd e))
  | k => is_dir_node (lookup t (removelast k))
  end.

Definition wf_tree (t : tree) : bool :=
  is_dir_node (lookup t []) && nodup_keys t && forallb (valid_entry t) t.

Fixpoint prefixes_from (pre : key) (rest : list str) : list key :=
  match rest with
  | [] => []
  | x :: r => pre :: prefixes_from (pre ++ [x]) r
  end.

(** The proper ancestors of a position, root first. *)
Definition proper_prefixes (D : key) : list key := prefixes_from [] D.

(** The destination is not the root, its ancestors are directories and
    nothing exists at or beneath it (never extracted into, or cleared). *)
Definition dest_readyb (f : fs) (D : key) : bool :=
  negb (match D with [] => true | _ => false end) &&
  forallb (fun k => is_dir_node (lookup f k)) (proper_prefixes D) &&
  forallb (fun e => negb (is_prefix D (fst e))) f.

Definition dest_ready (f : fs) (D : key) : Prop := dest_readyb f D = true.
