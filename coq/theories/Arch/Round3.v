(** C17 — round 3: statements about the usage patterns the harness now
    exercises: any sequence of extractions into one destination, the exact
    round trip under umask 0, TarZipFile followed by the tar extractor.
    Proofs only; definitions are those of Arch/Extract.v and Arch/ZipRound.v. *)
From Coq Require Import List NArith Bool Lia.
From Verif Require Import Lib.Path Arch.Extract Arch.ExtractProofs Arch.ZipRound Arch.ZipRoundProofs.
Import ListNotations.
Local Open Scope N_scope.

(** ** Any sequence of calls on one destination *)

Inductive xcall :=
| XUnzip (clear : bool) (es : list entry)      (* UnzipDir(dir, r, clear) *)
| XUntar (es : list entry)                      (* writeTarToDir(r, dir) / Cont.CopyOut *)
| XForeign (sub : key).                         (* somebody removes dir/sub (or all of dir) in between *)

Definition do_call (c : cfg) (dir : str) (D : key) (f : fs) (x : xcall) : fs :=
  match x with
  | XUnzip clear es => snd (unzip c f dir clear es)
  | XUntar es => snd (untar c f dir es)
  | XForeign sub => remove_under f (D ++ sub)
  end.

Definition do_calls (c : cfg) (dir : str) (D : key) (f : fs) (xs : list xcall) : fs :=
  fold_left (do_call c dir D) xs f.

Lemma remove_under_sub_confined D f sub : confined D f (remove_under f (D ++ sub)).
Proof.
  intros k. rewrite lookup_remove_under.
  destruct (is_prefix (D ++ sub) k) eqn:E; [|now left].
  right. left. eapply is_prefix_trans; [|exact E]. apply is_prefix_app.
Qed.

Theorem calls_confined c dir D xs : forall f,
  resolve (cwd c) (clean dir) = Some D ->
  confined D f (do_calls c dir D f xs).
Proof.
  induction xs as [|x xs IH]; intros f HD; [apply confined_refl|].
  cbn [do_calls fold_left]. eapply confined_trans; [|apply IH; exact HD].
  destruct x as [clear es|es|sub]; cbn [do_call].
  - intros k. apply (unzip_confined c f dir clear es D HD k).
  - intros k. apply (untar_confined c dir D es HD f k).
  - apply remove_under_sub_confined.
Qed.

(** ** Entries within one call: containment is decided for every entry from
    that entry's own resolved name, whatever came before it in the archive *)

Lemma unzip_entry_never_ok c f dir p : fst (unzip_entry c f dir p) <> Some XOk.
Proof.
  unfold unzip_entry. destruct (negb (in_dir dir (filepath_join [dir; e_name p]))); [discriminate|].
  destruct (e_kind p).
  - destruct (mkdir_all c f (dir_of (filepath_join [dir; e_name p])) perm_dir_default) as [ok f1].
    destruct (negb ok); [discriminate|].
    destruct (open_trunc c f1 (filepath_join [dir; e_name p]) perm_create_default) as [[[k pm] f2]|]; discriminate.
  - destruct (mkdir_all c f (filepath_join [dir; e_name p]) (e_perm p)) as [ok f1]. destruct ok; discriminate.
  - destruct (mkdir_all c f (dir_of (filepath_join [dir; e_name p])) perm_dir_default) as [ok f1].
    destruct (negb ok); [discriminate|].
    destruct (open_trunc c f1 (filepath_join [dir; e_name p]) perm_create_default) as [[[k pm] f2]|]; discriminate.
Qed.

Lemma untar_entry_never_ok c f dir p : fst (untar_entry c f dir p) <> Some XOk.
Proof.
  unfold untar_entry. destruct (negb (in_dir dir (filepath_join [dir; e_name p]))); [discriminate|].
  destruct (e_kind p).
  - destruct (if negb (is_empty (dir_of (filepath_join [dir; e_name p]))) &&
                 negb (str_eqb (dir_of (filepath_join [dir; e_name p])) s_dot)
              then mkdir_all c f (dir_of (filepath_join [dir; e_name p])) perm_dir_default
              else (true, f)) as [ok f1].
    destruct (negb ok); [discriminate|].
    destruct (open_trunc c f1 (filepath_join [dir; e_name p]) (N.land (e_perm p) perm_mask)) as [[[k pm] f2]|]; discriminate.
  - destruct (mkdir_all c f (filepath_join [dir; e_name p]) (e_perm p)) as [ok f1]. destruct ok; discriminate.
  - discriminate.
Qed.

Theorem unzip_refuses_outside_anywhere c dir e rest : forall pre f,
  in_dir dir (filepath_join [dir; e_name e]) = false ->
  unzip_entries c f dir (pre ++ e :: rest) =
  match fst (unzip_entries c f dir pre) with
  | XOk => (XRefused, snd (unzip_entries c f dir pre))
  | _ => unzip_entries c f dir pre
  end.
Proof.
  induction pre as [|p pre IH]; intros f Hout.
  - cbn [app unzip_entries fst snd]. unfold unzip_entry. now rewrite Hout.
  - cbn [app unzip_entries]. pose proof (unzip_entry_never_ok c f dir p) as Hn.
    destruct (unzip_entry c f dir p) as [[r|] f1].
    + cbn [fst] in *. destruct r; try reflexivity. congruence.
    + now apply IH.
Qed.

Theorem untar_refuses_outside_anywhere c dir e rest : forall pre f,
  in_dir dir (filepath_join [dir; e_name e]) = false ->
  untar c f dir (pre ++ e :: rest) =
  match fst (untar c f dir pre) with
  | XOk => (XRefused, snd (untar c f dir pre))
  | _ => untar c f dir pre
  end.
Proof.
  induction pre as [|p pre IH]; intros f Hout.
  - cbn [app untar fst snd]. unfold untar_entry. now rewrite Hout.
  - cbn [app untar]. pose proof (untar_entry_never_ok c f dir p) as Hn.
    destruct (untar_entry c f dir p) as [[r|] f1].
    + cbn [fst] in *. destruct r; try reflexivity. congruence.
    + now apply IH.
Qed.

(** In particular after a directory entry that resolves to the destination
    itself (ZipDir's archives start with "./"): the next entry is judged on
    its own name. *)
Corollary unzip_root_entry_then_outside c f dir root e rest :
  in_dir dir (filepath_join [dir; e_name e]) = false ->
  fst (unzip_entries c f dir (root :: e :: rest)) <> XOk.
Proof.
  intros Hout. change (root :: e :: rest) with ([root] ++ e :: rest).
  rewrite (unzip_refuses_outside_anywhere c dir e rest [root] f Hout).
  destruct (fst (unzip_entries c f dir [root])) eqn:E; cbn [fst]; try discriminate; rewrite E; discriminate.
Qed.

(** TarZipFile followed by the tar extractor: confined, whatever the zip
    file holds and whatever directory name TarZipFile is given. *)
Theorem tar_zip_untar_confined c dir D sub zes :
  resolve (cwd c) (clean dir) = Some D ->
  forall f k,
    lookup (snd (untar c f dir (tar_zip sub zes))) k = lookup f k \/
    is_prefix D k = true \/
    (is_prefix k D = true /\ lookup f k = None /\
     is_dir_node (lookup (snd (untar c f dir (tar_zip sub zes))) k) = true).
Proof. intros HD. exact (untar_confined c dir D (tar_zip sub zes) HD). Qed.

(** ** The round trip is exact when nothing masks the modes *)

Definition plain_mode (n : node) : bool :=
  match n with
  | NDir pm => N.land pm perm_dir_mask =? pm
  | NFile pm _ => N.land pm perm_mask =? pm
  end.

Definition modes_plain (t : tree) : bool := forallb (fun e => plain_mode (snd e)) t.

Lemma under_umask_0_plain n : plain_mode n = true -> under_umask 0 n = n.
Proof.
  destruct n as [pm d|pm]; cbn [plain_mode under_umask]; intros H; apply N.eqb_eq in H.
  - now rewrite H.
  - rewrite H. now rewrite N.ldiff_0_r.
Qed.

Theorem zip_roundtrip_exact c f dir D t :
  wf_tree t = true ->
  forallb goodb (cwd c) = true ->
  dir <> [] ->
  resolve (cwd c) dir = Some D ->
  dest_ready f D ->
  umask c = 0 -> modes_plain t = true ->
  exists f',
    unzip_entries c f dir (zip_dir t) = (XOk, f') /\
    (forall r, lookup f' (D ++ r) = lookup t r) /\
    (forall k, is_prefix D k = false -> lookup f' k = lookup f k).
Proof.
  intros Hwf Hc Hd HD Hr Hum Hpl.
  destruct (zip_roundtrip c f dir D t Hwf Hc Hd HD Hr) as (f' & E & R & O).
  exists f'. split; [exact E|]. split; [|exact O].
  intros r. rewrite R, Hum. destruct (lookup t r) as [n|] eqn:El; [|reflexivity].
  cbn [option_map]. f_equal. apply under_umask_0_plain.
  apply lookup_some_in in El. unfold modes_plain in Hpl. rewrite forallb_forall in Hpl.
  exact (Hpl _ El).
Qed.

(** ** ZipDir -> TarZipFile (no directory prefix) -> the tar extractor *)

Lemma tar_zip_entry_nil e : e_kind e <> KOther ->
  (e_kind e = KDir -> e_data e = []) -> tar_zip_entry [] e = e.
Proof.
  intros _ Hd. destruct e as [n k p d]. unfold tar_zip_entry. cbn [is_empty e_name e_kind e_perm e_data] in *.
  destruct k; try reflexivity. now rewrite (Hd eq_refl).
Qed.

Lemma tar_zip_nil_zip_dir t : tar_zip [] (zip_dir t) = zip_dir t.
Proof.
  unfold tar_zip, zip_dir. rewrite map_map. apply map_ext. intros [k [pm d|pm]]; reflexivity.
Qed.

(** What the tar extractor makes of a tree node: directories as [mkdir]
    leaves them, files created with [open(2)]: both under the umask. *)
Definition tar_node (um : N) (n : node) : node :=
  match n with
  | NDir pm => NDir (N.ldiff (N.land pm perm_dir_mask) um)
  | NFile pm d => NFile (N.ldiff (N.land pm perm_mask) um) d
  end.

Section TarRoundTrip.
  Variable c : cfg.
  Variable f : fs.
  Variable dir : str.
  Variable D : key.
  Hypothesis Hdir : dir <> [].
  Hypothesis HD : resolve (cwd c) dir = Some D.
  Hypothesis Hready : dest_ready f D.

  Let um := umask c.

  Definition InvT (f' : fs) (done : tree) : Prop :=
    (forall r, lookup f' (D ++ r) = option_map (tar_node um) (lookup done r)) /\
    (forall k, is_prefix D k = false -> lookup f' k = lookup f k).

  Lemma invT_init : InvT f [].
  Proof.
    destruct (ready_parts c f dir D HD Hready) as (_ & _ & Habs). split; [|reflexivity].
    intros r. cbn. apply Habs. apply is_prefix_app.
  Qed.

  Lemma dirs_to_T f' done kp :
    InvT f' done -> closedT done -> is_dir_node (lookup done kp) = true ->
    dirs_along f' [] (D ++ kp) = true.
  Proof.
    intros [I1 I2] Hc Hkp. destruct (ready_parts c f dir D HD Hready) as (HDne & Hanc & _).
    apply dirs_along_intro. intros q _ Hq Hqne. cbn [app] in Hq.
    destruct (is_prefix_app_cases _ _ _ Hq) as [[A B]|(k1 & -> & A)].
    - rewrite I2 by (now apply is_prefix_false_of_proper). now apply Hanc.
    - rewrite I1. pose proof (closed_prefix_dirs _ Hc _ Hkp _ A) as X.
      destruct (lookup done k1) as [[pm d|pm]|]; try discriminate. reflexivity.
  Qed.

  Lemma dirs_to_parent_T f' done :
    InvT f' done -> dirs_along f' [] (removelast D) = true.
  Proof.
    intros [_ I2]. destruct (ready_parts c f dir D HD Hready) as (HDne & Hanc & _).
    apply dirs_along_intro. intros q _ Hq Hqne. cbn [app] in Hq.
    assert (Hp : is_prefix q D = true) by (eapply is_prefix_trans; [exact Hq|apply removelast_is_prefix]).
    assert (Hne : q <> D).
    { intros ->. pose proof (removelast_neq D HDne) as X. apply X.
      apply is_prefix_spec in Hq as [r Hr]. pose proof (removelast_is_prefix D) as Y.
      apply is_prefix_spec in Y as [r' Hr']. rewrite Hr in Hr' at 1.
      rewrite <- app_assoc in Hr'. rewrite <- (app_nil_r D) in Hr' at 1. apply app_inv_head in Hr'.
      symmetry in Hr'. apply app_eq_nil in Hr' as [-> _]. now rewrite app_nil_r in Hr. }
    rewrite I2 by (now apply is_prefix_false_of_proper). now apply Hanc.
  Qed.

  Lemma invT_extend f' done k n T n' :
    InvT f' done -> lookup done k = None -> T = D ++ k -> n' = tar_node um n ->
    InvT (set f' T n') (done ++ [(k, n)]).
  Proof.
    intros [I1 I2] Hn -> ->. split.
    - intros r. rewrite lookup_set, key_eqb_app_l, lookup_app. cbn [lookup].
      destruct (key_eqb k r) eqn:E.
      + apply key_eqb_eq in E. subst r. now rewrite Hn.
      + rewrite I1. destruct (lookup done r); reflexivity.
    - intros q Hq. rewrite lookup_set.
      destruct (key_eqb (D ++ k) q) eqn:E; [|now apply I2].
      apply key_eqb_eq in E. subst q. now rewrite is_prefix_app in Hq.
  Qed.

  (** One entry of the walk through the tar extractor. *)
  Lemma entry_step_T f' done e :
    InvT f' done -> closedT done -> step_ok done e ->
    exists f'', untar_entry c f' dir (entry_of e) = (None, f'') /\ InvT f'' (done ++ [e]).
  Proof.
    intros HI Hc (Hnone & Hg & Hparent). destruct e as [k n]. cbn [fst snd] in *.
    pose proof HI as [I1 I2].
    assert (Hlk : lookup f' (D ++ k) = None) by (rewrite I1, Hnone; reflexivity).
    destruct (ready_parts c f dir D HD Hready) as (HDne & _ & _).
    destruct n as [pm d|pm].
    - (* a file *)
      destruct k as [|x0 k0] eqn:Ek; [discriminate|]. rewrite <- Ek in *.
      assert (Hkne : k <> []) by (rewrite Ek; discriminate).
      unfold untar_entry, entry_of. cbn [snd fst e_name e_kind e_perm e_data].
      assert (En : rel_name k = join_slash k) by (rewrite Ek; reflexivity). rewrite En.
      rewrite in_dir_join_good by exact Hg. cbn [negb].
      set (name := filepath_join [dir; join_slash k]).
      pose proof (resolve_entry c dir D HD k Hg) as Hres. fold name in Hres.
      assert (Hsplit : D ++ k = (D ++ removelast k) ++ [last k []]).
      { rewrite <- app_assoc. f_equal. now apply app_removelast_last. }
      assert (Hdirres : resolve (cwd c) (dir_of name) = Some (D ++ removelast k)).
      { eapply resolve_dir_of_parent; [rewrite <- Hsplit; exact Hres|]. now apply (name_last c dir D). }
      assert (Hpd : is_dir_node (lookup done (removelast k)) = true) by (rewrite Ek in Hparent |- *; exact Hparent).
      pose proof (dirs_to_T f' done (removelast k) HI Hc Hpd) as Hdirs.
      assert (Hmk : (if negb (is_empty (dir_of name)) && negb (str_eqb (dir_of name) s_dot)
                     then mkdir_all c f' (dir_of name) perm_dir_default else (true, f')) = (true, f')).
      { destruct (negb (is_empty (dir_of name)) && negb (str_eqb (dir_of name) s_dot)); [|reflexivity].
        unfold mkdir_all. rewrite Hdirres. now apply mkdir_walk_noop. }
      rewrite Hmk. cbn [negb].
      unfold open_trunc. rewrite Hres.
      destruct (D ++ k) as [|t0 T0] eqn:ET; [destruct D; discriminate|]. rewrite <- ET in *.
      assert (Hrl : removelast (D ++ k) = D ++ removelast k) by (now apply removelast_app).
      rewrite Hrl.
      assert (Hpdir : is_dir_node (lookup f' (D ++ removelast k)) = true).
      { rewrite I1. destruct (lookup done (removelast k)) as [[?pm ?d|?pm]|]; try discriminate. reflexivity. }
      rewrite Hpdir, Hlk.
      eexists. split; [reflexivity|].
      assert (InvT (set f' (D ++ k) (NFile (N.ldiff (N.land pm perm_mask) um) d)) (done ++ [(k, NFile pm d)])) as HI'.
      { eapply invT_extend; [exact HI|exact Hnone|reflexivity|reflexivity]. }
      destruct HI' as [J1 J2]. split.
      + intros r. rewrite <- J1. rewrite !lookup_set. destruct (key_eqb (D ++ k) (D ++ r)); reflexivity.
      + intros q Hq. rewrite <- (J2 q Hq). rewrite !lookup_set. destruct (key_eqb (D ++ k) q); reflexivity.
    - (* a directory *)
      unfold untar_entry, entry_of. cbn [snd fst e_name e_kind e_perm e_data].
      rewrite (entry_name_dir c dir D Hdir HD) by exact Hg.
      rewrite in_dir_join_good by exact Hg. cbn [negb].
      unfold mkdir_all. rewrite (resolve_entry c dir D HD k Hg).
      assert (HT : D ++ k <> []) by (destruct D; [congruence|discriminate]).
      assert (Hdirs : dirs_along f' [] (removelast (D ++ k)) = true).
      { destruct k as [|x0 k0] eqn:Ek.
        - rewrite app_nil_r. now apply (dirs_to_parent_T f' done).
        - rewrite <- Ek in *. rewrite removelast_app by (rewrite Ek; discriminate).
          apply (dirs_to_T f' done); [exact HI|exact Hc|]. rewrite Ek in Hparent |- *. exact Hparent. }
      rewrite (mkdir_walk_new _ _ _ _ HT Hdirs Hlk).
      eexists. split; [reflexivity|].
      eapply invT_extend; [exact HI|exact Hnone|reflexivity|reflexivity].
  Qed.

  Lemma entries_run_T todo : forall done f',
    ok_seq (done ++ todo) -> InvT f' done ->
    exists f'', untar c f' dir (map entry_of todo) = (XOk, f'') /\ InvT f'' (done ++ todo).
  Proof.
    induction todo as [|e todo IH]; intros done f' Hok HI.
    - exists f'. rewrite app_nil_r. now split.
    - pose proof (ok_seq_closed done (e :: todo) Hok) as Hc.
      pose proof (Hok done e todo eq_refl) as Hstep.
      destruct (entry_step_T f' done e HI Hc Hstep) as (f1 & E1 & HI1).
      cbn [map untar]. rewrite E1.
      assert (Hok' : ok_seq ((done ++ [e]) ++ todo)) by (now rewrite <- app_assoc).
      destruct (IH _ _ Hok' HI1) as (f2 & E2 & HI2).
      exists f2. split; [exact E2|]. now rewrite <- app_assoc in HI2.
  Qed.

  Theorem tar_roundtrip_in_section t :
    wf_tree t = true ->
    exists f',
      untar c f dir (tar_zip [] (zip_dir t)) = (XOk, f') /\
      (forall r, lookup f' (D ++ r) = option_map (tar_node um) (lookup t r)) /\
      (forall k, is_prefix D k = false -> lookup f' k = lookup f k).
  Proof.
    intros Hwf. pose proof (wf_tree_ok_seq t Hwf) as Hok. rewrite tar_zip_nil_zip_dir.
    destruct (entries_run_T (sort_tree t) [] f Hok invT_init) as (f' & E & [I1 I2]).
    exists f'. split; [exact E|]. split; [|exact I2].
    intros r. rewrite I1. cbn [app]. rewrite lookup_sort_tree; [reflexivity|].
    unfold wf_tree in Hwf. apply andb_true_iff in Hwf as [Hwf _]. now apply andb_true_iff in Hwf as [_ Hwf].
  Qed.
End TarRoundTrip.

(** A tree zipped by [ZipDir], turned into a tar stream by [TarZipFile]
    (with no directory prefix) and extracted by [writeTarToDir] into an
    absent destination: the tree arrives — same relative paths and contents;
    modes as [mkdir] and [open] leave them under the umask — and nothing
    else changes. *)
Theorem tar_roundtrip c f dir D t :
  wf_tree t = true ->
  dir <> [] ->
  resolve (cwd c) dir = Some D ->
  dest_ready f D ->
  exists f',
    untar c f dir (tar_zip [] (zip_dir t)) = (XOk, f') /\
    (forall r, lookup f' (D ++ r) = option_map (tar_node (umask c)) (lookup t r)) /\
    (forall k, is_prefix D k = false -> lookup f' k = lookup f k).
Proof. intros Hwf Hd HD Hr. now apply (tar_roundtrip_in_section c f dir D Hd HD Hr). Qed.


(** ** The name that is checked is the name that is written *)

Lemma unzip_entry_is_rw_id c f dir e : unzip_entry c f dir e = unzip_entry_rw (fun n => n) c f dir e.
Proof. unfold unzip_entry, unzip_entry_rw, write_zip_entry. destruct (e_kind e); reflexivity. Qed.

(** A rewriting of the name between test and use is harmless exactly when
    the rewritten name would pass the test as well. *)
Definition rw_safe (dir : str) (rw : str -> str) : Prop :=
  forall n, in_dir dir (filepath_join [dir; n]) = true -> in_dir dir (filepath_join [dir; rw n]) = true.

Definition rename_entry (rw : str -> str) (e : entry) : entry :=
  {| e_name := rw (e_name e); e_kind := e_kind e; e_perm := e_perm e; e_data := e_data e |}.

Lemma unzip_entry_rw_confined rw c f dir e D r f' :
  rw_safe dir rw ->
  resolve (cwd c) (clean dir) = Some D ->
  unzip_entry_rw rw c f dir e = (r, f') -> confined D f f'.
Proof.
  intros Hs HD. unfold unzip_entry_rw.
  destruct (in_dir dir (filepath_join [dir; e_name e])) eqn:Hin; cbn [negb].
  2:{ intros [= _ <-]. apply confined_refl. }
  intros E. apply (unzip_entry_confined c f dir (rename_entry rw e) D r f' HD).
  unfold unzip_entry. cbn [rename_entry e_name e_kind e_perm e_data].
  rewrite (Hs _ Hin). cbn [negb]. rewrite <- E. unfold write_zip_entry.
  destruct (e_kind e); reflexivity.
Qed.

Theorem unzip_entries_rw_confined rw c dir D es :
  rw_safe dir rw ->
  resolve (cwd c) (clean dir) = Some D ->
  forall f, confined D f (snd (unzip_entries_rw rw c f dir es)).
Proof.
  intros Hs HD. induction es as [|e es IH]; intros f; cbn [unzip_entries_rw]; [apply confined_refl|].
  destruct (unzip_entry_rw rw c f dir e) as [[r|] f1] eqn:E.
  - cbn [snd]. eapply unzip_entry_rw_confined; eauto.
  - eapply confined_trans; [eapply unzip_entry_rw_confined; eauto|apply IH].
Qed.

Lemma rw_safe_id dir : rw_safe dir (fun n => n).
Proof. intros n H. exact H. Qed.
