(** Correspondence evaluator for C17: run the extraction model from the
    observed initial file system on the entries Go's archive readers reported
    and compare result and final file system; plus [filepath.Join],
    [filepath.Rel], [filepath.Dir] against Lib/Path.v, and [ZipDir]'s entry
    list against the walk model. *)
From Coq Require Import List NArith Bool.
From Verif Require Import Lib.Path Arch.Extract Arch.ZipRound.
Import ListNotations.
Local Open Scope N_scope.

Definition node_eqb (a b : node) : bool :=
  match a, b with
  | NFile p d, NFile p' d' => (p =? p') && str_eqb d d'
  | NDir p, NDir p' => p =? p'
  | _, _ => false
  end.

Definition fs_equiv (model observed : fs) : bool :=
  Nat.eqb (length model) (length observed) &&
  forallb (fun e => match lookup model (fst e) with
                    | Some n => node_eqb n (snd e)
                    | None => false
                    end) observed.

Definition res_code (r : xres) : N :=
  match r with XOk => 0 | XRefused => 1 | XOsErr => 2 | XUnsupported => 3 end.

Definition ekind_eqb (a b : ekind) : bool :=
  match a, b with KFile, KFile | KDir, KDir | KOther, KOther => true | _, _ => false end.

Definition entry_eqb (a b : entry) : bool :=
  str_eqb (e_name a) (e_name b) && ekind_eqb (e_kind a) (e_kind b) &&
  (e_perm a =? e_perm b) && str_eqb (e_data a) (e_data b).

Fixpoint entries_eqb (a b : list entry) : bool :=
  match a, b with
  | [], [] => true
  | x :: a', y :: b' => entry_eqb x y && entries_eqb a' b'
  | _, _ => false
  end.

Inductive ccase :=
| CFJoin (a b out : str)
| CRel (a b : str) (ok : bool) (out : str)
| CDir (a out : str)
| CUnzip (c : cfg) (dir : str) (clear : bool) (es : list entry) (before : fs) (res : N) (after : fs)
| CUntar (c : cfg) (dir : str) (es : list entry) (before : fs) (res : N) (after : fs)
| CZipDir (t : tree) (seen : list entry)
| CFirstFile (c : cfg) (file : str) (es : list entry) (before : fs) (res : N) (after : fs)
| CTarZip (dir : str) (names_in names_out : list str)
| CTarZipFull (dir : str) (zip_entries tar_entries : list entry).

Definition check_case (c : ccase) : bool :=
  match c with
  | CFJoin a b out => str_eqb (filepath_join [a; b]) out
  | CRel a b ok out =>
      match filepath_rel a b with
      | Some r => ok && str_eqb r out
      | None => negb ok
      end
  | CDir a out => str_eqb (dir_of a) out
  | CUnzip c dir clear es before res after =>
      let '(r, f) := unzip c before dir clear es in
      (res_code r =? res) && fs_equiv f after
  | CUntar c dir es before res after =>
      let '(r, f) := untar c before dir es in
      (res_code r =? res) && fs_equiv f after
  | CZipDir t seen => entries_eqb (zip_dir t) seen
  | CFirstFile c file es before res after =>
      let '(r, f) := first_file_as c before file es in
      ((match r with FOk => 0 | FNotFound => 4 | FOsErr => 2 end) =? res) && fs_equiv f after
  | CTarZip dir names_in names_out =>
      (* tarutil.TarZipFile: [name = path.Join(dir, name)] unless [dir] is empty *)
      (fix eq (a b : list str) : bool :=
         match a, b with
         | [], [] => true
         | x :: a', y :: b' => str_eqb x y && eq a' b'
         | _, _ => false
         end)
        (map (fun n => if is_empty dir then n else path_join [dir; n]) names_in) names_out
  | CTarZipFull dir zes tes => entries_eqb (tar_zip dir zes) tes
  end.

Fixpoint mismatches_from (i : nat) (cs : list ccase) : list nat :=
  match cs with
  | [] => []
  | c :: r => if check_case c then mismatches_from (S i) r
              else i :: mismatches_from (S i) r
  end.

Definition mismatches (cs : list ccase) : list nat := mismatches_from 0 cs.
