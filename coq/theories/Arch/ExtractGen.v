(** Obligations on what the translator regenerated from ziputil and dock
    (Gen/ArchSkeleton.v): both extractors, the containment helper, createFile
    and ZipDir/ZipFile still read as the text the model in Arch/Extract.v and
    Arch/ZipRound.v was written against; the containment test precedes every
    writing call of each extraction loop. *)
From Coq Require Import List String Bool.
From Verif Require Import Gen.ArchSkeleton.
Import ListNotations.
Local Open Scope string_scope.

Definition model_src_unzip : string :=
  "func(dir string, r *zip.Reader, clear bool) error { if clear { err := os.RemoveAll(dir) if err != nil { return err } } for _, f := range r.File { mod := f.Mode() name := filepath.Join(dir, f.Name) if !inDir(dir, name) { return errcode.InvalidArgf( ""zip entry %q is outside of the destination"", f.Name, ) } if mod.IsDir() { if err := os.MkdirAll(name, mod); err != nil { return err } continue } rc, err := f.Open() if err != nil { return err } if err := os.MkdirAll(filepath.Dir(name), 0700); err != nil { return err } fout, err := os.Create(name) if err != nil { return err } defer fout.Close() if err := fout.Chmod(mod); err != nil { return err } if _, err := io.Copy(fout, rc); err != nil { return err } if err := fout.Close(); err != nil { return err } } return nil }".

Lemma arch_src_unzip_unchanged : gen_src_unzip = model_src_unzip.
Proof. reflexivity. Qed.

Definition model_calls_unzip : list string :=
  [ ".Mode";
    "filepath.Join";
    "inDir";
    "errcode.InvalidArgf";
    ".IsDir";
    "os.MkdirAll";
    ".Open";
    "os.MkdirAll";
    "filepath.Dir";
    "#0700";
    "os.Create";
    ".Close";
    ".Chmod";
    "io.Copy";
    ".Close" ].

Lemma arch_calls_unzip_unchanged : gen_calls_unzip = model_calls_unzip.
Proof. reflexivity. Qed.

Definition model_src_untar : string :=
  "func(r io.Reader, destDir string) error { tr := tar.NewReader(r) for { header, err := tr.Next() if err == io.EOF { break } if err != nil { return err } dest := filepath.Join(destDir, filepath.FromSlash(header.Name)) if !inDir(destDir, dest) { return errcode.InvalidArgf( ""tar entry %q is outside of the destination"", header.Name, ) } switch typ := header.Typeflag; typ { case tar.TypeReg: dir := filepath.Dir(dest) if dir != """" && dir != ""."" { if err := os.MkdirAll(dir, 0700); err != nil { return err } } mod := header.FileInfo().Mode() if err := createFile(tr, dest, mod); err != nil { return err } case tar.TypeDir: if err := os.MkdirAll(dest, header.FileInfo().Mode()); err != nil { return err } default: return errcode.Internalf(""type %s not supported"", string(typ)) } } return nil }".

Lemma arch_src_untar_unchanged : gen_src_untar = model_src_untar.
Proof. reflexivity. Qed.

Definition model_calls_untar : list string :=
  [ ".Next";
    "filepath.Join";
    "filepath.FromSlash";
    "inDir";
    "errcode.InvalidArgf";
    "filepath.Dir";
    "os.MkdirAll";
    "#0700";
    ".Mode";
    ".FileInfo";
    "createFile";
    "os.MkdirAll";
    ".Mode";
    ".FileInfo";
    "errcode.Internalf";
    "string" ].

Lemma arch_calls_untar_unchanged : gen_calls_untar = model_calls_untar.
Proof. reflexivity. Qed.

Definition model_src_unzip_inDir : string :=
  "func(dir, p string) bool { rel, err := filepath.Rel(dir, p) if err != nil { return false } const up = "".."" return rel != up && !strings.HasPrefix(rel, up+string(filepath.Separator)) }".

Lemma arch_src_unzip_inDir_unchanged : gen_src_unzip_inDir = model_src_unzip_inDir.
Proof. reflexivity. Qed.

Definition model_src_untar_inDir : string :=
  "func(dir, p string) bool { rel, err := filepath.Rel(dir, p) if err != nil { return false } const up = "".."" return rel != up && !strings.HasPrefix(rel, up+string(filepath.Separator)) }".

Lemma arch_src_untar_inDir_unchanged : gen_src_untar_inDir = model_src_untar_inDir.
Proof. reflexivity. Qed.

Definition model_src_createFile : string :=
  "func(r io.Reader, name string, mod os.FileMode) error { const fileCreateFlag = os.O_RDWR | os.O_CREATE | os.O_TRUNC f, err := os.OpenFile(name, fileCreateFlag, mod) if err != nil { return err } defer f.Close() if _, err := io.Copy(f, r); err != nil { return err } if err := f.Sync(); err != nil { return err } return nil }".

Lemma arch_src_createFile_unchanged : gen_src_createFile = model_src_createFile.
Proof. reflexivity. Qed.

Definition model_src_zipDir : string :=
  "func(dir string, w io.Writer) error { ar := zip.NewWriter(w) walk := func(p string, info os.FileInfo, err error) error { if err != nil { return err } rel, err := filepath.Rel(dir, p) if err != nil { return err } mod := info.Mode() t := info.ModTime() if info.IsDir() { h := &zip.FileHeader{Name: rel + ""/""} h.SetMode(mod) h.SetModTime(t) _, err := ar.CreateHeader(h) return err } fin, err := os.Open(p) if err != nil { return err } defer fin.Close() h := &zip.FileHeader{Name: rel} h.SetMode(mod) h.SetModTime(t) w, err := ar.CreateHeader(h) if err != nil { return err } if _, err = io.Copy(w, fin); err != nil { return err } return fin.Close() } if err := filepath.Walk(dir, walk); err != nil { return err } return ar.Close() }".

Lemma arch_src_zipDir_unchanged : gen_src_zipDir = model_src_zipDir.
Proof. reflexivity. Qed.

Definition model_src_zipFile : string :=
  "func(file string, w io.Writer) error { abs, err := filepath.Abs(file) if err != nil { return err } name := filepath.Base(abs) if name == """" { return fmt.Errorf(""missing name for for the file"") } info, err := os.Stat(file) if err != nil { return err } fin, err := os.Open(file) if err != nil { return err } defer fin.Close() ar := zip.NewWriter(w) h := &zip.FileHeader{Name: name} h.SetMode(info.Mode()) h.SetModTime(info.ModTime()) zipFile, err := ar.CreateHeader(h) if err != nil { return err } if _, err := io.Copy(zipFile, fin); err != nil { return err } if err := fin.Close(); err != nil { return err } return ar.Close() }".

Lemma arch_src_zipFile_unchanged : gen_src_zipFile = model_src_zipFile.
Proof. reflexivity. Qed.

(** ** Round 3: the other entry points *)

Definition model_src_openInTemp : string :=
  "func(r io.Reader, tmp *tempfile.File) (*zip.Reader, error) { n, err := io.Copy(tmp, r) if err != nil { return nil, err } if err := tmp.Reset(); err != nil { return nil, err } return zip.NewReader(tmp, n) }".

Lemma arch_src_openInTemp_unchanged : gen_src_openInTemp = model_src_openInTemp.
Proof. reflexivity. Qed.

Definition model_src_tarZipFile : string :=
  "func(tw *tar.Writer, p string, dir string) error { z, err := zip.OpenReader(p) if err != nil { return errcode.Annotate(err, ""open zip file"") } for _, f := range z.File { stat := f.FileInfo() tarStat, err := tar.FileInfoHeader(stat, """") if err != nil { return errcode.Annotatef(err, ""tar stat for: %q"", f.Name) } name := f.Name if dir != """" { name = path.Join(dir, name) } tarStat.Name = name if err := tw.WriteHeader(tarStat); err != nil { return errcode.Annotatef(err, ""write header: %q"", f.Name) } if err := copyZipFile(tw, f); err != nil { return errcode.Annotatef(err, ""copy zip file: %q"", f.Name) } } return nil }".

Lemma arch_src_tarZipFile_unchanged : gen_src_tarZipFile = model_src_tarZipFile.
Proof. reflexivity. Qed.

Definition model_src_copyZipFile : string :=
  "func(w io.Writer, f *zip.File) error { rc, err := f.Open() if err != nil { return err } if _, err := io.Copy(w, rc); err != nil { rc.Close() return err } return rc.Close() }".

Lemma arch_src_copyZipFile_unchanged : gen_src_copyZipFile = model_src_copyZipFile.
Proof. reflexivity. Qed.

(** The exported callers [Cont.CopyOut] and [Cont.CopyOutFile] and
    [writeFirstFileAs] are not frozen as text.  What the theorems need of
    them is decidable on their call skeleton: the only call that can touch
    the file system is the modelled extractor (resp. [createFile]), it is
    reached, and the destination it is given is the caller's own parameter,
    unchanged; [writeFirstFileAs] never looks at an entry's name. *)
Definition fs_touching : list string :=
  [ "os.MkdirAll"; "os.Mkdir"; "os.Create"; "os.OpenFile"; "os.WriteFile"; "os.Symlink"; "os.Link";
    "os.Rename"; "os.Remove"; "os.RemoveAll"; "os.Chmod"; "os.Chown"; "os.Truncate"; ".Chmod";
    "createFile"; "writeTarToDir"; "writeFirstFileAs"; "untarInto"; "ioutil.WriteFile" ].

Definition only_writer (w : string) (calls : list string) : bool :=
  forallb (fun c => negb (existsb (String.eqb c) fs_touching) || String.eqb c w) calls &&
  existsb (String.eqb w) calls.

Lemma arch_copyout_is_the_modelled_extractor :
  only_writer "writeTarToDir" gen_calls_copyout = true /\ gen_dest_arg_copyout = gen_dest_param_copyout.
Proof. split; reflexivity. Qed.

Lemma arch_copyoutfile_is_the_modelled_extractor :
  only_writer "writeFirstFileAs" gen_calls_copyoutfile = true /\ gen_dest_arg_copyoutfile = gen_dest_param_copyoutfile.
Proof. split; reflexivity. Qed.

Lemma arch_firstfile_ignores_entry_names :
  only_writer "createFile" gen_calls_firstfile = true /\ gen_dest_arg_firstfile = gen_dest_param_firstfile /\
  gen_uses_entry_name_firstfile = false.
Proof. repeat split; reflexivity. Qed.

(** The name that is checked is the name that is written: the containment test
    judges one variable, that variable is assigned exactly once — the join of
    the destination and the entry's raw name — and every path handed to a
    writing call of the loop is that variable or its [filepath.Dir]. *)
Definition all_in (allowed l : list string) : bool :=
  forallb (fun a => existsb (String.eqb a) allowed) l.

Lemma arch_checked_is_used :
  gen_checked_expr_unzip = "name" /\ gen_checked_defs_unzip = ["filepath.Join(dir, f.Name)"] /\
  all_in ["name"; "filepath.Dir(name)"] gen_write_paths_unzip = true /\
  gen_checked_expr_untar = "dest" /\
  gen_checked_defs_untar = ["filepath.Join(destDir, filepath.FromSlash(header.Name))"] /\
  gen_dir_defs_untar = ["filepath.Dir(dest)"] /\
  all_in ["dest"; "dir"] gen_write_paths_untar = true.
Proof. repeat split; reflexivity. Qed.

(** The destination is a path, never a pattern: no glob / match call in
    package ziputil nor in dock's extraction functions. *)
Lemma arch_no_pattern_matching : gen_unzip_glob_calls = [].
Proof. reflexivity. Qed.

(** The containment test comes before anything that writes. *)
Lemma arch_unzip_check_first : gen_check_first_unzip = true.
Proof. reflexivity. Qed.

Lemma arch_untar_check_first : gen_check_first_untar = true.
Proof. reflexivity. Qed.

(** An entry is refused under the containment test ALONE, on the entry's own
    joined name: no memo of earlier entries, no other disjunct or conjunct. *)
Lemma arch_check_unconditional :
  gen_check_cond_unzip = "!inDir(dir, name)" /\ gen_check_cond_untar = "!inDir(destDir, dest)".
Proof. split; reflexivity. Qed.
