(** Candidate inputs for the counterexample search of the archive code
    refinement (Arch/CodeRefine.v).  Requires only the generated file and the
    model. *)
From Coq Require Import List NArith Bool.
From Verif Require Import Lib.Path Lib.GoLib Gen.CodeArch.
Import ListNotations.
Local Open Scope N_scope.

(** Every (destination, target) pair of strings of <= 3 and <= 5 characters
    over {'/', '.', 'a'}: 40 x 364 inputs; plus destinations joined with
    names that climb. *)
Definition cands_inDir : list (str * str) :=
  pairs (strs_upto [47; 46; 97] 3) (strs_upto [47; 46; 97] 5).

Definition cex_ziputil_inDir :=
  cex_search Bool.eqb (fun x => gen_ziputil_inDir (fst x) (snd x)) (fun x => in_dir (fst x) (snd x)) cands_inDir.

Definition cex_dock_inDir :=
  cex_search Bool.eqb (fun x => gen_dock_inDir (fst x) (snd x)) (fun x => in_dir (fst x) (snd x)) cands_inDir.
